"""C13  Iterator pipelines are lazy, ordered and faithful to sequence semantics.

T  theorems in coq/iter/C13Props.v about the impl-shaped model of the adaptor / cursor state machines
R  correspondence: model (vm_compute) vs the real runtime on the same pipelines: result AND the event
   trace (source pulls, callback calls, delivered outputs) compared event by event
D  the property's clauses evaluated directly on the runtime's output: result = the mathematical
   definition (Python itertools, independent of the Coq model); pulls are an in-order, duplicate-free
   prefix of the source; nothing is pulled before the pipeline is consumed
"""
import functools
import itertools
import json
import os

from vlib import common as C

PID = "C13"
UNIT = "iter"

PINNED = ['fuel_monotone', 'denotation_unique', 'list_cursor', 'range_cursor', 'string_cursor', 'generator_source', 'each_refines', 'keep_refines', 'enumerate_refines', 'skip_refines', 'take_refines', 'take_while_refines', 'step_refines', 'chain_refines', 'zip_refines_partial', 'intersperse_refines', 'chunks_refines_partial', 'windows_refines_partial', 'composition', 'composition_with_arguments', 'consumers_are_folds', 'consumer_loop_exact', 'to_list_is_the_sequence', 'find_stops_at_first_hit', 'failing_generator_source', 'consume_propagates_error', 'error_pulled_iff_no_early_exit', 'reversed_list_is_rev', 'reversed_range_is_rev', 'reversed_twice', 'byte_cursor_bidirectional', 'list_cursor_bidirectional', 'reversed_of_bidirectional', 'bidirectional_is_forward', 'reversed_bytes_is_rev', 'pulls_are_a_prefix', 'pulls_prefix_of_source', 'pull_count_bounded', 'one_next_demand', 'pull_count_per_output', 'generator_free_steps_pull_nothing', 'construction_pulls_nothing', 'copy_is_the_state', 'copy_yields_remainder']

# ----------------------------------------------------------------------------------------------
# values: python int / str (one char) / tuple / list / None / bool


def v_canon(v):
    if v is None:
        return "n"
    if v is True:
        return "t"
    if v is False:
        return "f"
    if isinstance(v, int):
        return f"i{v}"
    if isinstance(v, str):
        return 's"' + v + '"'
    if isinstance(v, tuple):
        return "T(" + ",".join(v_canon(x) for x in v) + ")"
    if isinstance(v, list):
        return "L[" + ",".join(v_canon(x) for x in v) + "]"
    raise ValueError(v)


def v_koto(v):
    if v is None:
        return "null"
    if isinstance(v, bool):
        return "true" if v else "false"
    if isinstance(v, int):
        return str(v)
    if isinstance(v, str):
        return "'" + v + "'"
    if isinstance(v, tuple):
        if len(v) == 1:
            return "(" + v_koto(v[0]) + ",)"
        return "(" + ", ".join(v_koto(x) for x in v) + ")"
    if isinstance(v, list):
        return "[" + ", ".join(v_koto(x) for x in v) + "]"
    raise ValueError(v)


def v_coq(v):
    if v is None:
        return "VNull"
    if isinstance(v, bool):
        return "(VBool true)" if v else "(VBool false)"
    if isinstance(v, int):
        return f"(VInt ({v}))" if v < 0 else f"(VInt {v})"
    if isinstance(v, str):
        return "(VStr [" + "; ".join(str(ord(c)) for c in v) + "])"
    if isinstance(v, tuple):
        return "(VTup [" + "; ".join(v_coq(x) for x in v) + "])"
    if isinstance(v, list):
        return "(VList [" + "; ".join(v_coq(x) for x in v) + "])"
    raise ValueError(v)


def dec_value(z, i):
    """decode the model's flat prefix code; returns (python value, next index)"""
    tag = z[i]
    if tag == 0:
        return None, i + 1
    if tag == 1:
        return bool(z[i + 1]), i + 2
    if tag == 2:
        return z[i + 1], i + 2
    if tag == 3:
        n = z[i + 1]
        return "".join(chr(c) for c in z[i + 2:i + 2 + n]), i + 2 + n
    if tag in (4, 5):
        n = z[i + 1]
        i += 2
        out = []
        for _ in range(n):
            v, i = dec_value(z, i)
            out.append(v)
        return (tuple(out) if tag == 4 else out), i
    raise ValueError(f"bad value code {z[i:]}")


def dec_event(z):
    tag = z[0]
    if tag == 10:
        v, _ = dec_value(z, 2)
        return ["pull", v_canon((z[1], v))]
    if tag == 11:
        return ["end", v_canon(z[1])]
    if tag == 12:
        v, _ = dec_value(z, 2)
        return ["cb", v_canon((z[1], v))]
    if tag == 13:
        if z[1] == 0:
            v, _ = dec_value(z, 2)
            return ["out", v_canon(v)]
        return ["out", "E"]
    if tag == 14:
        return ["none", "n"]
    if tag == 15:
        return ["fail", v_canon(z[1])]
    raise ValueError(z)


def dec_cres(z):
    if z[0] == 0:
        v, _ = dec_value(z, 1)
        return v_canon(v)
    return "E"


# ----------------------------------------------------------------------------------------------
# element types tracked by the generator so that callbacks are applied to what they expect
INT, STR, TUP, SEQ, ANY = "int", "str", "tup", "seq", "any"
# TUP: tuple of >= 2 ints; SEQ: tuple of >= 1 ints


class Err(Exception):
    pass


# ---- sources
def src_items(s):
    k = s["k"]
    if k in ("list", "tuple"):
        return list(s["v"])
    if k == "range":
        e = s["e"] + (1 if s["incl"] else 0)
        return list(range(s["s"], e)) if s["s"] < e else []   # descending ranges are empty (docs/core_lib/range.md)
    if k == "str":
        return list(s["v"])
    if k == "map":
        return [tuple(kv) for kv in s["v"]]
    if k in ("gen", "genf"):
        return src_items(s["of"])      # genf: the elements it WOULD yield; it throws on reaching number s["at"]
    raise ValueError(k)


def src_type(s):
    k = s["k"]
    if k in ("list", "tuple", "range"):
        return INT
    if k == "str":
        return STR
    if k == "map":
        return ANY
    return src_type(s["of"])


def src_bidir(s):
    return s["k"] not in ("gen", "genf")


def src_fails(s):
    return s["k"] == "genf" and s["at"] < len(src_items(s))


def src_koto(s):
    k = s["k"]
    if k == "list":
        return v_koto(list(s["v"]))
    if k == "tuple":
        return v_koto(tuple(s["v"]))
    if k == "range":
        return f"({s['s']}..{'=' if s['incl'] else ''}{s['e']})"
    if k == "str":
        return "'" + s["v"] + "'"
    if k == "map":
        if not s["v"]:
            return "{}"
        return "{" + ", ".join(f"{a}: {b}" for a, b in s["v"]) + "}"
    if k == "genf":
        return f"genf({s['id']}, {src_koto(s['of'])}, {s['at']})"
    return f"gen({s['id']}, {src_koto(s['of'])})"


def src_coq(s):
    k = s["k"]
    if k in ("list", "tuple"):
        return "(mk_list [" + "; ".join(v_coq(x) for x in s["v"]) + "])"
    if k == "range":
        return f"(SRange ({s['s']}) ({s['e']}) {'true' if s['incl'] else 'false'})"
    if k == "str":
        return "(SStr [" + "; ".join(str(ord(c)) for c in s["v"]) + "])"
    if k == "map":
        return "(mk_map [" + "; ".join(f"({v_coq(a)}, {v_coq(b)})" for a, b in s["v"]) + "])"
    if k == "genf":
        return f"(SFail {s['id']} [" + "; ".join(v_coq(x) for x in src_items(s)) + f"] {s['at']} false)"
    return f"(mk_gen {s['id']} [" + "; ".join(v_coq(x) for x in src_items(s)) + "])"


# ---- callbacks: id -> (coq name, koto body, python function, argument type, result type)
def _sum2(t):
    return t[0] + t[1]


CALLBACKS = {
    "dbl": (1, "f_dbl", "x * 2", lambda x: x * 2, INT, INT),
    "inc": (2, "f_inc", "x + 1", lambda x: x + 1, INT, INT),
    "dup": (3, "f_dup", "(x, x + 10)", lambda x: (x, x + 10), INT, TUP),
    "sum2": (4, "f_sum2", "x[0] + x[1]", _sum2, TUP, INT),
    "id": (5, "f_id", "x", lambda x: x, None, None),
    "even": (6, "p_even", "x % 2 == 0", lambda x: x % 2 == 0, INT, bool),
    "lt3": (7, "p_lt3", "x < 3", lambda x: x < 3, INT, bool),
    "tru": (8, "p_true", "true", lambda x: True, None, bool),
    "fls": (9, "p_false", "false", lambda x: False, None, bool),
    "bad": (10, "p_bad", "x", None, None, bool),
    "gt1": (14, "p_gt1", "x > 1", lambda x: x > 1, INT, bool),
    # callbacks that throw on one particular element (python function None: no mathematical definition)
    "thr": (15, "f_thr", "if x == 4\n    throw 'boom'\n  x", None, INT, INT),
    "thrp": (16, "p_thr", "if x == 1\n    throw 'boom'\n  true", None, INT, bool),
}
FOLDS = {
    "add": (11, "g_add", "a + b", lambda a, b: a + b),
    "mix": (12, "g_mix", "a * 2 + b", lambda a, b: a * 2 + b),
}
MAPPERS = ["dbl", "inc", "dup", "sum2", "id", "thr"]
PREDS = ["even", "lt3", "gt1", "tru", "fls", "bad", "thrp"]
PARAMS = [0, 1, 2, 3, 5]


def prelude():
    lines = ["gen = |id, xs|", "  for x in xs", "    emit 'pull', (id, x)", "    yield x", "  emit 'end', id"]
    # a generator whose body throws on reaching its element number k
    lines += ["genf = |id, xs, k|", "  i = 0", "  for x in xs", "    if i == k", "      emit 'fail', id", "      throw 'boom'",
              "    emit 'pull', (id, x)", "    yield x", "    i += 1", "  emit 'end', id"]
    for name, (cid, _, body, *_r) in CALLBACKS.items():
        lines += [f"{name} = |x|", f"  emit 'cb', ({cid}, x)", f"  {body}"]
    for name, (cid, _, body, _f) in FOLDS.items():
        lines += [f"{name} = |a, b|", f"  emit 'cb', ({cid}, (a, b))", f"  {body}"]
    lines += ["sepf = ||", "  emit 'cb', (13, null)", "  99"]
    # one next() on iterator variable number s, reported as (s, value) or (s,) for None
    lines += ["nx = |s, i|", "  r = i.next()", "  emit 'out', if r == null then (s,) else (s, r.get())"]
    return "\n".join(lines) + "\n"


PRELUDE = prelude()


# ---- stages: [name, arg]
def stage_type(st, t):
    """element type after the stage, or None when the stage must not be used on type t"""
    name, arg = st
    if name in ("each", "keep", "take_while"):
        cb = CALLBACKS[arg]
        if cb[4] is not None and cb[4] != t and not (cb[4] == TUP and t == TUP):
            return None
        if name == "each":
            return t if cb[5] is None else cb[5]
        return t
    if name == "enumerate":
        return TUP if t == INT else ANY
    if name in ("skip", "take", "step", "cycle", "reversed", "peekable"):
        return t
    if name in ("chainR", "chainL"):
        return t if src_type(arg) == t else ANY
    if name in ("zipR", "zipL"):
        return TUP if (t == INT and src_type(arg) == INT) else ANY
    if name == "chunks":
        return SEQ if t == INT else ANY
    if name == "windows":
        if t == INT:
            return TUP if arg >= 2 else SEQ
        return ANY
    if name == "flatten":
        if t in (TUP, SEQ, INT):
            return INT
        if t == STR:
            return STR
        return ANY
    if name in ("intersperse", "intersperse_with"):
        return t if t == INT else ANY
    raise ValueError(name)


def stage_koto(st):
    name, arg = st
    if name in ("each", "keep"):
        return f".{name}({arg})"
    if name == "take_while":
        return f".take({arg})"
    if name in ("enumerate", "flatten", "cycle", "reversed", "peekable"):
        return f".{name}()"
    if name in ("skip", "take", "step", "chunks", "windows"):
        return f".{name}({arg})"
    if name == "chainR":
        return f".chain({src_koto(arg)})"
    if name == "zipR":
        return f".zip({src_koto(arg)})"
    if name == "intersperse":
        return f".intersperse({v_koto(arg)})"
    if name == "intersperse_with":
        return ".intersperse(sepf)"
    raise ValueError(name)


def pipeline_koto(src, stages):
    s = src_koto(src)
    for st in stages:
        if st[0] == "chainL":
            s = f"{src_koto(st[1])}.chain({s})"
        elif st[0] == "zipL":
            s = f"{src_koto(st[1])}.zip({s})"
        else:
            s = s + stage_koto(st)
    return s


def stage_coq(st):
    name, arg = st
    if name == "each":
        return f"AEach {CALLBACKS[arg][1]}"
    if name == "keep":
        return f"AKeep {CALLBACKS[arg][1]}"
    if name == "take_while":
        return f"ATakeWhile {CALLBACKS[arg][1]}"
    simple = {"enumerate": "AEnumerate", "flatten": "AFlatten", "cycle": "ACycle", "reversed": "AReversed",
              "peekable": "APeekable", "intersperse_with": "AIntersperseWith f_sep"}
    if name in simple:
        return simple[name]
    num = {"skip": "ASkip", "take": "ATake", "step": "AStep", "chunks": "AChunks", "windows": "AWindows"}
    if name in num:
        return f"{num[name]} {arg}"
    two = {"chainR": "AChainR", "chainL": "AChainL", "zipR": "AZipR", "zipL": "AZipL"}
    if name in two:
        return f"{two[name]} {src_coq(arg)}"
    if name == "intersperse":
        return f"AIntersperse {v_coq(arg)}"
    raise ValueError(name)


# ---- the mathematical definition, on python iterators (independent of the Coq model)
def _chunks(it, n):
    it = iter(it)
    while True:
        c = tuple(itertools.islice(it, n))
        if not c:
            return
        yield c


def _windows(it, n):
    w = []
    for x in it:
        w.append(x)
        if len(w) == n:
            yield tuple(w)
            w = w[1:]


def _flatten(it):
    for x in it:
        if isinstance(x, (tuple, list)):
            yield from x
        else:
            yield x          # strings here are single characters: their own only element


def _intersperse(it, sep):
    first = True
    for x in it:
        if not first:
            yield sep
        first = False
        yield x


def spec_stage(st, it):
    name, arg = st
    if name == "each":
        return map(CALLBACKS[arg][3], it)
    if name == "keep":
        return filter(CALLBACKS[arg][3], it)
    if name == "take_while":
        return itertools.takewhile(CALLBACKS[arg][3], it)
    if name == "enumerate":
        return enumerate(it)
    if name == "skip":
        return itertools.islice(it, arg, None)
    if name == "take":
        return itertools.islice(it, arg)
    if name == "step":
        return itertools.islice(it, 0, None, arg)
    if name == "chainR":
        return itertools.chain(it, src_items(arg))
    if name == "chainL":
        return itertools.chain(src_items(arg), it)
    if name == "zipR":
        return zip(it, src_items(arg))
    if name == "zipL":
        return zip(src_items(arg), it)
    if name == "chunks":
        return _chunks(it, arg)
    if name == "windows":
        return _windows(it, arg)
    if name == "flatten":
        return _flatten(it)
    if name == "intersperse":
        return _intersperse(it, arg)
    if name == "intersperse_with":
        return _intersperse(it, 99)
    if name == "cycle":
        return itertools.cycle(it)
    if name == "reversed":
        return reversed(list(it))
    if name == "peekable":
        return it
    raise ValueError(name)


def has_error_potential(case):
    """pipelines on which the plain mathematical definition does not say what happens
    (runtime errors by design): compared with the model only"""
    if src_fails(case["src"]):
        return True
    for st in case["stages"]:
        if st[0] in ("each", "keep", "take_while") and CALLBACKS[st[1]][3] is None:
            return True
        if st[0] in ("step", "chunks", "windows") and st[1] == 0:
            return True
        if st[0] in ("chainR", "chainL", "zipR", "zipL") and src_fails(st[1]):
            return True
    c = case["consumer"]
    if c[0] in ("any", "all", "find", "position") and CALLBACKS[c[1]][3] is None:
        return True
    return False


def reversible(src, stages):
    """is_bidirectional of the pipeline, from the documented behaviour: sources except generators;
    each / skip / reversed / peekable preserve it, anything else loses it"""
    b = src_bidir(src)
    for st in stages:
        if st[0] == "reversed":
            if not b:
                return None       # constructor error
            b = True
        elif st[0] in ("each", "skip", "peekable"):
            pass
        else:
            b = False
    return b


def spec_result(case):
    """canonical result by the mathematical definition, or None when not defined by it"""
    if has_error_potential(case):
        return None
    src, stages, (cname, carg) = case["src"], case["stages"], case["consumer"]
    it = iter(src_items(src))
    b = src_bidir(src)
    for st in stages:
        if st[0] == "reversed" and not b:
            return "E"
        if st[0] not in ("each", "skip", "peekable", "reversed"):
            b = False
        it = spec_stage(st, it)
    if cname == "to_list":
        return v_canon(list(it))
    if cname == "to_tuple":
        return v_canon(tuple(it))
    if cname == "count":
        return v_canon(sum(1 for _ in it))
    if cname == "sum":
        return v_canon(sum(it))
    if cname == "product":
        return v_canon(functools.reduce(lambda a, b: a * b, it, 1))
    if cname in ("min", "max", "min_max"):
        l = list(it)
        if not l:
            return "n"
        return v_canon({"min": min(l), "max": max(l), "min_max": (min(l), max(l))}[cname])
    if cname == "last":
        l = list(it)
        return v_canon(l[-1] if l else None)
    if cname == "consume":
        for _ in it:
            pass
        return "n"
    if cname == "any":
        return v_canon(any(CALLBACKS[carg][3](x) for x in it))
    if cname == "all":
        return v_canon(all(CALLBACKS[carg][3](x) for x in it))
    if cname == "find":
        return v_canon(next((x for x in it if CALLBACKS[carg][3](x)), None))
    if cname == "position":
        return v_canon(next((i for i, x in enumerate(it) if CALLBACKS[carg][3](x)), None))
    if cname == "fold":
        return v_canon(functools.reduce(FOLDS[carg[1]][3], it, carg[0]))
    if cname == "for":
        return v_canon(sum(1 for _ in it))
    if cname == "unpack":
        return "n"
    if cname == "script":
        return "n"
    if cname == "nexts":
        return None     # the outputs are events; checked by spec_nexts
    raise ValueError(cname)


def spec_nexts(case):
    """expected 'out'/'none' events of a nexts consumer by the mathematical definition: forward pulls take
    from the front, backward pulls from the back of what is left (only for pipelines that are
    bidirectional or when all pulls are forward); None when not defined"""
    if has_error_potential(case):
        return None
    src, stages, (cname, dirs) = case["src"], case["stages"], case["consumer"]
    rv = reversible(src, stages)
    if rv is None:
        return None
    if any(st[0] == "peekable" for st in stages) and "b" in dirs:
        return None
    it = iter(src_items(src))
    for st in stages:
        it = spec_stage(st, it)
    if "b" in dirs:
        if not rv:
            return None
        l = list(it)
        out = []
        for d in dirs:
            if not l:
                out.append(["none", "n"])
            elif d == "f":
                out.append(["out", v_canon(l.pop(0))])
            else:
                out.append(["out", v_canon(l.pop())])
        return out
    out = []
    done = False
    for d in dirs:
        x = None if done else next(it, StopIteration)
        if x is StopIteration or done:
            done = True
            out.append(["none", "n"])
        else:
            out.append(["out", v_canon(x)])
    return out


# ---- consumers
def consumer_koto(c):
    name, arg = c
    if name in ("to_list", "to_tuple", "count", "sum", "product", "min", "max", "min_max", "last", "consume"):
        return f"it.{name}()"
    if name in ("any", "all", "find", "position"):
        return f"it.{name}({arg})"
    if name == "fold":
        return f"it.fold({arg[0]}, {arg[1]})"
    if name == "for":
        if arg == "named":
            return "n = 0\nfor x in it\n  emit 'out', x\n  n += 1\nn"
        return "n = 0\nfor _ in it\n  emit 'none'\n  n += 1\nn"
    if name == "unpack":
        targets = ", ".join(f"v{i}" if m == "n" else "_" for i, m in enumerate(arg))
        outs = "".join(f"emit 'out', v{i}\n" for i, m in enumerate(arg) if m == "n")
        return f"it = it.iter()\n{targets} = it\n{outs}null"
    if name == "script":
        lines = ["it0 = it.iter()"]
        for op in arg:
            if op[0] == "n":
                lines.append(f"nx {op[1]}, it{op[1]}")
            else:
                lines.append(f"it{op[2]} = copy it{op[1]}")
        lines.append("null")
        return "\n".join(lines)
    if name == "nexts":
        ds = ", ".join("0" if d == "f" else "1" for d in arg)
        if len(arg) == 1:
            ds += ","
        return ("it = it.iter()\n"
                f"for d in ({ds})\n"
                "  r = if d == 0 then it.next() else it.next_back()\n"
                "  if r == null\n"
                "    emit 'none'\n"
                "  else\n"
                "    emit 'out', r.get()\n"
                "null")
    raise ValueError(name)


def consumer_coq(c):
    name, arg = c
    simple = {"to_list": "CToList", "to_tuple": "CToTuple", "count": "CCount", "sum": "CSum", "product": "CProduct",
              "min": "CMin", "max": "CMax", "min_max": "CMinMax", "last": "CLast", "consume": "CConsume"}
    if name in simple:
        return simple[name]
    if name in ("any", "all", "find", "position"):
        return f"(C{name.capitalize()} {CALLBACKS[arg][1]})"
    if name == "fold":
        return f"(CFold {v_coq(arg[0])} {FOLDS[arg[1]][1]})"
    if name == "for":
        return "(CFor false)" if arg == "named" else "(CFor true)"
    if name == "unpack":
        return "(CUnpack [" + "; ".join("true" if m == "n" else "false" for m in arg) + "])"
    if name == "script":
        return "(CScript [" + "; ".join(f"OpNext {op[1]}" if op[0] == "n" else f"OpCopy {op[1]} {op[2]}" for op in arg) + "])"
    if name == "nexts":
        return "(CNexts [" + "; ".join("Fwd" if d == "f" else "Bwd" for d in arg) + "])"
    raise ValueError(name)


def consumer_ok(c, t):
    name, arg = c
    if name in ("sum", "product", "min", "max", "min_max", "fold"):
        return t == INT
    if name in ("any", "all", "find", "position"):
        need = CALLBACKS[arg][4]
        return need is None or need == t
    return True


def case_koto(case):
    pipe = pipeline_koto(case["src"], case["stages"])
    if case.get("wrap"):
        # the pipeline lives in a register of a generator's frame; copying the generator copies it
        head = "wrapg = ||\n  for v in " + pipe + "\n    yield v\nit = wrapg()"
    else:
        head = "it = " + pipe
    return PRELUDE + head + "\nemit 'built'\n" + consumer_koto(case["consumer"]) + "\n"


def case_coq(case):
    return (f"run_case {src_coq(case['src'])} [" + "; ".join(stage_coq(s) for s in case["stages"]) + "] "
            + consumer_coq(case["consumer"]))


# ----------------------------------------------------------------------------------------------
# case generation
VALS = [3, 1, 4, 2, 6]


def base_sources():
    out = []
    for n in range(0, 5):
        out.append({"k": "list", "v": VALS[:n]})
        out.append({"k": "tuple", "v": VALS[:n]})
        out.append({"k": "str", "v": "abcd"[:n]})
        out.append({"k": "map", "v": [[k, i + 1] for i, k in enumerate("wxyz"[:n])]})
        out.append({"k": "gen", "id": 1, "of": {"k": "tuple", "v": VALS[:n]}})
    out += [{"k": "range", "s": 0, "e": 4, "incl": False}, {"k": "range", "s": 1, "e": 3, "incl": True},
            {"k": "range", "s": 2, "e": 2, "incl": False}, {"k": "range", "s": 2, "e": 2, "incl": True},
            {"k": "range", "s": 3, "e": 0, "incl": False}, {"k": "range", "s": 3, "e": 0, "incl": True},
            {"k": "range", "s": -2, "e": 1, "incl": False},
            {"k": "gen", "id": 1, "of": {"k": "range", "s": 0, "e": 3, "incl": True}},
            {"k": "gen", "id": 1, "of": {"k": "list", "v": [2, 2, 1]}},
            {"k": "gen", "id": 1, "of": {"k": "str", "v": "ab"}},
            {"k": "gen", "id": 1, "of": {"k": "map", "v": [["w", 1], ["x", 2]]}}]
    return out


OTHERS = [{"k": "tuple", "v": [7, 8]}, {"k": "gen", "id": 2, "of": {"k": "tuple", "v": [7, 8, 9]}},
          {"k": "list", "v": []}, {"k": "range", "s": 10, "e": 14, "incl": False}]


def all_stages():
    st = []
    st += [["each", f] for f in MAPPERS]
    st += [["keep", p] for p in PREDS]
    st += [["take_while", p] for p in PREDS]
    st += [["enumerate", None], ["flatten", None], ["reversed", None], ["peekable", None],
           ["intersperse", 0], ["intersperse_with", None]]
    for n in PARAMS:
        st += [["skip", n], ["take", n], ["step", n], ["chunks", n], ["windows", n]]
    for o in OTHERS:
        st += [["chainR", o], ["chainL", o], ["zipR", o], ["zipL", o]]
    return st


# consumers executed by the VM's own iteration instructions (IterNext / IterNextQuiet / IterUnpack)
SCRIPT_CONSUMERS = [["for", "named"], ["for", "quiet"], ["unpack", "n_"], ["unpack", "_n"], ["unpack", "n_n"], ["unpack", "__n"]]


def all_consumers():
    cs = [[n, None] for n in ("to_list", "to_tuple", "count", "sum", "product", "min", "max", "min_max", "last", "consume")]
    for n in ("any", "all", "find", "position"):
        cs += [[n, p] for p in PREDS]
    cs += [["fold", [0, "add"]], ["fold", [1, "mix"]]]
    cs += [["nexts", "ffffff"], ["nexts", "fbfbfb"], ["nexts", "bbfbbf"]]
    cs += SCRIPT_CONSUMERS
    return cs


def typed(src, stages):
    t = src_type(src)
    for s in stages:
        t = stage_type(s, t)
        if t is None:
            return None
    return t


def finite(stages):
    """a cycle must be cut by a later take n"""
    open_cycle = False
    for s in stages:
        if s[0] == "cycle":
            open_cycle = True
        elif s[0] == "take" and open_cycle:
            open_cycle = False
        elif open_cycle and s[0] in ("reversed", "chunks", "windows", "keep", "take_while", "chainR", "zipL", "zipR", "flatten",
                                     "skip", "step"):
            # either endless by themselves (keep false) or they pull an unbounded amount: keep it simple
            if s[0] in ("zipR",):
                open_cycle = False
            else:
                return False
    return not open_cycle


def script_finite(stages):
    """a bounded number of next() calls on an endless cycle is fine unless one next() never returns:
    keep with a predicate that may reject every element of the cycle"""
    open_cycle = False
    for st in stages:
        if st[0] == "cycle":
            open_cycle = True
        elif open_cycle and st[0] == "keep" and st[1] not in ("tru", "bad"):
            return False
    return True


def mk(origin, src, stages, consumer, wrap=False):
    # every tracing generator of a case gets its own id
    sts = []
    for i, st in enumerate(stages):
        if st[0] in ("chainR", "chainL", "zipR", "zipL") and st[1]["k"] in ("gen", "genf"):
            o = dict(st[1])
            o["id"] = 2 + i
            st = [st[0], o]
        sts.append(st)
    c = {"origin": origin, "src": src, "stages": sts, "consumer": consumer}
    traced_any = src["k"] in ("gen", "genf") or any(st[0] in ("chainR", "chainL", "zipR", "zipL") and st[1]["k"] in ("gen", "genf")
                                                    for st in sts)
    if wrap and not has_error_potential(c) and not traced_any:
        # (a finished generator never resumes its pipeline again, while bare adaptors re-pull exhausted inputs)
        # (a generator is finished after an error, and builds its pipeline at its first resume: only error-free
        # pipelines are transparent through the wrapping generator)
        c["wrap"] = True
    return c


def valid(src, stages, consumer):
    t = typed(src, stages)
    if t is None or not (finite(stages) or (consumer[0] == "script" and script_finite(stages))) or not consumer_ok(consumer, t):
        return False
    # the generator ids of `other` sources must not collide with the main source's
    return True


def gen_cases(tier, seed):
    cases = []
    cdir = os.path.join(C.VERIF, "corpus", PID)
    if os.path.isdir(cdir):
        for f in sorted(os.listdir(cdir)):
            for line in open(os.path.join(cdir, f), encoding="utf-8"):
                line = line.strip()
                if line and not line.startswith("#"):
                    c = json.loads(line)
                    if "bytes" in c:
                        continue          # see bytes_cases()
                    c["origin"] = "corpus"
                    cases.append(c)
    srcs = base_sources()
    stages = all_stages() + [["cycle+take", n] for n in PARAMS]
    consumers = all_consumers()

    def expand(sts):
        out = []
        for s in sts:
            if s[0] == "cycle+take":
                out += [["cycle", None], ["take", s[1]]]
            else:
                out.append(s)
        return out

    # depth 0: every source x every consumer
    for s in srcs:
        for c in consumers:
            if tier == "quick" and c[0] in ("any", "all", "find", "position") and c[1] in ("lt3", "tru", "fls"):
                continue
            if valid(s, [], c):
                cases.append(mk("exh-d0", s, [], c))
    rng1 = C.Rng(seed * 104729 + 7)
    # depth 1: every stage x every source x {to_list, nexts}; every stage x every consumer x 3 sources
    few = [srcs[19], srcs[15], {"k": "range", "s": 0, "e": 4, "incl": False}]   # gen len 3, list len 3, range
    for st in stages:
        e = expand([st])
        for si, s in enumerate(srcs):
            for c in ((["to_list", None], ["nexts", "ffbfbf"], ["nexts", "bbf"]) if tier == "quick" else
                      (["to_list", None], ["nexts", "ffffff"], ["nexts", "fbbfbf"], ["nexts", "bbf"])):
                if tier == "quick" and c[0] == "nexts" and si % 4 != (1 if c[1] == "ffbfbf" else 0):
                    continue
                if tier == "quick" and not rng1.chance(3, 5):
                    continue
                if valid(s, e, c):
                    cases.append(mk("exh-d1", s, e, c))
        for s in (few[:1] if tier == "quick" else few):
            for c in consumers:
                if tier == "quick" and c[0] in ("any", "all", "find", "position") and c[1] in ("lt3", "tru", "fls"):
                    continue
                if tier == "quick" and c[0] == "unpack" and c[1] in ("n_", "n_n"):
                    continue
                if tier == "quick" and not rng1.chance(3, 4):
                    continue
                if c[0] not in ("to_list",) and valid(s, e, c):
                    cases.append(mk("exh-d1-consumers", s, e, c))
    # error-position axis: the source throws on reaching element k; every consumer must raise iff it pulls that far
    base_f = {"k": "tuple", "v": VALS[:4]}
    ats = (0, 2) if tier == "quick" else (0, 1, 2, 3, 4)
    fsrcs = [{"k": "genf", "id": 1, "of": base_f, "at": k} for k in range(0, 5)]
    fsrcs += [{"k": "genf", "id": 1, "of": {"k": "str", "v": "abc"}, "at": 1},
              {"k": "genf", "id": 1, "of": {"k": "map", "v": [["w", 1], ["x", 2]]}, "at": 1}]
    err_consumers = [["to_list", None], ["count", None], ["consume", None], ["last", None], ["sum", None], ["max", None],
                     ["find", "gt1"], ["any", "even"], ["position", "tru"], ["fold", [0, "add"]], ["nexts", "fff"]] + SCRIPT_CONSUMERS
    for s in fsrcs:
        for c in consumers:
            if valid(s, [], c):
                cases.append(mk("err-d0", s, [], c))
    for st in stages:
        e = expand([st])
        for k in ats:
            s = fsrcs[k]
            for c in ([x for x in err_consumers if x[0] not in ("max", "position", "fold", "last", "sum") and x[1] != "n_n"]
                      if tier == "quick" else consumers):
                if valid(s, e, c):
                    cases.append(mk("err-d1", s, e, c))
        # the failing generator as the second argument of chain / zip
    for k in ats:
        o = {"k": "genf", "id": 2, "of": {"k": "tuple", "v": [7, 8, 9]}, "at": min(k, 2)}
        for nm in ("chainR", "chainL", "zipR", "zipL"):
            for c in err_consumers:
                if valid(srcs[19], [[nm, o]], c):
                    cases.append(mk("err-d1", srcs[19], [[nm, o]], c))
    # copies: advance k pulls (past exhaustion / wrap-around), copy, copy the copy, consume all three interleaved
    def copy_ops(k):
        ops = [["n", 0]] * k + [["c", 0, 1], ["n", 0], ["n", 1], ["n", 1], ["n", 0], ["c", 1, 2], ["n", 2], ["n", 1], ["n", 0],
                                ["n", 2], ["n", 0], ["n", 0], ["n", 1], ["n", 1], ["n", 2]]
        return ["script", ops]
    csrc = {"k": "tuple", "v": VALS[:3]}
    gsrc = {"k": "gen", "id": 1, "of": {"k": "tuple", "v": VALS[:3]}}
    cstages = stages + [["cycle", None]]
    kmax = 2 * 3 + 3
    rng3 = C.Rng(seed * 31337 + 5)
    for st in cstages:
        e = expand([st])
        stateful = st[0] in ("cycle", "cycle+take", "chunks", "windows", "chainR", "chainL", "zipR", "zipL", "intersperse",
                             "intersperse_with", "peekable", "flatten", "skip", "step")
        for k in (range(0, kmax + 1) if (stateful or tier != "quick") else (0, 2, 4, 7)):
            if valid(csrc, e, copy_ops(k)) and reversible(csrc, e) is not None:
                cases.append(mk("copy-d1", csrc, e, copy_ops(k)))
        for k in ((1, 4, 7) if tier == "quick" else range(0, kmax + 1)):
            if valid(csrc, e, copy_ops(k)) and reversible(csrc, e) is not None:
                cases.append(mk("copy-d1-in-generator", csrc, e, copy_ops(k), wrap=True))
            if valid(gsrc, e, copy_ops(k)) and reversible(gsrc, e) is not None:
                cases.append(mk("copy-d1-generator-source", gsrc, e, copy_ops(k)))
    for a in cstages:
        for b in cstages:
            if tier == "quick" and not rng3.chance(1, 12):
                continue
            e = expand([a, b])
            if reversible(csrc, e) is None:
                continue
            for k in ((rng3.below(kmax + 1), rng3.below(kmax + 1)) if tier == "quick" else range(0, kmax + 1)):
                if valid(csrc, e, copy_ops(k)):
                    cases.append(mk("copy-d2", csrc, e, copy_ops(k), wrap=rng3.chance(1, 4)))
    # depth 2: every pair of stages x 2 sources x {to_list, nexts}
    two = [srcs[24]] if tier == "quick" else [srcs[24], srcs[16], srcs[19], srcs[10], srcs[17], srcs[18]]
    rng2 = C.Rng(seed * 7919 + 13)
    for a in stages:
        for b in stages:
            if tier == "quick" and not rng2.chance(3, 10):
                continue      # quick: a seeded 40% sample of the ordered pairs; thorough: all of them
            e = expand([a, b])
            for s in two:
                for c in ((["to_list", None],) if tier == "quick" else (["to_list", None], ["nexts", "fffff"])):
                    if s["k"] != "gen" and c[0] == "nexts":
                        c = ["nexts", "fbfbf"]
                    if valid(s, e, c):
                        cases.append(mk("exh-d2", s, e, c))
    # depth 2 again over a bidirectional source, for the pairs that can keep the pipeline reversible
    keepers = [st for st in stages if st[0] in ("each", "skip", "reversed", "peekable")]
    bsrc = srcs[21]    # tuple, 4 elements
    for a in stages:
        for b in keepers:
            for (x, y) in ((a, b), (b, a)):
                if tier == "quick" and not rng2.chance(2, 5):
                    continue
                e = expand([x, y])
                if reversible(bsrc, e) is None:
                    continue
                for c in (["to_list", None], ["nexts", "bfbbf"]):
                    if valid(bsrc, e, c):
                        cases.append(mk("exh-d2-bidir", bsrc, e, c))
    # random deeper pipelines
    rng = C.Rng(seed)
    n_rand = 500 if tier == "quick" else 120000
    tries = 0
    made = 0
    while made < n_rand and tries < n_rand * 30:
        tries += 1
        s = rng.choice(srcs)
        depth = 3 + rng.below(4)
        sts = expand([rng.choice(stages) for _ in range(depth)])
        if rng.chance(1, 3):
            c = ["nexts", "".join(rng.choice("ffb") for _ in range(1 + rng.below(7)))]
        else:
            c = rng.choice(consumers)
        if valid(s, sts, c):
            cases.append(mk("random", s, sts, c))
            made += 1
    return cases


# ----------------------------------------------------------------------------------------------
# D: the clauses on the runtime's own output
def d_predicates(case, r):
    """returns (failures, notes)"""
    fails = []
    ev = r["events"]
    # gather sources traced by a generator
    traced = {}

    def walk_src(s):
        if s["k"] in ("gen", "genf"):
            traced[s["id"]] = src_items(s)

    walk_src(case["src"])
    for st in case["stages"]:
        if st[0] in ("chainR", "chainL", "zipR", "zipL"):
            walk_src(st[1])
    built = None
    for i, e in enumerate(ev):
        if e[0] == "built":
            built = i
            break
    pulls = {}
    for i, e in enumerate(ev):
        if e[0] in ("pull", "end", "cb") and (built is None or i < built):
            fails.append(f"L1 event {e} happened while the pipeline was being constructed (before it was consumed)")
        if e[0] == "pull":
            # T(i<id>,<v>)
            inner = e[1][2:-1]
            gid, v = inner.split(",", 1)
            pulls.setdefault(int(gid[1:]), []).append(v)
    has_copy = case["consumer"][0] == "script" and any(op[0] == "c" for op in case["consumer"][1])
    for gid, got in ([] if has_copy else pulls.items()):
        want = [v_canon(x) for x in traced.get(gid, [])]
        if got != want[:len(got)]:
            fails.append(f"L2 pulls of source {gid} are {got}: not an in-order duplicate-free prefix of its elements {want}")
    # sequence semantics
    if built is not None or r["result"].startswith("E"):
        want = spec_result(case)
        if want is not None:
            got = r["result"]
            if want == "E":
                if not got.startswith("E"):
                    fails.append(f"S1 result {got}, expected a runtime error (reversing a non-bidirectional iterator)")
            elif got != want:
                fails.append(f"S1 result {got} differs from the mathematical definition {want}")
        if case["consumer"][0] in ("for", "unpack") and not has_error_potential(case) and reversible(case["src"], case["stages"]) is not None:
            seq = iter(src_items(case["src"]))
            for st in case["stages"]:
                seq = spec_stage(st, seq)
            cn, ca = case["consumer"]
            if cn == "for":
                wantn = [["out", v_canon(x)] if ca == "named" else ["none", "n"] for x in seq]
            else:
                got_items = list(itertools.islice(seq, len(ca)))
                got_items += [None] * (len(ca) - len(got_items))
                wantn = [["out", v_canon(x)] for x, m in zip(got_items, ca) if m == "n"]
            gotn = [e for e in ev if e[0] in ("out", "none")]
            if gotn != wantn:
                fails.append(f"S2 the values seen by `{cn} {ca}` {gotn} differ from the mathematical definition {wantn}")
        if case["consumer"][0] == "script" and not has_error_potential(case) and reversible(case["src"], case["stages"]) is not None:
            ops = case["consumer"][1]
            seq = iter(src_items(case["src"]))
            for st in case["stages"]:
                seq = spec_stage(st, seq)
            seq = list(itertools.islice(seq, sum(1 for op in ops if op[0] == "n") + 1))
            pos = {0: 0}
            wantn = []
            for op in ops:
                if op[0] == "n":
                    p_ = pos[op[1]]
                    if p_ < len(seq):
                        wantn.append(["out", v_canon((op[1], seq[p_]))])
                        pos[op[1]] = p_ + 1
                    else:
                        wantn.append(["out", v_canon((op[1],))])
                else:
                    pos[op[2]] = pos[op[1]]        # a copy continues from where its original is, independently
            gotn = [e for e in ev if e[0] == "out"]
            if gotn != wantn:
                fails.append(f"C1 original / copies {gotn} differ from the mathematical definition (every copy yields the "
                             f"remainder from the point of the copy, independently) {wantn}")
        if case["consumer"][0] == "nexts":
            wantn = spec_nexts(case)
            if wantn is not None:
                gotn = [e for e in ev if e[0] in ("out", "none")]
                if gotn != wantn:
                    fails.append(f"S2 next/next_back outputs {gotn} differ from the mathematical definition {wantn}")
    # E: an error raised inside the iterator (generator body / callback threw) must surface in the consumer, and a
    # thrown 'boom' must have such an origin (skip / step included: they return an Error found among the outputs they
    # discard).  intersperse looks one element ahead, so a consumer may stop before the error is delivered: left to
    # the model comparison.
    threw = any(e[0] == "fail" or (e[0] == "cb" and e[1] in ("T(i15,i4)", "T(i16,i1)")) for e in ev)
    lookahead = any(st[0] in ("intersperse", "intersperse_with") for st in case["stages"])
    if threw and not lookahead and not r["result"].startswith("E"):
        fails.append(f"E1 an error was thrown inside the iterator while `{case['consumer'][0]} {case['consumer'][1]}` was "
                     f"pulling it, but the consumer finished normally with {r['result']} (error dropped)")
    if r["result"].startswith("EThrown") and not threw:
        fails.append(f"E2 result {r['result']} but nothing threw")
    return fails


def in_c13c(case):
    """copying a peekable (peekable.rs derives KotoCopy from Clone: the KIterator handle is cloned, not make_copy'd)"""
    return (case["consumer"][0] == "script" and any(op[0] == "c" for op in case["consumer"][1])
            and any(st[0] == "peekable" for st in case["stages"]))


def nontrivial(case, r):
    return len(case["stages"]) >= 1 and len(r.get("events", [])) >= 2


def run_impl(binp, cases, tag):
    os.makedirs(os.path.join(C.BUILD, "cases"), exist_ok=True)
    cf = os.path.join(C.BUILD, "cases", f"c13-{tag}-{os.getpid()}.jsonl")
    with open(cf, "w") as f:
        for c in cases:
            if "bytes" in c:
                f.write(json.dumps({"bytes": c["bytes"], "ops": c["ops"]}) + "\n")
            else:
                f.write(json.dumps({"src": case_koto(c), "limit_ms": 3000}) + "\n")
    rc, out = C.sh([binp, cf], timeout=3600)
    os.remove(cf)
    lines = [json.loads(l) for l in out.splitlines() if l.startswith("{")]
    return rc, lines, out


def run_impl_parallel(binp, cases):
    import concurrent.futures
    n = max(1, min(C.NPROC, len(cases) // 200 + 1))
    size = (len(cases) + n - 1) // n
    parts = [cases[i * size:(i + 1) * size] for i in range(n)]
    res = []
    with concurrent.futures.ThreadPoolExecutor(max_workers=n) as ex:
        futs = [ex.submit(run_impl, binp, p, str(i)) for i, p in enumerate(parts) if p]
        for f, p in zip(futs, [p for p in parts if p]):
            rc, lines, out = f.result()
            if rc != 0 or len(lines) != len(p):
                return None, out
            res += lines
    return res, ""


HEADER = ("From Coq Require Import List ZArith NArith.\nFrom KV.iter Require Import IterModel IterRun.\n"
          "Import ListNotations.\nOpen Scope N_scope.\n")


def _eval_shard(args):
    idx, terms, workdir = args
    path = os.path.join(workdir, f"cases_{idx}.v")
    with open(path, "w") as f:
        f.write(HEADER + "Set Printing Width 2000000.\nSet Printing Depth 10000000.\n")
        for t in terms:
            # `lazy` is ~10x cheaper than vm_compute on these small terms (no byte-code compilation per term)
            f.write(f"Eval lazy in {t}.\n")
    rc, out = C.sh(["coqc", "-noglob"] + C.unit_q_flags(UNIT) + ["-Q", workdir, f"KVc13s{idx}", path], cwd=workdir, timeout=3000)
    if rc != 0:
        return None, out
    import re
    vals = [C.parse_coq_value(" ".join(m.group(1).split())) for m in re.finditer(r"^\s*= (.*?)\n\s*: ", out, re.S | re.M)]
    if len(vals) != len(terms):
        return None, f"expected {len(terms)} values, parsed {len(vals)}\n" + out[:2000]
    return vals, out


def model_eval(terms):
    """same contract as vlib.common.coq_eval, evaluating with `lazy`"""
    import concurrent.futures
    import shutil
    if not terms:
        return []
    workdir = os.path.join(C.BUILD, "cases", f"c13-eval-{os.getpid()}")
    shutil.rmtree(workdir, ignore_errors=True)
    os.makedirs(workdir)
    n = max(1, min(C.NPROC * 2, len(terms) // 150 + 1))
    size = (len(terms) + n - 1) // n
    shards = [(i, terms[i * size:(i + 1) * size], workdir) for i in range(n)]
    out_vals = []
    with concurrent.futures.ThreadPoolExecutor(max_workers=C.NPROC) as ex:
        for vals, out in ex.map(_eval_shard, [s for s in shards if s[1]]):
            if vals is None:
                raise RuntimeError("coq evaluation failed:\n" + out[-4000:])
            out_vals += vals
    shutil.rmtree(workdir, ignore_errors=True)
    return out_vals


def model_view(v):
    """model output -> (status, events, result)"""
    status, evs, res = v

    def flat(z):   # Coq prints negative numbers as (-3): parse_coq_value turns that into [-3]
        return [x[0] if isinstance(x, list) else x for x in z]
    evs = [flat(e) for e in evs]
    res = flat(res)
    if status != 0:
        return status, [], None
    return 0, [dec_event(e) for e in evs], dec_cres(res)


def impl_view(r):
    """runtime output -> (status, events after 'built', result) with errors as 'E'"""
    ev = r["events"]
    bi = next((i for i, e in enumerate(ev) if e[0] == "built"), None)
    if bi is None:
        return 1, [], None
    res = r["result"]
    if res.startswith("E"):
        res = "E"
    return 0, [list(e) for e in ev[bi + 1:]], res


def bytes_cases():
    """byte-cursor cases: committed corpus (incl. the witness of the former finding C13a) + all op strings up to length 4
    over a 3-byte buffer"""
    out = []
    cdir = os.path.join(C.VERIF, "corpus", PID)
    if os.path.isdir(cdir):
        for f in sorted(os.listdir(cdir)):
            for line in open(os.path.join(cdir, f), encoding="utf-8"):
                line = line.strip()
                if line and not line.startswith("#"):
                    c = json.loads(line)
                    if "bytes" in c:
                        out.append(c)
    for n in range(1, 5):
        for ops in itertools.product("fb", repeat=n):
            out.append({"bytes": [4, 5, 6], "ops": "".join(ops)})
    return out


def bytes_coq(c):
    return ("run_case (mk_bytes [" + "; ".join(str(b) for b in c["bytes"]) + "]) [] (CNexts ["
            + "; ".join("Fwd" if d == "f" else "Bwd" for d in c["ops"]) + "])")


def bytes_spec(c):
    l = list(c["bytes"])
    out = []
    for d in c["ops"]:
        if not l:
            out.append(None)
        elif d == "f":
            out.append(f"i{l.pop(0)}")
        else:
            out.append(f"i{l.pop()}")
    return out


def run(tier, seed):
    chk = C.Check(PID, tier, seed, "proof")
    # ---- T
    ok, log = C.coq_build(UNIT)
    model_ok = ok
    if not ok:
        chk.log("coq/iter does not build:\n" + log[-2500:])
    axioms = []
    if PINNED:
        pr = C.check_props_file(UNIT, "C13Props", PINNED)
        hits = C.forbidden_scan(UNIT)
        if not pr["ok"]:
            chk.log("C13Props does not check:\n" + pr["log"][-2500:])
        for name in PINNED:
            good = pr["ok"] and name not in pr["missing"] and ("Print Assumptions " + name) not in pr["missing"] \
                and not pr["bad_axioms"] and not hits
            chk.oblige("thm:" + name, good)
        if hits:
            chk.log("forbidden constructs: " + "; ".join(hits))
        if pr["bad_axioms"]:
            chk.log("axioms outside the allowlist: " + ", ".join(pr["bad_axioms"]))
        axioms = pr["axioms"]
        chk.assumptions = ["callbacks are total functions value -> result (no side effects other than their trace event)",
                           "one iterator handle per pipeline (no aliasing of a KIterator between two pipelines)",
                           "trace-level laziness theorems: pipelines of each/keep/enumerate/skip/take/take-while/step/chain/zip "
                           "over plain cursors and at most one tracing generator"]

    # ---- R + D
    binp, blog = C.build_harness("kh_iter")
    if not binp:
        chk.log("harness build failed:\n" + blog[-3000:])
        chk.violation("build", {"kind": "obligation", "correspondence": "kh_iter does not build against the koto checkout",
                                "log": blog[-3000:]}, no_input=True)
        return chk.finish("n/a")
    cases = gen_cases(tier, seed)
    import time
    t_impl = time.time()
    impl, out = run_impl_parallel(binp, cases)
    chk.log(f"{len(cases)} pipelines through the runtime in {time.time() - t_impl:.1f}s")
    if impl is None:
        chk.log("harness run failed: " + out[-1500:])
        chk.violation("harness", {"kind": "obligation", "correspondence": "kh_iter crashed", "log": out[-2000:]}, no_input=True)
        return chk.finish("n/a")

    c13c_seen = []
    dist = {}
    stage_hist = {}
    d_fail = []
    panics = []
    todo = []
    for i, (c, r) in enumerate(zip(cases, impl)):
        dist[c["origin"]] = dist.get(c["origin"], 0) + 1
        for st in c["stages"]:
            stage_hist[st[0]] = stage_hist.get(st[0], 0) + 1
        if "panic" in r:
            panics.append((i, r))
            continue
        if r["result"] == "ETimeout":
            d_fail.append((i, ["S0 the pipeline did not finish within 3 s (every generated pipeline is finite)"]))
            continue
        fails = d_predicates(c, r)
        if in_c13c(c):
            # finding C13c: the copy of a peekable shares the inner iterator with the original; the owned-tree model
            # cannot express that, so these cases are neither compared with the model nor allowed to alarm on C1
            if any(f.startswith("C1") for f in fails):
                c13c_seen.append(i)
            fails = [f for f in fails if not f.startswith("C1")]
            if fails:
                d_fail.append((i, fails))
            chk.count_case(json.dumps([c["src"], c["stages"], c["consumer"]]), nontrivial(c, r))
            continue
        if fails:
            d_fail.append((i, fails))
        chk.count_case(json.dumps([c["src"], c["stages"], c["consumer"]]), nontrivial(c, r))
        todo.append(i)
    if c13c_seen:
        i0 = min(c13c_seen, key=lambda i: len(str(cases[i])))
        chk.known("C13c the copy of a peekable iterator is not independent of the original (Peekable derives KotoCopy from "
                  "Clone, which shares the inner KIterator): e.g. `p = (1,2,3,4).peekable(); q = copy p; p.next(); p.next(); "
                  f"q.next()` gives 3; {len(c13c_seen)} generated cases, smallest "
                  f"{pipeline_koto(cases[i0]['src'], cases[i0]['stages'])}")
    for i, r in panics:
        d_fail.append((i, [f"P0 the runtime panicked: {r['panic']} at {r.get('at')}"]))

    # ByteIterator: driven through the Rust API
    BYTES_CASES = bytes_cases()
    rcb, blines, bout = run_impl(binp, BYTES_CASES, "bytes")
    bytes_model_in = []
    bytes_fail = []
    if rcb == 0 and len(blines) == len(BYTES_CASES):
        for c, r in zip(BYTES_CASES, blines):
            chk.count_case(json.dumps(c), len(c["ops"]) >= 2)
            if "panic" in r:
                bytes_fail.append((c, r, [f"P0 ByteIterator panicked: {r['panic']}"]))
                continue
            if r["outs"] != bytes_spec(c):
                bytes_fail.append((c, r, [f"S3 byte cursor outputs {r['outs']} for ops {c['ops']} differ from taking from the "
                                          f"front / back of {c['bytes']}: {bytes_spec(c)}"]))
            bytes_model_in.append((c, r))
    else:
        chk.oblige("corr:byte-cursor cases ran", False, bout[-500:])
    dist["bytes"] = len(BYTES_CASES)

    disagreements = []
    if model_ok:
        terms = [case_coq(cases[i]) for i in todo] + [bytes_coq(c) for c, _ in bytes_model_in]
        try:
            t_m = time.time()
            vals = model_eval(terms)
            chk.log(f"{len(terms)} model evaluations in {time.time() - t_m:.1f}s")
        except RuntimeError as e:
            chk.log(str(e)[-3000:])
            vals = None
        if vals is None:
            chk.oblige("corr:model-evaluates", False)
        else:
            for i, v in zip(todo, vals[:len(todo)]):
                m = model_view(v)
                im = impl_view(impl[i])
                if cases[i].get("wrap"):
                    # the wrapping generator is finished at the pipeline's first None and never resumes it, while the
                    # bare pipeline would be pulled again: compare the delivered values only
                    m = (m[0], [e for e in m[1] if e[0] == "out"], m[2])
                    im = (im[0], [e for e in im[1] if e[0] == "out"], im[2])
                if m[0] == 2:
                    disagreements.append((i, "model ran out of fuel", m, im))
                elif m != im:
                    disagreements.append((i, "differ", m, im))
            for (c, r), v in zip(bytes_model_in, vals[len(todo):]):
                m = model_view(v)
                got = [["none", "n"] if o is None else ["out", o] for o in r["outs"]]
                if m[1] != got:
                    disagreements.append((-1, f"bytes {c}", m, got))
            chk.oblige("corr:model-vs-runtime results and event traces (pulls, callback calls, outputs) identical",
                       not disagreements, f"{len(disagreements)} disagreements")
    else:
        chk.oblige("corr:model-vs-runtime results and event traces (pulls, callback calls, outputs) identical", False,
                   "model unavailable")

    # ---- a failing / disagreeing case must reproduce: re-run those cases alone (the first pass runs 16 harness
    #      processes next to 16 coqc on a possibly overloaded machine; a result that does not reproduce is recorded
    #      as a note, not as a verdict about koto)
    suspects = sorted({i for i, _ in d_fail if i >= 0} | {d[0] for d in disagreements if d[0] >= 0})
    unstable = 0
    if suspects and len(suspects) <= 4000:
        rc2, again, _o = run_impl(binp, [cases[i] for i in suspects], "recheck")
        if rc2 == 0 and len(again) == len(suspects):
            second = dict(zip(suspects, again))
            keep_d = []
            for i, fails in d_fail:
                if i < 0 or "panic" in second[i]:
                    keep_d.append((i, fails))
                    continue
                f2 = d_predicates(cases[i], second[i]) if second[i].get("result") != "ETimeout" else fails
                if in_c13c(cases[i]):
                    f2 = [f for f in f2 if not f.startswith("C1")]
                if f2:
                    keep_d.append((i, f2))
                else:
                    unstable += 1
            d_fail = keep_d
            keep_r = []
            for (i, why, m, im) in disagreements:
                if i < 0 or "panic" in second[i]:
                    keep_r.append((i, why, m, im))
                    continue
                im2 = impl_view(second[i])
                if cases[i].get("wrap"):
                    im2 = (im2[0], [e for e in im2[1] if e[0] == "out"], im2[2])
                if m == im2:
                    unstable += 1
                else:
                    keep_r.append((i, why, m, im2))
            if len(keep_r) != len(disagreements):
                disagreements = keep_r
                chk.obligations = [o for o in chk.obligations if not o[0].startswith("corr:model-vs-runtime")]
                chk.oblige("corr:model-vs-runtime results and event traces (pulls, callback calls, outputs) identical",
                           not disagreements, f"{len(disagreements)} disagreements")
            if unstable:
                chk.notes.append(f"{unstable} first-pass failures did not reproduce when the case was re-run alone (machine load)")
                chk.log(f"{unstable} first-pass failures did not reproduce on re-run; ignored")

    # ---- verdict
    def size_of(i):
        if i < 0:
            return 0
        c = cases[i]
        return len(c["stages"]) * 100 + len(src_items(c["src"])) * 10 + len(str(c["consumer"]))

    if bytes_fail:
        c, r, fails = bytes_fail[0]
        chk.violation("input", {"kind": "input", "case": c, "impl_says": r, "predicate_failed": fails,
                                "others": len(bytes_fail) - 1 + len(d_fail), "how_to_rerun": "./check C13 --replay <this file>"})
        chk.log(f"{len(bytes_fail)} byte-cursor cases violate C13 on the runtime; first: {c}: {fails[0]}")
    elif d_fail:
        d_fail.sort(key=lambda x: size_of(x[0]))
        i, fails = d_fail[0]
        c = cases[i] if i >= 0 else {}
        chk.violation("input", {
            "kind": "input", "case": {k: c.get(k) for k in ("src", "stages", "consumer", "wrap")},
            "script": case_koto(c) if c else "", "impl_says": impl[i] if i >= 0 else None, "predicate_failed": fails,
            "others": len(d_fail) - 1, "how_to_rerun": "./check C13 --replay <this file>"})
        chk.log(f"{len(d_fail)} pipelines violate C13 on the runtime; smallest: "
                f"{pipeline_koto(c['src'], c['stages']) if c else '(bytes)'} / {c.get('consumer')}: {fails[:2]}")
    broken = [o for o in chk.obligations if not o[1]]
    if broken and not d_fail and not bytes_fail:
        payload = {"kind": "obligation", "broken": [o[0] + (": " + o[2] if o[2] else "") for o in broken]}
        if disagreements:
            disagreements.sort(key=lambda x: size_of(x[0]))
            i, why, m, im = disagreements[0]
            c = cases[i] if i >= 0 else {}
            payload.update({"smallest_disagreement": {"case": {k: c.get(k) for k in ("src", "stages", "consumer", "wrap")},
                                                      "script": case_koto(c) if c else why,
                                                      "coq_term": case_coq(c) if c else why,
                                                      "model_says": m, "impl_says": im, "why": why},
                            "note": "the runtime's own output satisfies every clause of C13 that the mathematical "
                                    "definition decides on every explored pipeline, but it no longer matches the model "
                                    "the theorems are about"})
            import collections
            hist = collections.Counter()
            for j, w, mm, ii in disagreements:
                if j >= 0:
                    hist[",".join(st[0] for st in cases[j]["stages"]) + "/" + cases[j]["consumer"][0]] += 1
            chk.log("disagreements by shape: " + str(hist.most_common(25)))
            chk.log(f"{len(disagreements)} model/runtime disagreements; smallest: "
                    f"{pipeline_koto(c['src'], c['stages']) if c else why} / {c.get('consumer')}\n  model {m}\n  impl  {im}")
        chk.violation("obligation", payload, no_input=True)

    tb = ["Coq 8.16.1 kernel (coqc); vm_compute for evaluating the model",
          "axioms reported by Print Assumptions: " + (", ".join(axioms) if axioms else "none (closed under the global context)"),
          "the model (coq/iter/IterModel.v) is a hand transcription of adaptors.rs / iterator.rs / peekable.rs / "
          "generators.rs / the consumer closures of core_lib/iterator.rs; tied to the code by the event-level correspondence",
          "kh_iter (Rust harness; native `emit` records events) and checks/c13.py (generators, decoding, D-predicates, "
          "Python itertools as the mathematical definition)"]
    return chk.finish(
        rule="pipelines = source x stages x consumer: committed corpus + exhaustive depth 0/1 over all source kinds "
             "(list, tuple, string, map, ranges asc/desc/inclusive/empty, tracing generator over each) x lengths 0-4 x all "
             "adaptors x params {0,1,2,3,5} x all consumers + all ordered pairs of adaptors (depth 2) + seeded random depth "
             "3-6; non-trivial = at least one stage and >= 2 observed events; distinct by (source, stages, consumer)",
        explanation="theorems over the model for all sources / parameters / callbacks; model-vs-runtime equality of result "
                    "and full event trace; C13's clauses (sequence semantics, in-order duplicate-free pulls, nothing pulled "
                    "at construction) evaluated on the runtime's own output against Python itertools",
        trusted_base=tb,
        extra={"distribution": dist, "stage_histogram": stage_hist, "exhaustive": False,
               "model_runtime_disagreements": len(disagreements), "runtime_panics": len(panics)})


def replay(path, args):
    data = json.load(open(path))
    c = data.get("case") or data.get("smallest_disagreement", {}).get("case")
    if c and "bytes" in c:
        binp, blog = C.build_harness("kh_iter")
        rc, lines, out = run_impl(binp, [c], "replay")
        print(json.dumps(lines[0]), "expected", bytes_spec(c))
        if "panic" in lines[0] or lines[0]["outs"] != bytes_spec(c):
            print(f"VIOLATION property={PID} replay={path}")
            return 1
        print("no clause of C13 fails on this input")
        return 0
    if not c or not c.get("src"):
        print("replay file names an obligation, not an input:", json.dumps(data.get("broken")))
        return run("quick", data.get("seed", 1))
    binp, blog = C.build_harness("kh_iter")
    c["origin"] = "replay"
    rc, lines, out = run_impl(binp, [c], "replay")
    r = lines[0]
    print(case_koto(c))
    print(json.dumps(r))
    if "panic" in r:
        print(f"VIOLATION property={PID} replay={path}")
        return 1
    fails = d_predicates(c, r)
    for f in fails:
        print("  " + f)
    if fails:
        print(f"VIOLATION property={PID} replay={path}")
        return 1
    print("no clause of C13 fails on this input")
    if data.get("kind") == "obligation":
        try:
            v = model_eval([case_coq(c)])[0]
            print("model:", model_view(v))
            print("impl: ", impl_view(r))
        except RuntimeError as e:
            print(str(e)[-1000:])
    return 0
