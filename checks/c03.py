"""C03  Pattern matching and unpacking select and bind exactly as documented."""
from checks import corecheck as K, coregen as G

PID = "C03"
PINNED = ["wildcard_always_matches", "typed_wildcard_matches_iff_hint", "id_always_matches_and_binds", "typed_id_matches_iff_hint",
          "literal_matches_by_equality", "tuple_pattern_needs_equal_size", "rest_pattern_needs_enough",
          "unsized_subject_never_matches_sequence_pattern", "map_pattern_on_non_map_is_no_match",
          "match_without_arms_is_null", "unpack_missing_is_null", "unpack_extras_ignored"]


def has_map_pattern(e):
    if isinstance(e, tuple):
        return (bool(e) and e[0] == "pmap") or any(has_map_pattern(c) for c in e)
    if isinstance(e, list):
        return any(has_map_pattern(c) for c in e)
    return False


def known(r):
    im = r["impl"]
    if im.get("result") == "EType" and "supports '.' access" in im.get("msg", "") and has_map_pattern(r["ast"]):
        return ("C03c a map pattern against a subject without '.' access raises an error instead of falling "
                "through to the next arm (`match true` with arm `{k0}`)")
    return None


def run(tier, seed):
    return K.run_profile(PID, "C03Props", PINNED, G.MatchGen, "match", known,
                         "seeded generator: match expressions (literal / id / typed id / wildcard / nested tuple / "
                         "ellipsis with and without capture / map patterns, alternatives, guards, else) against subjects "
                         "of every modelled kind and size 0-4, plus flat unpacking assignments from every iterable kind; "
                         "non-trivial = >= 4 lines with a verdict", 500, 8000, tier, seed, size=(1, 4))


def replay(path, args):
    r = K.replay_program(PID, path)
    return run("quick", 1) if r is None else r
