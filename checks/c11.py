"""C11  The formatter preserves meaning, keeps comments, is idempotent and total.

T  theorems in coq/syn/C11Props.v about the two layers of the formatter that can be stated without its
   1 900-line renderer: render_format_options as the inverse of StringFormatOptions::parse
   (format_spec_roundtrip: holds at full strength for every option string since koto 06483c8 -- it was
   refuted before, the representation was dropped) and FormatContext::source_slice composed with lexer spans (slice_is_token_text under "every
   character before the token on its line is one column per byte"; refuted beyond, with a panic witness).
   format_node / GroupBuilder / render are NOT modelled: meaning preservation and idempotence are
   SEARCHED, not proved.
R  tables regenerated from string_format_options.rs / format.rs (+ fingerprints); the format-option model
   vs the real parser + formatter on exhaustive short / random option strings; the slice model vs the
   real lexer spans and formatter output.
D  search on the real crates: every parseable program (repository .koto files, fenced examples of the
   docs, generated programs in random layouts, still-parsing mutants) x formatter options:
   format never fails or panics; parse(format s) = parse s modulo positions and cosmetic choices;
   comments kept in order; format(format s) = format s; run result equal where runnable.
"""
import json
import os
import re

from vlib import common as C
from tools import k2v, k2v_syn
from checks import c10 as G

PID = "C11"
UNIT = "syn"

PINNED = [
    "format_spec_roundtrip", "render_writes_representation",
    "slice_is_token_text", "line_offsets_spec", "slice_refuted", "slice_panics",
    "gen_skip_test_spec", "skip_keeps_outside",
]

# FIXED in /repo (a fixed entry suppresses nothing; the witnesses stay in corpus/C11 and a recurrence is a VIOLATION):
#   C11a e32ec60 wildcard import lost its `*`;  C11b 06483c8 format-spec representation dropped;
#   C11f (threshold-0 half) 0f09f59 chain_break_threshold = 0 broke every chain.

KNOWN = {
    "blank_after_header": "C11e a blank line directly after a block header (`if c` / blank / indented body) makes the "
                          "formatter emit the body without indentation: the output does not parse; a blank line directly "
                          "before `else` / `catch` / `finally` is moved behind that header (and then hits the same defect)",
    "forced_chain_break": "C11f a chain that chain_break_threshold (> 0) forces onto several lines is broken even where the "
                          "grammar does not allow it (inside an `if` condition, an inline if, brackets): the output does not "
                          "parse",
    "comment_mid_expression": "C11g a comment or blank line in the middle of an expression (inside brackets / parentheses, or after `=`, an "
                              "operator or a comma at a line end) is moved in front of what follows (`] # note[0]` swallows "
                              "`[0]`) or the rest is re-indented differently on every pass",
    "multi_line_chain_root": "C11h a bracketed literal that spans several lines and is continued by `.method()` is printed "
                             "with the `.method()` at column 0: the output does not parse",
    "leading_blank_lines": "C11i a source that starts with two or more line breaks keeps one leading blank line, which the next "
                           "pass removes (not idempotent)",
    "comma_before_operator": "C11j a comma that is directly followed by a binary operator or `=` (`f 1, / 2`: an elided "
                             "argument in a parenthesis-free call) is dropped: the output parses to a different tree or not at "
                             "all",
    "comment_before_else_with_comment": "C11k a comment line directly before an `else` that has a trailing comment: both comments "
                                        "are attached to `else` (`else # note` / `  # eol`) and the else body is indented one "
                                        "level too deep; the next pass re-indents it (not idempotent)",
    "minus_after_block_expression": "C11l a binary operator whose left operand is a multi-line block expression (reachable only "
                                    "through parser defect C10b: `x = if c` / body / `else` / body / `-5`) is printed with the "
                                    "operator line inside the last block: the output does not parse",
    "export_value_on_next_line": "C11m `export` with its value on the following indented line, the value being a "
                                 "parenthesis-free call whose argument is a map block (`export` / `  g foo: 1` / `  bar: 2`): "
                                 "printed as `export g` / `  foo: 1`, which does not parse",
    "wrap_forced": "C11d when a line has to be wrapped (it is longer than line_length) the formatter can emit text that does "
                   "not parse or parses differently (`then` of a match arm on its own line, arguments of a parenthesis-free "
                   "call moved to continuation lines, ...) and is not idempotent",
    "sliced_after_non_ascii": "C11c source text re-read by span (number literals, comments, #[fmt:skip] regions) is cut at "
                              "the wrong bytes when a non-ASCII character precedes it on the line (`é = 99` -> `é =  9`; "
                              "`# é` panics at format.rs source_slice; comments lose characters on every pass)",
}

GRID = [{"line_length": ll, "indent_width": iw, "chain_break_threshold": cb, "always_indent_arms": ai}
        for ll in (20, 40, 100) for iw in (2, 4) for cb in (0, 2, 4) for ai in (False, True)]
DEFAULT_OPTS = {"line_length": 100, "indent_width": 2, "chain_break_threshold": 4, "always_indent_arms": False}


# ---------------------------------------------------------------------------------------------
# inputs


def repo_programs():
    """(origin, text) for every .koto file and every fenced koto example of the checkout"""
    out = []
    files = []
    for root, dirs, fs in os.walk(C.REPO):
        dirs[:] = sorted(d for d in dirs if d not in ("target", ".git"))
        for f in sorted(fs):
            if f.endswith(".koto") or f.endswith(".md"):
                files.append(os.path.join(root, f))
    for p in files:
        try:
            text = open(p, encoding="utf-8").read()
        except Exception:
            continue
        rel = os.path.relpath(p, C.REPO)
        if p.endswith(".koto"):
            out.append(("file:" + rel, text))
            continue
        for i, m in enumerate(re.finditer(r"```koto[^\n]*\n(.*?)```", text, re.S)):
            lines = []
            for line in m.group(1).split("\n"):
                if line.startswith("print! "):
                    lines.append(line.replace("print! ", "print ", 1))
                elif line.startswith("check!"):
                    continue
                else:
                    lines.append(line)
            out.append((f"doc:{rel}#{i}", "\n".join(lines)))
    return out


OPS = ["+", "-", "*", "/", "%", "==", "!=", "<", ">", "and", "or"]


def mutants(rng, text, n):
    """token-neighbourhood mutants (most do not parse; the harness keeps those that do)"""
    out = []
    lines = text.split("\n")
    for _ in range(n):
        k = rng.below(7)
        ls = list(lines)
        if not ls:
            break
        i = rng.below(len(ls))
        toks = ls[i].split(" ")
        if k == 0 and len(ls) > 1:
            del ls[i]
        elif k == 1:
            ls.insert(i, ls[i])
        elif k == 2 and len(toks) > 1:
            j = rng.below(len(toks) - 1)
            toks[j], toks[j + 1] = toks[j + 1], toks[j]
            ls[i] = " ".join(toks)
        elif k == 3:
            js = [j for j, t in enumerate(toks) if t in OPS]
            if js:
                toks[rng.choice(js)] = rng.choice(OPS)
                ls[i] = " ".join(toks)
        elif k == 4 and len(toks) > 1:
            j = rng.below(len(toks))
            if toks[j] and toks[j][0].isalnum():
                toks[j] = "(" + toks[j] + ")"
                ls[i] = " ".join(toks)
        elif k == 5:
            ls[i] = ls[i] + rng.choice(["  # m", " #- m -#", "   "])
        else:
            j = rng.below(len(toks))
            toks[j] = rng.choice(["x", "1", "'s'", "null", "true", "[1, 2]", "(1, 2)", "|a| a", "é", "0x1f", "1.5e3"])
            ls[i] = " ".join(toks)
        m = "\n".join(ls)
        if m != text:
            out.append(m)
    return out


def line_variants(text, rng):
    """the same program in other line-ending / end-of-file / comment-white-space conventions.  The clauses of
    C11 apply unchanged to every one of them."""
    out = []
    if "\r" in text:
        return out
    out.append(("crlf", text.replace("\n", "\r\n")))
    out.append(("mixed", "".join(ch if ch != "\n" else rng.choice(["\n", "\r\n"]) for ch in text)))
    out.append(("nofinal", text.rstrip("\n")))
    out.append(("trailing", text + rng.choice(["\n\n\n", "\n  \n", "\r\n\r\n"])))
    out.append(("leading", rng.choice(["\n", "\r\n", "\n\n"]) + text))
    if text.isascii() and "#" in text:
        t2 = re.sub(r"#[^\n]*", lambda m: m.group(0).replace(" ", "\t"), text)
        if t2 != text:
            out.append(("tabs", t2))
    return [(k, v) for k, v in out if v != text]


GLUE_BEFORE = ["", " ", "   ", "\t"]


def glue_variants(text, rng, n):
    """comment glue: the white space between a token and a following comment (0 / 1 / 3 spaces / a tab before the
    `#`) and after an inline comment (0 / 1 space).  Leading indentation is never touched."""
    if "#" not in text:
        return []
    out = []
    for _ in range(n):
        parts = re.split(r"(#-.*?-#)", text)          # inline comments (single-line ones) as units
        res = []
        for k, seg in enumerate(parts):
            if k % 2 == 1:
                res.append(seg)
                continue
            # white space after the inline comment that precedes this segment
            if k > 0:
                seg = re.sub(r"^[ \t]+(?=\S)", lambda m: rng.choice(["", " "]), seg)
            # an end-of-line comment in this segment: `<token><white space># ...`
            seg = re.sub(r"(?<=\S)[ \t]+#(?![\[-])", lambda m: rng.choice(GLUE_BEFORE) + "#", seg)
            # white space before the inline comment that follows this segment (not the line's indentation)
            if k + 1 < len(parts):
                seg = re.sub(r"(?<=\S)[ \t]+$", lambda m: rng.choice(GLUE_BEFORE), seg)
            res.append(seg)
        t = "".join(res)
        if t != text and t not in out:
            out.append(t)
    return out


SKIP_NODES = [
    # name, lines before, the node under #[fmt:skip] (last line gets the adjacent comment), lines after, indent of the node
    ("statement", [], ["x  =  [1,2]"], ["print x"], ""),
    ("map-entry", ["m ="], ["  b:       123"], ["  c:   7", "print m.b + m.c"], "  "),
    ("map-entry-first", ["m ="], ["  a:   [1,  2]"], ["  c: 7", "print m.c"], "  "),
    ("list-element", ["l = ["], ["  2  +  3,"], ["  4", "]", "print l"], "  "),
    ("braced-map-entry", ["m = {"], ["  b:   2,"], ["  c: 3", "}", "print m.c"], "  "),
    ("call-argument", ["f = |a, b| a + b", "r = f("], ["  1  +  1,"], ["  2", ")", "print r"], "  "),
    ("nested-block-statement", ["if true"], ["  y  =  1"], ["  print y"], "  "),
    ("nested-block-last", ["if true", "  print 0"], ["  y  =  [1,2]"], ["print 1"], "  "),
    ("function-body", ["f = |a|"], ["  a  +  1"], ["print f 1"], "  "),
    ("function", [], ["f = |a|   a+1"], ["print f 1"], ""),
    ("function-block", [], ["f = |a|", "  b  =  a", "  b+1"], ["print f 1"], ""),
    ("chain", ["d = [3, 1, 2]"], ["r = d.iter( ).count( )"], ["print r"], ""),
    ("match-arm", ["x = match 1"], ["  1   then  'a'"], ["  else 'b'", "print x"], "  "),
    ("switch-arm", ["x = switch"], ["  1 == 1   then  'a'"], ["  else 'b'", "print x"], "  "),
    ("for-loop", [], ["for i in 0..2", "  print  i"], ["print 9"], ""),
    ("string", [], ["s  =  'a {1+1} b'"], ["print s"], ""),
    ("number", [], ["n  =  0x1f"], ["print n"], ""),
    ("nested-skip", ["f = ||", "  #[fmt:skip]", "  a  =  1"], ["  b  =  a"], ["  b", "print f()"], "  "),
]
SKIP_COMMENTS = ["# note", "#- why -#", "#-- n --#" if False else "# a # b"]


def skip_family(quick, rng):
    """`#[fmt:skip]` on every node kind x a comment inside / glued directly after / after white space / on the next line"""
    out = []
    for name, pre, node, post, ind in SKIP_NODES:
        base = pre + [ind + "#[fmt:skip]"] + node + post
        out.append((f"skip:{name}/plain", "\n".join(base) + "\n"))
        for cm in SKIP_COMMENTS:
            for glue in GLUE_BEFORE:
                n2 = node[:-1] + [node[-1] + glue + cm]
                out.append((f"skip:{name}/after{len(glue)}{'t' if glue == chr(9) else ''}", "\n".join(pre + [ind + "#[fmt:skip]"] + n2 + post) + "\n"))
            # on the following line, and before the directive
            out.append((f"skip:{name}/nextline", "\n".join(pre + [ind + "#[fmt:skip]"] + node + [ind + cm] + post) + "\n"))
            out.append((f"skip:{name}/before", "\n".join(pre + [ind + cm, ind + "#[fmt:skip]"] + node + post) + "\n"))
        # an inline comment INSIDE the skipped node, at its first run of two spaces
        if "  " in node[-1].strip():
            lead = len(node[-1]) - len(node[-1].lstrip())
            body = node[-1][lead:]
            k = body.index("  ")
            inside = node[-1][:lead] + body[:k] + " #- in -# " + body[k + 2:]
            for tail in ("", "# t", "#- t -#", " # t"):
                out.append((f"skip:{name}/inside", "\n".join(pre + [ind + "#[fmt:skip]"] + node[:-1] + [inside + tail] + post) + "\n"))
        # the same node WITHOUT the directive but with the glued comments (comment glue on every node kind)
        for cm in SKIP_COMMENTS[:2]:
            for glue in ("", "\t"):
                out.append((f"noskip:{name}/after", "\n".join(pre + node[:-1] + [node[-1] + glue + cm] + post) + "\n"))
    return out


def header_comment_family():
    """comments around the continuation headers of a construct (`else`, `else if`, `catch`, `finally`, match / switch
    `else` arms): a comment-only line directly before the header (at body / header / column-0 indentation) x a trailing
    comment on the header x the form of the body"""
    out = []
    constructs = [
        ("if-else", ["x = if data > 1", "  1"], "else", ["  2"], ["print x"]),
        ("if-else-stmt", ["if data > 1", "  print 1"], "else", ["  print 2"], []),
        ("if-elseif", ["if data > 5", "  print 1"], "else if data > 1", ["  print 2"], ["else", "  print 3"]),
        ("if-else-inline-body", ["x = if data > 5", "  1"], "else", ["  if data > 1 then 2 else 3"], ["print x"]),
        ("try-catch", ["try", "  throw 'e'"], "catch e", ["  print e"], []),
        ("try-finally", ["try", "  throw 'e'", "catch e", "  print e"], "finally", ["  print 'f'"], []),
        ("match-else", ["x = match data", "  1 then", "    'a'"], "  else", ["    'b'"], ["print x"]),
        ("switch-else", ["x = switch", "  data == 1 then", "    'a'"], "  else", ["    'b'"], ["print x"]),
        ("nested", ["f = ||", "  if data > 1", "    1"], "  else", ["    2"], ["print f()"]),
    ]
    for name, pre, header, body, post in constructs:
        hind = len(header) - len(header.lstrip())
        for before in (None, hind + 2, hind, 0):
            for trail in ("", "  # eol", " #- e -#", "# glued"):
                for blank in (False, True):
                    if before is None and not trail:
                        continue
                    lines = ["data = 2"] + pre
                    if before is not None:
                        lines.append(" " * before + "# note")
                    if blank and before is not None:
                        lines.append("")
                    lines += [header + trail] + body + post
                    out.append((f"hdr:{name}", "\n".join(lines) + "\n"))
    return out


def slice_sources(rng, n):
    """programs made of `v<k> = <number> + <number> # c<k>` lines in random line-ending conventions: every number
    literal and every comment is re-read by the formatter through FormatContext::line_offsets + column"""
    out = []
    for _ in range(n):
        lines = []
        for k in range(2 + rng.below(4)):
            a = rng.choice(["1250", "3000", "7", "0x1f", "1.5", "99", "100000"])
            b = rng.choice(["3000", "42", "8", "0b101", "2.25e3", "5"])
            ind = ""
            lines.append(f"{ind}v{k} = {a} + {b} # c{k} sum")
            if rng.chance(1, 4):
                lines.append(rng.choice(["", "# only a comment", "  "]))
        conv = rng.below(4)
        src = ""
        for i, ln in enumerate(lines):
            eol = ["\n", "\r\n", rng.choice(["\n", "\r\n"]), "\r\n"][conv]
            src += ln + eol
        if rng.chance(1, 4):
            src = src.rstrip("\r\n")
        out.append(src)
    return out


SNIPPETS = [
    "x = 1\n", "f = |a, b = 2| a + b\nprint f 1\n", "m = {a: 1, 'b': 2, @meta c: 3}\n", "x = [1, 2, 3][1..]\n",
    "for a, b in ((1, 2), (3, 4))\n  print a + b\n", "x = match 1, 2\n  (a, b) if a > 0 then a\n  else 0\n",
    "s = 'a{1 + 1}b'\n", "s = \"{1.5:>8.2}\"\n", "s = '{7:_^9}'\n", "s = '{255:08}'\n", "r = r'\\d+'\n", "r = r#'a'b'#\n",
    "export x = 1\n", "import io\n", "from io import print, stdout as out\n", "x = 1 -> |a| a + 1\n",
    "try\n  throw 'e'\ncatch e: String\n  print e\ncatch other\n  print 'o'\nfinally\n  print 'f'\n",
    "let x: Number = 1\n", "f = |xs...| size xs\n", "f = |(a, b), {c, d}| a\n", "x = (1, 2, 3)\na, b, c = x\n",
    "x = 1 # trailing\n# full line\n#- multi\n   line -#\ny = 2\n", "x = if true then 1 else 2\n",
    "loop\n  break 1\n", "i = 0\nwhile i < 3\n  i += 1\n", "until true\n  x = 1\n", "x = not true and false or null\n",
    "x = -(1 + 2) ^ 2\n", "f = || yield 1\n", "x = foo?.bar?()\n", "x = a.b.c().d().e().f()\n", "debug 1 + 1\n",
    "x = [\n  1,\n  2,\n]\n", "m =\n  a: 1\n  b:\n    c: 2\n", "switch\n  1 == 2 then 'a'\n  else 'b'\n",
    "x = 1..=5\ny = ..3\nz = 2..\n", "x = 0b101 + 0o17 + 0xff + 1e3 + 1.5\n", "@main = ||\n  print 1\n",
    "x = 'single' + \"double\" + 'it''s'\n" if False else "x = 'single' + \"double\"\n", "f = |a|\n  #[fmt:skip]\n  x  =  [1,2,\n  3]\n  x\n",
    "x = 1\n\n\n\ny = 2\n", "x = (1,)\n", "x = ()\n", "x = {}\n", "x = []\n", "return 1, 2\n", "x = y = 1\n",
    "assert_eq 1 +\n  2, 3\n", "f(a)(b)[c].d\n", "print 'a', 'b'\n", "x = f g h 1\n", "x = |a| |b| a + b\n",
]


# ---------------------------------------------------------------------------------------------


def judge(r, runnable):
    """the clauses of C11 on one formatter result; returns list of failures"""
    fails = []
    if r.get("fmt") == "panic":
        fails.append(f"total: the formatter panicked ({r.get('msg', '')[:120]} at {r.get('at')})")
        return fails
    if r.get("fmt") == "err":
        fails.append(f"total: the formatter returned an error for a program that parses ({r.get('msg', '')[:120]})")
        return fails
    if not r.get("reparse_ok"):
        fails.append(f"meaning: the formatted text does not parse ({r.get('msg', '')[:120]})")
        return fails
    if not r.get("loose_eq"):
        fails.append("meaning: the formatted text parses to a different syntax tree")
    if r.get("comments_src") != r.get("comments_out"):
        fails.append(f"comments: {r.get('comments_src')} became {r.get('comments_out')}")
    if not r.get("idem"):
        fails.append("idempotence: formatting the output again changes it")
    if runnable and "run_src" in r:
        a, b = r["run_src"], r["run_out"]
        if "ETimeout" not in (a.get("result"), b.get("result")) and (a.get("result"), a.get("out")) != (b.get("result"), b.get("out")):
            fails.append(f"behaviour: the formatted program gives {b.get('result')!r}/{b.get('out')!r}, the source "
                         f"{a.get('result')!r}/{a.get('out')!r}")
    return fails


def class_c11e(src):
    """C11e: a blank (empty or white-space-only) line directly follows a line that opens an indented block
    (the next non-blank line is indented more than the line before the blank one)"""
    lines = src.split("\n")
    for k in range(len(lines) - 2):
        if lines[k].strip() == "" or lines[k + 1].strip() != "":
            continue
        j = k + 1
        # the next CODE line (comment-only lines between the blank line and the body do not help)
        while j < len(lines) and G.strip_trivia(lines[j].rstrip("\r")).strip() == "":
            j += 1
        if j < len(lines):
            ind = lambda l: len(l) - len(l.lstrip(" \t"))
            if ind(lines[j]) > ind(lines[k]):
                return True
            # ... or directly precedes the `else` / `else if` / `catch` / `finally` header of the same construct
            # (the blank line is moved BEHIND that header, where the next pass trips over it)
            first = lines[j].split()[0] if lines[j].split() else ""
            if first in ("else", "catch", "finally"):
                return True
    return False


def class_blank_mid_expression(src):
    """a blank or comment-only line inside an expression that continues over several lines: the next code line starts
    with `.` or a binary operator, or the previous one ends with an operator / comma / opening bracket / `=`"""
    lines = src.split("\n")
    ops = ("+", "*", "/", "%", "^", "and ", "or ", "==", "!=", "<", ">", "->", "- ")
    empty = lambda l: G.strip_trivia(l.rstrip("\r")).strip() == ""
    for k in range(1, len(lines) - 1):
        if not empty(lines[k]):
            continue
        i, j = k - 1, k + 1
        while i >= 0 and empty(lines[i]):
            i -= 1
        while j < len(lines) and empty(lines[j]):
            j += 1
        if i < 0 or j >= len(lines):
            continue
        nxt, prv = lines[j].strip(), G.strip_trivia(lines[i].rstrip("\r"))
        if nxt.startswith(".") or nxt.startswith(ops) or G.ends_open(prv) or prv.endswith((",", "(", "[", "{")):
            return True
    return False


def _code(line):
    return G.strip_trivia(line.rstrip("\r"))


def class_c11k(src):
    """C11k: an `else` line that carries a trailing comment and is directly preceded (blank lines aside) by a
    comment-only line"""
    lines = src.split("\n")
    for k, ln in enumerate(lines):
        if _code(ln).strip() != "else" or "#" not in ln:
            continue
        i = k - 1
        while i >= 0 and lines[i].strip() == "":
            i -= 1
        if i >= 0 and _code(lines[i]).strip() == "" and "#" in lines[i]:
            return True
    return False


def class_c11l(src):
    """C11l (through parser defect C10b): a line whose first token is `-` follows, at lower or equal indentation, a
    statement that spans several lines -- the parser reads it as a binary minus whose LEFT operand is that whole
    multi-line (block) expression"""
    lines = src.split("\n")
    ind = lambda l: len(l) - len(l.lstrip(" \t"))
    prev = None
    for ln in lines:
        code = _code(ln)
        if code.strip() == "":
            continue
        if code.lstrip().startswith("-") and prev is not None:
            pc = _code(prev)
            if ind(prev) > ind(ln) or pc.lstrip()[:1] in (")", "]", "}"):
                return True
        prev = ln
    return False


def known_classes(r, src):
    ks = [k for k, v in (r.get("classes") or {}).items() if v]
    if class_c11e(src):
        ks.append("blank_after_header")
    if class_blank_mid_expression(src):
        ks.append("comment_mid_expression")
    if class_c11k(src):
        ks.append("comment_before_else_with_comment")
    if class_c11l(src):
        ks.append("minus_after_block_expression")
    if any(_code(l).strip() == "export" for l in src.split("\n")):
        ks.append("export_value_on_next_line")
    return ks


def spec_cases(tier, rng):
    alpha = ["x", "<", "^", "0", "8", ".", "_", "é"] if tier == "quick" else \
        ["x", "<", "^", "0", "8", ".", "_", "?", "e", "a", "é", "12"]
    out = [""]
    import itertools
    kmax = 2 if tier == "quick" else 4
    for k in range(1, kmax + 1):
        for t in itertools.product(alpha, repeat=k):
            out.append("".join(t))
    frag = ["<", "^", ">", "0", "1", "9", "12", "4294967295", "4294967296", ".", ".3", "x", "X", "b", "o", "e", "E", "?",
            "_", "a", "é", "한", "e\u0301", "\U0001F600", " "]
    for _ in range(350 if tier == "quick" else 20000):
        out.append("".join(rng.choice(frag) for _ in range(1 + rng.below(5))))
    return out


def run(tier, seed):
    chk = C.Check(PID, tier, seed, "partial")
    if os.environ.get("SYN_SKIP_COQ"):
        model_ok, axioms = False, []
    else:
        model_ok, axioms = G.theorems(chk, PID, "C11Props", PINNED, ["syn-fmtspec"])

    import time
    chk.log(f"theorems checked after {time.time() - chk.t0:.0f}s")
    binp, blog = C.build_harness("kh_syn")
    if not binp:
        chk.log("harness build failed:\n" + blog[-3000:])
        chk.violation("build", {"kind": "obligation", "correspondence": "kh_syn does not build against the koto checkout",
                                "log": blog[-3000:]}, no_input=True)
        return chk.finish("n/a")
    chk.log(f"harness built after {time.time() - chk.t0:.0f}s")

    rng = C.Rng(seed)
    quick = tier == "quick"
    cases, meta, dist = [], [], {}

    def add_one(origin, text, runnable, nopts):
        if nopts >= len(GRID):
            opts = GRID
        else:
            opts = [DEFAULT_OPTS] + [rng.choice(GRID) for _ in range(nopts - 1)]
        for o in opts:
            cases.append({"mode": "fmt", "src": text, "opts": o, "run": runnable})
            meta.append({"origin": origin, "opts": o, "runnable": runnable})
        k = origin.split(":")[0]
        dist[k] = dist.get(k, 0) + 1

    def add_prog(origin, text, runnable, nopts, nvariants=None):
        """the program itself + its line-ending variants (all of them for nvariants=None, else a seeded pick)"""
        add_one(origin, text, runnable, nopts)
        vs = line_variants(text, rng)
        if nvariants is not None and len(vs) > nvariants:
            vs = [vs[(rng.below(len(vs)) + i) % len(vs)] for i in range(nvariants)]
        for tag, v in vs:
            add_one(f"eol-{tag}:{origin}", v, runnable, 1 if quick else min(nopts, 4))

    # 1. committed corpus
    d = os.path.join(C.VERIF, "corpus", PID)
    if os.path.isdir(d):
        for f in sorted(os.listdir(d)):
            if f.endswith(".jsonl"):
                for line in open(os.path.join(d, f), encoding="utf-8"):
                    if line.strip():
                        c = json.loads(line)
                        add_prog("corpus:" + c.get("name", ""), c["src"], c.get("run", True), len(GRID) if not quick else 4)
    # 2. the repository's own programs
    repo = repo_programs()
    for origin, text in repo:
        add_prog(origin, text, False, 3 if quick else len(GRID), 1 if quick else None)
    # 3. snippets covering the syntax + their mutants
    for i, sn in enumerate(SNIPPETS):
        add_prog(f"snippet:{i}", sn, False, 4 if quick else len(GRID))
        for m in mutants(rng, sn, 6 if quick else 40):
            add_prog(f"mutant:snippet{i}", m, False, 1 if quick else 6, 1 if quick else 3)
    # 4. generated programs in randomised layouts (runnable)
    nprog = 60 if quick else 500
    for pi in range(nprog):
        prog = G.gen_program(rng, 3 + rng.below(6))
        add_prog(f"generated:{pi}", G.text_of(G.render(prog, G.Layout())), True, 2 if quick else 8)
        for li in range(3 if quick else 10):
            flags = tuple(f for f in G.TRIVIA + G.STRUCT if rng.chance(1, 2))
            text = G.text_of(G.render(prog, G.Layout(rng, flags)))
            add_prog(f"generated-layout:{pi}.{li}", text, True, 2 if quick else 6, 2 if quick else None)
            if li == 0:
                for m in mutants(rng, text, 4 if quick else 20):
                    add_prog(f"mutant:generated{pi}", m, False, 1 if quick else 3, 1)
    # 5. mutants of repository files
    for origin, text in repo:
        if len(text) < 4000:
            for m in mutants(rng, text, 2 if quick else 12):
                add_prog("mutant:" + origin, m, False, 1 if quick else 3, 1)
    # 7. comment glue (0 / 1 / 3 spaces / tab before a comment, 0 / 1 after an inline one) on everything that has comments
    glued = 0
    for origin, text in [(f"snippet:{i}", sn) for i, sn in enumerate(SNIPPETS)] + repo:
        for g in glue_variants(text, rng, 1 if quick else 4):
            add_one("glue:" + origin, g, False, 1 if quick else 4)
            glued += 1
    for pi in range(30 if quick else 300):
        prog = G.gen_program(rng, 3 + rng.below(5))
        text = G.text_of(G.render(prog, G.Layout(rng, ("comments", "inline_comments", "trailing", "blank"))))
        for g in glue_variants(text, rng, 2 if quick else 6):
            add_one(f"glue:generated{pi}", g, True, 1 if quick else 3)
    # 8. #[fmt:skip] on every node kind x adjacent comments
    for origin, text in skip_family(quick, rng):
        add_one(origin, text, True, 1 if quick else 6)
        if not quick:
            add_one("eol-crlf:" + origin, text.replace("\n", "\r\n"), True, 1)
    # 9. comments around else / else if / catch / finally headers (a seeded sample in the quick tier)
    hf = header_comment_family()
    if quick:
        hf = [hf[rng.below(len(hf))] for _ in range(60)] + hf[:20]
    for origin, text in hf:
        add_one(origin, text, True, 1 if quick else 4)
    # 6. number literals and comments on later lines, in every line-ending convention (runnable)
    for i, src in enumerate(slice_sources(rng, 40 if quick else 400)):
        add_one(f"slice-src:{i}", src, True, 1 if quick else 4)

    chk.log(f"{len(cases)} formatter runs over {sum(dist.values())} programs: {dist}")
    try:
        res = G.run_sharded(binp, cases, "c11")
    except RuntimeError as e:
        chk.log(str(e))
        chk.violation("harness", {"kind": "obligation", "correspondence": "kh_syn crashed", "log": str(e)[-2000:]}, no_input=True)
        return chk.finish("n/a")

    fails = []
    parsed = {}
    cosmetic = 0
    clean = 0
    clean_by = {}
    masked = {}
    for c, m, r in zip(cases, meta, res):
        k = m["origin"].split(":")[0]
        if "panic" in r and "fmt" not in r:
            fails.append((len(c["src"]), {"src": c["src"], "opts": m["opts"], "origin": m["origin"], "impl_says": r,
                                          "predicate_failed": ["harness-level panic"]}))
            continue
        if not r.get("parse_ok"):
            continue
        parsed[k] = parsed.get(k, 0) + 1
        chk.count_case(c["src"] + json.dumps(m["opts"], sort_keys=True), True)
        if r.get("fmt") == "ok" and r.get("reparse_ok") and r.get("loose_eq") and not r.get("strict_eq"):
            cosmetic += 1
        fs = judge(r, m["runnable"])
        if not fs:
            clean += 1
            clean_by[k] = clean_by.get(k, 0) + 1
            continue
        kc = known_classes(r, c["src"])
        if kc:
            for kk in kc:
                chk.known(KNOWN[kk])
                masked[kk] = masked.get(kk, 0) + 1
            continue
        slim = {kk: r.get(kk) for kk in ("fmt", "text", "msg", "at", "reparse_ok", "loose_eq", "idem", "text2",
                                         "comments_src", "comments_out", "run_src", "run_out", "loose_src", "loose_out")
                if kk in r}
        fails.append((len(c["src"]), {"src": c["src"], "opts": m["opts"], "origin": m["origin"], "impl_says": slim,
                                      "predicate_failed": fs}))

    chk.log(f"search done after {time.time() - chk.t0:.0f}s")
    chk.log(f"clean by origin: {clean_by}")
    chk.log(f"{clean} runs satisfy every clause; failing runs inside known classes: {masked}")
    # ---- R: format-option model and slice model vs the real crates
    disagreements = []
    if model_ok:
        disagreements = correspondence(chk, binp, tier, rng)

    if os.environ.get("SYN_DEBUG"):
        with open(os.path.join(C.BUILD, "c11-fails.json"), "w") as fh:
            json.dump([p for _, p in fails], fh, ensure_ascii=False)
        hist = {}
        for _, p in fails:
            hist.setdefault(p["predicate_failed"][0][:50], []).append(p)
        for key, ps in sorted(hist.items(), key=lambda kv: -len(kv[1])):
            ps.sort(key=lambda p: len(p["src"]))
            print("=====", len(ps), key, ps[0]["origin"], ps[0]["opts"])
            print(ps[0]["src"][:600])
            print("--- formatted:")
            print((ps[0]["impl_says"].get("text") or "")[:600])
            print(json.dumps({k: v for k, v in ps[0]["impl_says"].items() if k not in ("text", "loose_src", "loose_out")})[:500])

    if fails:
        fails.sort(key=lambda x: x[0])
        _, payload = fails[0]
        payload.update({"kind": "input", "others": len(fails) - 1, "how_to_rerun": "./check C11 --replay <this file>"})
        chk.violation("input", payload)
        chk.log(f"{len(fails)} formatter runs violate C11; smallest ({payload['origin']}, {payload['opts']}):\n"
                f"{payload['src']}\n-> {payload['predicate_failed']}")
    broken = [o for o in chk.obligations if not o[1]]
    if broken and not fails:
        payload = {"kind": "obligation", "broken": [o[0] + (": " + o[2] if o[2] else "") for o in broken]}
        if disagreements:
            payload["smallest_disagreement"] = sorted(disagreements, key=lambda d: len(json.dumps(d)))[0]
        chk.violation("obligation", payload, no_input=True)

    tb = ["Coq 8.16.1 kernel (coqc); vm_compute for evaluating the format-option and slice models",
          "axioms reported by Print Assumptions: " + (", ".join(axioms) if axioms else "none (closed under the global context)"),
          "Section hypotheses of the theorems: the unicode-segmentation oracle (first grapheme cluster) and the "
          "unicode-width oracle are parameters; see C11Props.v",
          "tools/k2v_syn.py: representation characters of StringFormatOptions::parse, field list of "
          "render_format_options; sha1 fingerprints of parse / consume_u32 / render_format_options / source_slice / "
          "FormatContext::new",
          "NOT modelled: format_node, GroupBuilder, FormatItem::render, Trivia (searched only)",
          "kh_syn (Rust harness) and checks/c11.py"]
    return chk.finish(
        rule="programs: committed corpus + every .koto file and fenced koto example of the checkout + syntax snippets + "
             "generated programs in random layouts + textual mutants of all of these (kept when they parse) x formatter "
             "options (default + seeded picks of the 36-point grid; thorough: the whole grid for corpus/repo); "
             "non-trivial = the program parses; distinct by (source, options)",
        explanation="theorems about format-option rendering and span slicing (both refuted at full strength, proved outside "
                    "decidable classes); search for meaning / comment / idempotence / totality failures of the real "
                    "formatter. Absence of failures of the renderer is NOT shown.",
        trusted_base=tb,
        extra={"distribution": dist, "parsed_by_origin": parsed, "cosmetic_only_differences": cosmetic,
               "runs_satisfying_every_clause": clean, "clean_by_origin": clean_by, "failing_runs_inside_known_classes": masked,
               "exhaustive": False, "model_impl_disagreements": len(disagreements)})


def correspondence(chk, binp, tier, rng):
    """model (vm_compute) vs implementation for the two modelled layers"""
    dis = []
    # -- format options
    specs = [s for s in spec_cases(tier, rng) if all(ch not in s for ch in "\"\\{}\n\r'")]
    specs = sorted(set(s for s in specs if s != ""))
    res = G.run_sharded(binp, [{"mode": "spec", "spec": s} for s in specs], "c11s")
    header = "From KV.syn Require Import SynBase GenFmtSpec FmtSpecModel FmtRun.\nFrom Coq Require Import NArith List.\nImport ListNotations.\nOpen Scope N_scope.\n"
    terms = [f"run_fmtspec {max(1, r['glen'])}%nat {C.coq_list([ord(c) for c in s])}" for s, r in zip(specs, res)]
    try:
        vals = C.coq_eval(UNIT, header, terms, tag="c11s", per_shard=60)
    except RuntimeError as e:
        chk.log(str(e)[-2000:])
        chk.oblige("corr:format-option model evaluates", False)
        return dis
    for s, r, v in zip(specs, res, vals):
        chk.count_case("spec:" + s, True)
        want = decode_spec_model(v)
        got = {"parse": None, "rendered": None}
        p = r["parse"]
        if p.get("ok"):
            got["parse"] = ("ok", p["align"], p["width"], p["precision"], p["fill"], p["repr"])
            got["rendered"] = [ord(c) for c in r["rendered"]] if r.get("rendered") is not None else None
        else:
            got["parse"] = ("err",)
        if want["parse"][0] == "ok":
            same = got["parse"] == want["parse"] and got["rendered"] == want["rendered"]
        else:
            same = got["parse"][0] == "err"
        if not same:
            dis.append({"spec": s, "model_says": want, "impl_says": got})
    chk.oblige("corr:format-option model vs koto_parser + koto_format on option strings", not dis, f"{len(dis)} disagreements")
    # -- slices: every number literal and comment of small sources (non-ASCII prefixes, several lines, every
    # line-ending convention): the model's span = the lexer's span, and the formatter's output = the source with
    # each such token replaced by the MODEL's slice (which goes through the model of FormatContext::new's
    # line_offsets table), or both panic
    pres = ["", "x = ", "é = ", "x日本 = ", "a\n  b = ", "'é' + ", "# c\nx = ", "s = 'héé' + ", "ééé=", "'日本日本日' + ",
            "a = 1\r\nb = ", "# é\r\n\r\nx = "]
    # (wide characters only in non-initial position of an identifier: the lexer counts the FIRST character of an
    # identifier as one column whatever its width, which SliceModel.tok_span -- "sum of widths" -- does not model;
    # such prefixes are outside slice_is_token_text's hypothesis anyway)
    nums = ["99", "1", "0x1f", "1.5"]
    sources = [p + n + e for p in pres for n in nums for e in ("\n", "\r\n")][::2] + slice_sources(rng, 12 if tier == "quick" else 150)
    sres = G.run_sharded(binp, [{"mode": "slice", "src": s} for s in sources], "c11l")
    wtab = "[(233, 1); (26085, 2); (26412, 2)]"
    terms, owner = [], []
    for si, (s, r) in enumerate(zip(sources, sres)):
        bs = s.encode("utf-8")
        for ti, t in enumerate(r["toks"]):
            if t[0] in ("Number", "CommentSingle"):
                pre, tok, post = bs[:t[5]].decode("utf-8"), bs[t[5]:t[6]].decode("utf-8"), bs[t[6]:].decode("utf-8")
                terms.append(f"run_slice {wtab} {C.coq_list([ord(ch) for ch in pre])} {C.coq_list([ord(ch) for ch in tok])} "
                             f"{C.coq_list([ord(ch) for ch in post])}")
                owner.append((si, ti))
    try:
        vals = C.coq_eval(UNIT, "From KV.syn Require Import SynBase SliceModel FmtRun.\nFrom Coq Require Import NArith List.\nImport ListNotations.\nOpen Scope N_scope.\n", terms, tag="c11l", per_shard=40)
    except RuntimeError as e:
        chk.log(str(e)[-2000:])
        chk.oblige("corr:slice model evaluates", False)
        return dis
    model = {}
    for (si, ti), v in zip(owner, vals):
        model[(si, ti)] = decode_slice_model(v)
    d2 = []
    nows = lambda x: "".join(x.split())
    for si, (s, r) in enumerate(zip(sources, sres)):
        chk.count_case("slice:" + s, True)
        bs = s.encode("utf-8")
        texts, panic, bad_span = [], False, None
        for ti, t in enumerate(r["toks"]):
            if t[0] in ("Whitespace", "NewLine"):
                continue
            m = model.get((si, ti))
            if m is None:
                texts.append(bs[t[5]:t[6]].decode("utf-8"))
                continue
            if m["span"] != [t[1], t[2], t[3], t[4]]:
                bad_span = {"src": s, "token": bs[t[5]:t[6]].decode("utf-8"), "model_span": m["span"], "lexer_span": [t[1], t[2], t[3], t[4]]}
            panic = panic or m["panic"]
            texts.append("".join(chr(cp) for cp in m["slice"]))
        if bad_span:
            d2.append(bad_span)
        elif panic != (r.get("fmt") == "panic"):
            d2.append({"src": s, "model": "panic" if panic else "no panic", "impl": r.get("fmt"), "impl_text": r.get("text")})
        elif not panic and r.get("fmt") == "ok" and nows("".join(texts)) != nows(r["text"]):
            d2.append({"src": s, "model_output_modulo_white_space": nows("".join(texts)), "impl_text": r["text"]})
    chk.oblige("corr:slice model (line_offsets + column) vs koto_lexer spans + koto_format output", not d2,
               f"{len(d2)} disagreements")
    return dis + d2


def decode_spec_model(v):
    """see the encoding comment at the top of coq/syn/FmtRun.v:
    (tag, options, payload, rendered, (tag', options', payload'), dropped)"""
    tag, options, payload, rendered, reparsed, dropped = v
    if tag != 0:
        return {"parse": ("err", tag, payload), "rendered": None, "dropped": False}
    al, w, p, fill, rp = options[0]

    def opt(x):
        return x[0] if x else None
    return {"parse": ("ok", al, opt(w), opt(p), opt(fill), opt(rp)), "rendered": rendered, "dropped": bool(dropped),
            "reparsed_ok": reparsed[0] == 0 and reparsed[1] == options}


def decode_slice_model(v):
    sl, sc, el, ec, tag, cps, nonascii = v
    return {"span": [sl, sc, el, ec], "panic": tag == 1, "slice": cps, "nonascii": bool(nonascii)}


def replay(path, args):
    data = json.load(open(path))
    src = data.get("src")
    if src is None:
        print("replay file names an obligation, not an input:", json.dumps(data.get("broken")))
        return run("quick", data.get("seed", 1))
    binp, _ = C.build_harness("kh_syn")
    res = G.run_cases(binp, [{"mode": "fmt", "src": src, "opts": data.get("opts", DEFAULT_OPTS), "run": True}], "c11-replay")
    r = res[0]
    print(json.dumps({k: v for k, v in r.items() if k not in ("loose_src", "loose_out", "strict_src", "strict_out")}, ensure_ascii=False)[:3000])
    fs = judge(r, True) if r.get("parse_ok") else []
    for f in fs:
        print("  " + f)
    if fs:
        print(f"VIOLATION property={PID} replay={path}")
        return 1
    print("no clause of C11 fails on this input")
    return 0
