"""C06  Host safety: no input makes compile, format, run or display panic.   (PARTIAL)

T  coq/safe/C06Props.v: panic-freedom theorems for the modelled entry points (number / range /
   list / tuple / map primitives with Rust's debug-build panics explicit), each either for all
   arguments or outside a decidable known_C06 class with a `_refuted` witness inside it.
R  correspondence: for modelled entry points the outcome class (value / error / panic) of the real
   function must equal the model's on every pool tuple in the model's domain.
D  search: every core-library entry point (enumerated from the prelude at run time) x boundary pool,
   and source text (corpus, single-token neighbourhood, token soups, noise) -> compile / format /
   error Display / run / value display must return normally.  A panic that is not in KNOWN is a
   failing input.  For unmodelled code the sweep can exhibit a panic but cannot show absence.
"""
import concurrent.futures
import json
import os
import re
import resource
import struct
import subprocess
import tempfile
import time

from vlib import common as C
from checks import c06_pool as P
from checks import c06_gen as G

PID = "C06"
UNIT = "safe"
U64MAX = 2 ** 64 - 1

# --------------------------------------------------------------------------------------------
# exclusions (outside the property or outside what a sweep can finish) -- all reported in evidence

# never called: they start processes / are meaningless without a terminal
EXCLUDED_ENTRIES = {
    ("os", "command"): "starts external processes",
}
# functions that consume their iterable argument completely: never given an endless (or 2^63-long) iterable
CONSUMERS = {
    "iterator": ["all", "any", "consume", "count", "find", "fold", "last", "max", "min", "min_max", "position",
                 "product", "sum", "to_list", "to_map", "to_string", "to_tuple", "reversed", "advance", "skip",
                 "step", "keep", "flatten"],
    "list": ["extend", "contains"],
    "map": ["extend"],
    "string": ["from_bytes", "join"],
    "koto": ["size", "copy", "deep_copy", "hash"],
    "prelude": ["size", "copy", "print", "assert_eq", "assert_ne"],
    "test": ["assert_eq", "assert_ne"],
    "io": ["print"],
}
# functions whose numeric argument is an allocation size / repeat count: never given |n| >= 2^31
BIG_ALLOC = {
    "list": ["resize", "resize_with"],
    "string": ["repeat"],
    "iterator": ["chunks", "windows", "step", "skip", "advance"],   # step / skip / advance n: loops n times
}
# type modules: the receiver types that make sense (arity-3 sampling draws the receiver from these)
RECEIVER_TAGS = {
    "number": {"num"}, "list": {"list"}, "tuple": {"tuple"}, "map": {"map"}, "range": {"range"},
    "string": {"str"}, "iterator": {"iter", "list", "tuple", "map", "range", "str"},
}

# --------------------------------------------------------------------------------------------
# known findings (mirror of what known_findings.json should hold for C06).  A panic is matched by
# entry point + panic message + source file of the panic site; anything else is a VIOLATION.

KNOWN = [
    {"id": "C06a", "entry": r"reentrant:(iterator\.fold|list\.(sort|transform)|map\.sort)", "file": "memory/src/ptr_impl/rc.rs",
     "msg": r"RefCell already (mutably )?borrowed",
     "what": "RefCell double borrow: a callback that reads or writes the receiver, called while the function holds "
             "the receiver's borrow -- exactly list.sort, list.transform, map.sort with a key function and "
             "iterator.fold over an iterator that the callback advances or copies (keyed by function: any other "
             "callback-taking function starting to do this is a violation)",
     "witness": "z = [3, 1, 2]; z.transform |x| size z"},
    {"id": "C06a", "entry": r"list\.(extend|swap|retain|sort|contains)|map\.(extend|sort)|text:run", "file": "memory/src/ptr_impl/rc.rs",
     "msg": r"RefCell already (mutably )?borrowed",
     "what": "RefCell double borrow (rc build): a container function is given its own receiver (l.extend l, l.swap l, "
             "m.extend m, l.retain l) or its callback / overloaded operator touches the receiver (l.transform |x| l.push x, "
             "m.sort |k, v| m.insert ..)",
     "witness": "l = [1]; l.extend l"},
    {"id": "C06f", "entry": r".*", "file": "core_lib/number/step_to.rs",
     "msg": r"attempt to (add|subtract|multiply|negate|divide)",
     "what": "number.step_to: step 0 divides by zero, target - start overflows, and size_hint adds 1 to i64::MAX steps",
     "witness": "1.step_to 10, 0"},
    {"id": "C06f", "entry": r"number\.step_to", "file": "library/core/src/num/mod.rs",
     "msg": r"attempt to negate with overflow",
     "what": "number.step_to: (target - start).abs() with a distance of i64::MIN",
     "witness": "1.step_to (-9223372036854775807)"},
    {"id": "C06g", "entry": r".*", "file": "runtime/src/types/range.rs", "msg": r"attempt to (add|subtract) with overflow",
     "what": "KRange::as_bounded_range adds 1 to an inclusive end of i64::MAX; KRange::size subtracts bounds more than "
             "i64::MAX apart (contains, intersection, iteration, indexing with such ranges)",
     "witness": "(0..=9223372036854775807).contains 1"},
    {"id": "C06h", "entry": r"range\.expanded", "file": "core_lib/range.rs", "msg": r"attempt to (add|subtract) with overflow",
     "what": "range.expanded: start - n / end + n overflow",
     "witness": "(0..10).expanded 9223372036854775807"},
    {"id": "C06i", "entry": r"(list|tuple)\.contains|(prelude|test)\.assert_(eq|ne)|list\.(retain|sort)|tuple\.sort_copy",
     "file": "runtime/src/vm.rs", "msg": r"index out of bounds: the len is|attempt to add with overflow",
     "what": "comparing a cyclic container with itself recurses until the 8-bit register index overflows (index out of bounds in set_register, or `register + 1` overflowing in run_binary_op) "
             "(panic instead of an error or a stack overflow)",
     "witness": "l = [1]; l.push l; l.contains l"},
    {"id": "C06p", "entry": r"text:run", "file": "runtime/src/vm.rs", "msg": r"attempt to add with overflow",
     "what": "run_unary_op / run_binary_op called from a native function (display in print, comparisons, ..) while the "
             "calling frame holds 254 or more registers: `next_register() + 1` overflows the 8-bit register index",
     "witness": "print(0, 1, .., 250)  (corpus/C06/print_251_args.koto); x = [0, 1, .., 254]"},
    # C06q (map.update with a NaN key unwrapped None) is FIXED in /repo (3c98e6d): it suppresses nothing any more;
    # corpus/C06/map_update_nan_key.koto stays as a regression input
    {"id": "C06l", "entry": r"text:format.*", "file": "format/src/format.rs", "msg": r"is not a char boundary",
     "what": "koto_format slices the source at a byte offset computed from character columns: panics on lines "
             "containing multi-byte characters",
     "witness": "print '{number.pi𝜋^8.2}'"},
    {"id": "C06n", "entry": r"text:run|list\.retain|reentrant:list\.retain", "file": "core_lib/list.rs", "msg": r"index out of bounds: the len is",
     "what": "list.retain with a predicate that shrinks the list: indexes with the length read before the loop",
     "witness": "l = [1, 2, 3]; l.retain |x| l.pop() == null"},
]


def match_known(entry, msg, at):
    for k in KNOWN:
        if re.fullmatch(k["entry"], entry) and re.search(k["msg"], msg or "") and re.search(k["file"], at or ""):
            return k
    return None


# outside the property: exhausting memory
OUT_OF_SCOPE_PANIC = re.compile(r"capacity overflow|memory allocation|alloc.*failed|Layout")

# --------------------------------------------------------------------------------------------
# running workers


def _limits():
    resource.setrlimit(resource.RLIMIT_AS, (6 << 30, 6 << 30))
    resource.setrlimit(resource.RLIMIT_CORE, (0, 0))


def run_shard(binp, pool_job, jobs, tag, watchdog_ms=5000):
    """runs the jobs in one worker process, restarting after a hang / abort at the case after the
    culprit.  returns (lines, incidents)"""
    lines = []
    incidents = []
    sandbox = tempfile.mkdtemp(prefix="kh_safe_sb_", dir="/tmp")
    os.makedirs(os.path.join(C.BUILD, "cases"), exist_ok=True)
    remaining = list(jobs)
    rounds = 0
    while remaining and rounds < 400:
        rounds += 1
        cf = os.path.join(C.BUILD, "cases", f"c06-{os.getpid()}-{tag}.jsonl")
        pf = cf + ".progress"
        with open(cf, "w") as f:
            f.write(json.dumps(pool_job) + "\n")
            for j in remaining:
                f.write(json.dumps(j) + "\n")
        with open(pf, "wb") as f:
            f.write(struct.pack("<QQ", U64MAX, U64MAX))
        env = dict(C.ENV)
        env["KH_PROGRESS"] = pf
        env["KH_WATCHDOG_MS"] = str(watchdog_ms)
        p = subprocess.run([binp, cf], cwd=sandbox, env=env, stdin=subprocess.DEVNULL, stdout=subprocess.PIPE,
                           stderr=subprocess.PIPE, preexec_fn=_limits)
        out = p.stdout.decode("utf-8", "replace")
        err = p.stderr.decode("utf-8", "replace")
        got = []
        for l in out.splitlines():
            if l.startswith("{"):
                try:
                    got.append(json.loads(l))
                except ValueError:
                    pass
        lines += [g for g in got if "end" not in g]
        if p.returncode == 0 and got and got[-1].get("end"):
            break
        jid, idx = struct.unpack("<QQ", open(pf, "rb").read(16))
        pos = next((k for k, j in enumerate(remaining) if j["id"] == jid), None)
        if pos is None:
            # died before the first case was announced (start-up under load): try again a few times
            lost = sum(1 for i in incidents if i["kind"] == "lost")
            incidents.append({"j": None, "i": None, "rc": p.returncode, "stderr": err[-600:], "kind": "lost"})
            if lost >= 3:
                break
            continue
        kind = "hang" if p.returncode == 9 else "abort"
        if kind == "abort":
            if "overflowed its stack" in err:
                kind = "stack-overflow"
            elif "memory allocation" in err:
                kind = "out-of-memory"
        incidents.append({"j": jid, "i": None if idx == U64MAX else idx, "rc": p.returncode, "kind": kind,
                          "stderr": err[-600:]})
        if os.environ.get("C06_DEBUG"):
            jj = remaining[pos]
            print("incident", kind, jj.get("module"), jj.get("fn"), jj.get("origin"), len(jj.get("pools", [])), idx,
                  flush=True)
        cur = dict(remaining[pos])
        rest = remaining[pos + 1:]
        if idx == U64MAX or cur["mode"] == "text":
            remaining = rest
        else:
            cur["from"] = idx + 1
            remaining = [cur] + rest
    for f in (cf, pf):
        try:
            os.remove(f)
        except OSError:
            pass
    subprocess.run(["rm", "-rf", sandbox])
    return lines, incidents


T_START = time.time()


def progress(msg):
    print(f"[{PID}] +{time.time() - T_START:6.0f}s {msg}", flush=True)


def run_jobs(binp, jobs, watchdog_ms=5000, label=None):
    """distributes jobs (each must carry a unique "id") over NPROC workers"""
    pool_job = {"mode": "pool", "items": [{"name": p["name"], "src": p["src"]} for p in P.POOL]}
    nw = C.NPROC
    # many small shards (work stealing through the executor) keep the cores busy
    jobs = sorted(jobs, key=lambda j: -j.get("cost", 1))
    nshards = max(1, min(len(jobs), nw * 6))
    shards = [[] for _ in range(nshards)]
    loads = [0] * nshards
    for j in jobs:
        k = loads.index(min(loads))
        shards[k].append(j)
        loads[k] += j.get("cost", 1)
    lines, incidents = [], []
    with concurrent.futures.ThreadPoolExecutor(max_workers=nw) as ex:
        futs = [ex.submit(run_shard, binp, pool_job, s, str(k), watchdog_ms) for k, s in enumerate(shards) if s]
        done = 0
        last = time.time()
        for f in concurrent.futures.as_completed(futs):
            l, i = f.result()
            lines += l
            incidents += i
            done += 1
            if label and (time.time() - last > 20 or done == len(futs)):
                last = time.time()
                npanic = sum(1 for x in lines if "panic" in x)
                progress(f"{label}: {done}/{len(futs)} shards done, {npanic} panics caught so far, "
                         f"{len(incidents)} hangs/aborts")
    return lines, incidents


# --------------------------------------------------------------------------------------------
# call jobs


def tagged(*tags, exclude=()):
    return [i for i, p in enumerate(P.POOL) if (not tags or p["tags"] & set(tags)) and not (p["tags"] & set(exclude))]


def position_pool(module, fn, pos):
    """pool indices allowed at argument position `pos` (0 = receiver) of module.fn"""
    excl = set()
    if fn in CONSUMERS.get(module, []):
        excl.add("endless")
    if fn in BIG_ALLOC.get(module, []):
        excl.add("big")
    if pos == 0:
        excl.add("alias")
    return [i for i, p in enumerate(P.POOL) if not (p["tags"] & excl)]


def call_jobs(entries, tier, seed, only=None):
    jobs = []
    jid = [0]

    def job(module, fn, form, pools, sample=None, all_=False, cost=None):
        jid[0] += 1
        total = 1
        for p in pools:
            total *= len(p)
        n = min(total, sample["n"]) if sample else total
        jobs.append({"mode": "calls", "id": jid[0], "module": module, "fn": fn, "form": form, "pools": pools,
                     "sample": sample, "all": all_, "cost": max(1, cost or n)})

    n3 = 300 if tier == "quick" else 30000
    for e in entries:
        module, fn = e["module"], e["name"]
        if e["kind"] != "fn" or (module, fn) in EXCLUDED_ENTRIES:
            continue
        if only and (module, fn) not in only:
            continue
        form = "m" if module in RECEIVER_TAGS else "f"
        allp = [position_pool(module, fn, k) for k in range(3)]
        typed = module in RECEIVER_TAGS
        recv = [i for i in allp[0] if P.POOL[i]["tags"] & RECEIVER_TAGS[module]] if typed else allp[0]
        job(module, fn, "f", [])
        job(module, fn, form, [allp[0]])
        if tier == "quick" and typed:
            # typed receivers completely, every other receiver sampled
            job(module, fn, form, [recv, allp[1]])
            job(module, fn, form, [allp[0], allp[1]], sample={"n": 300, "seed": seed * 31337 + jid[0]})
        elif tier == "quick":
            job(module, fn, form, [allp[0], allp[1]], sample={"n": 2500, "seed": seed * 31337 + jid[0]})
        else:
            job(module, fn, form, [allp[0], allp[1]])
        if typed:
            # the same function called as module.fn(receiver, ...) with the module as instance
            job(module, fn, "f", [recv, allp[1]], sample={"n": 200 if tier == "quick" else 20000, "seed": seed * 7919 + jid[0]})
        job(module, fn, form, [recv, allp[1], allp[2]], sample={"n": n3, "seed": seed * 104729 + jid[0]})
    return jobs


def describe_call(j, a):
    names = [P.POOL[i]["name"] for i in a]
    return {"module": j["module"], "fn": j["fn"], "form": j["form"], "args": names,
            "arg_sources": [P.POOL[i]["src"] for i in a]}


# --------------------------------------------------------------------------------------------
# source-text side

FRAGMENTS = [
    "x", "y", "f", "self", "1", "0", "-1", "1.5", "0x1f", "'a'", '"b"', "'{x}'", "'{x:>5.2}'", "r'raw'", "''", "true",
    "null", "(", ")", "[", "]", "{", "}", ",", ":", ";", ".", "..", "..=", "...", "=", "==", "!=", "<", "<=", ">",
    ">=", "+", "-", "*", "/", "%", "^", "+=", "-=", "*=", "/=", "%=", "^=", "->", "|", "||", "?", "@", "@+", "@test",
    "@main", "@type", "@meta", "_", "$", "#", "#-", "-#", "\\", "\n", "\n  ", "\n    ", "\n\t", " ", "  ", "if", "else",
    "else if", "then", "for", "in", "while", "until", "loop", "break", "continue", "return", "yield", "match",
    "switch", "try", "catch", "finally", "throw", "let", "export", "import", "from", "as", "and", "or", "not",
    "debug", "assert", "print", "size", "é", "😀", "x.y", "x[0]", "x()", "f x", "|x| x", "|a, b...|", "x: 1",
    "(1, 2)", "[1, 2]", "{a: 1}", "0..10", "x?", "'{", "}'", '"{x:', "\r\n", "\x00", "1e309", "0b", "0o9",
    "9999999999999999999999", "1.e", "\\\n", "'\\u{110000}'", "'\\x'", "'\\u{'", "'{x:{y}}'", "'{}'",
]


def corpus_sources():
    """all .koto files and fenced koto examples in the repository"""
    out = []
    files = []
    for root, dirs, fs in os.walk(C.REPO):
        dirs[:] = sorted(d for d in dirs if d not in ("target", ".git", "node_modules"))
        for f in sorted(fs):
            if f.endswith(".koto") or f.endswith(".md"):
                files.append(os.path.join(root, f))
    for p in files:
        try:
            text = open(p, encoding="utf-8").read()
        except (OSError, UnicodeDecodeError):
            continue
        rel = os.path.relpath(p, C.REPO)
        if p.endswith(".koto"):
            out.append((rel, text))
        else:
            for k, m in enumerate(re.finditer(r"```koto[^\n]*\n(.*?)```", text, re.S)):
                body = m.group(1)
                out.append((f"{rel}#{k}", body))
                cleaned = "\n".join(l.replace("print! ", "print ") for l in body.split("\n")
                                    if not l.lstrip().startswith(("check! ", "skip_check", "skip_run")))
                if cleaned != body:
                    out.append((f"{rel}#{k}c", cleaned))
    cdir = os.path.join(C.VERIF, "corpus", PID)
    if os.path.isdir(cdir):
        for f in sorted(os.listdir(cdir)):
            if f.endswith(".koto"):
                out.insert(0, ("corpus/" + f, open(os.path.join(cdir, f), encoding="utf-8").read()))
    return out


def calibrate_fillers(binp, tier):
    """bytes of bytecode per filler statement, measured by compiling two bodies of different size"""
    fillers = G.FILLERS[:3] if tier == "quick" else G.FILLERS
    jobs = []
    for k, f in enumerate(fillers):
        for m, n in enumerate((100, 300)):
            src = next(s for name, s in G.jump_programs(n, f) if name == "jump/if")
            jobs.append({"mode": "text", "id": 10 * k + m + 1, "src": src, "run": False, "all": True})
    lines, _ = run_jobs(binp, jobs)
    size = {l["j"]: l["o"].get("bytes") for l in lines if "o" in l and isinstance(l["o"], dict)}
    out = {}
    for k, f in enumerate(fillers):
        a, b = size.get(10 * k + 1), size.get(10 * k + 2)
        if a and b and b > a:
            out[f] = (b - a) / 200.0
    return out


def text_jobs(tier, seed, first_id, binp=None, entries=None):
    rng = C.Rng(seed ^ 0xC06)
    jobs = []
    jid = first_id
    srcs = corpus_sources()
    dist = {"corpus-file-or-example": len(srcs)}
    per_src = 24 if tier == "quick" else None
    for name, text in srcs:
        jid += 1
        jobs.append({"mode": "text", "id": jid, "src": text, "run": True, "origin": name, "cost": 3})
        if len(text) > 20000:
            continue            # very large generated programs are only run as given
        jid += 1
        ntok = max(1, len(text) // 4)
        jobs.append({"mode": "mutate", "id": jid, "src": text, "run": True, "origin": name,
                     "sample": {"n": per_src, "seed": rng.next() % (2 ** 32)} if per_src else None,
                     "cost": (per_src or 3 * ntok) * 3})
    n_soup = 2500 if tier == "quick" else 120000
    for _ in range(n_soup):
        n = 1 + rng.below(12)
        s = " ".join(rng.choice(FRAGMENTS) for _ in range(n)) if rng.chance(1, 2) else \
            "".join(rng.choice(FRAGMENTS) for _ in range(n))
        jid += 1
        jobs.append({"mode": "text", "id": jid, "src": s, "run": True, "origin": "soup", "cost": 2})
    dist["token-soup"] = n_soup
    n_noise = 1000 if tier == "quick" else 40000
    alphabet = [chr(c) for c in range(32, 127)] + ["\n", "\t", "\r", "\x00", "é", "😀", "́", " ", "﻿", "한"]
    for k in range(n_noise):
        if k % 2 == 0 or not srcs:
            s = "".join(rng.choice(alphabet) for _ in range(1 + rng.below(40)))
        else:
            # a corpus text with a few random character edits
            _, base = srcs[rng.below(len(srcs))]
            base = base[:1500]
            cs = list(base)
            for _ in range(1 + rng.below(4)):
                if not cs:
                    break
                pos = rng.below(len(cs))
                op = rng.below(3)
                if op == 0:
                    del cs[pos]
                elif op == 1:
                    cs.insert(pos, rng.choice(alphabet))
                else:
                    cs[pos] = rng.choice(alphabet)
            s = "".join(cs)
        jid += 1
        jobs.append({"mode": "text", "id": jid, "src": s, "run": True, "origin": "noise", "cost": 2})
    dist["char-noise"] = n_noise
    fam = G.format_family(tier, rng)
    dist["format-spec family (value x spec scripts)"] = len(fam)
    lim = G.limit_family(tier, rng)
    bps = calibrate_fillers(binp, tier) if binp else {}
    cal = G.calibrated_jump_programs(bps, tier, rng)
    dist["size-scaled limit family"] = len(lim)
    dist["jump-distance family (calibrated to 2^8 / 2^16 bytes)"] = len(cal)
    dist["bytes_per_filler_statement"] = {k: round(v, 2) for k, v in bps.items()}
    crl = G.crlf_family(tier, rng, srcs)
    dist["CRLF / mixed line-ending family (multi-line tokens before failing statements, pool, corpus)"] = len(crl)
    ree = G.reentrant_family(tier, rng, entries or [])
    dist["re-entrant callback family (callback reads / writes the receiver)"] = len(ree)
    for origin, entry, src in ree:
        jid += 1
        jobs.append({"mode": "text", "id": jid, "src": src, "run": True, "origin": origin, "entry": entry, "cost": 2})
    for origin, src in fam + lim + cal + crl:
        jid += 1
        jobs.append({"mode": "text", "id": jid, "src": src, "run": True, "origin": origin,
                     "cost": 2 + len(src) // 400})
    return jobs, dist


# --------------------------------------------------------------------------------------------
# the check


def classify_panic(chk, entry, rec, stats):
    """returns None if the panic is out of scope or a known finding, else a short description"""
    msg, at = rec.get("panic", ""), rec.get("at", "")
    if OUT_OF_SCOPE_PANIC.search(msg):
        stats["out_of_scope_memory"] += 1
        return None
    k = match_known(entry, msg, at)
    if k:
        chk.known(f"{k['id']} {k['what']}")
        stats["known"][k["id"]] = stats["known"].get(k["id"], 0) + 1
        return None
    return f"{entry}: panic '{msg[:160]}' at {at} (phase {rec.get('phase')})"


def entry_of(job, rec):
    if job["mode"] in ("calls", "repeat"):
        return f"{job['module']}.{job['fn']}"
    if job.get("entry") and rec.get("phase") in ("run", "display", "run-error-display"):
        return job["entry"]
    return "text:" + str(rec.get("phase"))


def sweep(chk, binp, tier, seed, modelled_jobs=None):
    """D-side.  returns (failures, stats, lines_by_job, jobs_by_id)"""
    lines, inc = run_jobs(binp, [{"mode": "list", "id": 1}])
    entries = next((l["entries"] for l in lines if "entries" in l), None)
    stats = {"known": {}, "out_of_scope_memory": 0, "hangs": 0, "stack_overflows": 0, "out_of_memory_aborts": 0}
    if not entries:
        return [("harness", {"kind": "obligation", "note": "kh_safe could not enumerate the prelude"})], stats, {}, {}, {}
    jobs = call_jobs(entries, tier, seed)
    first = max(j["id"] for j in jobs) + 1
    extra = []
    for k, (module, fn, args, times) in enumerate(REPEAT_CASES):
        extra.append({"mode": "repeat", "id": first + k, "module": module, "fn": fn, "form": "f",
                      "args": [P.INDEX[a] for a in args], "times": times, "cost": 50})
    first += len(extra) + 1
    tjobs, tdist = text_jobs(tier, seed, first, binp, entries)
    mjobs = modelled_jobs(first + len(tjobs) + 10) if modelled_jobs else []
    alljobs = jobs + extra + tjobs + mjobs
    byid = {j["id"]: j for j in alljobs}
    t0 = time.time()
    calls_like = jobs + extra + mjobs
    progress(f"sweep: {len(calls_like)} call jobs ({sum(j.get('cost', 1) for j in calls_like)} calls), "
             f"{len(tjobs)} text jobs")
    lines, inc = run_jobs(binp, calls_like, watchdog_ms=5000, label="core-library calls")
    l2, i2 = run_jobs(binp, tjobs, watchdog_ms=5000 if tier == "quick" else 15000, label="source texts")
    lines += l2
    inc += i2
    stats["sweep_wall_s"] = round(time.time() - t0, 1)
    fails = []
    hist = {}
    per_kind = {"calls": 0, "text": 0, "mutate": 0, "repeat": 0}
    bylines = {}
    for l in lines:
        j = byid.get(l.get("j"))
        if j is None:
            continue
        if "hist" in l:
            per_kind[j["mode"]] += l.get("done", 0)
            for k, v in l["hist"].items():
                kk = ("call " if j["mode"] in ("calls", "repeat") else "text ") + k
                hist[kk] = hist.get(kk, 0) + v
        if j.get("all") and ("o" in l or "panic" in l):
            bylines.setdefault(j["id"], []).append(l)
        if "panic" in l:
            entry = entry_of(j, l)
            why = classify_panic(chk, entry, l, stats)
            if why:
                if j["mode"] in ("calls", "repeat"):
                    a = l.get("a", j.get("args", []))
                    payload = {"kind": "input", "case": "call", **describe_call(j, a), "panic": l["panic"],
                               "at": l["at"], "phase": l.get("phase")}
                    if j["mode"] == "repeat":
                        payload["times"] = j["times"]
                    size = len(a) * 1000 + sum(len(P.POOL[i]["src"]) for i in a)
                else:
                    payload = {"kind": "input", "case": "text", "src": l.get("src", j.get("src")), "run": True,
                               "origin": j.get("origin"), "mutation": l.get("mut"), "panic": l["panic"],
                               "at": l["at"], "phase": l.get("phase")}
                    size = 10 ** 6 + len(payload["src"] or "")
                fails.append((size, why, payload))
    others = []
    for i in inc:
        j = byid.get(i["j"])
        what = None
        if j is not None:
            what = f"{j['module']}.{j['fn']}" if j["mode"] in ("calls", "repeat") else j.get("origin")
        if i["kind"] == "hang":
            stats["hangs"] += 1
            stats.setdefault("hang_samples", [])
            if len(stats["hang_samples"]) < 12:
                stats["hang_samples"].append(f"{what} case {i['i']}")
        elif i["kind"] == "stack-overflow":
            stats["stack_overflows"] += 1
        elif i["kind"] == "out-of-memory":
            stats["out_of_memory_aborts"] += 1
        elif i["kind"] == "lost":
            stats["worker_restarts_at_startup"] = stats.get("worker_restarts_at_startup", 0) + 1
        else:
            others.append(i)
            # a process that dies otherwise (e.g. a panic while panicking) is a failing input
            payload = {"kind": "input", "case": "abort", "job": {k: v for k, v in (j or {}).items() if k != "pools"},
                       "index": i["i"], "rc": i["rc"], "stderr": i["stderr"]}
            fails.append((5 * 10 ** 6, f"worker died (rc {i['rc']}) in {what} case {i['i']}: {i['stderr'][-200:]}", payload))
    stats["distribution"] = {"core-library calls": per_kind["calls"], "repeat-on-one-vm": per_kind["repeat"],
                             "text as given": per_kind["text"], "single-token mutants": per_kind["mutate"], **tdist}
    stats["outcome_histogram"] = hist
    stats["entry_points"] = sum(1 for e in entries if e["kind"] == "fn" and (e["module"], e["name"]) not in EXCLUDED_ENTRIES)
    stats["entry_points_by_module"] = {}
    for e in entries:
        if e["kind"] == "fn":
            stats["entry_points_by_module"][e["module"]] = stats["entry_points_by_module"].get(e["module"], 0) + 1
    return fails, stats, bylines, byid, {"entries": entries}


# the same failing call repeated on ONE vm (host API): (module, fn, pool args, times)
REPEAT_CASES = [
    ("number", "abs", ["s_a"], 300),
]


def run(tier, seed):
    chk = C.Check(PID, tier, seed, "partial")
    axioms = []
    # ---- T
    try:
        from checks import c06_model as M
    except ImportError:
        M = None
    model_ok = False
    progress(f"tier {tier}, seed {seed}: building coq/safe and checking the pinned theorems")
    if M is not None:
        model_ok, axioms = M.theorems(chk)
    progress("theorems done; building kh_safe")

    # ---- D (+ the implementation side of R)
    binp, blog = C.build_harness("kh_safe")
    if not binp:
        chk.log("harness build failed:\n" + blog[-3000:])
        chk.violation("build", {"kind": "obligation", "correspondence": "kh_safe does not build against the checkout",
                                "log": blog[-3000:]}, no_input=True)
        return chk.finish("n/a")
    mj = (lambda first: M.jobs(tier, seed, first)) if (M is not None and model_ok) else None
    fails, stats, bylines, byid, info = sweep(chk, binp, tier, seed, mj)
    chk.evaluations = sum(v for v in stats.get("distribution", {}).values() if isinstance(v, int))
    n_nontrivial = sum(v for k, v in stats.get("outcome_histogram", {}).items()
                       if k in ("call ok",) or "compile=true" in k)

    chk.nontrivial = set(range(n_nontrivial))

    # ---- R
    disagreements = []
    if M is not None and model_ok:
        progress("sweep done; evaluating the models on the same argument tuples (coqc, vm_compute)")
        disagreements = M.compare(chk, bylines, byid)
        progress("correspondence done")
    elif M is not None:
        chk.oblige("corr:model-vs-core-library outcome classes", False, "model unavailable")

    # ---- verdict
    if fails:
        fails.sort(key=lambda f: f[0])
        seen = set()
        n = 0
        for size, why, payload in fails:
            site = (payload.get("at"), payload.get("module"), payload.get("fn"), payload.get("phase"))
            if site in seen:
                continue
            seen.add(site)
            n += 1
            if n <= 12:
                payload["others_total"] = len(fails)
                payload["how_to_rerun"] = "./check C06 --replay <this file>"
                chk.violation(f"input{n}", payload)
                chk.log("panic: " + why)
        chk.log(f"{len(fails)} panicking inputs outside the known classes, {len(seen)} distinct sites")
    broken = [o for o in chk.obligations if not o[1]]
    if broken and not fails:
        payload = {"kind": "obligation", "broken": [o[0] + (": " + o[2] if o[2] else "") for o in broken]}
        if disagreements:
            payload["smallest_disagreement"] = disagreements[0]
            payload["note"] = ("no panic outside the known classes was found, but the real functions no longer "
                               "behave like the models the theorems are about")
        chk.violation("obligation", payload, no_input=True)

    excl = {"never_called": {f"{m}.{f}": why for (m, f), why in EXCLUDED_ENTRIES.items()},
            "endless_or_2^63_long_iterables_not_given_to": {m: fs for m, fs in CONSUMERS.items()},
            "numbers_of_magnitude_>=2^20_not_given_to (allocation size)": BIG_ALLOC,
            "programs_not_run (compile/format only) when the text mentions": ["command", "io.create", "remove_file",
                                                                             "io.open", "read_to_string", "stdin",
                                                                             "tempfile", "import"]}
    tb = ["Coq 8.16.1 kernel (coqc)",
          "axioms reported by Print Assumptions: " + (", ".join(axioms) if axioms else "none (closed under the global context)"),
          "hand-written Gallina models of the modelled entry points (coq/safe/*Core.v), tied to the code only by the "
          "outcome-class correspondence on the boundary pool",
          "kh_safe (Rust harness: catch_unwind per case, watchdog, progress file) and checks/c06.py",
          "debug-profile build of the koto crates (overflow-checks and debug-assertions on)"]
    chk.notes.append("PARTIAL: panic-freedom is proved only for the modelled entry points; for the parser, compiler, "
                     "formatter, VM and all other native functions the sweep can exhibit a panic but cannot show absence")
    chk.notes.append("hangs (watchdog) and aborts caused by stack or memory exhaustion are outside C06 and only counted")
    return chk.finish(
        rule="calls: every function found in the prelude's modules at run time x argument tuples (arity 0..2 complete "
             "over the pool in the thorough tier, typed receivers + samples in the quick tier; arity 3 sampled) from a "
             f"{len(P.POOL)}-value boundary pool, as method call and as module function; text: every .koto file and "
             "fenced koto example of the checkout, their single-token delete/duplicate/swap neighbourhood (sampled in "
             "the quick tier), token soups, character noise -> compile, parse, format (2 option sets, plus re-format), "
             "error Display, run (100 ms limit) and value display; non-trivial = the call returned a value / the "
             "text compiled",
        explanation="panic-freedom theorems for the modelled primitives; outcome-class equality model vs real function; "
                    "'no panic' evaluated directly on every explored call and text",
        trusted_base=tb,
        extra={"distinct_nontrivial": n_nontrivial, "exhaustive": False, "sweep": stats, "exclusions": excl,
               "model_impl_disagreements": len(disagreements), "pool": [p["name"] for p in P.POOL],
               "known_classes": [{k2: v for k2, v in k.items()} for k in KNOWN]})


def replay(path, args):
    data = json.load(open(path))
    if data.get("kind") == "obligation" or "case" not in data:
        print("replay file names an obligation, not an input:", json.dumps(data.get("broken")))
        return run("quick", data.get("seed", 1))
    binp, blog = C.build_harness("kh_safe")
    if not binp:
        print(blog[-2000:])
        return 3
    if data["case"] == "call":
        items = [[P.INDEX[a]] for a in data["args"]]
        if "times" in data:
            job = {"mode": "repeat", "id": 1, "module": data["module"], "fn": data["fn"], "form": "f",
                   "args": [i[0] for i in items], "times": data["times"]}
        else:
            job = {"mode": "calls", "id": 1, "module": data["module"], "fn": data["fn"], "form": data["form"],
                   "pools": items, "all": True}
        entry = f"{data['module']}.{data['fn']}"
    elif data["case"] == "text":
        job = {"mode": "text", "id": 1, "src": data["src"], "run": data.get("run", True), "all": True}
        entry = None
    else:
        print("this replay recorded a dying worker; re-running the whole check")
        return run("quick", data.get("seed", 1))
    lines, inc = run_jobs(binp, [job])
    rc = 0
    for l in lines:
        if "hist" in l:
            continue
        print(json.dumps(l, ensure_ascii=False))
        if "panic" in l:
            e = entry or "text:" + str(l.get("phase"))
            k = None if OUT_OF_SCOPE_PANIC.search(l["panic"]) else match_known(e, l["panic"], l["at"])
            if OUT_OF_SCOPE_PANIC.search(l["panic"]):
                print("memory exhaustion: outside C06")
            elif k:
                print(f"KNOWN-FINDING: property={PID} {k['id']} {k['what']}")
            else:
                rc = 1
    for i in inc:
        print("worker incident:", json.dumps(i))
        if i["kind"] == "abort":
            rc = 1
    if rc:
        print(f"VIOLATION property={PID} replay={path}")
    else:
        print("no panic outside the known classes on this input")
    return rc
