"""C12  Diagnostics identify the right source location.

T  theorems in coq/diag/C12Props.v about impl-shaped models of DebugInfo (source map), format_source_excerpt,
   pop_call_stack_on_error (trace) and the debug prefix -- for all push sequences / texts / spans / call stacks
R  correspondence: the models (vm_compute) vs the real DebugInfo / format_source_excerpt / VM trace on the same inputs
D  the property's clauses evaluated on koto's own diagnostics for fault-planted programs and token-broken programs
"""
import json
import os
import re

from vlib import common as C

PID = "C12"
UNIT = "diag"

PINNED = [
    "lookup_latest", "lookup_prefix", "lookup_unsorted_refuted",
    "excerpt_quotes_lines", "excerpt_total", "excerpt_panics_refuted",
    "trace_shape", "trace_order", "trace_caught", "trace_matches_call_stack", "dedup_trace_refuted",
    "debug_prefix_line",
    "span_stack_balanced", "op_span_owner", "span_leak_refuted",
    "fault_ip_current", "resume_without_refresh_refuted",
]

HEADER = "From KV.diag Require Import DiagModel DiagRun.\nOpen Scope N_scope.\n"


# =====================================================================================
# program generator: statements of every kind on known lines, one planted fault


class Prog:
    def __init__(self, rng):
        self.rng = rng
        self.lines = []
        self.n = 0
        self.debugs = {}       # scope key -> [(line, expr_src)] in execution order
        self.kinds = set()

    def fresh(self, p="v"):
        self.n += 1
        return f"{p}{self.n}"

    def emit(self, ls):
        at = len(self.lines)
        self.lines += ls
        return at


INT_EXPRS = ["{a}", "{a} + 1", "{a} * 2 - 1", "({a} + 3) % 5", "1 + 2 * 3", "-{a}", "{a}.abs()", "7"]


def int_expr(rng, ints):
    a = rng.choice(ints) if ints else "4"
    return rng.choice(INT_EXPRS).format(a=a)


def gen_stmt(P, ind, ints, scope, allow_debug=True):
    """appends one statement of a random kind at indentation `ind` (a string of spaces);
    `ints`: names of int-valued locals usable here (extended in place)"""
    rng = P.rng
    k = rng.below(39)
    i2 = ind + "  "
    i4 = ind + "    "
    e = lambda: int_expr(rng, ints)
    v = P.fresh()

    def done(kind, ls, newint=None):
        P.kinds.add(kind)
        P.emit(ls)
        if newint:
            ints.append(newint)

    if k == 0:
        return done("assign", [f"{ind}{v} = {e()}"], v)
    if k == 1:
        return done("multiline-list", [f"{ind}{v} = [", f"{i2}{e()},", f"{i2}{e()},", f"{ind}]"])
    if k == 2:
        return done("map-block", [f"{ind}{v} =", f"{i2}aa: {e()}", f"{i2}bb: {e()}"])
    if k == 3:
        return done("multiline-call", [f"{ind}{v} = ({e()}).max(", f"{i4}{e()}", f"{ind})"], v)
    if k == 4:
        return done("interp", [f"{ind}{v} = 'x{{{e()}}}y {{{e()}}}'"])
    if k == 5:
        return done("format-opts", [f"{ind}{v} = \"{{{e()}:>5}} {{{e()}:_^8.2}}\""])
    if k == 6:
        # a line break as the fill character of the format options (the lexer defect fixed in 01811f5)
        return done("format-newline-fill", [f"{ind}{v} = \"{{{e()}:", "<3}\""])
    if k == 7:
        return done("multiline-string", [f"{ind}{v} = 'abc", f"{i4}def {{{e()}}}", "  ghi'"])
    if k == 8:
        return done("comment", [f"{ind}# a comment {rng.below(100)} héllo 한글"])
    if k == 9:
        return done("multiline-comment", [f"{ind}#- a comment", f"over {rng.below(9)} lines", f"{ind}-#"])
    if k == 10:
        return done("blank", [""] * (1 + rng.below(2)))
    if k == 11:
        g = P.fresh("g")
        return done("nested-fn", [f"{ind}{g} = |p|", f"{i2}q = p + 1", f"{i2}# inside", f"{i2}q * 2", f"{ind}{v} = {g} {e()}"], v)
    if k == 12:
        return done("if-else", [f"{ind}if {e()} > 2", f"{i2}{v} = 1", f"{ind}else if {e()} > 100", f"{i2}{v} = 3", f"{ind}else", f"{i2}{v} = 2"], v)
    if k == 13:
        return done("inline-if", [f"{ind}{v} = if {e()} > 2 then 1 else 2"], v)
    if k == 14:
        return done("for", [f"{ind}{v} = 0", f"{ind}for i in 0..3", f"{i2}{v} += i"], v)
    if k == 15:
        return done("while", [f"{ind}{v} = 0", f"{ind}while {v} < 2", f"{i2}{v} += 1"], v)
    if k == 16:
        return done("match", [f"{ind}{v} = match {e()}", f"{i2}0 then 10", f"{i2}1 or 2 then 20", f"{i2}n if n > 50 then 30", f"{i2}else 40"], v)
    if k == 17:
        return done("switch", [f"{ind}{v} = switch", f"{i2}{e()} > 100 then 1", f"{i2}else 2"], v)
    if k == 18:
        return done("try-catch", [f"{ind}try", f"{i2}throw 'swallowed'", f"{ind}catch err", f"{i2}{v} = 1"])
    if k == 19:
        return done("try-finally", [f"{ind}try", f"{i2}[1, 2][9]", f"{ind}catch _", f"{i2}null", f"{ind}finally", f"{i2}{v} = 2"])
    if k == 20:
        return done("multiline-binop", [f"{ind}{v} = {e()} +", f"{i4}{e()}"], v)
    if k == 21:
        return done("chain-multiline", [f"{ind}{v} = [1, 2, 3]", f"{i2}.each |x| x + {e()}", f"{i2}.to_tuple()"])
    if k == 22 and allow_debug:
        ex = e()
        P.debugs.setdefault(scope, []).append((len(P.lines), ex))
        return done("debug", [f"{ind}debug {ex}"])
    if k == 23 and allow_debug:
        a, b = e(), e()
        ex = f"({a} +\n{i4}{b})"
        P.debugs.setdefault(scope, []).append((len(P.lines), ex))
        return done("debug-multiline", [f"{ind}debug ({a} +", f"{i4}{b})"])
    if k == 24:
        return done("assert-ok", [f"{ind}assert {e()} == {e()} or true"])
    if k == 25:
        w = P.fresh()
        return done("unpack", [f"{ind}{v}, {w} = {e()}, {e()}"], v)
    if k == 26:
        return done("index", [f"{ind}{v} = [1, 2, 3][1]", f"{ind}{v} = [1, 2, 3][1..][0]"], v)
    if k == 27:
        return done("let", [f"{ind}let {v}: Number = {e()}"], v)
    if k == 28:
        return done("loop-break", [f"{ind}{v} = 0", f"{ind}loop", f"{i2}{v} += 1", f"{i2}if {v} > 2", f"{i4}break"], v)
    if k == 29:
        return done("raw-string", [f"{ind}{v} = r'raw {{x}} \\n'", f"{ind}{v} = r#'a'b'#"])
    if k == 30:
        return done("string-continuation", [f"{ind}{v} = 'abc \\", f"{i4}def'"])
    if k == 31:
        g = P.fresh("g")
        return done("closure-multiline", [f"{ind}{g} = |p, q = 2|", f"{i2}r = [", f"{i4}p,", f"{i4}q,", f"{i2}]", f"{i2}\"{{r[0]}}:", "^3}\"", f"{ind}{v} = {g}(1)"])
    if k == 32:
        return done("whitespace-line", [ind + "  "])
    # tokens that contain line breaks, with LF and with CR LF INSIDE the token even when the file's own line ends are
    # LF (each kind of multi-line token has its own line counting code in the lexer)
    cr = "\r" if rng.chance(1, 2) else ""
    if k == 34:
        return done("multiline-raw-string" + ("-crlf" if cr else ""), [f"{ind}{v} = r'alpha{cr}", f"beta {{x}}{cr}", "gamma'"])
    if k == 35:
        return done("multiline-raw-string-hash" + ("-crlf" if cr else ""), [f"{ind}{v} = r#'al'pha{cr}", f"  beta'#"])
    if k == 36:
        return done("multiline-string" + ("-crlf" if cr else ""), [f"{ind}{v} = \"abc{cr}", f"{i4}def {{{e()}}}{cr}", "  ghi\""])
    if k == 37:
        return done("multiline-comment" + ("-crlf" if cr else ""), [f"{ind}#- a comment{cr}", f"over {rng.below(9)} lines{cr}", f"{ind}-#"])
    if k == 38:
        return done("format-newline-fill" + ("-crlf" if cr else ""), [f"{ind}{v} = \"{{{e()}:{cr}", "<3}\""])
    return done("trailing-comment", [f"{ind}{v} = {e()} # trailing"], v)


# fault kinds: (name, lines-builder(ind, a, extra) -> (lines, offset of the faulting line), expected error classes)
def fault_lines(kind, ind, a, tag, helper):
    i4 = ind + "    "
    if kind == "throw":
        return [f"{ind}throw 'boom{tag}'"], 0
    if kind == "index":
        return [f"{ind}z = [1, 2][{a} + 7]"], 0
    if kind == "binop":
        return [f"{ind}z = {a} + null"], 0
    if kind == "binop-multiline":
        return [f"{ind}z = {a} +", f"{i4}null"], 0
    if kind == "assert":
        return [f"{ind}assert {a} == 99"], 0
    if kind == "assert-eq":
        return [f"{ind}assert_eq {a}, 99"], 0
    if kind == "argcount":
        return [f"{ind}z = {helper} 1"], 0
    if kind == "let-type":
        return [f"{ind}let z: String = {a}"], 0
    if kind == "not-found":
        return [f"{ind}z = {a}.frobnicate()"], 0
    if kind == "not-callable":
        return [f"{ind}z = {a}()"], 0
    if kind == "native-args":
        return [f"{ind}z = string.to_uppercase {a}"], 0
    if kind == "index-type":
        return [f"{ind}z = [1, 2]['k']"], 0
    if kind == "in-list":
        return [f"{ind}z = [", f"{i4}1,", f"{i4}{a} + null,", f"{ind}]"], 2
    if kind == "in-if":
        return [f"{ind}if {a} < 1000", f"{ind}  throw 'boom{tag}'"], 1
    if kind == "in-for":
        return [f"{ind}for q in 0..2", f"{ind}  z = [1][q + 3]"], 1
    if kind == "interp":
        return [f"{ind}z = 'a {{{a} + null}} b'"], 0
    if kind == "after-newline-fill":
        # the fault sits directly after a string whose format options contain a line break
        return [f"{ind}s = \"{{{a}:", "<3}\"", f"{ind}throw 'boom{tag}'"], 2
    # an operator / call emitted AFTER a chain expression that sits on a later line (the chain compiler keeps its own
    # span stack bookkeeping: a leaked span would move these reports to the later line)
    if kind == "binop-before-chain":
        return [f"{ind}z = null +", f"{i4}{a}.abs()"], 0
    if kind == "binop-paren-chain":
        return [f"{ind}z = (null +", f"{i4}{a}.abs()) * 2"], 0
    if kind == "chain-then-binop":
        return [f"{ind}z = {a}.abs() +", f"{i4}null"], 0
    if kind == "argcount-multiline":
        return [f"{ind}z = {helper}(", f"{i4}{a}.abs()", f"{ind})"], 0
    if kind == "assert-multiline":
        return [f"{ind}assert {a}.abs() ==", f"{i4}{a}.abs() + 99"], 0
    if kind == "negate-multiline":
        # regression guard for the fixed C12a: it used to be reported on the line of the operand's last token
        return [f"{ind}z = -(", f"{i4}'s{tag}'", f"{ind})"], 0
    if kind == "negate":
        return [f"{ind}z = -('s{tag}'.to_uppercase())"], 0
    if kind == "rethrow":
        return [f"{ind}try", f"{ind}  throw 'inner'", f"{ind}catch err", f"{ind}  throw 'boom{tag}'"], 3
    raise ValueError(kind)


FAULTS = {
    "throw": None, "index": {"EIndex"}, "binop": {"EBinaryOp"}, "binop-multiline": {"EBinaryOp"},
    "assert": {"EAssert"}, "assert-eq": {"EAssert", "EString"}, "argcount": {"EArgs"},
    "let-type": {"EType", "EString"}, "not-found": {"ENotFound", "EString"}, "not-callable": {"EType", "EString"},
    "native-args": {"EArgs"}, "index-type": {"EType", "EString", "EIndex"}, "in-list": {"EBinaryOp"},
    "in-if": None, "in-for": {"EIndex"}, "interp": {"EBinaryOp"}, "after-newline-fill": None, "rethrow": None,
    "binop-before-chain": {"EBinaryOp"}, "binop-paren-chain": {"EBinaryOp"}, "chain-then-binop": {"EBinaryOp"},
    "argcount-multiline": {"EArgs"}, "assert-multiline": {"EAssert"},
    "negate-multiline": {"EType", "EString"}, "negate": {"EType", "EString"},
}
# classes of known findings (fault kind -> text); empty: C12a (Negate node had only its last token's span) was fixed
# in /repo, the `negate-multiline` kind and its corpus witness are ordinary cases now
KNOWN_FAULTS = {}
FAULT_KINDS = sorted(FAULTS)

# call forms: lines-builder -> (lines, [offsets of the frames this call contributes, innermost first], plain?)
CALL_FORMS = ["plain", "parens", "in-expr", "return", "in-if", "in-for", "multiline-args", "in-list", "pipe",
              "in-expr-multiline",
              "each-to-list", "overload", "display"]


def call_lines(form, ind, callee, a, P):
    i2 = ind + "  "
    i4 = ind + "    "
    if form == "plain":
        return [f"{ind}r = {callee} {a}"], [0], True
    if form == "parens":
        return [f"{ind}r = {callee}({a})"], [0], True
    if form == "in-expr":
        return [f"{ind}r = 1 + {callee}({a} + 1) * 2"], [0], True
    if form == "return":
        return [f"{ind}return {callee} {a}"], [0], True
    if form == "in-if":
        return [f"{ind}if {a} < 1000", f"{i2}r = {callee} {a}"], [1], True
    if form == "in-for":
        return [f"{ind}for w in 5..7", f"{i2}r = {callee} w"], [1], True
    if form == "multiline-args":
        return [f"{ind}r = {callee}(", f"{i4}{a}", f"{ind})"], [0], True
    if form == "in-list":
        return [f"{ind}r = [", f"{i4}0,", f"{i4}{callee}({a}),", f"{ind}]"], [2], True
    if form == "pipe":
        return [f"{ind}r = {a} -> {callee}"], [0], True
    if form == "in-expr-multiline":
        return [f"{ind}r = 1 +", f"{i4}{callee}({a}.abs())"], [1], True
    if form == "each-to-list":
        # the closure's call, the `each` and the `to_list` instructions: three frames on one line
        return [f"{ind}r = (1..2).each(|i| {callee} i).to_list()"], [0, 0, 0], False
    if form == "overload":
        m = P.fresh("m")
        return [f"{ind}{m} =", f"{i2}@+: |other| {callee} other", f"{ind}r = {m} + {a}"], [1, 2], False
    if form == "display":
        # the call happens while a string interpolation displays a value with @display
        m = P.fresh("m")
        return [f"{ind}{m} =", f"{i2}@display: || 'v{{{callee} {a}}}'", f"{ind}r = 'x {{{m}}} y'"], [1, 2], False
    raise ValueError(form)


# ---- generators: where the payload (the fault, or the call towards it) sits relative to the yields of a generator
# body, and how the generator is consumed.  (mode -> number of resumes needed to reach the payload)
GEN_MODES = {"before-yield": 1, "after-yield": 2, "after-yield-debug": 2, "later-after-yield": 2, "in-yield-loop": 2,
             "after-second-yield": 3, "in-yield-loop-conditional": 3}
GEN_MODE_NAMES = sorted(GEN_MODES)
CONSUMERS = ["gen-for", "gen-next", "gen-to-list", "gen-adaptor", "gen-keep", "gen-wrapper"]


def consumer_lines(form, ind, callee, a, n_resume, P, in_generator):
    """returns (lines, frame offsets innermost first, crossing): `crossing` = the error passes through a `for`
    (IterNext) and arrives as text: the generator's frames are in the rendered message, not in Error.trace"""
    i2 = ind + "  "
    body = "yield x" if in_generator else "y = x"
    if form == "gen-for":
        return [f"{ind}for x in {callee} {a}", f"{i2}{body}"], [0], True
    if form == "gen-next":
        g = P.fresh("g")
        return [f"{ind}{g} = {callee} {a}"] + [f"{ind}{g}.next()"] * n_resume, [n_resume], False
    if form == "gen-to-list":
        return [f"{ind}r = {callee}({a}).to_list()"], [0], False
    if form == "gen-adaptor":
        return [f"{ind}r = {callee}({a}).each(|x| x).to_tuple()"], [0], False
    if form == "gen-keep":
        return [f"{ind}r = {callee}({a})", f"{i2}.keep |x| true", f"{i2}.to_list()"], [2], False
    if form == "gen-wrapper":
        w = P.fresh("w")
        return [f"{ind}{w} =", f"{i2}g: {callee} {a}", f"{i2}@next: || self.g.next()", f"{ind}for x in {w}",
                f"{i2}{body}"], [2, 3], True
    raise ValueError(form)


def generator_body(P, mode, payload, ints, scope, nst):
    """emits the body of a generator function (indent 2) around `payload(ind) -> (lines, offsets...)`;
    returns what payload returned with absolute line numbers"""
    def fill(n):
        for _ in range(n):
            gen_stmt(P, "  ", ints, scope)

    def put(ind):
        res = payload(ind)
        at = P.emit(res[0])
        return at, res

    fill(nst())
    if mode == "before-yield":
        at, res = put("  ")
        P.emit(["  yield a"])
    elif mode == "after-yield":
        P.emit(["  yield a"])
        at, res = put("  ")
        P.emit(["  yield a + 1"])
    elif mode == "after-yield-debug":
        P.emit(["  yield a"])
        P.debugs.setdefault(scope, []).append((len(P.lines), "a"))
        P.emit(["  debug a"])
        at, res = put("  ")
    elif mode == "later-after-yield":
        P.emit(["  yield a"])
        fill(1 + nst())
        at, res = put("  ")
    elif mode == "in-yield-loop":
        P.emit(["  for i in 0..3", "    yield i"])
        at, res = put("    ")
    elif mode == "after-second-yield":
        P.emit(["  yield a", "  yield a + 1"])
        at, res = put("  ")
    elif mode == "in-yield-loop-conditional":
        P.emit(["  for i in 0..3", "    yield i", "    if i == 1"])
        at, res = put("      ")
    else:
        raise ValueError(mode)
    return at, res


def gen_program(rng, depth=None, fault=None, nstmts=None, forms=None, crlf=False, gens=None, consumers=None):
    """returns dict(src, expect=[0-based lines, innermost first], fault kind, classes, debug=[(line, expr)], plain).
    gens: {k: generator mode} makes f_k a generator (None: random, {}: none)"""
    P = Prog(rng)
    depth = rng.below(5) if depth is None else depth
    fault = rng.choice(FAULT_KINDS) if fault is None else fault
    tag = rng.below(1000)
    nst = (lambda: rng.below(4)) if nstmts is None else (lambda: nstmts)
    if gens is None:
        gens = {k: rng.choice(GEN_MODE_NAMES) for k in range(1, depth + 1) if rng.chance(1, 3)} if rng.chance(1, 2) else {}
    helper = "hlp"
    P.emit([f"{helper} = |p, q| p"])
    call_offsets = {}     # k -> list of absolute lines contributed by the call in frame k-1 to f_k
    plain = True
    crossing = False
    fault_line = None
    top_ints = []

    yields_before = {}    # k -> number of values generator f_k yields before the planted fault is reached
    reyield = {}          # k -> values of f_k re-yielded by its consumer (a `for` inside a generator body)

    def call_payload(k, ind, arg, in_generator):
        """lines of the call from frame k-1 to f_k"""
        nonlocal plain, crossing
        if k in gens:
            form = rng.choice(consumers or CONSUMERS)
            ls, offs, cr = consumer_lines(form, ind, f"f{k}", arg, yields_before[k] + 1, P, in_generator)
            reyield[k] = yields_before[k] if (in_generator and form in ("gen-for", "gen-wrapper")) else 0
            plain = False
            crossing = crossing or cr
        else:
            allowed = [f for f in (forms or CALL_FORMS) if not (f == "return" and (k == 1 or in_generator))] or ["plain"]
            form = rng.choice(allowed)
            ls, offs, pl = call_lines(form, ind, f"f{k}", arg, P)
            plain = plain and pl
        P.kinds.add("call:" + form)
        return ls, offs

    # functions deepest first: f_depth holds the fault; f_k calls f_{k+1}
    for k in range(depth, 0, -1):
        for _ in range(nst()):
            gen_stmt(P, "", top_ints, 0)
        P.emit([f"f{k} = |a|"])
        ints = ["a"]
        is_gen = k in gens
        if k == depth:
            payload = lambda ind: fault_lines(fault, ind, "a", tag, helper)
        else:
            payload = lambda ind, k=k, is_gen=is_gen: call_payload(k + 1, ind, "a", is_gen)
        if is_gen:
            P.kinds.add("generator:" + gens[k])
            at, res = generator_body(P, gens[k], payload, ints, k, nst)
            yields_before[k] = GEN_MODES[gens[k]] - 1 + (reyield.get(k + 1, 0) if k < depth else 0)
        else:
            for _ in range(nst()):
                gen_stmt(P, "  ", ints, k)
            res = payload("  ")
            at = P.emit(res[0])
        if k == depth:
            fault_line = at + res[1]
        else:
            call_offsets[k + 1] = [at + o for o in res[1]]
            P.emit(["  yield 0" if is_gen else "  0"])
        if rng.chance(1, 2):
            gen_stmt(P, "  ", ints, -1, allow_debug=False)   # after the fault: never executed
    for _ in range(nst() + (1 if depth == 0 else 0)):
        gen_stmt(P, "", top_ints, 0)
    if depth == 0:
        ls, off = fault_lines(fault, "", rng.choice(top_ints) if top_ints else "5", tag, helper)
        at = P.emit(ls)
        fault_line = at + off
    else:
        ls, offs = call_payload(1, "", rng.choice(top_ints) if top_ints else "5", False)
        at = P.emit(ls)
        call_offsets[1] = [at + o for o in offs]
    for _ in range(rng.below(3)):
        gen_stmt(P, "", top_ints, -1, allow_debug=False)
    expect = [fault_line]
    for k in range(depth, 0, -1):
        expect += call_offsets[k]
    nl = "\r\n" if crlf else "\n"
    src = nl.join(l.rstrip("\r") if crlf else l for l in P.lines) + (nl if rng.chance(3, 4) else "")
    dbg = list(P.debugs.get(0, []))
    for k in range(1, depth + 1):
        dbg += P.debugs.get(k, [])
    dbg = [(l, x.replace("\n", nl)) for l, x in dbg]
    classes = FAULTS[fault]
    if classes is None:
        classes = {f'EThrown(s"boom{tag}")'}
    out = {"m": "run", "src": src, "expect": expect, "fault": fault, "classes": sorted(classes), "debug": dbg,
           "plain": plain, "crossing": crossing, "depth": depth, "kinds": sorted(P.kinds), "crlf": crlf,
           "generators": {str(k): v for k, v in gens.items()}}
    if fault in KNOWN_FAULTS:
        out["known"] = KNOWN_FAULTS[fault]
    return out


# ---- recursion: traces whose adjacent frames are legitimately identical (same chunk, same call instruction)
REC_SHAPES = ["single-site", "in-loop", "two-sites", "in-if-else", "adaptor-callback", "generator", "via-outer"]
REC_FAULTS = ["throw", "index", "binop", "assert", "argcount", "not-callable"]


def gen_recursive(rng, shape=None, fault=None, depth=None, nstmts=None, crlf=False, fail_at=None):
    """a function that calls itself `depth` times before the planted fault fires at recursion level `fail_at`
    (counting down from `depth`); the expected trace has ONE entry per active call, innermost first"""
    P = Prog(rng)
    shape = rng.choice(REC_SHAPES) if shape is None else shape
    fault = rng.choice(REC_FAULTS) if fault is None else fault
    depth = 2 + rng.below(5) if depth is None else depth      # number of recursive calls on the stack when it fails
    tag = rng.below(1000)
    nst = (lambda: rng.below(3)) if nstmts is None else (lambda: nstmts)
    top_ints = []
    P.emit(["hlp = |p, q| p"])
    for _ in range(nst()):
        gen_stmt(P, "", top_ints, 0)
    P.emit(["rec = |lvl|"])
    ints = ["lvl"]
    n_debug = 0
    if rng.chance(1, 2):
        P.emit(["  debug lvl"])
        dbg_line = len(P.lines) - 1
        n_debug = 1
    for _ in range(nst()):
        gen_stmt(P, "  ", ints, -1, allow_debug=False)
    P.emit(["  if lvl == 0"])
    ls, off = fault_lines(fault, "    ", "lvl", tag, "hlp")
    at = P.emit(ls)
    fault_line = at + off
    for _ in range(nst()):
        gen_stmt(P, "  ", ints, -1, allow_debug=False)
    plain, crossing = True, False
    per_level = None            # function: level n (depth..1) -> frame lines contributed by the call made at level n
    if shape in ("single-site", "via-outer"):
        at = P.emit(["  rec lvl - 1"])
        per_level = lambda n, at=at: [at]
    elif shape == "in-loop":
        at = P.emit(["  for i in 0..2", "    r = rec lvl - 1", "  r"])
        per_level = lambda n, at=at: [at + 1]
    elif shape == "two-sites":
        at = P.emit(["  if lvl % 2 == 0", "    return rec lvl - 1", "  rec(lvl - 1)"])
        per_level = lambda n, at=at: [at + 1] if n % 2 == 0 else [at + 2]
    elif shape == "in-if-else":
        at = P.emit(["  r = if lvl > 100", "    0", "  else", "    1 + rec(lvl - 1)", "  r"])
        per_level = lambda n, at=at: [at + 3]
    elif shape == "adaptor-callback":
        at = P.emit(["  r = (0..1).each(|i| rec lvl - 1).to_list()", "  r"])
        per_level = lambda n, at=at: [at, at, at]
        plain = False
    elif shape == "generator":
        at = P.emit(["  for x in rec lvl - 1", "    yield x", "  yield lvl"])
        per_level = lambda n, at=at: [at]
        plain, crossing = False, True
    else:
        raise ValueError(shape)
    for _ in range(nst()):
        gen_stmt(P, "", top_ints, 0)
    outer = []
    if shape == "via-outer":
        at = P.emit(["run = |a|", f"  rec {depth}", "run 1"])
        outer = [at + 1, at + 2]
    elif shape == "generator":
        at = P.emit([f"for x in rec {depth}", "  y = x"])
        outer = [at]
    else:
        at = P.emit([f"res = rec {depth}"])
        outer = [at]
    for _ in range(rng.below(2)):
        gen_stmt(P, "", top_ints, -1, allow_debug=False)
    expect = [fault_line]
    for n in range(1, depth + 1):          # innermost call was made at level 1, outermost at level `depth`
        expect += per_level(n)
    expect += outer
    nl = "\r\n" if crlf else "\n"
    src = nl.join(l.rstrip("\r") if crlf else l for l in P.lines) + (nl if rng.chance(3, 4) else "")
    dbg = list(P.debugs.get(0, []))
    if n_debug:
        if shape == "in-loop" or shape == "adaptor-callback":
            pass      # the loop / callback body runs once before failing: still one debug per level
        dbg += [(dbg_line, "lvl")] * (depth + 1)
    dbg = [(l, x.replace("\n", nl)) for l, x in dbg]
    classes = FAULTS[fault]
    if classes is None:
        classes = {f'EThrown(s"boom{tag}")'}
    P.kinds.add("recursion:" + shape)
    return {"m": "run", "src": src, "expect": expect, "fault": fault, "classes": sorted(classes), "debug": dbg,
            "plain": plain, "crossing": crossing, "depth": depth, "kinds": sorted(P.kinds), "crlf": crlf,
            "recursion": shape}


# ---- token-broken programs: one mutation of a simple statement on a known line
MUTATIONS = {
    "dup-operator": "{v} = {a} + * 2",
    "stray-paren": "{v} = {a} ) + 2",
    "bad-char": "{v} = {a} $ 2",
    "missing-operand": "{v} = {a} +",
    "unterminated-string": "{v} = 'abc",
    "double-assign": "{v} = = 2",
    "lone-else": "else",
    "keyword-then": "{v} = then 1",
    "two-numbers": "{v} = 1 2",
    "missing-comma-args": "{v} = |p q| p",
    "open-placeholder": "{v} = 'a{{{a}'",
    "bad-escape": "{v} = 'a\\q'",
    "bad-number": "{v} = 0xZ",
    "for-without-args": "for in {a}",
    "compound-assign-missing": "{a} +=",
    "extra-brace": "{v} = {{k: 1}}}}",
    "extra-bracket": "{v} = [1, 2]]",
    "break-outside-loop": "break",
}
MUT_KINDS = sorted(MUTATIONS)


def gen_broken(rng, kind=None, crlf=False):
    P = Prog(rng)
    ints = []
    P.emit(["base = 3"])
    ints.append("base")
    for _ in range(rng.below(6)):
        gen_stmt(P, "", ints, 0, allow_debug=False)
    in_fn = rng.chance(1, 3)
    ind = ""
    if in_fn:
        P.emit(["fn = |a|"])
        ind = "  "
        ints = ["a"]
        for _ in range(rng.below(3)):
            gen_stmt(P, ind, ints, 0, allow_debug=False)
    kind = rng.choice(MUT_KINDS) if kind is None else kind
    line = len(P.lines)
    P.emit([ind + MUTATIONS[kind].format(v="mm", a=rng.choice(ints))])
    keep = len(P.lines)
    for _ in range(rng.below(4)):
        gen_stmt(P, ind, ints, 0, allow_debug=False)
    if kind == "unterminated-string":
        del P.lines[keep:]          # a later quote or brace would continue / close the string
    if in_fn:
        P.emit(["fn 1"])
    nl = "\r\n" if crlf else "\n"
    src = nl.join(l.rstrip("\r") if crlf else l for l in P.lines) + (nl if rng.chance(3, 4) else "")
    return {"m": "run", "src": src, "broken_line": line, "mutation": kind, "crlf": crlf, "kinds": sorted(P.kinds)}


# =====================================================================================
# D-predicates


def text_lines(src):
    """Rust str::lines(): split at \\n, a preceding \\r is dropped, no trailing empty line"""
    ls = src.split("\n")
    if ls and ls[-1] == "":
        ls.pop()
        ls = [l[:-1] if l.endswith("\r") else l for l in ls]
    else:
        ls = [l[:-1] if l.endswith("\r") else l for l in ls[:-1]] + ls[-1:]
    return ls


def span_inside(src, sp):
    """start <= end, each position on a line of the text (the position just after a final line break counts)
    and not beyond the end of its line"""
    if sp is None:
        return "no span"
    sl, sc, el, ec = sp
    raw = src.split("\n")
    if (sl, sc) > (el, ec):
        return f"span start {sl}:{sc} after its end {el}:{ec}"
    for (l, c) in ((sl, sc), (el, ec)):
        if l >= len(raw):
            return f"line {l} is beyond the text ({len(raw)} lines)"
        if c > len(raw[l].rstrip("\r")) + 1:   # columns are display widths <= chars for our sources (no wide chars before)
            if all(ord(ch) < 128 for ch in raw[l]):
                return f"column {c} is beyond the end of line {l} ({len(raw[l])} chars)"
    return None


EX_HEAD = re.compile(r"^(\d+):(\d+)$")
EX_LINE = re.compile(r"^ +(\d+) \| (.*)$", re.S)
EX_CARET = re.compile(r"^ +\|( +)(\^*)$")


def check_excerpt(src, sp, text):
    """the rendered excerpt quotes exactly the lines of the span; returns list of failures"""
    fails = []
    lines = text_lines(src)
    sl, sc, el, ec = sp
    parts = text.split("\n")
    m = EX_HEAD.match(parts[0]) if parts else None
    if not m or (int(m.group(1)), int(m.group(2))) != (sl + 1, sc + 1):
        fails.append(f"E1 position line {parts[:1]} is not {sl+1}:{sc+1}")
        return fails
    body = parts[2:]
    want = list(range(sl, min(el, len(lines) - 1) + 1))
    got = []
    i = 0
    # quoted lines are matched against the source text itself (a quoted line may not contain \n)
    for n in want:
        if i >= len(body):
            break
        mm = EX_LINE.match(body[i])
        if not mm or int(mm.group(1)) != n + 1:
            break
        if mm.group(2) != lines[n]:
            fails.append(f"E2 quoted line {n+1} is {mm.group(2)!r}, the source line is {lines[n]!r}")
        got.append(n)
        i += 1
    if got != want:
        fails.append(f"E2 quoted lines {[g+1 for g in got]} are not the span's lines {[w+1 for w in want]}")
        return fails
    rest = body[i:]
    if sl == el:
        mc = EX_CARET.match(rest[0]) if len(rest) == 1 else None
        if not mc:
            fails.append(f"E3 no caret line after the quoted line: {rest!r}")
        elif len(mc.group(1)) != sc + 1 or len(mc.group(2)) != ec - sc:
            fails.append(f"E3 carets at offset {len(mc.group(1))-1} x{len(mc.group(2))}, span columns {sc}..{ec}")
    elif rest != [""]:
        fails.append(f"E3 unexpected text after the quoted lines: {rest!r}")
    return fails


def split_message(msg, head):
    if not msg.startswith(head):
        return None
    rest = msg[len(head):]
    if rest == "":
        return []
    if not rest.startswith("\n--- "):
        return None
    return rest[5:].split("\n--- ")


# M2: which AST node a (faultable) instruction's span must come from.  The compiler records `self.span()` = the span
# of the node being compiled (push_span in compile_node), so the span of an Add instruction is the span of a
# BinaryOp(Add) node, of a Call the span of its Chain node, ...  An instruction emitted while a stale / leaked / sibling
# span is on top of the span stack carries the span of a node of another kind, or shares one node with another
# instruction.
_BIN = ["Add", "Subtract", "Multiply", "Divide", "Remainder", "Power", "Less", "LessOrEqual", "Greater",
        "GreaterOrEqual", "NotEqual", "AddAssign", "SubtractAssign", "MultiplyAssign", "DivideAssign",
        "RemainderAssign", "PowerAssign"]
M2_TABLE = {op: {"BinaryOp:" + op} for op in _BIN}
M2_TABLE.update({
    "Equal": {"BinaryOp:Equal", "SmallInt", "Int", "Float", "Str", "BoolTrue", "BoolFalse", "Null"},   # match patterns
    "Negate": {"UnaryOp:Negate"}, "Not": {"UnaryOp:Not"},
    "Throw": {"Throw"}, "Debug": {"Debug"},
    "Call": {"Chain", "BinaryOp:Pipe"}, "CallInstance": {"Chain"}, "Access": {"Chain"}, "Index": {"Chain"},
    "Capture": {"Function"}, "Function": {"Function"},
})
# one instruction per node for these (a second instruction with the same span has inherited it)
M2_UNIQUE = set(_BIN) | {"Negate", "Not", "Throw", "Debug"}


def d_spans_vs_ast(r):
    fails = []
    ast = r.get("ast")
    if not ast:
        return fails
    byspan = {}
    for a in ast:
        byspan.setdefault(tuple(a[1:5]), []).append(a[0])
    used = {}
    for ins in r.get("instrs", []):
        if len(ins) < 6:
            continue
        sp = tuple(ins[2:6])
        kinds = byspan.get(sp)
        if kinds is None:
            fails.append(f"M2 instruction {ins[1]} at ip {ins[0]} has span {list(sp)} which is not the span of any AST node")
            break
        allowed = M2_TABLE.get(ins[1])
        if allowed is not None and not (allowed & set(kinds)):
            fails.append(f"M2 instruction {ins[1]} at ip {ins[0]} carries the span {list(sp)} of a {'/'.join(sorted(set(kinds)))} "
                         f"node (line {sp[0]+1}), not of a {'/'.join(sorted(allowed))} node")
            break
        if ins[1] in M2_UNIQUE:
            key = (ins[1], sp)
            used[key] = used.get(key, 0) + 1
            have = sum(1 for k in kinds if k in allowed)
            if used[key] > have:
                fails.append(f"M2 {used[key]} {ins[1]} instructions carry the span {list(sp)} of {have} AST node(s): one of them "
                             f"inherited a sibling's span")
                break
    return fails


RENDERED_POS = re.compile(r"\n--- (\d+):(\d+)\n")

# R5: the instruction the innermost frame points at must be the one that can raise the planted fault
# (a frame pointing at the previous instruction, e.g. a Yield or a Copy, still has the right line quite often)
FAULT_OPS = {
    "throw": {"Throw"}, "in-if": {"Throw"}, "after-newline-fill": {"Throw"}, "rethrow": {"Throw"},
    "index": {"Index"}, "in-for": {"Index"}, "index-type": {"Index"},
    "binop": {"Add"}, "binop-multiline": {"Add"}, "in-list": {"Add"}, "interp": {"Add"}, "binop-before-chain": {"Add"},
    "binop-paren-chain": {"Add"}, "chain-then-binop": {"Add"},
    "assert": {"Call"}, "assert-eq": {"Call"}, "assert-multiline": {"Call"}, "argcount": {"Call"},
    "argcount-multiline": {"Call"}, "not-callable": {"Call"},
    "native-args": {"CallInstance", "Call"}, "not-found": {"Access", "CallInstance"}, "let-type": {"AssertType"},
    "negate": {"Negate"}, "negate-multiline": {"Negate"},
}


def check_excerpt_loose(src, text):
    """an excerpt whose span is not known (frames of a nested VM rendered into the message): the position line L:C,
    then quoted lines numbered from L whose text is the source text"""
    lines = text_lines(src)
    parts = text.split("\n")
    m = EX_HEAD.match(parts[0]) if parts else None
    if not m:
        return [f"E1 no position line in {parts[:1]}"]
    n = int(m.group(1)) - 1
    quoted = 0
    for row in parts[2:]:
        mm = EX_LINE.match(row)
        if not mm:
            break
        if int(mm.group(1)) != n + 1 + quoted or n + quoted >= len(lines) or mm.group(2) != lines[n + quoted]:
            return [f"E2 quoted line {row!r} is not source line {n+1+quoted}: "
                    f"{lines[n+quoted] if n+quoted < len(lines) else None!r}"]
        quoted += 1
    if quoted == 0:
        return [f"E2 the excerpt at {parts[0]} quotes no line"]
    return []


def d_fault(case, r):
    """clauses of C12 on a fault-planted program; returns (failures, invalid_reason)"""
    src = case["src"]
    if "panic" in r:
        return [f"P0 panic while compiling/running/rendering: {r['panic']} at {r.get('at')}"], None
    if r["kind"] != "runtime":
        return [], f"planted fault did not fire (kind {r['kind']}: {r.get('head')})"
    crossing = case.get("crossing", False)
    if r["class"] not in case["classes"] and not crossing:
        return [], f"another error fired: {r['class']} / {r.get('head')}"
    fails = []
    exp = case["expect"]
    tr = r["trace"]
    got = [t["span"][0] if t["span"] else None for t in tr]
    # R1r: the RENDERED message names, in order, the planted fault line and then every call site innermost first.
    # This is the clause that also covers errors which crossed a generator / iterator boundary inside a `for`: there
    # the nested VM's frames arrive as text in the message head and Error.trace only holds the outer frames.
    rendered = [int(m.group(1)) - 1 for m in RENDERED_POS.finditer(r["msg"])]
    if rendered != exp:
        fails.append(f"R1 rendered frames name lines (1-based) {[g+1 for g in rendered]}, planted fault line then call "
                     f"sites innermost first: {[e+1 for e in exp]}")
    if crossing:
        if got != exp[len(exp) - len(got):]:
            fails.append(f"R1 trace lines (1-based) {[None if g is None else g+1 for g in got]} are not the outermost "
                         f"planted call sites {[e+1 for e in exp]}")
    elif got != exp:
        fails.append(f"R1 trace lines (1-based) {[None if g is None else g+1 for g in got]}, planted fault line then call "
                     f"sites innermost first: {[e+1 for e in exp]}")
    if not crossing and tr and tr[0].get("same_chunk") and case.get("fault") in FAULT_OPS \
            and tr[0]["op"] not in FAULT_OPS[case["fault"]]:
        fails.append(f"R5 the innermost frame (ip {tr[0]['ip']}) points at a {tr[0]['op']} instruction; the planted "
                     f"{case['fault']} fault is raised by {'/'.join(sorted(FAULT_OPS[case['fault']]))}")
    for piece in r["msg"].split("\n--- ")[1:]:
        fails += check_excerpt_loose(src, piece)
    for i, t in enumerate(tr):
        if t["span"] is None:
            fails.append(f"R2 trace frame {i} (ip {t['ip']}) has no source span")
            continue
        why = span_inside(src, t["span"])
        if why:
            fails.append(f"R2 trace frame {i}: {why}")
        if i > 0 and case["plain"] and t["op"] not in ("Call", "CallInstance"):
            fails.append(f"R3 trace frame {i} (ip {t['ip']}) is a {t['op']} instruction, not a call")
    pieces = split_message(r["msg"], r["head"])
    if pieces is None or len(pieces) != len(tr):
        fails.append(f"R4 rendered message does not consist of the error text and one excerpt per trace frame")
    else:
        for i, (t, piece) in enumerate(zip(tr, pieces)):
            if t["span"] is not None:
                fails += [f"frame {i}: " + f for f in check_excerpt(src, t["span"], piece)]
    # debug output
    pos = 0
    out = r.get("out", "")
    for (line, expr) in case["debug"]:
        want = f"[{line+1}] {expr}: "
        if not out.startswith(want, pos):
            fails.append(f"G1 debug output {out[pos:pos+60]!r} does not start with {want!r} (debug expression on line {line+1})")
            break
        nl = out.find("\n", pos + len(want))
        pos = len(out) if nl < 0 else nl + 1
    else:
        if pos != len(out):
            fails.append(f"G1 unexpected extra debug output {out[pos:pos+80]!r}")
    fails += d_spans_vs_ast(r)
    # every instruction has a span inside the text
    for ins in r.get("instrs", []):
        if len(ins) < 6:
            fails.append(f"M1 instruction {ins[1]} at ip {ins[0]} has no source span")
            break
        why = span_inside(src, ins[2:6])
        if why:
            fails.append(f"M1 instruction {ins[1]} at ip {ins[0]}: {why}")
            break
    return fails, None


def d_broken(case, r):
    src = case["src"]
    if "panic" in r:
        return [f"P0 panic while compiling/rendering: {r['panic']} at {r.get('at')}"], None
    if r["kind"] != "compile":
        return [], (None if case.get("truncated") else f"mutant compiled (kind {r['kind']})")
    fails = []
    sp = r["span"]
    why = span_inside(src, sp)
    if why:
        fails.append(f"B1 compile error position not inside the text: {why}")
        return fails, None
    if sp[0] != case["broken_line"] and not case.get("truncated"):
        fails.append(f"B2 compile error reported on line {sp[0]+1}, the broken token is on line {case['broken_line']+1}")
    head = r["head"] + ".\n"
    if not r["msg"].startswith(head):
        fails.append("B3 rendered message does not start with the error text")
    else:
        fails += check_excerpt(src, sp, r["msg"][len(head):])
    return fails, None


# =====================================================================================
# cases for the model-vs-real comparisons


SPANS = [[0, 0, 0, 1], [1, 2, 1, 9], [1, 2, 3, 0], [4, 0, 4, 0]]


def gen_smap_cases(tier, rng):
    cases = []
    # exhaustive: up to 3 pushes, ips 0..2 (any order, so decreasing sequences too), 2 spans
    import itertools
    alpha = [(ip, s) for ip in range(3) for s in range(2)]
    for n in range(0, 4):
        for combo in itertools.product(alpha, repeat=n):
            cases.append(("smap-exhaustive", {"m": "smap", "pushes": [[ip] + SPANS[s] for ip, s in combo], "queries": [0, 1, 2, 3]}))
    nrand = 300 if tier == "quick" else 6000
    for _ in range(nrand):
        n = rng.below(12)
        ip = 0
        pushes = []
        sorted_ = not rng.chance(1, 4)
        for _ in range(n):
            ip = ip + rng.below(4) if sorted_ else rng.below(20)
            pushes.append([ip] + rng.choice(SPANS))
        cases.append(("smap-random-sorted" if sorted_ else "smap-random-unsorted",
                      {"m": "smap", "pushes": pushes, "queries": sorted({rng.below(ip + 3) for _ in range(6)} | {0, ip})}))
    return cases


EXC_ALPHA = ["a", "b", " ", "\n", "\n", "\r", "é", "한", "|", "^"]


def gen_excerpt_cases(tier, rng):
    cases = []
    import itertools
    # exhaustive tiny texts x tiny spans
    texts = [""] + ["".join(t) for k in ((1, 2) if tier == "quick" else (1, 2, 3))
                    for t in itertools.product(["a", "\n", "\r"], repeat=k)]
    if tier == "quick":
        texts += ["a\n\n", "\n\na", "a\r\n", "\r\na", "a\na", "\n\r\n", "\r\n\n", "\n\n\n"]
    for t in texts:
        for sl, sc, el, ec in itertools.product(range(3), range(2), range(3), range(2)):
            cases.append(("excerpt-exhaustive", {"m": "excerpt", "src": t, "span": [sl, sc, el, ec]}))
    nrand = 1000 if tier == "quick" else 30000
    for _ in range(nrand):
        t = "".join(rng.choice(EXC_ALPHA) for _ in range(rng.below(24)))
        nl = t.count("\n") + 2
        if rng.chance(1, 10):
            t = "x\n" * (8 + rng.below(100)) + t       # line numbers of different widths (9/10, 99/100)
            nl = t.count("\n") + 2
        sl = rng.below(nl)
        el = sl + rng.below(3) if rng.chance(3, 4) else rng.below(nl)
        if rng.chance(1, 8):
            sl = max(0, t.count("\n") - 1 - rng.below(2))
            el = sl + rng.below(3)
        sc, ec = rng.below(6), rng.below(6)
        if rng.chance(2, 3) and sc > ec:
            sc, ec = ec, sc
        if rng.chance(1, 60):
            el = 4294967295 - rng.below(2)
            sl = el - rng.below(2)
        # u32::MAX columns only in spans that are not one-line spans (there the real renderer would first try to
        # allocate 4 GiB of spaces / carets)
        if sl != el and rng.chance(1, 20):
            ec = 4294967295
        if sl != el and rng.chance(1, 20):
            sc = 4294967295 - rng.below(2)
        cases.append(("excerpt-random", {"m": "excerpt", "src": t, "span": [sl, sc, el, ec]}))
    return cases


def coq_str(s):
    return C.coq_list([ord(c) for c in s])


def corpus_cases():
    out = []
    cdir = os.path.join(C.VERIF, "corpus", PID)
    if os.path.isdir(cdir):
        for f in sorted(os.listdir(cdir)):
            for line in open(os.path.join(cdir, f), encoding="utf-8"):
                line = line.strip()
                if line and not line.startswith("//"):
                    c = json.loads(line)
                    c.setdefault("plain", False)
                    c.setdefault("debug", [])
                    c.setdefault("kinds", [])
                    out.append(("corpus", c))
    return out


def gen_run_cases(tier, seed):
    rng = C.Rng(seed)
    cases = corpus_cases()
    # bounded-exhaustive: every fault kind x depth 0..2 with no filler, every call form at depth 1, every mutation
    for fk in FAULT_KINDS:
        for d in range(3):
            cases.append(("fault-exhaustive", gen_program(rng, depth=d, fault=fk, nstmts=0, forms=["plain"])))
    for form in CALL_FORMS:
        for fk in ("throw", "index"):
            cases.append(("fault-exhaustive", gen_program(rng, depth=2, fault=fk, nstmts=0, forms=[form])))
    # generators: every placement of the payload relative to the yields x every way of consuming the generator, with
    # the fault itself in the generator body (depth 1), a call towards the fault in it (depth 2, generator = f1),
    # and a generator consuming a generator (depth 2, both)
    for mode in GEN_MODE_NAMES:
        for cons in CONSUMERS:
            cases.append(("generator-exhaustive", gen_program(rng, depth=1, fault="binop", nstmts=0, gens={1: mode},
                                                              consumers=[cons])))
            cases.append(("generator-exhaustive", gen_program(rng, depth=2, fault="throw", nstmts=0, forms=["plain"],
                                                              gens={1: mode}, consumers=[cons])))
        cases.append(("generator-exhaustive", gen_program(rng, depth=2, fault="index", nstmts=0,
                                                          gens={1: mode, 2: rng.choice(GEN_MODE_NAMES)})))
    for fk in FAULT_KINDS:
        cases.append(("generator-exhaustive", gen_program(rng, depth=1, fault=fk, nstmts=0, gens={1: "after-yield"},
                                                          consumers=[rng.choice(CONSUMERS)])))
    # recursion: every shape x failing with 2..6 identical call frames on the stack x three ways of failing
    for shape in REC_SHAPES:
        for d in range(2, 7):
            cases.append(("recursion-exhaustive", gen_recursive(rng, shape=shape, depth=d, nstmts=0,
                                                                fault=REC_FAULTS[d % len(REC_FAULTS)])))
        for fk in ("throw", "index", "assert"):
            cases.append(("recursion-exhaustive", gen_recursive(rng, shape=shape, depth=3, nstmts=0, fault=fk)))
    nr = 60 if tier == "quick" else 1500
    for _ in range(nr):
        cases.append(("recursion-random", gen_recursive(rng, crlf=rng.chance(1, 6))))
    for mk in MUT_KINDS:
        cases.append(("broken-exhaustive", gen_broken(rng, kind=mk)))
    nf = 500 if tier == "quick" else 12000
    for i in range(nf):
        plain = rng.chance(1, 2)
        cases.append(("fault-random", gen_program(rng, forms=["plain", "parens", "in-expr", "in-if", "in-for",
                                                               "multiline-args", "in-list", "pipe", "in-expr-multiline"] if plain else None,
                                                  gens={} if plain else None, crlf=rng.chance(1, 6))))
    nb = 250 if tier == "quick" else 6000
    for i in range(nb):
        cases.append(("broken-random", gen_broken(rng, crlf=rng.chance(1, 6))))
    # programs cut off at an arbitrary character (with and without a final line break): the error sits at the end
    # of the text, where `lines()` and the lexer's line count can differ; the line of the first bad token is not
    # well-defined here, so only "inside the text", "renders without panic" and "quotes its lines" are checked
    nt = 40 if tier == "quick" else 1500
    for i in range(nt):
        src = gen_program(rng, crlf=rng.chance(1, 6))["src"]
        for _ in range(6):
            k = rng.below(len(src) + 1)
            for tail in ("", "\n"):
                cases.append(("broken-truncated", {"m": "run", "src": src[:k] + tail, "truncated": True,
                                                   "broken_line": -1, "mutation": "truncated", "kinds": []}))
    return cases


# =====================================================================================


def run_harness(binp, cases, tag):
    os.makedirs(os.path.join(C.BUILD, "cases"), exist_ok=True)
    cf = os.path.join(C.BUILD, "cases", f"c12-{tag}-{os.getpid()}.jsonl")
    with open(cf, "w") as f:
        for c in cases:
            f.write(json.dumps(c) + "\n")
    rc, out = C.sh([binp, cf], timeout=3600)
    os.remove(cf)
    lines = [json.loads(l) for l in out.splitlines() if l.startswith("{")]
    if rc != 0 or len(lines) != len(cases):
        return None, f"rc={rc} got {len(lines)} results for {len(cases)} cases: {out[-1500:]}"
    return lines, ""


def model_trace_term(case, r):
    """events for the Trace model: the call sites' ips are found statically (the unique Call instruction
    whose span starts on the planted call line); None when not unique"""
    exp = case["expect"]
    ips = []
    for line in reversed(exp[1:]):           # outermost call first
        cands = [ins[0] for ins in r["instrs"] if len(ins) >= 6 and ins[1] in ("Call", "CallInstance") and ins[2] == line]
        if len(cands) != 1:
            return None
        ips.append(cands[0])
    ev = "[" + "; ".join(f"(0, {ip})" for ip in ips) + "]"
    return f"trace_out {ev} {r['trace'][0]['ip']}"


def run(tier, seed):
    chk = C.Check(PID, tier, seed, "proof")
    # ---- T
    ok, log = C.coq_build(UNIT, ["DiagRun.vo"])
    model_ok = ok
    if not ok:
        chk.log("model does not compile:\n" + log[-1500:])
    pr = C.check_props_file(UNIT, "C12Props", PINNED)
    hits = C.forbidden_scan(UNIT)
    if not pr["ok"]:
        chk.log("C12Props does not check:\n" + pr["log"][-2500:])
    for name in PINNED:
        good = pr["ok"] and name not in pr["missing"] and ("Print Assumptions " + name) not in pr["missing"] \
            and not pr["bad_axioms"] and not hits
        chk.oblige("thm:" + name, good)
    if hits:
        chk.log("forbidden constructs: " + "; ".join(hits))
    if pr["bad_axioms"]:
        chk.log("axioms outside the allowlist: " + ", ".join(pr["bad_axioms"]))
    axioms = pr["axioms"]

    import time as _t
    phases = {"coq-theorems": round(_t.time() - chk.t0, 1)}
    binp, blog = C.build_harness("kh_diag")
    phases["cargo"] = round(_t.time() - chk.t0, 1)
    if not binp:
        chk.log("harness build failed:\n" + blog[-3000:])
        chk.violation("build", {"kind": "obligation", "correspondence": "kh_diag does not build against the koto checkout",
                                "log": blog[-3000:]}, no_input=True)
        return chk.finish("n/a")

    rng = C.Rng(seed ^ 0xC12)
    dist = {}
    disagreements = []        # (size, description, payload)
    d_fail = []               # (size, case, result, failures)
    invalid = []

    # ---- R: SourceMap and Excerpt models against the real functions
    unit_cases = gen_smap_cases(tier, rng) + gen_excerpt_cases(tier, rng)
    res, err = run_harness(binp, [c for _, c in unit_cases], "unit")
    if res is None:
        chk.violation("harness", {"kind": "obligation", "correspondence": "kh_diag crashed", "log": err}, no_input=True)
        return chk.finish("n/a")
    terms = []
    for origin, c in unit_cases:
        dist[origin] = dist.get(origin, 0) + 1
        if c["m"] == "smap":
            pushes = "[" + "; ".join(C.coq_list(p) for p in c["pushes"]) + "]"
            terms.append(f"smap_out {pushes} {C.coq_list(c['queries'])}")
        else:
            terms.append(f"excerpt_out {coq_str(c['src'])} {C.coq_list(c['span'])}")
    vals = None
    if model_ok:
        try:
            vals = C.coq_eval(UNIT, HEADER, terms, tag="c12u", per_shard=500)
        except RuntimeError as e:
            chk.log(str(e)[-3000:])
    if vals is None:
        chk.oblige("corr:model-evaluates (source map, excerpt)", False)
    else:
        n_sm = n_ex = 0
        for (origin, c), r, v in zip(unit_cases, res, vals):
            if c["m"] == "smap":
                real = [[] if x is None else x for x in r.get("r", [["panic"]])]
                chk.count_case(json.dumps(c), len(c["pushes"]) >= 2)
                if real != v:
                    n_sm += 1
                    disagreements.append((len(c["pushes"]), "source map", {"case": c, "model_says": v, "impl_says": r}))
            else:
                tag, text = v
                if "panic" in r:
                    at = r.get("at", "")
                    real = (1 if "unwrap" in r["panic"] or "None" in r["panic"] else 2, [])
                else:
                    real = (0, r["text"])
                chk.count_case(json.dumps(c), "\n" in c["src"])
                if (tag, text) != real:
                    n_ex += 1
                    disagreements.append((len(c["src"]), "excerpt", {"case": c, "model_says": [tag, "".join(map(chr, text))],
                                                                     "impl_says": r}))
        chk.oblige("corr:SourceMap model vs DebugInfo::push/get_source_span", n_sm == 0, f"{n_sm} disagreements")
        chk.oblige("corr:Excerpt model vs format_source_excerpt (text and panic class)", n_ex == 0, f"{n_ex} disagreements")

    phases["unit-correspondence"] = round(_t.time() - chk.t0, 1)
    # ---- D (+ R for Trace / debug prefix / excerpt on real spans): programs
    run_cases = gen_run_cases(tier, seed)
    res, err = run_harness(binp, [{"m": "run", "src": c["src"]} for _, c in run_cases], "run")
    if res is None:
        chk.violation("harness", {"kind": "obligation", "correspondence": "kh_diag crashed", "log": err}, no_input=True)
        return chk.finish("n/a")
    terms = []
    term_of = []              # (case index, what, real value)
    budget = {"excerpt": 150, "debug": 50} if tier == "quick" else {"excerpt": 5000, "debug": 1500}
    kinds_seen = {}
    known_hit = set()
    for i, ((origin, c), r) in enumerate(zip(run_cases, res)):
        dist[origin] = dist.get(origin, 0) + 1
        for k in c.get("kinds", []):
            kinds_seen[k] = kinds_seen.get(k, 0) + 1
        if "broken_line" in c:
            fails, inv = d_broken(c, r)
            key = "mutation:" + c["mutation"]
        else:
            fails, inv = d_fault(c, r)
            key = f"fault:{c.get('fault')}@depth{c.get('depth')}"
        kinds_seen[key] = kinds_seen.get(key, 0) + 1
        chk.count_case(c["src"], True)
        if inv:
            invalid.append((origin, c, inv))
            continue
        if c.get("known") and fails:
            # a case in the class of a known finding (none at present): reported as known, never as a violation
            known_hit.add(c["known"])
            chk.known(c["known"])
            continue
        if fails:
            d_fail.append((len(c["src"]), c, r, fails))
            continue
        if r.get("kind") == "runtime":
            src = c["src"]
            pieces = split_message(r["msg"], r["head"]) or []
            fr = [(t, piece) for t, piece in zip(r["trace"], pieces) if t["span"] is not None]
            if fr and len(src) < 1200 and budget["excerpt"] > 0:
                # one term per program (the source literal is parsed once): all its frames
                budget["excerpt"] -= 1
                body = "; ".join(f"excerpt_out s {C.coq_list(t['span'])}" for t, _ in fr)
                terms.append(f"let s := {coq_str(src)} in [{body}]")
                term_of.append((i, "excerpt-on-trace-span", [[0, [ord(ch) for ch in piece]] for _, piece in fr]))
            if c.get("plain") and "expect" in c:
                t = model_trace_term(c, r)
                if t:
                    terms.append(t)
                    term_of.append((i, "trace", [0, [f["ip"] for f in r["trace"]]]))
            # debug prefix through the model: pushes reconstructed from the decoded instructions
            dbg_ips = [ins for ins in r["instrs"] if ins[1] == "Debug" and len(ins) >= 6]
            if dbg_ips and c.get("debug") and len(r["instrs"]) < 150 and budget["debug"] > 0:
                budget["debug"] -= 1
                pushes = "[" + "; ".join(C.coq_list([ins[0]] + ins[2:6]) for ins in r["instrs"] if len(ins) >= 6) + "]"
                first_line = c["debug"][0][0]
                ins = [d for d in dbg_ips if d[2] == first_line]
                if ins:
                    terms.append(f"debug_out {pushes} {ins[0][0]}")
                    term_of.append((i, "debug-prefix", [0, [ord(ch) for ch in f"[{first_line+1}] "]]))
    if model_ok and terms:
        try:
            vals = C.coq_eval(UNIT, HEADER, terms, tag="c12r", per_shard=150)
        except RuntimeError as e:
            chk.log(str(e)[-3000:])
            vals = None
        if vals is None:
            chk.oblige("corr:model-evaluates (trace, debug prefix, excerpts of real spans)", False)
        else:
            bad = {"trace": 0, "excerpt-on-trace-span": 0, "debug-prefix": 0}
            cnt = {"trace": 0, "excerpt-on-trace-span": 0, "debug-prefix": 0}
            for (i, what, real), v in zip(term_of, vals):
                cnt[what] += 1
                if json.loads(json.dumps(v)) != real:
                    bad[what] += 1
                    disagreements.append((len(run_cases[i][1]["src"]), what,
                                          {"case": run_cases[i][1], "model_says": v, "impl_says": real}))
            chk.oblige("corr:Trace model vs Error.trace of the VM (call-site ips found statically)", bad["trace"] == 0,
                       f"{bad['trace']} of {cnt['trace']}")
            chk.oblige("corr:Excerpt model vs rendered runtime error frames", bad["excerpt-on-trace-span"] == 0,
                       f"{bad['excerpt-on-trace-span']} of {cnt['excerpt-on-trace-span']}")
            chk.oblige("corr:debug prefix model vs debug output", bad["debug-prefix"] == 0,
                       f"{bad['debug-prefix']} of {cnt['debug-prefix']}")
            dist.update({"model:" + k: v for k, v in cnt.items()})
    elif not model_ok:
        chk.oblige("corr:model available", False)

    phases["programs"] = round(_t.time() - chk.t0, 1)
    chk.notes.append("cumulative wall seconds per phase: " + json.dumps(phases))
    chk.log("phases (cumulative s): " + json.dumps(phases))
    # generator validity: the planted fault must be what fires
    nrun = len(run_cases)
    chk.oblige("gen:planted faults fire / mutants are rejected (>= 97% of generated programs)",
               len(invalid) <= 0.03 * nrun, f"{len(invalid)} of {nrun} invalid; first: " +
               (invalid[0][2] + " :: " + invalid[0][1]["src"][:300] if invalid else ""))
    if invalid:
        chk.log(f"{len(invalid)} of {nrun} generated programs were not usable (first: {invalid[0][2]})")
    for origin, c in corpus_cases():
        if c.get("known") and c["known"] not in known_hit:
            chk.notes.append(f"corpus case for known finding no longer fails: {c['known'][:60]}")

    # ---- verdict
    if d_fail:
        d_fail.sort(key=lambda x: x[0])
        _, c, r, fails = d_fail[0]
        r = dict(r)
        r.pop("instrs", None)
        chk.violation("input", {"kind": "input", "case": c, "impl_says": r, "predicate_failed": fails,
                                "others": len(d_fail) - 1, "how_to_rerun": "./check C12 --replay <this file>"})
        chk.log(f"{len(d_fail)} programs violate C12; smallest:\n{c['src']}\n  " + "\n  ".join(fails[:4]))
    broken = [o for o in chk.obligations if not o[1]]
    if broken and not d_fail:
        payload = {"kind": "obligation", "broken": [o[0] + (": " + o[2] if o[2] else "") for o in broken]}
        if disagreements:
            disagreements.sort(key=lambda x: x[0])
            _, what, p = disagreements[0]
            p = json.loads(json.dumps(p))
            if isinstance(p.get("impl_says"), dict):
                p["impl_says"].pop("instrs", None)
            payload.update({"smallest_disagreement": dict(p, what=what),
                            "note": "koto's own diagnostics satisfy every clause of C12 on every explored program, but the "
                                    "implementation no longer matches the model the theorems are about"})
            chk.log(f"{len(disagreements)} model/impl disagreements; smallest ({what}): {json.dumps(p)[:600]}")
        chk.violation("obligation", payload, no_input=True)

    tb = ["Coq 8.16.1 kernel (coqc); vm_compute used for evaluating the models",
          "axioms reported by Print Assumptions: " + (", ".join(axioms) if axioms else "none (closed under the global context)"),
          "hand transcription of DebugInfo::{push,get_source_span}, format_source_excerpt, push_frame/pop_frame/"
          "pop_call_stack_on_error, run_debug_instruction into coq/diag/DiagModel.v (tied by the correspondence runs)",
          "the compile_* routines and the parser are NOT transcribed: the span-stack theorems are about the abstract "
          "push_span/pop_span/truncate discipline; its tie to the real compiler is D-predicate M2 (every decoded "
          "instruction of real chunks carries the span of an AST node of the matching kind, one instruction per node), "
          "fault lines and parser positions are search-only (D-predicates on generated programs)",
          "kh_diag (Rust harness; overflow checks on) and checks/c12.py (generators, comparison, D-predicates)"]
    return chk.finish(
        rule="programs: committed corpus + every fault kind x depth 0..2 + every call form + every generator placement x "
             "consumer + every mutation kind + seeded "
             "random fault-planted programs (0-3 filler statements of 34 kinds per block, depth 0-4) and token-broken "
             "programs; model inputs: exhaustive push sequences (<=3 pushes, 3 ips, 2 spans), exhaustive tiny texts x "
             "spans, seeded random; non-trivial = every program / >=2 pushes / text with a line break",
        explanation="theorems over the models for all inputs; exact model-vs-implementation equality for source-map lookups, "
                    "excerpt text and panic class, trace ips, debug prefix; C12's clauses evaluated on koto's own output",
        trusted_base=tb,
        extra={"distribution": dist, "construct_distribution": dict(sorted(kinds_seen.items())),
               "invalid_generated": len(invalid), "exhaustive": False,
               "model_impl_disagreements": len(disagreements)})


def replay(path, args):
    data = json.load(open(path))
    c = data.get("case") or data.get("smallest_disagreement", {}).get("case")
    if c is None:
        print("replay file names an obligation, not an input:", json.dumps(data.get("broken")))
        return run("quick", data.get("seed", 1))
    binp, blog = C.build_harness("kh_diag")
    if not binp:
        print(blog[-2000:])
        return 3
    send = {"m": "run", "src": c["src"]} if c.get("m") == "run" else c
    res, err = run_harness(binp, [send], "replay")
    if res is None:
        print(err)
        return 3
    r = res[0]
    show = dict(r)
    show.pop("instrs", None)
    print(json.dumps(show, ensure_ascii=False))
    if c.get("m") == "run":
        print(c["src"])
        if "msg" in r:
            print(r["msg"])
        fails, inv = d_broken(c, r) if "broken_line" in c else d_fault(c, r)
        if inv:
            print("case not usable:", inv)
        for f in fails:
            print("  " + f)
        if fails:
            print(f"VIOLATION property={PID} replay={path}")
            return 1
        print("no clause of C12 fails on this input")
        return 0
    # a model/implementation disagreement on a unit case
    if c["m"] == "smap":
        pushes = "[" + "; ".join(C.coq_list(p) for p in c["pushes"]) + "]"
        term = f"smap_out {pushes} {C.coq_list(c['queries'])}"
    else:
        term = f"excerpt_out {coq_str(c['src'])} {C.coq_list(c['span'])}"
    C.coq_build(UNIT, ["DiagRun.vo"])
    v = C.coq_eval(UNIT, HEADER, [term], tag="c12replay")[0]
    print("model:", v)
    if c["m"] == "smap":
        same = [[] if x is None else x for x in r.get("r", [])] == v
    else:
        same = ("text" in r and v == [0, r["text"]]) or ("panic" in r and v[0] != 0)
    if not same:
        print(f"VIOLATION property={PID} replay={path} no-failing-input-found")
        return 1
    print("model and implementation agree on this input")
    return 0
