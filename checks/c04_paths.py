import json, itertools
FAULTS = {
 "throw": "throw 'boom'",
 "index": "zz = [1][5]",
 "binop": "zz = 1 + true",
 "assert": "assert false",
 "arity": "zz = (|a, b| a)(1)",
 "access": "zz = {}.missing",
}
def site(name, fault):
    F = fault
    if name == "direct":
        return "", F
    if name == "call1":
        return f"f1 = ||\n  {F}\n  0\n", "zz2 = f1()"
    if name == "call3":
        return f"f1 = ||\n  {F}\n  0\nf2 = || f1() + 1\nf3 = |x| f2() + x\n", "zz2 = f3(1)"
    ops = {"add": "+", "sub": "-", "mul": "*", "div": "/", "rem": "%", "pow": "^"}
    if name in ops:
        sym = ops[name]
        return f"o = {{@{sym}: |other|\n  {F}\n  0\n}}\n".replace("{@", "\n  @").replace("\n}\n", "\n") if False else \
               f"o =\n  @{sym}: |other|\n    {F}\n    0\n", f"zz2 = o {sym} 1"
    if name == "radd":
        return f"o =\n  @r+: |other|\n    {F}\n    0\n", "zz2 = 1 + o"
    if name == "less":
        return f"o =\n  @<: |other|\n    {F}\n    true\n", "zz2 = o < 1"
    if name == "eq":
        return f"o =\n  @==: |other|\n    {F}\n    true\n", "zz2 = o == 1"
    if name == "neg":
        return f"o =\n  @negate: ||\n    {F}\n    0\n", "zz2 = -o"
    if name == "index":
        return f"o =\n  @index: |i|\n    {F}\n    0\n", "zz2 = o[0]"
    if name == "callmeta":
        return f"o =\n  @call: ||\n    {F}\n    0\n", "zz2 = o()"
    if name == "display":
        return f"o =\n  @display: ||\n    {F}\n    'o'\n", "zz2 = '{o}'"
    if name == "size":
        return f"o =\n  @size: ||\n    {F}\n    0\n", "zz2 = size o"
    if name == "each":
        return f"cb = |x|\n  {F}\n  x\n", "zz2 = (1, 2).each(cb).to_tuple()"
    if name == "keep":
        return f"cb = |x|\n  {F}\n  true\n", "zz2 = [1, 2].keep(cb).to_list()"
    if name == "fold":
        return f"cb = |a, x|\n  {F}\n  a\n", "zz2 = (1..3).fold(0, cb)"
    if name == "sortby":
        return f"cb = |x|\n  {F}\n  x\n", "zz2 = [2, 1].sort(cb)"
    if name == "generator":
        return f"g = ||\n  yield 1\n  {F}\n  yield 2\n", "for x in g()\n    zz3 = x"
    if name == "generator_wild":
        return f"g = ||\n  yield 1\n  {F}\n  yield 2\n", "for _ in g()\n    zz3 = 1"
    if name == "generator_wild2":
        return f"g = ||\n  yield (1, 2)\n  {F}\n  yield (3, 4)\n", "for _, _y in g()\n    zz3 = 1"
    if name == "generator_unpack":
        return f"g = ||\n  {F}\n  yield 1\n", "_, zz3 = g()"
    if name == "each_wild":
        return f"cb = |x|\n  {F}\n  x\n", "for _ in (1, 2).each(cb)\n    zz3 = 1"
    if name == "keep_wild":
        return f"cb = |x|\n  {F}\n  true\n", "for _ in [1, 2].keep(cb)\n    zz3 = 1"
    if name == "next_wild":
        return f"o =\n  @next: ||\n    {F}\n    null\n", "for _ in o\n    zz3 = 1"
    if name == "gen_tolist":
        return f"g = ||\n  yield 1\n  {F}\n  yield 2\n", "zz2 = g().to_list()"
    if name == "next":
        return f"o =\n  @next: ||\n    {F}\n    null\n", "for x in o\n    zz3 = x"
    raise KeyError(name)
SITES = ["direct","call1","call3","add","sub","mul","div","rem","pow","radd","less","eq","neg","index","callmeta","display","size","each","keep","fold","sortby","generator","gen_tolist","next","generator_wild","generator_wild2","generator_unpack","each_wild","keep_wild","next_wild"]
def cases():
    for s, (fk, fv) in itertools.product(SITES, FAULTS.items()):
        for shape in ("tcf", "tc", "nested", "infn"):
            defs, trig = site(s, fv)
            trig_i = trig.replace("\n", "\n")
            if shape == "tcf":
                body = f"r = try\n  print 'a'\n  {trig}\n  print 'b'\n  1\ncatch e\n  print 'c'\n  2\nfinally\n  print 'f'\n  3\nprint r\nprint 'after'\n"
                exp = "a\nc\nf\n3\nafter\n"
            elif shape == "tc":
                body = f"r = try\n  print 'a'\n  {trig}\n  print 'b'\n  1\ncatch e\n  print 'c'\n  2\nprint r\nprint 'after'\n"
                exp = "a\nc\n2\nafter\n"
            elif shape == "nested":
                t2 = trig.replace("\n", "\n  ")
                body = f"r = try\n  print 'a'\n  q = try\n    print 'i'\n    {t2}\n    print 'j'\n    10\n  catch e\n    print 'k'\n    20\n  print q\n  1\ncatch e\n  print 'c'\n  2\nfinally\n  print 'f'\n  3\nprint r\n"
                exp = "a\ni\nk\n20\nf\n3\n"
            else:
                t2 = trig.replace("\n", "\n  ")
                body = f"h = ||\n  try\n    print 'a'\n    {t2}\n    print 'b'\n    1\n  catch e\n    print 'c'\n    2\n  finally\n    print 'f'\nw = h()\nprint 'after'\n"
                exp = "a\nc\nf\nafter\n"
            yield {"name": f"{s}/{fk}/{shape}", "src": defs + body, "expect_out": exp}
if __name__ == "__main__":
    import sys
    with open(sys.argv[1], "w") as f:
        for c in cases():
            f.write(json.dumps({"src": c["src"], "limit_ms": 3000}) + "\n")
    json.dump(list(cases()), open(sys.argv[1] + ".meta", "w"))
