"""C01 component `comp`: compiler correctness for Core-0 (coq/comp).

T  theorems in coq/comp/C01compProps.v: simulation between the reference semantics Sem0 and the
   model Comp0 / VM0 of koto's bytecode compiler and VM, outside the decidable class known_C01
R  tie, per generated Core-0 program p (printed as koto source, compiled and run by kh_comp):
     (p) koto_parser's AST of the printed source == p                  (the printer is not trusted)
     (a) Comp0.compile p == bytes + constant pool of the real compiler (exact)
     (b) VM0.run on the REAL bytes == result of the real VM
D    (c) Sem0.run p == result of the real VM  (outside known_C01; inside it the deviation is the
         known finding K1 and must be reproduced by the faithful model through (a) + (b))

API for the C01 driver:  run_component(chk, tier, seed)  adds obligations / violations / known
findings to a vlib.common.Check;  replay_component(data) re-runs one stored program.
Stand-alone:  python3 -m checks.c01_comp [quick|thorough] [seed]
"""
import itertools
import json
import os
import sys

from vlib import common as C

UNIT = "comp"
PROPS = "C01compProps"
PINNED = [
    "comp_correct",
    "comp_correct_refuted",
    "comp_expr_context_independent",
    "vm_bytes_refines_instrs",
    "decode_encode",
]

I64_MAX = 9223372036854775807
AOPS = {"+": "OAdd", "-": "OSub", "*": "OMul"}
COPS = {"<": "CLt", "<=": "CLe", ">": "CGt", ">=": "CGe", "==": "CEq", "!=": "CNe"}
LOPS = {"and": "LAnd", "or": "LOr"}
# (left, right) binding powers: parser.rs operator_precedence()
PREC = {"or": (5, 6), "and": (7, 8), "==": (10, 9), "!=": (10, 9), "<": (12, 11), "<=": (12, 11), ">": (12, 11),
        ">=": (12, 11), "+": (13, 14), "-": (13, 14), "*": (15, 16)}


# ---------------------------------------------------------------------------
# AST (nested tuples / lists so that it round-trips through JSON)
#   ["null"] ["bool", b] ["int", z] ["id", k] ["nested", e] ["neg", e] ["not", e]
#   ["arith", op, a, b] ["cmp", op, a, b] ["logic", op, a, b] ["assign", k, e] ["opassign", op, k, e]
#   ["block", [e..]] ["if", c, t, [[c, t]..], els|None] ["while", c, b] ["until", c, b] ["loop", b]
#   ["break", e|None] ["continue"]

def is_binary(e):
    return e[0] in ("arith", "cmp", "logic")


def top_prec(e):
    return PREC[e[1]] if is_binary(e) else None


def is_multiline(e):
    if e[0] in ("while", "until", "loop"):
        return True
    if e[0] == "if":
        return e[2][0] == "block"
    if e[0] == "assign":
        return is_multiline(e[2])
    return False


class PrintError(Exception):
    pass


def pp_inline(e):
    k = e[0]
    if k == "null":
        return "null"
    if k == "bool":
        return "true" if e[1] else "false"
    if k == "int":
        return str(e[1])
    if k == "id":
        return f"v{e[1]}"
    if k == "nested":
        return "(" + pp_inline(e[1]) + ")"
    if k == "neg":
        return "-" + pp_inline(e[1])
    if k == "not":
        return "not " + pp_inline(e[1])
    if k in ("arith", "cmp", "logic"):
        return pp_inline(e[2]) + " " + e[1] + " " + pp_inline(e[3])
    if k == "assign":
        return f"v{e[1]} = " + pp_inline(e[2])
    if k == "opassign":
        return f"v{e[2]} {e[1]}= " + pp_inline(e[3])
    if k == "if":
        if e[2][0] == "block":
            raise PrintError("multi-line if in inline position")
        s = "if " + pp_inline(e[1]) + " then " + pp_inline(e[2])
        for c, t in e[3]:
            s += " else if " + pp_inline(c) + " then " + pp_inline(t)
        if e[4] is not None:
            s += " else " + pp_inline(e[4])
        return s
    if k == "break":
        return "break" if e[1] is None else "break " + pp_inline(e[1])
    if k == "continue":
        return "continue"
    raise PrintError("multi-line construct in inline position: " + k)


def pp_block_body(b, ind, out):
    if b[0] != "block":
        raise PrintError("body is not a block")
    for s in b[1]:
        pp_stmt(s, ind, out)


def pp_stmt(e, ind, out, prefix=""):
    """append the lines of statement e (indent ind) to out"""
    pad = "  " * ind
    k = e[0]
    if k == "assign" and is_multiline(e[2]):
        pp_stmt(e[2], ind, out, prefix + f"v{e[1]} = ")
    elif k in ("while", "until"):
        out.append(pad + prefix + k + " " + pp_inline(e[1]))
        pp_block_body(e[2], ind + 1, out)
    elif k == "loop":
        out.append(pad + prefix + "loop")
        pp_block_body(e[1], ind + 1, out)
    elif k == "if" and e[2][0] == "block":
        out.append(pad + prefix + "if " + pp_inline(e[1]))
        pp_block_body(e[2], ind + 1, out)
        for c, t in e[3]:
            out.append(pad + "else if " + pp_inline(c))
            pp_block_body(t, ind + 1, out)
        if e[4] is not None:
            out.append(pad + "else")
            pp_block_body(e[4], ind + 1, out)
    else:
        out.append(pad + prefix + pp_inline(e))


def pp_program(p):
    out = []
    for s in p:
        pp_stmt(s, 0, out)
    return "\n".join(out) + "\n"


def sexp(e):
    k = e[0]
    if k == "null":
        return "null"
    if k == "bool":
        return "true" if e[1] else "false"
    if k == "int":
        return f"(int {e[1]})"
    if k == "id":
        return f"(id v{e[1]})"
    if k in ("nested", "neg", "not"):
        return f"({k} {sexp(e[1])})"
    if k in ("arith", "cmp", "logic"):
        return f"({e[1]} {sexp(e[2])} {sexp(e[3])})"
    if k == "assign":
        return f"(= (id v{e[1]}) {sexp(e[2])})"
    if k == "opassign":
        return f"({e[1]}= (id v{e[2]}) {sexp(e[3])})"
    if k == "block":
        return "(block" + "".join(" " + sexp(x) for x in e[1]) + ")"
    if k == "if":
        s = f"(if {sexp(e[1])} {sexp(e[2])}"
        for c, t in e[3]:
            s += f" (elif {sexp(c)} {sexp(t)})"
        if e[4] is not None:
            s += f" (else {sexp(e[4])})"
        return s + ")"
    if k in ("while", "until"):
        return f"({k} {sexp(e[1])} {sexp(e[2])})"
    if k == "loop":
        return f"(loop {sexp(e[1])})"
    if k == "break":
        return "(break)" if e[1] is None else f"(break {sexp(e[1])})"
    if k == "continue":
        return "(continue)"
    raise ValueError(k)


def assigned_ids(e, acc):
    k = e[0]
    if k == "assign":
        if e[1] not in acc:
            acc.append(e[1])
        assigned_ids(e[2], acc)
    elif k in ("nested", "neg", "not", "loop"):
        assigned_ids(e[1], acc)
    elif k == "opassign":
        assigned_ids(e[3], acc)
    elif k in ("arith", "cmp", "logic"):
        assigned_ids(e[2], acc)
        assigned_ids(e[3], acc)
    elif k in ("while", "until"):
        assigned_ids(e[1], acc)
        assigned_ids(e[2], acc)
    elif k == "block":
        for x in e[1]:
            assigned_ids(x, acc)
    elif k == "if":
        assigned_ids(e[1], acc)
        assigned_ids(e[2], acc)
        for c, t in e[3]:
            assigned_ids(c, acc)
            assigned_ids(t, acc)
        if e[4] is not None:
            assigned_ids(e[4], acc)
    elif k == "break" and e[1] is not None:
        assigned_ids(e[1], acc)
    return acc


def sexp_program(p):
    acc = []
    for s in p:
        assigned_ids(s, acc)
    return f"(main {len(acc)}" + "".join(" " + sexp(s) for s in p) + ")"


def coq(e):
    k = e[0]
    if k == "null":
        return "ENull"
    if k == "bool":
        return "(EBool true)" if e[1] else "(EBool false)"
    if k == "int":
        return f"(EInt ({e[1]})%Z)"
    if k == "id":
        return f"(EId {e[1]})"
    if k == "nested":
        return f"(ENested {coq(e[1])})"
    if k == "neg":
        return f"(ENeg {coq(e[1])})"
    if k == "not":
        return f"(ENot {coq(e[1])})"
    if k == "arith":
        return f"(EArith {AOPS[e[1]]} {coq(e[2])} {coq(e[3])})"
    if k == "cmp":
        return f"(ECmp {COPS[e[1]]} {coq(e[2])} {coq(e[3])})"
    if k == "logic":
        return f"(ELogic {LOPS[e[1]]} {coq(e[2])} {coq(e[3])})"
    if k == "assign":
        return f"(EAssign {e[1]} {coq(e[2])})"
    if k == "opassign":
        return f"(EOpAssign {AOPS[e[1]]} {e[2]} {coq(e[3])})"
    if k == "block":
        return "(EBlock [" + "; ".join(coq(x) for x in e[1]) + "])"
    if k == "if":
        arms = "; ".join(f"({coq(c)}, {coq(t)})" for c, t in e[3])
        els = "None" if e[4] is None else f"(Some {coq(e[4])})"
        return f"(EIf {coq(e[1])} {coq(e[2])} [{arms}] {els})"
    if k == "while":
        return f"(EWhile {coq(e[1])} {coq(e[2])})"
    if k == "until":
        return f"(EUntil {coq(e[1])} {coq(e[2])})"
    if k == "loop":
        return f"(ELoop {coq(e[1])})"
    if k == "break":
        return "(EBreak None)" if e[1] is None else f"(EBreak (Some {coq(e[1])}))"
    if k == "continue":
        return "EContinue"
    raise ValueError(k)


def coq_program(p):
    return "[" + "; ".join(coq(s) for s in p) + "]"


# ---------------------------------------------------------------------------
# generators

def wrap_operand(parent_op, side, child):
    """insert parentheses (a Nested node) where the printed text would otherwise parse differently"""
    k = child[0]
    if k in ("null", "bool", "id", "nested"):
        return child
    if k == "int":
        return child
    if k == "neg":
        return child
    if is_binary(child):
        cl, cr = PREC[child[1]]
        pl, pr = PREC[parent_op]
        if side == "L":
            return child if pl < cr else ["nested", child]
        return child if cl >= pr else ["nested", child]
    return ["nested", child]


def mk_bin(kind, op, a, b, force_paren_right=False):
    a = wrap_operand(op, "L", a)
    b2 = wrap_operand(op, "R", b)
    if force_paren_right and b2[0] != "nested":
        b2 = ["nested", b2]
    return [kind, op, a, b2]


def mk_neg(a):
    if a[0] in ("id", "nested"):
        return ["neg", a]
    return ["neg", ["nested", a]]


def mk_not(a):
    # `not` takes a whole expression
    if a[0] in ("assign", "opassign", "if", "break", "continue", "not"):
        return ["not", ["nested", a]]
    return ["not", a]


BOUNDARY = [I64_MAX, -I64_MAX, 255, 256, -255, -256, 65536, 4294967296, I64_MAX - 1, 2147483647, 3037000500]
SMALL = [0, 1, 2, 3, 7, -1, -2, 100, 254]


def operand(kind, rng, vars_):
    if kind == "small":
        return ["int", rng.choice(SMALL)]
    if kind == "boundary":
        return ["int", rng.choice(BOUNDARY)]
    if kind == "bool":
        return ["bool", rng.chance(1, 2)]
    if kind == "null":
        return ["null"]
    return ["id", rng.choice(vars_)]


KINDS = ["small", "boundary", "bool", "null", "var"]
BINOPS = [("arith", o) for o in AOPS] + [("cmp", o) for o in COPS] + [("logic", o) for o in LOPS]


def prelude(nvars, rng, extra, ints_only=False):
    """v0..v{nvars-1} hold values of mixed kinds; `extra` more locals v1000.. are declared to raise
    the register numbers (register pressure / wide constant-pool indices)"""
    p = []
    vals = [["int", 5], ["int", 2], ["bool", True], ["int", I64_MAX], ["int", -3], ["int", 7], ["null"], ["int", 0],
            ["int", 300], ["bool", False], ["int", 1]]
    for i in range(extra):
        p.append(["assign", 1000 + i, ["int", i % 7]])
    if ints_only:
        vals = [v for v in vals if v[0] == "int"]
    for i in range(nvars):
        p.append(["assign", i, vals[(i + rng.below(len(vals))) % len(vals)]])
    return p


def in_context(e, ctx, rng, nvars=4):
    """a whole program around expression e.
    ctx: stmt (value discarded, then read back the variables) | new (assigned to a new variable) |
         existing (assigned to an existing variable) | last (script result, mode Any) |
         loop (body of a loop whose result is assigned) | cond (condition of an if)"""
    extra = 0
    r = rng.below(10)
    if r == 0:
        extra = 1 + rng.below(200)
    elif r == 1:
        extra = rng.choice([120, 126, 127, 128, 200, 249])
    p = prelude(nvars, rng, extra)
    res = 900
    if ctx == "stmt":
        p += [as_stmt(e), ["arith", "+", ["id", 0], ["int", 0]] if rng.chance(1, 2) else ["id", rng.below(nvars)]]
    elif ctx == "new":
        p += [["assign", res, e], ["id", res]]
    elif ctx == "existing":
        k = rng.below(nvars)
        p += [["assign", k, e], ["id", k]]
    elif ctx == "last":
        p += [as_stmt(e)]
    elif ctx == "loop":
        cnt = 901
        body = ["block", [["opassign", "+", cnt, ["int", 1]], as_stmt(e)]]
        p += [["assign", cnt, ["int", 0]],
              ["assign", res, ["while", ["cmp", "<", ["id", cnt], ["int", 1 + rng.below(3)]], body]],
              ["id", res]]
    elif ctx == "cond":
        p += [["assign", res, ["if", wrap_inline(e), ["int", 1], [], ["int", 2]]], ["id", res]]
    return p


def starts_with_minus(e):
    while True:
        if e[0] == "neg" or (e[0] == "int" and e[1] < 0):
            return True
        if is_binary(e):
            e = e[2]
        else:
            return False


def as_stmt(e):
    """a line that starts with `-` would continue the previous line's expression"""
    return ["nested", e] if starts_with_minus(e) else e


def wrap_inline(e):
    return e if e[0] in ("null", "bool", "int", "id", "nested") or is_binary(e) or e[0] == "neg" else ["nested", e]


CONTEXTS = ["stmt", "new", "existing", "last", "loop", "cond"]


def gen_exhaustive(tier, rng):
    """all single-operator trees over operand kinds, and all two-operator shapes with rotating
    operand kinds, each in a rotating context"""
    cases = []
    vars_ = [0, 1, 2, 3]
    ci = 0
    for (kind, op) in BINOPS:
        for ka, kb in itertools.product(KINDS, KINDS):
            e = mk_bin(kind, op, operand(ka, rng, vars_), operand(kb, rng, vars_))
            cases.append(("exh1", in_context(e, CONTEXTS[ci % len(CONTEXTS)], rng)))
            ci += 1
    for u in ("neg", "not"):
        for ka in KINDS:
            a = operand(ka, rng, vars_)
            e = mk_neg(a) if u == "neg" else mk_not(a)
            for ctx in CONTEXTS:
                cases.append(("exh1", in_context(e, ctx, rng)))
    # two binary operators, both association shapes; operand kinds rotate through all triples
    triples = list(itertools.product(KINDS, KINDS, KINDS))
    ti = 0
    reps = 1 if tier == "quick" else 6
    for (k1, o1), (k2, o2) in itertools.product(BINOPS, BINOPS):
        for _ in range(reps):
            for shape in ("L", "R"):
                ka, kb, kc = triples[ti % len(triples)]
                ti += 7
                a, b, c = (operand(k, rng, vars_) for k in (ka, kb, kc))
                if shape == "L":
                    e = mk_bin(k2, o2, mk_bin(k1, o1, a, b), c)
                else:
                    e = mk_bin(k1, o1, a, mk_bin(k2, o2, b, c))
                cases.append(("exh2", in_context(e, CONTEXTS[ci % len(CONTEXTS)], rng)))
                ci += 1
    # comparison chains of length 3 and 4 with every operator pair
    for o1, o2 in itertools.product(COPS, COPS):
        a, b, c = (operand(rng.choice(["small", "var", "small", "boundary"]), rng, vars_) for _ in range(3))
        e = ["cmp", o1, a, ["cmp", o2, b, c]]
        if PREC[o2][0] >= PREC[o1][1]:
            cases.append(("chain", in_context(e, CONTEXTS[ci % len(CONTEXTS)], rng)))
            ci += 1
    return cases


class Gen:
    """seeded random Core-0 programs"""

    def __init__(self, rng, nvars, depth):
        self.rng = rng
        self.nvars = nvars
        self.depth = depth
        self.next_new = 100
        self.next_cnt = 500
        self.assigned = list(range(nvars))      # hold integers (almost always)
        self.bools = [50, 51]
        self.anys = [60]
        # most programs are well typed throughout; the others mix kinds here and there
        self.conf = 0 if rng.chance(7, 10) else 30

    def confuse(self):
        return self.conf > 0 and self.rng.chance(1, self.conf)

    def var(self, ty="int"):
        if self.confuse():
            ty = self.rng.choice(["int", "bool", "any"])
        if ty == "bool":
            return self.rng.choice(self.bools)
        if ty == "any":
            return self.rng.choice(self.anys)
        return self.rng.choice(self.assigned)

    def atom(self, ty="any"):
        rng = self.rng
        if self.confuse():
            ty = rng.choice(["int", "bool", "any", "null"])      # deliberate type confusion
        if ty == "any":
            if rng.chance(1, 3):
                return ["id", self.var("any")]
            ty = rng.choice(["int", "int", "bool", "null"])
        if ty == "int":
            r = rng.below(10)
            if r < 5:
                return ["id", self.var()]
            if r < 8:
                return ["int", rng.choice(SMALL)]
            if r < 9:
                return ["int", rng.choice(BOUNDARY)]
            return ["int", rng.below(600) - 300]
        if ty == "bool":
            return ["id", self.var("bool")] if rng.chance(1, 2) else ["bool", rng.chance(1, 2)]
        return ["null"]

    def expr(self, d, in_loop=False, allow_assign=True, ty="any"):
        """ty: the kind of value wanted (int / bool / any); variables mostly hold ints"""
        rng = self.rng
        if d <= 0 or rng.chance(1, 6):
            return self.atom(ty)
        if self.confuse():
            ty = "any"
        if ty == "any":
            ty = rng.choice(["int", "int", "bool", "logic"])
        sub = lambda t, dd=d - 1: self.expr(dd, in_loop, allow_assign, t)
        r = rng.below(100)
        if r < 8:
            t = wrap_inline(sub(ty if ty != "logic" else "any"))
            els = wrap_inline(sub(ty if ty != "logic" else "any")) if (ty in ("int", "bool") or rng.chance(3, 4)) else None
            return ["nested", ["if", wrap_inline(sub("bool")), t, [], els]]
        if r < 16 and allow_assign and ty == "int":
            if rng.chance(1, 2):
                return ["nested", ["assign", self.var(), self.expr(d - 1, in_loop, False, "int")]]
            return ["nested", ["opassign", rng.choice(list(AOPS)), self.var(), self.expr(d - 1, in_loop, False, "int")]]
        if r < 20:
            return ["nested", sub(ty if ty != "logic" else "any")]
        if ty == "int":
            if r < 30:
                return mk_neg(sub("int"))
            o = rng.choice(list(AOPS))
            return mk_bin("arith", o, sub("int"), sub("int"))
        if ty == "bool":
            if r < 32:
                return mk_not(sub("any"))
            if r < 50:
                o = rng.choice(list(LOPS))
                return mk_bin("logic", o, sub("bool"), sub("bool"))
            o = rng.choice(list(COPS))
            opty = "any" if o in ("==", "!=") and rng.chance(1, 2) else "int"
            a = sub(opty)
            b = sub(opty)
            if rng.chance(1, 3):
                # a chain: the right operand is an unparenthesised comparison
                o2 = rng.choice([x for x in COPS if PREC[x][0] >= PREC[o][1]])
                b = mk_bin("cmp", o2, b, sub(opty, d - 2))
                a = wrap_operand(o, "L", a)
                return ["cmp", o, a, b]
            return mk_bin("cmp", o, a, b)
        # and / or yielding one of its operands
        o = rng.choice(list(LOPS))
        return mk_bin("logic", o, sub("any"), sub("any"))

    def rhs(self, d, in_loop):
        """right-hand side of an assignment: an expression or a block construct"""
        r = self.rng.below(10)
        if r < 6:
            e = self.expr(d, in_loop, True, "any" if self.confuse() else "int")
            return e[1] if e[0] == "nested" and e[1][0] in ("if", "assign", "opassign") and self.rng.chance(1, 2) else e
        if r < 8:
            return self.if_stmt(d, in_loop, False)
        return self.loop_stmt(d, False)

    def if_stmt(self, d, in_loop, allow_esc):
        c = self.expr(min(d, 2), in_loop, True, "bool")
        t = self.block(d - 1, in_loop, allow_esc)
        elifs = []
        while self.rng.chance(1, 3) and len(elifs) < 2:
            elifs.append([self.expr(min(d, 2), in_loop, True, "bool"), self.block(d - 1, in_loop, allow_esc)])
        els = self.block(d - 1, in_loop, allow_esc) if self.rng.chance(1, 2) else None
        return ["if", c, t, elifs, els]

    def loop_stmt(self, d, with_value_breaks):
        rng = self.rng
        cnt = self.next_cnt
        self.next_cnt += 1
        limit = rng.below(5)          # 0: a conditional loop that never runs (its value is null)
        kind = rng.choice(["while", "until", "loop"])
        body = [["opassign", "+", cnt, ["int", 1]]]
        if kind == "loop" or rng.chance(1, 3):
            brk = ["break", self.expr(1, True, True, "int")] if (with_value_breaks and rng.chance(1, 2)) else ["break", None]
            body.append(["if", ["cmp", ">", ["id", cnt], ["int", limit]], brk, [], None])
        self.pre.append(["assign", cnt, ["int", 0]])
        c = ["cmp", "<", ["id", cnt], ["int", limit]]
        if kind == "while" and rng.chance(1, 3):
            c = mk_bin("logic", "and", c, self.expr(1, False, False, "bool"))
        inner = self.block(d - 1, True, True, with_value_breaks)[1]
        body += inner
        if kind == "while":
            return ["while", c, ["block", body]]
        if kind == "until":
            return ["until", ["cmp", ">=", ["id", cnt], ["int", limit]], ["block", body]]
        return ["loop", ["block", body]]

    def stmt(self, d, in_loop, allow_esc, value_breaks=False):
        rng = self.rng
        r = rng.below(100)
        if r < 30:
            if rng.chance(1, 3):
                k = self.next_new
                self.next_new += 1
                rhs = self.rhs(d, in_loop)
                e = ["assign", k, rhs]
                (self.anys if (is_multiline(rhs) or rhs[0] == "if") else self.assigned).append(k)
                return e
            if rng.chance(1, 6):
                return ["assign", self.var("bool"), self.expr(d, in_loop, True, "bool")]
            rhs = self.rhs(d, in_loop)
            if is_multiline(rhs) or rhs[0] == "if":
                # the value of a block / loop can be anything: keep it away from the integer variables
                return ["assign", self.var("any"), rhs]
            return ["assign", self.var(), rhs]
        if r < 40:
            return ["opassign", rng.choice(list(AOPS)), self.var(), self.expr(d - 1, in_loop, True, "int")]
        if r < 55 and d > 1:
            return self.if_stmt(d, in_loop, allow_esc)
        if r < 65 and d > 1:
            vb = rng.chance(1, 2)
            lp = self.loop_stmt(d, vb)
            if vb:
                k = self.next_new
                self.next_new += 1
                self.anys.append(k)
                return ["assign", k, lp]
            return lp
        if r < 75 and in_loop and allow_esc:
            if rng.chance(1, 2):
                inner = ["break", self.expr(1, True, True, "int")] if (value_breaks and rng.chance(1, 2)) else ["break", None]
            else:
                inner = ["continue"]
            return ["if", wrap_inline(self.expr(2, in_loop, True, "bool")), inner, [], None]
        if r < 92:
            return ["opassign", rng.choice(list(AOPS)), self.var(), self.expr(d - 1, in_loop, True, "int")]
        e = self.expr(d, in_loop)
        return as_stmt(e[1] if e[0] == "nested" and e[1][0] in ("if", "assign", "opassign") else e)

    def block(self, d, in_loop, allow_esc, value_breaks=False):
        n = 1 + self.rng.below(3)
        return ["block", [self.stmt(d, in_loop, allow_esc, value_breaks) for _ in range(n)]]

    def program(self):
        rng = self.rng
        extra = 0
        r = rng.below(12)
        if r == 0:
            extra = 1 + rng.below(200)
        elif r == 1:
            extra = rng.choice([100, 127, 128, 200, 240])
        self.pre = prelude(self.nvars, rng, extra, ints_only=True)
        self.pre += [["assign", 50, ["bool", rng.chance(1, 2)]], ["assign", 51, ["bool", rng.chance(1, 2)]],
                     ["assign", 60, rng.choice([["null"], ["int", 3], ["bool", False]])]]
        body = []
        n = 1 + rng.below(4)
        for _ in range(n):
            s = self.stmt(self.depth, False, False)
            body.append(s)
        if rng.chance(2, 3):
            body.append(as_stmt(self.expr(2, False)))
        return self.pre + body


def gen_random(tier, rng, n):
    out = []
    for i in range(n):
        g = Gen(rng, 2 + rng.below(4), 2 + rng.below(5))
        try:
            p = g.program()
            pp_program(p)
            out.append(("random", p))
        except PrintError:
            continue
    return out


def load_corpus():
    out = []
    d = os.path.join(C.VERIF, "corpus", "C01comp")
    if os.path.isdir(d):
        for f in sorted(os.listdir(d)):
            for line in open(os.path.join(d, f), encoding="utf-8"):
                line = line.strip()
                if line and not line.startswith("#"):
                    out.append(("corpus", json.loads(line)))
    return out


# ---------------------------------------------------------------------------
# comparison

def canon_model(v):
    """model encoding -> the canonical string kh prints"""
    if v[0] == 0:
        t = v[1]
        if t == 0:
            return "n"
        if t == 1:
            return "t" if v[2] else "f"
        z = v[2]
        if z >= 1 << 63:
            z -= 1 << 64
        return f"i{z}"
    if v[0] == 1:
        return "EType" if v[1] == 0 else "EBinaryOp"
    return {2: "PANIC", 3: "BAD", 4: "ETimeout", 5: "STUCK", 9: "NOCHUNK"}.get(v[0], "?")


def coq_consts(consts):
    items = []
    for c in consts:
        if c[0] == 1:
            items.append(f"PInt ({c[1]})%Z")
        elif c[0] == 0:
            # the name is only compared in Python; the VM model never reads string constants
            items.append("PStr 0")
        else:
            items.append("PStr 0")
    return "[" + "; ".join(items) + "]"


HEADER = ("From Coq Require Import ZArith NArith List Bool.\n"
          "From KV.comp Require Import Ast0 Sem0 Instr0 Comp0 VM0 Known0 CompRun.\n"
          "Import ListNotations.\nOpen Scope N_scope.\n")


def evaluate(chk, cases, tag):
    """cases: [(origin, program)].  returns list of per-case dicts (or None when the machinery failed)"""
    binp, blog = C.build_harness("kh_comp")
    if not binp:
        chk.log("kh_comp does not build:\n" + blog[-3000:])
        chk.oblige("corr:kh_comp builds against the koto checkout", False, blog[-500:])
        return None
    os.makedirs(os.path.join(C.BUILD, "cases"), exist_ok=True)
    cf = os.path.join(C.BUILD, "cases", f"c01comp-{tag}-{os.getpid()}.jsonl")
    srcs = []
    with open(cf, "w") as f:
        for _, p in cases:
            s = pp_program(p)
            srcs.append(s)
            f.write(json.dumps({"src": s}) + "\n")
    rc, out = C.sh([binp, cf], timeout=3600)
    os.remove(cf)
    lines = [json.loads(l) for l in out.splitlines() if l.startswith("{")]
    if rc != 0 or len(lines) != len(cases):
        chk.log(f"kh_comp failed rc={rc}: {out[-1500:]}")
        chk.oblige("corr:kh_comp runs", False, out[-500:])
        return None
    terms = []
    for (_, p), r in zip(cases, lines):
        if "bytes" in r:
            terms.append(f"case_out {coq_program(p)} {C.coq_list(r['bytes'])} {coq_consts(r['consts'])}")
        else:
            terms.append(f"case_out {coq_program(p)} [] []")
    try:
        vals = C.coq_eval(UNIT, HEADER, terms, tag="c01comp-" + tag, per_shard=150)
    except RuntimeError as e:
        chk.log(str(e)[-3000:])
        chk.oblige("corr:model evaluates (coq_eval)", False, str(e)[-500:])
        return None
    res = []
    for (origin, p), src, r, v in zip(cases, srcs, lines, vals):
        # Coq prints ((a, b), c, (d, ...)) as (a, b, c, (d, ...))
        status, mbytes, mconsts, (vm_model, (vm_real, (sem, (known, wf)))) = v
        d = {"origin": origin, "prog": p, "src": src, "real": r, "model_status": status, "model_bytes": mbytes,
             "model_consts": mconsts, "vm_on_model": canon_model(vm_model), "vm_on_real": canon_model(vm_real),
             "sem": canon_model(sem), "known": bool(known), "wf": bool(wf), "fail": []}
        # (p) parse
        want = sexp_program(p)
        if "panic" in r and status == 2:
            # the real compiler panicked and the model says so too (1 + local_count overflows u8)
            d["panic_reproduced"] = True
            res.append(d)
            continue
        if r.get("ast") != want:
            d["fail"].append(("parse", f"parser AST {r.get('ast')!r} != generated {want!r}"))
            res.append(d)
            continue
        if "panic" in r:
            real_status = 2
        elif "compile_error" in r:
            real_status = 1
        else:
            real_status = 0
        # (a)
        if status == 3:
            d["fail"].append(("outside", "model: outside Core-0"))
        elif status != real_status:
            d["fail"].append(("a", f"compile status model={status} real={real_status} {r.get('compile_error', r.get('panic', ''))}"))
        elif status == 0:
            if mbytes != r["bytes"]:
                d["fail"].append(("a", "bytes differ"))
            rc_ = []
            for c in r["consts"]:
                if c[0] == 0:
                    rc_.append([0, c[1]])
                elif c[0] == 1:
                    rc_.append([1, int(c[1]) % (1 << 64)])
                else:
                    rc_.append([2])
            mc_ = [[0, f"v{c[1]}"] if c[0] == 0 else [1, c[1]] for c in mconsts]
            if rc_ != mc_:
                d["fail"].append(("a", f"constant pools differ: model {mc_} real {rc_}"))
            # (b)
            if d["vm_on_real"] != r["result"]:
                d["fail"].append(("b", f"VM0 on real bytes = {d['vm_on_real']}, real VM = {r['result']}"))
            # (c)
            if d["sem"] != r["result"]:
                if d["known"]:
                    d["known_hit"] = True
                elif not d["wf"]:
                    d["outside_wf"] = True
                elif d["sem"] == "ETimeout" or r["result"] == "ETimeout":
                    d["timeout"] = True
                else:
                    d["fail"].append(("c", f"reference semantics = {d['sem']}, real VM = {r['result']}"))
        res.append(d)
    return res


def size_of(p):
    return len(json.dumps(p))


def run_component(chk, tier, seed):
    """adds the obligations / violations / known findings of the `comp` component to chk"""
    # ---- tie no. 1: opcode numbers from /repo
    from tools import k2v, k2v_comp
    try:
        k2v_comp.gen_ops0(os.path.join(C.COQ, UNIT, "GenOps0.v"), os.path.join(C.BUILD, "gen", "ops0.json"))
        chk.oblige("comp gen:opcode numbers (k2v_comp: enum Op)", True)
        gen_ok = True
    except k2v.GenError as e:
        chk.oblige("comp gen:opcode numbers", False, str(e))
        gen_ok = False
    # ---- T
    model_ok = False
    axioms = []
    if gen_ok:
        ok, log = C.coq_build(UNIT, ["CompRun.vo"])
        model_ok = ok
        if not ok:
            chk.log("comp: model does not compile:\n" + log[-2000:])
        pr = C.check_props_file(UNIT, PROPS, PINNED)
        hits = C.forbidden_scan(UNIT)
        if not pr["ok"]:
            chk.log("comp: C01compProps does not check:\n" + pr["log"][-2500:])
        for name in PINNED:
            good = pr["ok"] and name not in pr["missing"] and ("Print Assumptions " + name) not in pr["missing"] \
                and not pr["bad_axioms"] and not hits
            chk.oblige("comp thm:" + name, good)
        if hits:
            chk.log("comp: forbidden constructs: " + "; ".join(hits))
        axioms = pr["axioms"]
    else:
        for name in PINNED:
            chk.oblige("comp thm:" + name, False, "opcode table could not be regenerated")
    # ---- R + D
    rng = C.Rng(seed)
    cases = load_corpus()
    cases += gen_exhaustive(tier, rng)
    cases += gen_random(tier, rng, 450 if tier == "quick" else 30000)
    if not model_ok:
        chk.oblige("comp corr:model available", False)
        return {"cases": 0}
    t_eval = __import__("time").time()
    res = evaluate(chk, cases, tier)
    chk.log(f"comp: tie evaluation {__import__('time').time() - t_eval:.1f}s for {len(cases)} programs")
    if res is None:
        return {"cases": 0}
    dist = {}
    outcomes = {}
    fails = {"parse": [], "a": [], "b": [], "c": [], "outside": []}
    known_hits = 0
    in_known = 0
    outside_wf = 0
    timeouts = 0
    loops = 0
    for d in res:
        dist[d["origin"]] = dist.get(d["origin"], 0) + 1
        rr = d["real"].get("result", "compile-error")
        cls = "value" if rr[:1] in ("n", "t", "f", "i") else rr
        key = d["origin"] + ":" + cls
        outcomes[key] = outcomes.get(key, 0) + 1
        for kind, msg in d["fail"]:
            fails[kind].append((d, msg))
        if d.get("known_hit"):
            known_hits += 1
        if d["known"]:
            in_known += 1
        if d.get("outside_wf"):
            outside_wf += 1
        if d.get("timeout"):
            timeouts += 1
        chk.count_case(d["src"], "while" in d["src"] or "loop" in d["src"] or "until" in d["src"] or " if " in d["src"])
    panics = sum(1 for d in res if d.get("panic_reproduced"))
    if panics:
        chk.known("K-255locals compiling a script with 255 assigned top-level identifiers panics in Frame::new "
                  f"(`1 + local_count` overflows u8, frame.rs); reproduced by the model as CompilePanic ({panics} cases)")
    if known_hits:
        chk.known("K1 result/operand register aliasing: reassigning a variable from an expression that reads it "
                  "(`x = y and x`, `x = 1 < x < 5`, `x = while x < n ...`) or re-assigning an operand inside a later "
                  f"operand (`x + (x = 5)`) computes with a half-written variable ({known_hits} generated programs "
                  "deviate from the reference semantics, all inside known_C01 and reproduced by the model)")
    chk.oblige("comp corr:(p) koto_parser AST == generated AST", not fails["parse"], f"{len(fails['parse'])}")
    chk.oblige("comp corr:(-) every generated program is inside Core-0", not fails["outside"], f"{len(fails['outside'])}")
    chk.oblige("comp corr:(a) Comp0.compile == real compiler bytes + constants", not fails["a"], f"{len(fails['a'])}")
    chk.oblige("comp corr:(b) VM0 on real bytes == real VM result", not fails["b"], f"{len(fails['b'])}")

    def smallest(lst):
        return min(lst, key=lambda x: size_of(x[0]["prog"]))

    if fails["c"]:
        d, msg = smallest(fails["c"])
        chk.violation("comp-input", {
            "kind": "input", "component": "comp", "program": d["prog"], "source": d["src"],
            "impl_says": d["real"].get("result"), "reference_semantics_says": d["sem"],
            "predicate_failed": "C01: the result of compiling and running the program is the value the language guide "
                                "prescribes (Sem0) -- " + msg,
            "in_known_class": d["known"], "others": len(fails["c"]) - 1,
            "how_to_rerun": "./check C01 --replay <this file>"})
        chk.log(f"comp: {len(fails['c'])} programs outside known_C01 deviate from the reference semantics; smallest:\n"
                + d["src"] + f"  real={d['real'].get('result')} sem={d['sem']}")
    for kind in ("parse", "outside", "a", "b"):
        if fails[kind]:
            d, msg = smallest(fails[kind])
            chk.violation("comp-obligation-" + kind, {
                "kind": "obligation", "component": "comp", "broken": kind, "detail": msg,
                "program": d["prog"], "source": d["src"], "impl_says": d["real"],
                "model_bytes": d["model_bytes"], "model_status": d["model_status"],
                "vm0_on_real_bytes": d["vm_on_real"], "others": len(fails[kind]) - 1,
                "note": "the model the theorems are about no longer matches the implementation"},
                no_input=(not fails["c"]))
            chk.log(f"comp: {len(fails[kind])} failures of tie ({kind}); smallest:\n" + d["src"] + "  " + msg)
    info = {"cases": len(res), "distribution": dist, "outcomes": outcomes, "in_known_class": in_known, "known_deviations": known_hits,
            "outside_wf0": outside_wf, "timeouts": timeouts, "axioms": axioms}
    chk.coverage.setdefault("components", {})["comp"] = info
    return info


def replay_component(data):
    """re-run one stored program; returns (exit code, text)"""
    p = data.get("program")
    if p is None:
        return 0, "no program in replay file"
    chk = C.Check("C01", "replay", data.get("seed", 1), "proof")
    res = evaluate(chk, [("replay", p)], "replay")
    if res is None:
        return 3, "machinery failed"
    d = res[0]
    txt = d["src"] + f"real={d['real'].get('result')} sem={d['sem']} vm0(real bytes)={d['vm_on_real']} " \
                     f"known={d['known']} fails={d['fail']}"
    return (1 if d["fail"] else 0), txt


if __name__ == "__main__":
    tier = sys.argv[1] if len(sys.argv) > 1 else "quick"
    seed = int(sys.argv[2]) if len(sys.argv) > 2 else 1
    chk = C.Check("C01comp", tier, seed, "proof")
    info = run_component(chk, tier, seed)
    print(json.dumps({k: v for k, v in info.items() if k != "axioms"}))
    sys.exit(chk.finish(rule="see checks/c01_comp.py", explanation="component run"))
