"""Shared driver for the properties decided against the reference semantics
(coq/core/Sem.v): generate programs, run the real koto runtime (kh_run) and the
Gallina interpreter (coq_eval) on the same programs, compare canonical results
and printed output."""
import json
import os

from vlib import common as C
from checks import coregen as G

UNIT = "core"
ECLS = {1: {"EBinaryOp"}, 2: {"EType"}, 3: {"EArgs"}, 4: {"EString", "EIndex", "ENotFound", "EAssert"}, 5: {"EUnimpl"}}
FUEL = 3000


def decode(bs):
    return bytes(bs).decode("utf-8", "replace")


def model_says(val):
    """val: parsed (kind, bytes, [lines]) from SemRun.run_out"""
    kind, body, lines = val
    out = "".join(decode(l) + "\n" for l in lines)
    return kind, decode(body) if kind in (0, 1) else body, out


def agree(kind, body, out, impl):
    """does the implementation's outcome equal the reference outcome?"""
    if "panic" in impl or impl.get("result") == "ECrash":
        return False
    r = impl["result"]
    if kind == 0:
        return r == body and impl["out"] == out
    if kind == 1:
        return r == f"EThrown({body})" and impl["out"] == out
    if kind == 2:
        return r in ECLS.get(body[0], set()) and impl["out"] == out
    return True  # no verdict from the model (out of fuel / outside the subset)


def run_programs(chk, programs, tag, minimal_parens=False, checks_flag=True):
    """programs: list of (origin, ast).  returns list of dicts with src, model, impl"""
    binp, blog = C.build_harness("kh_run")
    if not binp:
        chk.log("harness build failed:\n" + blog[-3000:])
        chk.violation("build", {"kind": "obligation", "correspondence": "kh_run does not build against the checkout",
                                "log": blog[-3000:]}, no_input=True)
        return None
    srcs = []
    terms = []
    keep = []
    for origin, ast in programs:
        try:
            src = G.to_koto(ast, minimal_parens)
            term = G.to_coq(ast)
        except (ValueError, AssertionError):
            continue
        srcs.append(src)
        terms.append(f"run_out {FUEL} {term}")
        keep.append((origin, ast))
    os.makedirs(os.path.join(C.BUILD, "cases"), exist_ok=True)
    cf = os.path.join(C.BUILD, "cases", f"{tag}-{os.getpid()}.jsonl")
    with open(cf, "w") as f:
        for s in srcs:
            f.write(json.dumps({"src": s, "checks": checks_flag, "limit_ms": 1500}) + "\n")
    rc, out = C.sh([binp, cf], timeout=3600)
    os.remove(cf)
    impl = [json.loads(l) for l in out.splitlines() if l.startswith("{")]
    crashes = 0
    while (rc != 0 or len(impl) < len(srcs)) and len(impl) < len(srcs) and crashes < 20:
        # the harness process died (abort / stack overflow / kill) on case number len(impl): that program is
        # the input; it gets the outcome ECrash (which no reference outcome agrees with) and the rest is run
        crashes += 1
        dead = len(impl)
        chk.log(f"kh_run died (rc={rc}) on program {dead}:\n{srcs[dead]}")
        impl.append({"result": "ECrash", "out": "", "msg": f"harness process died rc={rc}: {out[-300:]}"})
        with open(cf, "w") as f:
            for s in srcs[dead + 1:]:
                f.write(json.dumps({"src": s, "checks": checks_flag, "limit_ms": 1500}) + "\n")
        rc, out = C.sh([binp, cf], timeout=3600)
        os.remove(cf)
        impl += [json.loads(l) for l in out.splitlines() if l.startswith("{")]
    if len(impl) != len(srcs):
        chk.log(f"kh_run failed rc={rc}: {out[-1500:]}")
        chk.violation("harness", {"kind": "obligation", "correspondence": "kh_run crashed", "log": out[-2000:]}, no_input=True)
        return None
    header = "From KV.core Require Import Ast Sem SemRun.\n"
    vals = C.coq_eval(UNIT, header, terms, tag=tag, per_shard=150)
    res = []
    for (origin, ast), src, v, im in zip(keep, srcs, vals, impl):
        kind, body, mout = model_says(v)
        res.append({"origin": origin, "ast": ast, "src": src, "kind": kind, "body": body, "out": mout, "impl": im})
    return res


def load_corpus(pid):
    from checks.c01 import to_tuple
    out = []
    d = os.path.join(C.VERIF, "corpus", pid)
    if os.path.isdir(d):
        for f in sorted(os.listdir(d)):
            if f.endswith(".json"):
                for item in json.load(open(os.path.join(d, f))):
                    out.append(("corpus:" + item.get("name", f), to_tuple(item["ast"])))
    return out


def run_profile(pid, props_file, pinned, gen_cls, profile, known_fn, rule, n_quick, n_thorough, tier, seed,
                size=(2, 4), depth=2, level_note="", extra=None):
    """generic check for a property decided against the reference semantics.
    known_fn(result_record) -> None | "<finding id> <what fails>" classifies a
    disagreement as a known finding."""
    chk = C.Check(pid, tier, seed, "proof")
    ok, log = C.coq_build(UNIT, ["SemRun.vo"])
    if not ok:
        chk.log("reference semantics does not compile:\n" + log[-2000:])
    pr = C.check_props_file(UNIT, props_file, pinned)
    hits = C.forbidden_scan(UNIT)
    for name in pinned:
        good = pr["ok"] and name not in pr["missing"] and ("Print Assumptions " + name) not in pr["missing"] \
            and not pr["bad_axioms"] and not hits
        chk.oblige("thm:" + name, good)
    if not pr["ok"]:
        chk.log(props_file + " does not check:\n" + pr["log"][-2000:])
    rng = C.Rng(seed)
    progs = load_corpus(pid)
    n = n_quick if tier == "quick" else n_thorough
    for _ in range(n):
        g = gen_cls(rng, profile)
        progs.append(("gen", g.program(size[0] + rng.below(size[1]), depth)))
    res = run_programs(chk, progs, pid.lower())
    if res is None:
        return chk.finish("n/a")
    bad = []
    dist = {"value": 0, "thrown": 0, "error": 0, "fuel": 0, "unsupported": 0, "rejected-by-compiler": 0}
    known_hits = 0
    for r in res:
        kind = r["kind"]
        im = r["impl"]
        if im.get("result") == "ECompile" and not r["origin"].startswith("corpus"):
            dist["rejected-by-compiler"] += 1
            continue
        dist[["value", "thrown", "error", "fuel", "unsupported", "unsupported"][kind]] += 1
        chk.count_case(r["src"], kind in (0, 1, 2) and r["src"].count("\n") >= 3)
        if not agree(kind, r["body"], r["out"], im):
            k = known_fn(r)
            if k:
                chk.known(k)
                known_hits += 1
            else:
                bad.append(r)
    if bad:
        bad.sort(key=lambda r: len(r["src"]))
        r = bad[0]
        chk.violation("input", {
            "kind": "input", "program": r["src"], "reference_says": [r["kind"], r["body"], r["out"]],
            "impl_says": r["impl"], "predicate_failed": "result/output differs from the reference semantics",
            "others": len(bad) - 1, "ast": r["ast"]})
        chk.log(f"{len(bad)} programs disagree with the reference semantics; smallest:\n{r['src']}"
                f"reference: {r['kind']} {r['body']} {r['out']!r}\nimpl: {r['impl']}")
    if extra is not None:
        extra(chk, tier)
    broken = [o for o in chk.obligations if not o[1]]
    if broken and not bad and not chk.violations:
        chk.violation("obligation", {"kind": "obligation", "broken": [o[0] for o in broken]}, no_input=True)
    if n and dist["rejected-by-compiler"] * 4 > len(res):
        chk.notes.append("more than a quarter of the generated programs were rejected by the compiler: generator needs attention")
    tb = ["Coq 8.16.1 kernel; vm_compute evaluates the reference interpreter",
          "axioms (Flocq's, via the float operations of Sem): " + ", ".join(pr["axioms"]),
          "checks/coregen.py prints each AST both as Gallina and as Koto text",
          "kh_run harness: canonical value rendering, error classes"]
    return chk.finish(rule=rule, explanation="reference semantics (Gallina) vs real compiler+VM on generated programs; "
                      "laws of the reference pinned as theorems", trusted_base=tb,
                      extra={"distribution": dist, "reference_disagreements": len(bad), "known_class_hits": known_hits})


def replay_program(pid, path):
    data = json.load(open(path))
    src = data.get("program")
    if not src:
        print("replay file names an obligation:", data.get("broken"))
        return None
    binp, _ = C.build_harness("kh_run")
    cf = os.path.join(C.BUILD, "cases", f"{pid.lower()}-replay.jsonl")
    os.makedirs(os.path.dirname(cf), exist_ok=True)
    with open(cf, "w") as f:
        f.write(json.dumps({"src": src, "limit_ms": 2000}) + "\n")
    rc, out = C.sh([binp, cf])
    lines = [json.loads(l) for l in out.splitlines() if l.startswith("{")]
    print(src)
    print("impl:", lines)
    ref = data["reference_says"]
    if not agree(ref[0], ref[1], ref[2], lines[0]):
        print(f"VIOLATION property={pid} replay={path}")
        return 1
    print("the implementation now agrees with the reference")
    return 0
