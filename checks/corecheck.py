"""Shared driver for the properties decided against the reference semantics
(coq/core/Sem.v): generate programs, run the real koto runtime (kh_run) and the
Gallina interpreter (coq_eval) on the same programs, compare canonical results
and printed output."""
import json
import os

from vlib import common as C
from checks import coregen as G

UNIT = "core"
ECLS = {1: {"EBinaryOp"}, 2: {"EType"}, 3: {"EArgs"}, 4: {"EString", "EIndex", "ENotFound", "EAssert"}, 5: {"EUnimpl"}}
FUEL = 3000


def decode(bs):
    return bytes(bs).decode("utf-8", "replace")


def model_says(val):
    """val: parsed (kind, bytes, [lines]) from SemRun.run_out"""
    kind, body, lines = val
    out = "".join(decode(l) + "\n" for l in lines)
    return kind, decode(body) if kind in (0, 1) else body, out


def agree(kind, body, out, impl):
    """does the implementation's outcome equal the reference outcome?"""
    if "panic" in impl:
        return False
    r = impl["result"]
    if kind == 0:
        return r == body and impl["out"] == out
    if kind == 1:
        return r == f"EThrown({body})" and impl["out"] == out
    if kind == 2:
        return r in ECLS.get(body[0], set()) and impl["out"] == out
    return True  # no verdict from the model (out of fuel / outside the subset)


def run_programs(chk, programs, tag, minimal_parens=False, checks_flag=True):
    """programs: list of (origin, ast).  returns list of dicts with src, model, impl"""
    binp, blog = C.build_harness("kh_run")
    if not binp:
        chk.log("harness build failed:\n" + blog[-3000:])
        chk.violation("build", {"kind": "obligation", "correspondence": "kh_run does not build against the checkout",
                                "log": blog[-3000:]}, no_input=True)
        return None
    srcs = []
    terms = []
    keep = []
    for origin, ast in programs:
        try:
            src = G.to_koto(ast, minimal_parens)
            term = G.to_coq(ast)
        except (ValueError, AssertionError):
            continue
        srcs.append(src)
        terms.append(f"run_out {FUEL} {term}")
        keep.append((origin, ast))
    os.makedirs(os.path.join(C.BUILD, "cases"), exist_ok=True)
    cf = os.path.join(C.BUILD, "cases", f"{tag}-{os.getpid()}.jsonl")
    with open(cf, "w") as f:
        for s in srcs:
            f.write(json.dumps({"src": s, "checks": checks_flag, "limit_ms": 1500}) + "\n")
    rc, out = C.sh([binp, cf], timeout=3600)
    os.remove(cf)
    impl = [json.loads(l) for l in out.splitlines() if l.startswith("{")]
    if rc != 0 or len(impl) != len(srcs):
        chk.log(f"kh_run failed rc={rc}: {out[-1500:]}")
        chk.violation("harness", {"kind": "obligation", "correspondence": "kh_run crashed", "log": out[-2000:]}, no_input=True)
        return None
    header = "From KV.core Require Import Ast Sem SemRun.\n"
    vals = C.coq_eval(UNIT, header, terms, tag=tag, per_shard=150)
    res = []
    for (origin, ast), src, v, im in zip(keep, srcs, vals, impl):
        kind, body, mout = model_says(v)
        res.append({"origin": origin, "ast": ast, "src": src, "kind": kind, "body": body, "out": mout, "impl": im})
    return res
