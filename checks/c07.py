"""C07  A failed run leaves the runtime reusable and clean.   (level: partial)

T  coq/rt/C07Props.v: theorems about the sizes model of the host entry points (entry_restores outside the
   classes C07a / C07b, refuted witnesses inside them, history_equiv)
R  histories of host operations: the model's five sizes (vm_compute) vs the hook `verif_stack_sizes` after
   EVERY step, exactly — including register-number wrap-around after hundreds of leaked registers
   The alphabet: compile_and_run (ok / throws / runtime error / type check / compile error / timeout, at depth in
   functions, try/catch, string and sequence construction), call_function, run_unary_op / run_binary_op,
   value_to_string, imports of real FILE modules (ok / fails at top level / in @main / in a nested import / after a
   nested import succeeded / compile error; re-imported later), failures inside every kind of native re-entry
   (arithmetic, comparison, index, @call, @display-in-interpolation, @next overloads; each / keep / fold / sort /
   retain callbacks; generators) x (throw, runtime error, type check, timeout) x (bare, caught, in a function, in a list),
   generators that fail after k yields while they are resumed (plain / each / keep / zip chains / nested generators;
   throw, runtime error, type check, in a called function, rethrown, timeout), kept in the exports and pulled again
   from scripts (next, to_list, to_tuple, for, count) and from the host (run_unary_op Next): a failed generator is
   finished; REPL sessions on the built `koto` binary through a pty (checks/c07_repl.py): single / multi-line entries
   that succeed, fail at run time at depth, fail to compile, help, Ctrl-C mid-entry, function definitions + calls,
   interleaved with entries that read the state
D  after every completed host call the sizes are all zero; the operation's own result equals the same operation on
   a FRESH instance that performed only the completed effects of the earlier operations (so a re-import has to run
   the module again); probe scripts / calls / displays and the exports map agree with such an instance
"""
import json
import os

from vlib import common as C
from tools import k2v, k2v_rt
from checks import c08 as T
from checks import c07_repl as RP

PID = "C07"
UNIT = "rt"

PINNED = ["entry_restores_frames", "entry_restores", "history_equiv", "early_exit_restored", "failed_generator_is_finished",
          "buffer_empty_after_run", "buffer_empty_after_run_in_sessions", "session_equals_chunks",
          "entry_restores_refuted_builders", "value_to_string_clean", "compile_error_clean"]

KNOWN_B = ("C07b sequence/string builders are not unwound when an error is raised between SequenceStart|StringStart and "
           "the matching finish (caught or escaped): e.g. g = || try '{throw 1}' catch e 'c' makes 'a{g()}b' evaluate to 'cb'")

SETUP = """export nf = string.to_number
export oknat = string.to_number
export kf = |a| a + 1
export kstr = |a| 'p{a}q'
export kthrow = |a| throw 'x'
export kstrthrow = |a| 'p{throw a}q'
export kcatch = |a|
  try
    'p{throw a}q'
  catch e
    'c'
export l = [1]
export kmutfail = |a|
  l.push a
  throw 'x'
export kmutok = |a|
  l.push a
  null
export num = 5
export bad =
  @display: || throw 'd'
export badn =
  @display: string.to_number
export negok =
  @negate: || 3
export negbad =
  @negate: || throw 'n'
export spin = ||
  loop
    q = 1
1
"""

R = 5  # `required` of frames in model terms where it is irrelevant for the sizes after a completed call
# NewFrame register counts of the exported functions, read from the real bytecode by calibrate(); they matter only
# when leaked registers make the u8 register numbering wrap between the result register and the frame base
FRAME = {}
EXPORTED_FNS = ["kf", "kstr", "kthrow", "kstrthrow", "kcatch", "kmutfail", "kmutok", "spin"]


def fr(name):
    return FRAME.get(name, R)


def calibrate(binp):
    cf = os.path.join(C.BUILD, "cases", f"c07-cal-{os.getpid()}.jsonl")
    os.makedirs(os.path.dirname(cf), exist_ok=True)
    with open(cf, "w") as f:
        f.write(json.dumps({"kind": "h", "ops": [{"op": "run", "src": SETUP}] +
                            [{"op": "framesize", "name": n} for n in EXPORTED_FNS]}) + "\n")
    rc, out = C.sh([binp, cf], timeout=120)
    os.remove(cf)
    steps = json.loads(out.splitlines()[0])["steps"]
    for n, s in zip(EXPORTED_FNS, steps[1:]):
        if s.get("r", "").startswith("i"):
            FRAME[n] = int(s["r"][1:])
    return dict(FRAME)



def ind(s, n=1):
    return "\n".join(("  " * n + l) if l else l for l in s.split("\n"))


# ---- expressions that fail (or not) at depth: (koto expression, model code, classes) ------------------

LEAVES = [
    ("throw", "throw 'x'", "Fail", "EThrown"),
    ("binop-error", "1 + 'a'", "Fail", "E"),
    ("native-fail", "(string.to_number 5)", "Fail", "E"),
    ("ok", "7", "Nop", None),
    ("reenter-throw", "l.retain(|q| throw 9)", f"(NCallKoto 1 {R} Fail)", "EThrown"),
    ("reenter-native-fail", "l.retain(string.to_number)", "(NCallPre 1)", "E"),
    ("reenter-ok", "l.retain(|q| true)", f"(NCallKoto 1 {R} Nop)", None),
    ("size-op", "(koto.size l)", "NUnopPlain", None),
    ("timeout", "spin()", f"(Call 3 {R} Tick)", "ETimeout"),
]

CONTEXTS = [
    ("str", lambda e: "'a{" + e + "}b'", lambda m: f"(Str {m})"),
    ("list", lambda e: "[1, " + e + ", 2]", lambda m: f"(Lst {m})"),
    ("tuple", lambda e: "(1, " + e + ")", lambda m: f"(Lst {m})"),
    ("paren", lambda e: "(" + e + ")", lambda m: m),
]


def builder_depth_at_failure(ctxs):
    return sum(1 for c in ctxs if c in ("str", "list", "tuple"))


def gen_script(rng, allow_timeout):
    """a script: effects, then an expression failing (or not) under nested contexts, possibly inside a function
    and/or a try/catch.  returns dict(src, ref_src, model, classes, label)"""
    leaves = [l for l in LEAVES if allow_timeout or l[0] != "timeout"]
    name, expr, model, err = rng.choice(leaves)
    ctxs = []
    for _ in range(rng.below(4)):
        cn, cf, mf = rng.choice(CONTEXTS)
        expr = cf(expr)
        model = mf(model)
        ctxs.append(cn)
    fails = err is not None
    in_builder = fails and builder_depth_at_failure(ctxs) > 0
    # retain with a failing native leaves registers in the frame: harmless inside a run (truncated at its end)
    effects = []
    ref_effects = []
    k = rng.below(3)
    for i in range(k):
        if rng.below(2):
            v = rng.below(100)
            effects.append(f"export e{rng.below(4)} = {v}")
        else:
            effects.append(f"l.push {rng.below(100)}")
    ref_effects = list(effects)
    shape = rng.below(5)
    body = f"s = {expr}"
    label = name + "@" + "/".join(ctxs)
    if shape == 1:      # inside a function
        src_tail = "f = ||\n" + ind(body) + "\n  s\nr = f()"
        model = f"(Call 3 {R} {model})"
        label += "/fn"
    elif shape == 2:    # caught in the same frame
        src_tail = "r = try\n" + ind(body) + "\n  s\ncatch err\n  0"
        model = f"(Try {model} Nop)"
        label += "/caught"
        fails_out = False
    elif shape == 3:    # inside a function, caught by the caller
        src_tail = "f = ||\n" + ind(body) + "\n  s\nr = try\n  f()\ncatch err\n  0"
        model = f"(Try (Call 3 {R} {model}) Nop)"
        label += "/fn-caught"
    elif shape == 4:    # the function catches its own error; the caller is building a string
        src_tail = "f = ||\n  try\n" + ind(body, 2) + "\n    s\n  catch err\n    'c'\nr = 'A{f()}B'"
        model = f"(Str (Call 3 {R} (Try {model} Nop)))"
        label += "/self-caught-in-str"
    else:
        src_tail = body
    caught = shape in (2, 3, 4)
    if err == "ETimeout":
        caught = False          # same-activation timeouts are not catchable
    tail_effect = f"export done{rng.below(3)} = 1"
    src = "\n".join(effects + [src_tail, tail_effect]) + "\n"
    completes = (not fails) or caught
    if completes:
        # the reference performs the same script (its result may differ from a clean evaluation only through C07b)
        ref_src = src
    else:
        ref_src = "\n".join(ref_effects + ["null"]) + "\n"
    classes = set()
    if in_builder:
        classes.add("C07b")
    return {"impl": {"op": "run", "src": src}, "ref": {"op": "run", "src": ref_src},
            "model": [f"HRun {R} {model}"], "classes": classes, "label": "run:" + label,
            "same_ref": completes, "timeout": err == "ETimeout"}


def fixed_ops(moddir):
    """host operations other than generated scripts"""
    ops = []

    def op(label, impl, model, ref=None, classes=(), timeout=False):
        ops.append({"impl": impl, "ref": ref, "model": model, "classes": set(classes), "label": label,
                    "same_ref": ref is not None and ref == impl, "timeout": timeout})

    call = lambda n, a: {"op": "call", "name": n, "args": a}
    op("call:koto-ok", call("kf", [1]), [f"HCallKoto 1 {fr('kf')} Nop"], call("kf", [1]))
    op("call:koto-str-ok", call("kstr", [7]), [f"HCallKoto 1 {fr('kstr')} (Str Nop)"], call("kstr", [7]))
    op("call:koto-throws", call("kthrow", [1]), [f"HCallKoto 1 {fr('kthrow')} Fail"])
    op("call:koto-binop-error", call("kf", ["s"]), [f"HCallKoto 1 {fr('kf')} Fail"])
    op("call:koto-throws-in-str", call("kstrthrow", [1]), [f"HCallKoto 1 {fr('kstrthrow')} (Str Fail)"], classes=["C07b"])
    op("call:koto-catches-own-str-error", call("kcatch", [1]), [f"HCallKoto 1 {fr('kcatch')} (Try (Str Fail) Nop)"],
       call("kcatch", [1]), classes=["C07b"])
    op("call:koto-mutates-then-throws", call("kmutfail", [4]), [f"HCallKoto 1 {fr('kmutfail')} (Seq (NCallNative 0) Fail)"],
       call("kmutok", [4]))
    op("call:native-ok", call("oknat", ["12"]), ["HCallNative 1"], call("oknat", ["12"]))
    op("call:native-failing", call("nf", [5]), ["HCallPre 1"])
    op("call:native-failing-2args", call("nf", [5, 6]), ["HCallPre 2"])
    op("call:arity", call("kf", []), ["HCallPre 0"])
    op("call:timeout", call("spin", []), [f"HCallKoto 0 {fr('spin')} Tick"], timeout=True)
    disp = lambda n: {"op": "display", "name": n}
    op("display:list", disp("l"), ["HDisplay"], disp("l"))
    op("display:failing-koto-display", disp("bad"), ["HDisplayFails"])
    op("display:failing-native-display", disp("badn"), ["HDisplayFails"])
    un = lambda w, n: {"op": "unop", "which": w, "name": n}
    op("unop:negate-number", un("negate", "num"), ["HUnopPlain"], un("negate", "num"))
    op("unop:negate-list", un("negate", "l"), ["HUnopPre"])
    op("unop:negate-overload-ok", un("negate", "negok"), [f"HUnopKoto {R} Nop"], un("negate", "negok"))
    op("unop:negate-overload-throws", un("negate", "negbad"), [f"HUnopKoto {R} Fail"])
    op("unop:display-native-failing", un("display", "badn"), ["HUnopPreOv"])
    op("unop:display-koto-throws", un("display", "bad"), [f"HUnopKoto {R} Fail"])
    bi = lambda w, a, b: {"op": "binop", "which": w, "lhs": a, "rhs": b}
    op("binop:add-ok", bi("add", 1, 2), ["HBinopPlain"], bi("add", 1, 2))
    op("binop:add-type-error", bi("add", 1, "x"), ["HBinopPre"])
    op("binop:less-type-error", bi("less", 1, "x"), ["HBinopPre"])
    run = lambda s, **kw: dict({"op": "run", "src": s}, **kw)
    op("run:compile-error", run("x = ("), ["HCompileError"])
    op("run:type-check", run("export a1 = 1\nlet x: String = 1\nexport a2 = 2\n"), [f"HRun {R} Fail"], run("export a1 = 1\n"))
    op("run:throws-after-effects", run("export b1 = 1\nl.push 9\nthrow 'x'\n"), [f"HRun {R} (Seq (NCallNative 1) Fail)"],
       run("export b1 = 1\nl.push 9\n"))
    op("run:timeout", run("export c1 = 1\nloop\n  q = 1\n"), [f"HRun {R} Tick"], run("export c1 = 1\n"), timeout=True)
    op("run:timeout-in-str", run("s = 'a{spin()}b'\n"), [f"HRun {R} (Str (Call 3 {R} Tick))"], run("null\n"),
       classes=["C07b"], timeout=True)
    op("run:main-throws", run("export @main = || throw 'm'\n"), None)   # placeholder, removed below (pollutes exports)
    ops.pop()
    op("run:known-witness-cb", run("g = ||\n  try\n    '{throw 1}'\n  catch e\n    'c'\n'a{g()}b'\n"),
       [f"HRun {R} (Str (Call 3 {R} (Try (Str Fail) Nop)))"], run("g = ||\n  try\n    '{throw 1}'\n  catch e\n    'c'\n'a{g()}b'\n"),
       classes=["C07b"])
    # imports of file modules (labels kept for the committed corpus)
    for lab, o in (("run:import-failing-module", import_op("failing_mod", False, moddir, 0)),
                   ("run:import-module-failing-in-str", import_op("failing_str_mod", False, moddir, 1)),
                   ("run:import-in-try", import_op("failing_mod", True, moddir, 2))):
        o = dict(o)
        o["label"] = lab
        ops.append(o)
    return ops


def probes_list():
    return [
        ({"op": "run", "src": "x = (1, [2, 'a{1 + 2}b'], 'c{[4, 5]}d')\n(x, l)\n"}, f"HRun {R} (Lst (Seq (Lst (Str Nop)) (Str (Lst Nop))))"),
        ({"op": "call", "name": "kstr", "args": [7]}, f"HCallKoto 1 {fr('kstr')} (Str Nop)"),
        ({"op": "call", "name": "kf", "args": [41]}, f"HCallKoto 1 {fr('kf')} Nop"),
        ({"op": "call", "name": "oknat", "args": ["12"]}, "HCallNative 1"),
        ({"op": "display", "name": "l"}, "HDisplay"),
    ]


# ---- file modules (materialised under build/cases/c07-mods-<tag>/) ---------------------------------
# name -> (source, id in the model, behaviour)
#   behaviour: ("ok", [imports]) | ("fail", model of its body) | ("main-fails",) | ("compile-error",)
MODULES = {
    "ok_mod": ("export a = 1\n", 1),
    "ok_mod2": ("export a = 2\nexport b = [1, 2]\n", 2),
    "ok_inner": ("export a = 3\n", 3),
    "failing_mod": ("export a = 1\nthrow 'm'\n", 4),
    "failing_runtime_mod": ("export a = 1\nexport b = 1 + 'x'\n", 5),
    "failing_str_mod": ("export a = 'x{throw 2}y'\n", 6),
    "failing_main_mod": ("export a = 1\nexport @main = || throw 'mm'\n", 7),
    "outer_ok_mod": ("import ok_inner\nexport a = ok_inner.a\n", 8),
    "outer_failing_nested_mod": ("export a = 1\nimport failing_mod\nexport b = 2\n", 9),
    "outer_failing_after_inner_mod": ("import ok_inner\nthrow 'o'\n", 10),
    "compile_error_mod": ("export a = (\n", 11),
    "typecheck_mod": ("let t: String = 1\nexport a = t\n", 12),
}


def write_modules(moddir):
    os.makedirs(moddir, exist_ok=True)
    files = {n + ".koto": src for n, (src, _) in MODULES.items()}
    files["main.koto"] = "null\n"
    for n, t in files.items():
        with open(os.path.join(moddir, n), "w") as f:
            f.write(t)


def import_model(name, cached):
    """model code of `import name` given the set of modules whose exports are cached on this instance
    (updates `cached`); returns (code, fails, classes)"""
    mid = MODULES[name][1]
    if name in cached:
        return "Nop", False, set()
    if name in ("ok_mod", "ok_mod2", "ok_inner"):
        cached.add(name)
        return f"(Import {mid} {R} Nop)", False, set()
    if name in ("failing_mod", "failing_runtime_mod", "typecheck_mod"):
        return f"(Import {mid} {R} Fail)", True, set()
    if name == "failing_str_mod":
        return f"(Import {mid} {R} (Str Fail))", True, {"C07b"}
    if name == "failing_main_mod":
        return f"(ImportMain {mid} {R} Nop {R} Fail)", True, set()
    if name == "outer_ok_mod":
        inner, _, _ = import_model("ok_inner", cached)
        cached.add(name)
        return f"(Import {mid} {R} {inner})", False, set()
    if name == "outer_failing_nested_mod":
        inner, _, _ = import_model("failing_mod", cached)
        return f"(Import {mid} {R} {inner})", True, set()
    if name == "outer_failing_after_inner_mod":
        inner, _, _ = import_model("ok_inner", cached)     # the inner module stays cached although the outer one fails
        return f"(Import {mid} {R} (Seq {inner} Fail))", True, set()
    if name == "compile_error_mod":
        return "Fail", True, set()                          # compile_module fails before the placeholder exists
    raise KeyError(name)


def import_op(name, caught, moddir, k):
    """compile_and_run of a script importing file module `name` (between two exports)"""
    main = os.path.join(moddir, "main.koto")
    if caught:
        src = f"export p{k} = 1\nr = try\n  import {name}\n  1\ncatch e\n  0\nexport q{k} = r\n"
    else:
        src = f"export p{k} = 1\nimport {name}\nexport q{k} = 2\n"

    def model_fn(state):
        code, fails, classes = import_model(name, state["cached"])
        if caught:
            return [f"HRun {R} (Try {code} Nop)"], classes
        return [f"HRun {R} {code}"], classes

    _, fails, _ = import_model(name, set())
    completes = caught or not fails
    impl = {"op": "run", "src": src, "path": main}
    ref = impl if completes else {"op": "run", "src": f"export p{k} = 1\n", "path": main}
    return {"impl": impl, "ref": ref, "model_fn": model_fn, "classes": set(), "label": f"import:{name}" + ("/caught" if caught else ""),
            "same_ref": completes, "timeout": False}


# ---- failures inside each kind of native re-entry ------------------------------------------------------
RE_BODIES = {   # name -> (koto statements, model of the body, needs a limit)
    "throw": ("throw 'x'", "Fail", False),
    "runtime-error": ("y = 1 + 'a'", "Fail", False),
    "type-check": ("let t: String = 1", "Fail", False),
    "timeout": ("loop\n  q = 1", "Tick", True),
    "none": ("y = 1", "Nop", False),
}
# name -> (script builder, model builder from the body's model)
#   same activation: Call;  nested activation on this vm: NBinopKoto / NUnopKoto / NCallKoto;
#   another (spawned) vm: whatever fails there arrives here as an ordinary error of the instruction (Fail)
spawned = lambda m: "Nop" if m == "Nop" else "Fail"
RE_KINDS = {
    "arith-op": (lambda b: "o =\n  @+: |other|\n" + ind(b, 2) + "\n    1\ns = o + 1", lambda m: f"(NBinopKoto {R} {m})"),
    "compare-op": (lambda b: "o =\n  @<: |other|\n" + ind(b, 2) + "\n    true\ns = o < 1", lambda m: f"(Call 3 {R} {m})"),
    "index-op": (lambda b: "o =\n  @index: |i|\n" + ind(b, 2) + "\n    1\ns = o[0]", lambda m: f"(Call 3 {R} {m})"),
    "call-op": (lambda b: "o =\n  @call: ||\n" + ind(b, 2) + "\n    1\ns = o()", lambda m: f"(Call 3 {R} {m})"),
    "display-in-interpolation": (lambda b: "o =\n  @display: ||\n" + ind(b, 2) + "\n    'o'\ns = 'v{o}'",
                                 lambda m: f"(Str (NUnopKoto {R} {m}))"),
    "next-op": (lambda b: "o =\n  @next: ||\n" + ind(b, 2) + "\n    null\nfor v in o\n  s = v", spawned),
    "generator": (lambda b: "g = ||\n" + ind(b) + "\n  yield 1\nfor v in g()\n  s = v", spawned),
    "each": (lambda b: "(1..3).each(|q|\n" + ind(b) + "\n  q\n).consume()", spawned),
    "keep": (lambda b: "s = (1..3).keep(|q|\n" + ind(b) + "\n  true\n).to_list()", spawned),
    "fold": (lambda b: "s = (1..3).fold(0, |a, q|\n" + ind(b) + "\n  a\n)", lambda m: f"(NCallKoto 2 {R} {m})"),
    "sort-key": (lambda b: "s = [2, 1].sort(|q|\n" + ind(b) + "\n  q\n)", lambda m: f"(NCallKoto 1 {R} {m})"),
    "retain": (lambda b: "s = [2, 1].retain(|q|\n" + ind(b) + "\n  true\n)", lambda m: f"(NCallKoto 1 {R} {m})"),
}
SAME_ACTIVATION = ("compare-op", "index-op", "call-op")


def reentry_op(kind, body, place, k):
    """place: bare | caught | in-function | in-function-caught | in-list"""
    stmts, bmodel, needs_limit = RE_BODIES[body]
    build, mk = RE_KINDS[kind]
    src = build(stmts)
    model = mk(bmodel)
    fails = bmodel != "Nop"
    classes = set()
    if kind == "display-in-interpolation" and fails:
        classes.add("C07b")
    if place in ("in-function", "in-function-caught"):
        src = "f = ||\n" + ind(src) + "\n  1\nf()"
        model = f"(Call 3 {R} {model})"
    if place == "in-list":
        src = "w = [1, (||\n" + ind(src) + "\n  1\n)(), 2]"
        model = f"(Lst (Call 3 {R} {model}))"
        if fails:
            classes.add("C07b")
    caught = place in ("caught", "in-function-caught")
    if caught:
        src = "r = try\n" + ind(src) + "\n  1\ncatch e\n  0\nexport rr = r"
        model = f"(Try {model} Nop)"
    # a timeout raised in the activation that holds the try is not catchable; one raised in a nested activation is (C08a)
    swallowed = caught and not (body == "timeout" and kind in SAME_ACTIVATION)
    completes = (not fails) or swallowed
    full = f"export u{k} = 1\n" + src + f"\nexport v{k} = 2\n"
    impl = {"op": "run", "src": full}
    ref = impl if completes else {"op": "run", "src": f"export u{k} = 1\n"}
    return {"impl": impl, "ref": ref, "model": [f"HRun {R} {model}"], "classes": classes,
            "label": f"reentry:{kind}/{body}/{place}", "same_ref": completes, "timeout": needs_limit}


def reentry_ops(quick_rng=None):
    ops = []
    k = 0
    for kind in RE_KINDS:
        for body in RE_BODIES:
            for place in ("bare", "caught", "in-function", "in-function-caught", "in-list"):
                k += 1
                ops.append(reentry_op(kind, body, place, k % 3))
    return ops


# ---- generators that fail while they are resumed, kept alive and pulled again --------------------------
GEN_FAILS = {   # statements that fail inside the generator's own vm; needs a limit
    "throw": ("throw 'gx'", False),
    "runtime-error": ("y = 1 + 'a'", False),
    "type-check": ("let t: String = 1", False),
    "in-called-function": ("boom 2", False),           # boom = |x| throw 'bad {x}'  (defined by the make script)
    "in-try-rethrown": ("try\n  throw 'inner'\ncatch e2\n  throw 'outer'", False),
    "timeout": ("loop\n  q = 1", True),
}
GEN_CHAINS = {  # adaptor chains / nesting around the failing generator: (koto suffix or wrapper, value map)
    "plain": (lambda g: g, lambda v: v),
    "each": (lambda g: f"{g}.each(|x| x + 1)", lambda v: v + 1),
    "keep": (lambda g: f"{g}.keep(|x| x > 0)", lambda v: v),
    "zip": (lambda g: f"{g}.zip(100..200)", None),       # pairs: values are tuples
    "nested": (None, lambda v: v * 2),                   # an outer generator re-yields the failing inner one
}
PULL = "r = try\n  x = g.next()\n  if x then x.get() else 'none'\ncatch e\n  'E'\nr\n"
CONSUMERS = {
    "to_list": "r = try\n  g.to_list()\ncatch e\n  'E'\nr\n",
    "to_tuple": "r = try\n  g.to_tuple()\ncatch e\n  'E'\nr\n",
    "for": "acc = []\nr = try\n  for v in g\n    acc.push v\n  acc\ncatch e\n  'E'\nr\n",
    "count": "r = try\n  g.count()\ncatch e\n  'E'\nr\n",
}


def generator_history(rng, fail, chain, k, allow_timeout_limit):
    """make a generator that fails after k yields (exported: it survives the run), pull k+1 times catching the error,
    pull again, consume it in several ways, from scripts and from the host; the reference instance holds a generator
    that simply ENDS where the real one fails (a failed generator is finished)"""
    stmts, needs_limit = GEN_FAILS[fail]
    vals = [10, 20, 30][:k]
    body = "\n".join(f"yield {v}" for v in vals) + ("\n" if vals else "") + stmts + "\nyield 70\nyield 80"
    wrap, vmap = GEN_CHAINS[chain]
    base = "boom = |x| throw 'bad {x}'\ninner = ||\n" + ind(body) + "\n"
    if chain == "nested":
        make_src = base + "outer = ||\n  for v in inner()\n    yield v * 2\n  yield 99\nexport g = outer()\n"
    else:
        make_src = base + "export g = " + wrap("inner()") + "\n"
    if chain == "zip":
        exp = "[" + ", ".join(f"({v}, {100 + i})" for i, v in enumerate(vals)) + "]"
    else:
        exp = "[" + ", ".join(str(vmap(v)) for v in vals) + "]"
    ref_make = f"export g = (||\n  for v in {exp}\n    yield v\n)()\n"
    mk = lambda label, impl, ref, model, **kw: dict({"impl": impl, "ref": ref, "model": model, "classes": set(),
                                                    "label": label, "same_ref": False, "timeout": needs_limit}, **kw)
    run = lambda src: {"op": "run", "src": src}
    tag = f"{fail}/{chain}/k{k}"
    ops = [mk(f"gen:make/{tag}", run(make_src), run(ref_make), [f"HRun {R} Nop"], no_oracle=True)]
    host_pull = {"op": "unop", "which": "next", "name": "g"}
    for i in range(k):
        if rng.below(3) == 0:
            ops.append(mk("gen:host-pull", host_pull, host_pull, ["HUnopPlain"], same_ref=True))
        else:
            ops.append(mk("gen:pull", run(PULL), run(PULL), [f"HRun {R} (Try Nop Nop)"], same_ref=True))
    # the pull that runs into the failure: the error is delivered (and, in a script, caught); on the reference the
    # generator just ends here
    if rng.below(3) == 0:
        ops.append(mk(f"gen:failing-host-pull/{tag}", host_pull, host_pull, ["HUnopPre"], no_oracle=True, expect_error=True))
    else:
        which = rng.below(3)
        src = PULL if which else CONSUMERS[rng.choice(list(CONSUMERS))]
        ops.append(mk(f"gen:failing-pull/{tag}", run(src), run(src), [f"HRun {R} (Try Fail Nop)"], no_oracle=True,
                      expect_r='s"E"'))
    # afterwards the generator is finished, whoever asks and however often
    for i in range(2 + rng.below(3)):
        r3 = rng.below(4)
        if r3 == 0:
            ops.append(mk(f"gen:host-pull-after-failure/{tag}", host_pull, host_pull, ["HUnopPlain"], same_ref=True))
        elif r3 == 1:
            c = rng.choice(list(CONSUMERS))
            ops.append(mk(f"gen:{c}-after-failure/{tag}", run(CONSUMERS[c]), run(CONSUMERS[c]), [f"HRun {R} (Try Nop Nop)"], same_ref=True))
        else:
            ops.append(mk(f"gen:pull-after-failure/{tag}", run(PULL), run(PULL), [f"HRun {R} (Try Nop Nop)"], same_ref=True))
    return {"ops": ops, "limit": 300 if needs_limit else None, "origin": "generators"}


def import_ops(moddir):
    ops = []
    k = 0
    for name in MODULES:
        for caught in (False, True):
            k += 1
            ops.append(import_op(name, caught, moddir, k % 3))
    return ops


def gen_histories(tier, seed, moddir):
    """history = {"ops": [template...], "limit": ms|None, "origin": str, "repeat": (n, template)|None}"""
    rng = C.Rng(seed)
    fixed = fixed_ops(moddir)
    by_label = {o["label"]: o for o in fixed}
    imps = import_ops(moddir)
    imp_by = {o["label"]: o for o in imps}
    reent = reentry_ops()
    for o in imps + reent:
        by_label.setdefault(o["label"], o)
    hs = []
    cdir = os.path.join(C.VERIF, "corpus", PID)
    if os.path.isdir(cdir):
        for f in sorted(os.listdir(cdir)):
            for line in open(os.path.join(cdir, f), encoding="utf-8"):
                line = line.strip()
                if not line:
                    continue
                c = json.loads(line)
                ops = []
                for item in c["ops"]:
                    if isinstance(item, str):
                        ops.append(by_label[item])
                    elif "repeat" in item:
                        ops.append({"repeat": item["repeat"], "of": by_label[item["of"]]})
                hs.append({"ops": ops, "limit": c.get("limit"), "origin": "corpus"})
    # every fixed operation alone, and every ordered pair of a representative subset
    for o in fixed:
        hs.append({"ops": [o], "limit": 300 if o["timeout"] else None, "origin": "single"})
    rep = [o for o in fixed if not o["timeout"]]
    if tier == "quick":
        rep = [o for o in rep if o["label"] in (
            "call:koto-throws", "call:koto-throws-in-str", "call:native-failing", "call:arity", "unop:negate-list",
            "binop:add-type-error", "run:compile-error", "run:throws-after-effects", "run:known-witness-cb",
            "run:import-failing-module", "display:failing-koto-display", "unop:negate-overload-throws",
            "call:koto-mutates-then-throws")]
    for a in rep:
        for b in rep:
            hs.append({"ops": [a, b], "limit": None, "origin": "pair"})
    # --- file modules: every import alone; then: import m, another module, m AGAIN (it has to run again unless it
    # completed), a third module, m inside try
    names = list(MODULES)
    for i, name in enumerate(names):
        for caught in (False, True):
            lab = f"import:{name}" + ("/caught" if caught else "")
            o1 = names[(i + 3) % len(names)]
            o2 = names[(i + 7) % len(names)]
            hs.append({"ops": [imp_by[lab], imp_by[f"import:{o1}"], imp_by[f"import:{name}"], imp_by[f"import:{o2}/caught"],
                               imp_by[f"import:{name}/caught"], imp_by[f"import:{name}"]],
                       "limit": None, "origin": "imports"})
    n_imp = 40 if tier == "quick" else 600
    for _ in range(n_imp):
        k = 2 + rng.below(5 if tier == "quick" else 12)
        ops = []
        for _ in range(k):
            ops.append(rng.choice(imps) if rng.below(4) else rng.choice([o for o in fixed if not o["timeout"]]))
        hs.append({"ops": ops, "limit": None, "origin": "imports-random"})
    # --- failures inside native re-entry: every (kind, error, placement) alone (timeouts: a seeded subset in the
    # quick tier), then random mixes
    t_ops = [o for o in reent if o["timeout"]]
    keep_t = set()
    if tier == "quick":
        while len(keep_t) < min(10, len(t_ops)):
            keep_t.add(rng.below(len(t_ops)))
    for i, o in enumerate(reent):
        if o["timeout"]:
            if tier == "quick" and t_ops.index(o) not in keep_t:
                continue
            hs.append({"ops": [o], "limit": 300, "origin": "reentry-single"})
        else:
            hs.append({"ops": [o, by_label["call:koto-str-ok"]], "limit": None, "origin": "reentry-single"})
    n_re = 60 if tier == "quick" else 800
    quick_pool = [o for o in reent if not o["timeout"]]
    for _ in range(n_re):
        k = 2 + rng.below(5 if tier == "quick" else 20)
        ops = []
        for _ in range(k):
            r = rng.below(6)
            if r < 3:
                ops.append(rng.choice(quick_pool))
            elif r < 4:
                ops.append(rng.choice(imps))
            else:
                ops.append(rng.choice([o for o in fixed if not o["timeout"]]))
        hs.append({"ops": ops, "limit": None, "origin": "reentry-random"})
    # --- generators failing while resumed, kept and pulled again
    fix_tail = [by_label[x] for x in ("call:koto-str-ok", "run:throws-after-effects", "call:koto-ok")]
    for fail in GEN_FAILS:
        for chain in GEN_CHAINS:
            ks = [rng.below(3)] if tier == "quick" else [0, 1, 2]
            if GEN_FAILS[fail][1] and tier == "quick" and chain not in ("plain", "nested"):
                continue
            for k in ks:
                h = generator_history(rng, fail, chain, k, True)
                h["ops"] = h["ops"] + [fix_tail[rng.below(len(fix_tail))]]
                hs.append(h)
    # random histories
    n = 120 if tier == "quick" else 1500
    maxlen = 6 if tier == "quick" else 30
    n_timeout_hist = 0
    for i in range(n):
        allow_timeout = (i % 12 == 0)
        length = 1 + rng.below(maxlen)
        ops = []
        for _ in range(length):
            if rng.below(2):
                ops.append(gen_script(rng, allow_timeout and rng.below(3) == 0))
            else:
                pool = [o for o in fixed if allow_timeout or not o["timeout"]]
                r3 = rng.below(4)
                ops.append(rng.choice(pool) if r3 < 2 else (rng.choice(imps) if r3 == 2 else rng.choice(quick_pool)))
        # at most 2 timeouts per history (each costs the limit)
        seen = 0
        kept = []
        for o in ops:
            if o["timeout"]:
                seen += 1
                if seen > 2:
                    continue
            kept.append(o)
        hs.append({"ops": kept, "limit": 300 if any(o["timeout"] for o in kept) else None, "origin": "random"})
    # repeats of one failing operation up to the u8 register-number overflow, then ordinary operations
    reps = [3, 84, 85, 86, 127, 128, 169, 170, 171, 255, 256, 300] if tier == "quick" else \
        [3, 60, 84, 85, 86, 100, 127, 128, 129, 169, 170, 171, 200, 254, 255, 256, 257, 299, 300]
    leaky = ["call:native-failing", "call:arity", "unop:negate-list", "binop:add-type-error", "call:native-failing-2args"]
    for n_rep in reps:
        for lab in (leaky if tier != "quick" else leaky[:3] + [leaky[rng.below(len(leaky))]]):
            tail = [by_label[x] for x in ("call:koto-ok", "call:native-ok", "run:throws-after-effects", "call:koto-str-ok")]
            hs.append({"ops": [{"repeat": n_rep, "of": by_label[lab]}] + [tail[rng.below(len(tail))], tail[rng.below(len(tail))]],
                       "limit": None, "origin": "repeat"})
    clean_reps = ["call:koto-throws", "run:throws-after-effects", "call:koto-throws-in-str"]
    for lab in clean_reps:
        hs.append({"ops": [{"repeat": 300, "of": by_label[lab]}, by_label["call:koto-ok"]], "limit": None, "origin": "repeat"})
    return hs


def flatten(h):
    """-> (main ops for kh_rt, ref ops for kh_rt, model term list, plan, oracles)
    plan: per main step: dict(kind='op'|'probe'|'setup', t=template, ref=index or None, model=index,
                              classes=set, oracle=index into oracles or None)
    oracles: op lists for a FRESH instance: the effect-only versions of the earlier operations, then the operation"""
    main = [{"op": "run", "src": SETUP}]
    ref = [{"op": "run", "src": SETUP}]
    model = [f"HRun {R} Nop"]
    plan = [{"kind": "setup", "t": None, "ref": 0, "model": 0, "classes": set(), "oracle": None}]
    oracles = []
    state = {"cached": set()}
    effects = [{"op": "run", "src": SETUP}]     # effect-only versions of the operations so far

    def add(t, kind, want_oracle=False):
        main.append(t["impl"])
        ri = None
        if t.get("ref") is not None:
            ref.append(t["ref"])
            ri = len(ref) - 1
        classes = set(t.get("classes", ()))
        if "model_fn" in t:
            terms, cl = t["model_fn"](state)
            classes |= cl
        else:
            terms = t["model"]
        model.extend(terms)
        oi = None
        if want_oracle:
            oracles.append(list(effects) + [t["impl"]])
            oi = len(oracles) - 1
        if kind == "op" and t.get("ref") is not None:
            effects.append(t["ref"])
        plan.append({"kind": kind, "t": t, "ref": ri, "model": len(model) - 1, "classes": classes, "oracle": oi})

    def probes():
        for impl, m in probes_list():
            add({"impl": impl, "ref": impl, "model": [m], "classes": set(), "label": "probe", "same_ref": True}, "probe")

    for o in h["ops"]:
        if "repeat" in o:
            for i in range(o["repeat"]):
                add(o["of"], "op", want_oracle=(i == 0 or i == o["repeat"] - 1))
            probes()
        else:
            add(o, "op", want_oracle=not o.get("no_oracle"))
            probes()
    return main, ref, model, plan, oracles


def coq_history(model_terms):
    return "history_out2 [" + "; ".join(model_terms) + "]"


def run(tier, seed):
    chk = C.Check(PID, tier, seed, "partial")
    try:
        k2v_rt.gen_rt(os.path.join(C.COQ, UNIT, "GenRtConsts.v"), os.path.join(C.BUILD, "gen", f"timer_driver_{C.repo_tag()}.rs"))
        chk.oblige("gen:rt (k2v_rt: allow_catch at both unwinding call sites of execute_instructions; the unwinding stops "
                   "at execution barriers only)", True)
        gen_ok = True
    except k2v.GenError as e:
        chk.oblige("gen:rt", False, str(e))
        gen_ok = False
    try:
        repl_flags, _ = k2v_rt.gen_repl(os.path.join(C.COQ, UNIT, "GenReplFlags.v"))
        k2v_rt.gen_settings(os.path.join(C.COQ, UNIT, "GenKotoSettings.v"))
        chk.oblige("gen:repl (k2v_rt: shape of Repl::on_line, where continued_lines is reset on each exit path, Ctrl-C arm)", True)
        if not all(repl_flags.values()):
            chk.log("repl.rs: exit paths that do NOT reset continued_lines: " + ", ".join(k for k, v in repl_flags.items() if not v))
    except k2v.GenError as e:
        chk.oblige("gen:repl", False, str(e))
        chk.log(f"translator failed: {e}")
        gen_ok = False
    model_ok, axioms = (False, [])
    if gen_ok:
        model_ok, axioms = T.theorems(chk, PINNED, "C07Props")
    else:
        for name in PINNED:
            chk.oblige("thm:" + name, False, "constants could not be regenerated")

    binp, blog = C.build_harness("kh_rt")
    if not binp:
        chk.log("harness build failed:\n" + blog[-3000:])
        chk.violation("build", {"kind": "obligation", "correspondence": "kh_rt does not build against the koto checkout",
                                "log": blog[-3000:]}, no_input=True)
        return chk.finish("n/a")

    frames = calibrate(binp)
    moddir = os.path.join(C.BUILD, "cases", f"c07-mods-{C.repo_tag()}")
    write_modules(moddir)
    hs = gen_histories(tier, seed, moddir)
    flat = [flatten(h) for h in hs]
    cf = os.path.join(C.BUILD, "cases", f"c07-{os.getpid()}.jsonl")
    n_oracle = 0
    oracle_pos = []      # per history: index of its first oracle line
    with open(cf, "w") as f:
        for h, (main, ref, model, plan, oracles) in zip(hs, flat):
            f.write(json.dumps({"kind": "h", "limit_ms": h["limit"], "ops": main}) + "\n")
            f.write(json.dumps({"kind": "h", "limit_ms": h["limit"], "ops": ref}) + "\n")
        for h, (main, ref, model, plan, oracles) in zip(hs, flat):
            oracle_pos.append(2 * len(hs) + n_oracle)
            for ops in oracles:
                f.write(json.dumps({"kind": "h", "limit_ms": h["limit"], "ops": ops}) + "\n")
                n_oracle += 1
    # several processes: the histories with timeouts wait on the clock
    nsh = 8
    all_lines = open(cf).read().splitlines()
    shard_files = []
    for k in range(nsh):
        sf = cf + f".{k}"
        with open(sf, "w") as f:
            f.write("\n".join(all_lines[k::nsh]) + "\n")
        shard_files.append(sf)
    import subprocess
    procs = [subprocess.Popen([binp, sf], stdout=subprocess.PIPE, stderr=subprocess.DEVNULL, text=True, env=C.ENV)
             for sf in shard_files]
    outs = []
    rc = 0
    for pr in procs:
        try:
            o, _ = pr.communicate(timeout=1800)
        except subprocess.TimeoutExpired:
            pr.kill()
            o, _ = pr.communicate()
            rc = 124
        rc = rc or pr.returncode
        outs.append([l for l in o.splitlines() if l.startswith("{")])
    for sf in shard_files:
        os.remove(sf)
    os.remove(cf)
    lines = [None] * len(all_lines)
    ok_shape = all(len(outs[k]) == len(all_lines[k::nsh]) for k in range(nsh))
    out = ""
    if ok_shape:
        for k in range(nsh):
            for j, l in enumerate(outs[k]):
                lines[k + j * nsh] = json.loads(l)
    if rc != 0 or not ok_shape:
        chk.log(f"harness run failed rc={rc}: {out[-1000:]}")
        chk.violation("harness", {"kind": "obligation", "correspondence": "kh_rt crashed", "log": out[-2000:]}, no_input=True)
        return chk.finish("n/a")

    # ---- REPL sessions on the built binary
    repl_sessions, repl_res = [], []
    exe, elog = RP.build_cli()
    if not exe:
        chk.oblige("repl:koto_cli builds for this checkout", False, elog[-400:])
        chk.log("koto_cli does not build; REPL sessions skipped:\n" + elog[-1500:])
    else:
        chk.oblige("repl:koto_cli builds for this checkout", True)
        rrng = C.Rng(seed * 101 + 7)
        repl_sessions = RP.corpus_sessions()
        for _ in range(38 if tier == "quick" else 300):
            repl_sessions.append(RP.gen_session(rrng, 3 + rrng.below(3)))
        repl_res = RP.run_all(exe, repl_sessions, workers=8)

    # ---- model
    mvals = None
    rvals = None
    if model_ok:
        header = "From KV.rt Require Import RtModel ReplModel RtRun.\nFrom Coq Require Import ZArith List.\nImport ListNotations.\n" \
                 "Open Scope Z_scope.\n"
        terms = [coq_history(model) for (_, _, model, _, _) in flat]
        rterms = [RP.model_term(sess) for sess in repl_sessions]
        try:
            allv = C.coq_eval(UNIT, header, terms + rterms, tag="c07", per_shard=max(60, (len(terms) + len(rterms)) // 6 + 1))
            mvals, rvals = allv[:len(terms)], allv[len(terms):]
        except RuntimeError as e:
            chk.log(str(e)[-3000:])
    if mvals is None:
        chk.oblige("corr:model-evaluates", False)

    dist = {}
    op_dist = {}
    d_fail = []          # (history index, step, failures)
    disagreements = []   # (history index, step, what)
    for hi, (h, (main, ref, model, plan, oracles)) in enumerate(zip(hs, flat)):
        dist[h["origin"]] = dist.get(h["origin"], 0) + 1
        ms = lines[2 * hi]["steps"]
        rs = lines[2 * hi + 1]["steps"]
        mv = mvals[hi][0] if mvals is not None else None
        c07b = mvals[hi][1] if mvals is not None else None      # per model operation: in class C07b (Coq: builder_safe)
        seen_classes = set()
        labels = []
        nontrivial = False
        for si, p in enumerate(plan):
            t = p["t"]
            if t is not None and p["kind"] == "op":
                seen_classes |= p["classes"]
                # the class predicate is the model's: some operation so far can raise an error while a string / sequence is
                # under construction (the labels of the templates are only a fallback when the model is unavailable)
                if c07b is not None:
                    seen_classes.discard("C07b")
                    if any(c07b[:p["model"] + 1]):
                        seen_classes.add("C07b")
                op_dist[t["label"].split("@")[0]] = op_dist.get(t["label"].split("@")[0], 0) + 1
                labels.append(t["label"])
            if si >= len(ms):
                break
            s = ms[si]
            mstate = None
            if mv is not None and p["model"] < len(mv):
                mstate = mv[p["model"]]
            model_panics = mv is not None and (p["model"] >= len(mv) or (mstate is not None and mstate[0] == 3))
            if "panic" in s:
                # a panic of the runtime is never excused (the register-overflow panics of the former C07a are fixed)
                d_fail.append((hi, si, [f"panicked: {s['panic']} at {s.get('at')}"]))
                break
            if model_panics:
                disagreements.append((hi, si, f"model predicts a panic, the implementation returned {s['r']}"))
                break
            fails = []
            if not s["r"].startswith("E") or p["kind"] != "op":
                pass
            nontrivial = nontrivial or s["r"].startswith("E")
            sz = s["sz"]
            # R: sizes, module-cache placeholders and outcome (ok / error) vs model
            if mstate is not None:
                msz = mstate[1][:5]
                if msz != sz:
                    disagreements.append((hi, si, f"sizes: implementation {sz}, model {msz}"))
                elif (mstate[0] == 0) != (not s["r"].startswith("E")):
                    disagreements.append((hi, si, f"outcome: implementation {s['r']}, model "
                                                  f"{['Ok', 'Err', 'Err(Timeout)', 'panic'][mstate[0]]}"))
                if mstate[1][5] != 0:
                    disagreements.append((hi, si, f"model leaves {mstate[1][5]} module-cache placeholders"))
            if t is not None and t.get("expect_r") is not None and s["r"] != t["expect_r"]:
                fails.append(f"the pull that runs into the generator's failure returned {s['r']}, expected {t['expect_r']} "
                             f"(the error delivered and caught)")
            if t is not None and t.get("expect_error") and not s["r"].startswith("E"):
                fails.append(f"the host pull that runs into the generator's failure returned {s['r']} instead of the error")
            # D3: the operation's own result equals the same operation on a FRESH instance that performed only the
            # completed effects of the earlier operations
            if p.get("oracle") is not None:
                osteps = lines[oracle_pos[hi] + p["oracle"]]["steps"]
                o = osteps[-1]
                if "panic" in o or len(osteps) != len(oracles[p["oracle"]]):
                    fails.append("the fresh reference instance panicked")
                elif (o["r"], o["out"]) != (s["r"], s["out"]):
                    fails.append(f"result {s['r']} / output {s['out']!r}; the same operation on a fresh instance that performed "
                                 f"only the completed effects gives {o['r']} / {o['out']!r}")
            # D1: sizes all zero after every completed host call
            if any(sz):
                # only leftover builders after an error inside a string / sequence under construction are a known class
                explained = not (sz[0] or sz[1] or sz[4]) and "C07b" in seen_classes
                if explained and (mstate is None or mstate[1][:5] == sz):
                    chk.known(KNOWN_B)
                else:
                    fails.append(f"stack sizes after the call are {sz} (registers, call stack, sequence builders, "
                                 f"string builders, register base), not all zero")
            # D2: behaviour equals the fresh reference instance
            if p["ref"] is not None and p["ref"] < len(rs):
                r = rs[p["ref"]]
                if "panic" in r:
                    fails.append("the reference instance panicked")
                else:
                    compare_result = p["kind"] in ("probe", "setup") or t.get("same_ref")
                    diffs = []
                    if compare_result and (s["r"], s["out"]) != (r["r"], r["out"]):
                        diffs.append(f"result {s['r']} / output {s['out']!r}, fresh instance: {r['r']} / {r['out']!r}")
                    if s["ex"] != r["ex"]:
                        diffs.append(f"exports differ from the fresh instance's: {s['ex']} vs {r['ex']}")
                    fails += diffs
            elif p["ref"] is None and p["kind"] == "op":
                # a failing operation without effects: the exports must be those before it
                prev = ms[si - 1]
                if s["ex"] != prev["ex"]:
                    fails.append(f"a failed operation without completed effects changed the exports: {prev['ex']} -> {s['ex']}")
            if fails:
                d_fail.append((hi, si, fails))
                break
        chk.count_case(" ; ".join(labels)[:400], nontrivial)
    def last_label(hi, si):
        plan = flat[hi][3]
        for j in range(min(si, len(plan) - 1), -1, -1):
            if plan[j]["kind"] == "op":
                return plan[j]["t"]["label"]
        return "setup"
    digest = {}
    for hi, si, what in disagreements:
        k = "disagree " + last_label(hi, si)
        digest.setdefault(k, [0, what])[0] += 1
    for hi, si, fails in d_fail:
        k = "D-fail " + last_label(hi, si)
        digest.setdefault(k, [0, fails[0][:200]])[0] += 1
    for k, (n, w) in sorted(digest.items())[:25]:
        chk.log(f"  {k}: {n}x e.g. {w}")
    if mvals is not None:
        chk.oblige("corr:model-vs-hook sizes after every step of every history", not disagreements,
                   f"{len(disagreements)} disagreements")

    # ---- REPL: D-clauses on the transcripts, model vs observed prompts
    repl_fail = []
    repl_dis = []
    repl_kinds = {}
    for si, (sess, res) in enumerate(zip(repl_sessions, repl_res)):
        for e in sess:
            k = e["kind"].split("/")[0].split(":")[0]
            repl_kinds[k] = repl_kinds.get(k, 0) + 1
        chk.count_case("repl: " + " ; ".join(e["kind"] for e in sess), any(e.get("fails") or "fail" in e["kind"] for e in sess))
        fails = RP.judge(sess, res)
        if fails:
            repl_fail.append((si, fails))
        elif rvals is not None:
            mt = rvals[si]
            typed = [l for e in sess for l in e["lines"]]
            for i, (m, idle) in enumerate(zip(mt, res["prompts"])):
                if (m[1] == 0) != idle:
                    repl_dis.append((si, f"after line {i + 1} ({typed[i]!r}): the model has {m[1]} pending lines, the REPL shows the "
                                         f"{'idle' if idle else 'continuation'} prompt"))
                    break
            # a chunk is handed to the runtime exactly at the last line of an entry that runs
            pos = 0
            for e in sess:
                last = pos + len(e["lines"]) - 1
                ran = mt[last][0] in (0, 1, 2) if last < len(mt) else None
                if ran is not None and ran != bool(e["runs"] or e.get("help")):
                    repl_dis.append((si, f"entry {e['kind']}: model action code {mt[last][0]} at its last line"))
                    break
                pos += len(e["lines"])
    if repl_sessions and rvals is not None:
        chk.oblige("corr:repl model (pending lines, chunk handed to run) vs prompts of the driven binary", not repl_dis,
                   "; ".join(w for _, w in repl_dis[:2]))
    if repl_fail:
        repl_fail.sort(key=lambda x: sum(len(e["lines"]) for e in repl_sessions[x[0]]))
        si, fails = repl_fail[0]
        chk.violation("repl-input", {"kind": "input", "repl_session": repl_sessions[si], "predicate_failed": fails,
                                     "transcript_tail": repl_res[si].get("transcript", "")[-2500:],
                                     "others": len(repl_fail) - 1, "how_to_rerun": "./check C07 --replay <this file>"})
        chk.log(f"{len(repl_fail)} REPL sessions violate C07; smallest: {[e['kind'] for e in repl_sessions[si]]}: {fails[:2]}")

    def hist_repr(hi):
        h = hs[hi]
        out = []
        for o in h["ops"]:
            if "repeat" in o:
                out.append({"repeat": o["repeat"], "of": o["of"]["label"], "impl": o["of"]["impl"]})
            else:
                out.append({"label": o["label"], "impl": o["impl"], "ref": o.get("ref"), "model": o.get("model", "(depends on cached modules)")})
        return out

    if d_fail:
        d_fail.sort(key=lambda x: (len(flat[x[0]][0]), x[1]))
        hi, si, fails = d_fail[0]
        main, ref, model, plan, oracles = flat[hi]
        chk.violation("input", {"kind": "input", "history": hist_repr(hi), "limit_ms": hs[hi]["limit"],
                                "main_ops": main, "ref_ops": ref, "failing_step": si,
                                "oracle_ops": (oracles[plan[si]["oracle"]] if plan[si].get("oracle") is not None else None),
                                "step_is": plan[si]["kind"], "impl_says": lines[2 * hi]["steps"][max(0, si - 2):si + 1],
                                "predicate_failed": fails, "others": len(d_fail) - 1,
                                "how_to_rerun": "./check C07 --replay <this file>"})
        chk.log(f"{len(d_fail)} histories violate C07 on the implementation; smallest: history of {len(hs[hi]['ops'])} ops, "
                f"step {si}: {fails[:2]}")
    broken = [o for o in chk.obligations if not o[1]]
    if broken and not d_fail and not repl_fail:
        payload = {"kind": "obligation", "broken": [o[0] + (": " + o[2] if o[2] else "") for o in broken]}
        if disagreements:
            disagreements.sort(key=lambda x: (len(flat[x[0]][0]), x[1]))
            hi, si, what = disagreements[0]
            payload["smallest_disagreement"] = {"history": hist_repr(hi), "main_ops": flat[hi][0], "step": si, "what": what,
                                                "model_terms": flat[hi][2]}
            payload["note"] = ("no clause of C07 fails outside the known classes, but the implementation's stack sizes no "
                               "longer match the model the theorems are about")
            chk.log(f"{len(disagreements)} model/impl disagreements; smallest: {what}")
        chk.violation("obligation", payload, no_input=True)

    chk.assumptions = [
        "the model abstracts a script to the structure of its size-relevant effects (frames, builders, try/catch, re-entry "
        "through native functions); what scripts compute, exports and container contents are outside the model and are "
        "covered by the comparison with a fresh instance only",
        "entry_restores is proved for activations that do not re-enter the vm through native functions (`flat`), incl. the "
        "early `?` exits of the entry points; CORRESPONDENCE-ONLY (modelled, compared with the hook, outcome and a fresh "
        "instance after every step, but not covered by the induction): imports of file modules (placeholder / exports swap), "
        "overloaded operators and callbacks that run in a nested activation (arithmetic, @display, fold / sort / retain), "
        "and everything that runs on a spawned vm (generators, @next, each / keep): the latter is modelled as an ordinary "
        "error of the calling instruction",
        "timeouts inside histories use a 300 ms limit on a shared machine",
    ]
    tb = ["Coq 8.16.1 kernel (coqc); vm_compute for evaluating the model",
          "axioms reported by Print Assumptions: " + (", ".join(axioms) if axioms else "none (closed under the global context)"),
          "hook KotoVm::verif_stack_sizes (cfg(koto_verif), read-only)",
          "hand-written model terms per operation template (checks/c07.py), validated by the exact size correspondence; "
          "frame sizes of exported functions read from the compiled bytecode: " + json.dumps(frames),
          "kh_rt (Rust harness), checks/c07.py"]
    return chk.finish(
        rule="histories of host operations on one instance: committed corpus; every operation template alone; ordered pairs of "
             "a representative subset; seeded random histories (length <= 6 quick / 30 thorough) mixing generated scripts "
             "(failure leaf x nested str/list/tuple contexts x function / try placement, with exports and container mutations "
             "before the failure) and fixed host calls; up to 300 repeats of one failing call followed by ordinary calls; "
             "imports of 12 file modules (each: import, another module, the same module again, a third, the same in try, the "
             "same again) and seeded mixes; 12 re-entry kinds x 5 bodies x 5 placements alone and in seeded mixes. "
             "After every operation: 5 probes on the instance and on a fresh reference instance. non-trivial = at least one "
             "operation failed; distinct by operation labels",
        explanation="sizes model proved to restore; exact model-vs-hook size equality after every step; sizes zero and "
                    "behaviour equal to a fresh instance evaluated directly on the implementation",
        trusted_base=tb,
        extra={"distribution": dist, "operations": op_dist, "exhaustive": False,
               "repl_sessions": len(repl_sessions), "repl_entry_kinds": repl_kinds,
               "model_impl_disagreements": len(disagreements)})


def replay(path, args):
    data = json.load(open(path))
    if "repl_session" in data:
        exe, elog = RP.build_cli()
        if not exe:
            print(elog[-1500:])
            return 3
        res = RP.run_all(exe, [data["repl_session"]], workers=1)[0]
        fails = RP.judge(data["repl_session"], res)
        print(res.get("transcript", "")[-2000:])
        for f in fails:
            print("  " + f)
        if fails:
            print(f"VIOLATION property={PID} replay={path}")
            return 1
        print("no clause of C07 fails on this REPL session")
        return 0
    if "main_ops" not in data:
        print("replay file names an obligation, not an input:", json.dumps(data.get("broken")))
        return run("quick", data.get("seed", 1))
    binp, blog = C.build_harness("kh_rt")
    if not binp:
        print(blog[-2000:])
        return 3
    cf = os.path.join(C.BUILD, "cases", "c07-replay.jsonl")
    os.makedirs(os.path.dirname(cf), exist_ok=True)
    with open(cf, "w") as f:
        f.write(json.dumps({"kind": "h", "limit_ms": data.get("limit_ms"), "ops": data["main_ops"]}) + "\n")
        f.write(json.dumps({"kind": "h", "limit_ms": data.get("limit_ms"), "ops": data["ref_ops"]}) + "\n")
    rc, out = C.sh([binp, cf], timeout=600)
    lines = [json.loads(l) for l in out.splitlines() if l.startswith("{")]
    si = data["failing_step"]
    ms = lines[0]["steps"]
    s = ms[si] if si < len(ms) else ms[-1]
    print(json.dumps({k: v for k, v in s.items() if k != "ex"}))
    bad = "panic" in s or any(s.get("sz", [1]))
    if data.get("oracle_ops") and not bad:
        with open(cf, "w") as f:
            f.write(json.dumps({"kind": "h", "limit_ms": data.get("limit_ms"), "ops": data["oracle_ops"]}) + "\n")
        rc, out = C.sh([binp, cf], timeout=600)
        o = json.loads(out.splitlines()[0])["steps"][-1]
        print("fresh instance:", json.dumps({k: v for k, v in o.items() if k != "ex"}))
        bad = (o.get("r"), o.get("out")) != (s.get("r"), s.get("out"))
    for f in data.get("predicate_failed", []):
        print("  recorded: " + f)
    if bad:
        print(f"VIOLATION property={PID} replay={path}")
        return 1
    print("the recorded step now leaves all sizes at zero (behavioural clauses: rerun ./check C07)")
    return 0
