"""C10  Layout and alternative spellings never change a program's meaning; cut-off programs are
indentation errors.

T  theorems in coq/syn/C10Props.v: trivia transparency of the parser's token-access layer
   (access_parametric and friends, token lists of any length), needs_more_is_indentation, the generated
   indentation rule equals its spec, precedence climbing round trip (prec_roundtrip, gen_prec_eq_spec).
   The ~60 parse functions above that layer are NOT modelled: for the grammar-level freedoms (inline vs
   block forms, optional call parentheses, line breaks in chains / arguments) this check can only
   EXHIBIT a failing layout, it cannot show there is none.
R  tables regenerated from parser.rs / lexer.rs (tools/k2v_syn.py) + fingerprints of the transcribed
   functions; precedence model vs the real parser on random operator expressions.
D  search on the real crates: generated programs x layouts: AST (spans erased) and run result
   identical to the canonical layout's; every line-prefix: is_indentation_error <=> the prefix ends
   after a header line / `=` / binary operator.
"""
import json
import os
import sys

from vlib import common as C
from tools import k2v, k2v_syn

PID = "C10"
UNIT = "syn"

PINNED = [
    "gen_indent_rule_eq_spec", "gen_is_whitespace_spec", "gen_prec_eq_spec",
    "norm_insert_trivia", "norm_insert_blank_line",
    "peek_parametric", "ctwc_parametric", "cutwc_parametric", "same_line_peek_parametric",
    "cunt_parametric", "cnt_parametric", "access_parametric", "consumer_parametric",
    "needs_more_is_indentation",
    "prec_roundtrip", "prec_roundtrip_gen", "climb_total",
    "mul_binds_tighter_than_add", "sub_left_assoc", "and_over_or", "comparison_below_arith", "pipe_lowest",
]

TRIVIA = ("comments", "blank", "trailing", "inline_comments")
STRUCT = ("inline_if", "inline_fn", "inline_arm", "map_form", "call_parens", "redundant_parens",
          "break_binop", "break_assign", "break_args", "break_chain", "break_brackets")

LEVEL = {"or": 3, "and": 4, "==": 5, "!=": 5, "<": 6, "<=": 6, ">": 6, ">=": 6,
         "+": 7, "-": 7, "*": 8, "/": 8, "%": 8, "^": 9}
COMPARE = ("==", "!=", "<", "<=", ">", ">=")


# ---------------------------------------------------------------------------------------------
# layouts


class Layout:
    """the layout parameters: every choice the printer makes is a (seeded) coin of one named freedom.
    rng None = the canonical layout (block forms, call parentheses, no extra trivia)."""

    def __init__(self, rng=None, flags=()):
        self.rng = rng
        self.flags = set(flags)
        self.used = set()
        self.cont = 2 if rng is None else rng.choice([2, 2, 4, 3])

    def flip(self, name, num=1, den=2):
        if self.rng is None or name not in self.flags:
            return False
        r = self.rng.chance(num, den)
        if r:
            self.used.add(name)
        return r

    def pick(self, xs):
        return xs[0] if self.rng is None else self.rng.choice(xs)


class Line:
    __slots__ = ("indent", "text", "tag", "first", "multi")

    def __init__(self, indent, text, tag, first=False, multi=False):
        self.indent = indent
        self.text = text
        self.tag = tag   # complete | header | open | inside
        self.first = first    # first line of a statement
        self.multi = multi    # the statement spans several lines


def is_atom(e):
    return e[0] in ("num", "id", "str", "list", "tuple", "map", "callp", "index", "bool")


class Printer:
    def __init__(self, layout):
        self.lay = layout
        self.lines = []
        self.break_kind = None
        self.nbreaks = 0
        self.header = 0    # > 0 while printing the expression of a header line: no line breaks there

    def hexpr(self, e, ind):
        """expression of a header line (if / while / for / match ...): the guide's freedom to break lines
        does not extend to headers (the parser expects the indented block next)"""
        self.header += 1
        try:
            return self.expr(e, ind)
        finally:
            self.header -= 1

    def brk(self, name, num, den):
        # at most one KIND of line break per statement (combinations of broken brackets, chains and
        # operators inside one expression go beyond what the guide documents)
        if name in ("break_args", "break_brackets") and self.nbreaks > 0:
            return False     # one broken argument list / bracket per statement (no nested broken lists)
        r = self.header == 0 and self.break_kind == name and self.lay.flip(name, num, den)
        if r and name != "break_binop":
            self.nbreaks += 1
        return r

    def choose_break_kind(self):
        kinds = [k for k in ("break_binop", "break_args", "break_chain", "break_brackets") if k in self.lay.flags]
        self.break_kind = self.lay.pick(kinds) if kinds and self.lay.rng is not None else None

    # ---- expressions: return a list of text fragments joined on ONE line, or with line breaks
    # (continuation lines are emitted through self.brk())

    def expr(self, e, ind, top=False, allow_bare_call=False):
        """text of expression e; `ind` = indentation of the statement's first line; may contain
        '\n' + spaces (continuation lines, tagged by stmt())"""
        lay = self.lay
        k = e[0]
        if k == "num":
            s = str(e[1])
        elif k == "bool":
            s = "true" if e[1] else "false"
        elif k == "id":
            s = e[1]
        elif k == "str":
            s = "'" + e[1] + "'"
        elif k == "bin":
            s = self.binop(e, ind)
        elif k == "neg":
            if e[1][0] == "num":
                return "-" + str(e[1][1])     # a literal: parentheses here would change the node kind
            s = "-" + self.operand(e[1], ind, force=not is_atom(e[1]))
        elif k == "not":
            s = "not " + self.operand(e[1], ind, force=not is_atom(e[1]))
        elif k == "call":
            s = self.call(e, ind, allow_bare_call)
        elif k == "chain":
            s = self.chain(e, ind, top)
        elif k == "list":
            s = self.bracket("[", "]", [self.expr(x, ind) for x in e[1]], ind)
        elif k == "tuple":
            s = self.bracket("(", ")", [self.expr(x, ind) for x in e[1]], ind)
        elif k == "map":
            s = self.bracket("{", "}", [f"{kk}: {self.expr(v, ind)}" for kk, v in e[1]], ind)
        elif k == "index":
            s = self.operand(e[1], ind, force=not is_atom(e[1])) + "[" + self.expr(e[2], ind) + "]"
        elif k == "ifx":
            s = f"if {self.hexpr(e[1], ind)} then {self.hexpr(e[2], ind)} else {self.hexpr(e[3], ind)}"
        elif k == "fnx":
            s = "|" + ", ".join(e[1]) + "| " + self.expr(e[2], ind)
        else:
            raise ValueError(k)
        if not top and k in ("ifx", "fnx"):
            return "(" + s + ")"
        if k not in ("ifx", "fnx", "tuple") and lay.flip("redundant_parens", 1, 6):
            # extra parentheses around a whole sub-expression (never around a bare call: it would
            # become a different spelling already covered by call_parens)
            if not (k == "call" and allow_bare_call):
                return "(" + s + ")"
        return s

    def operand(self, e, ind, force=False):
        s = self.expr(e, ind)
        if force and not (s.startswith("(") and s.endswith(")") and balanced(s)):
            return "(" + s + ")"
        return s

    def binop(self, e, ind):
        _, op, l, r = e
        lv = LEVEL[op]

        def side(c, right):
            need = False
            if c[0] == "bin":
                cl = LEVEL[c[1]]
                need = cl < lv or (cl == lv and (right or op in COMPARE))
            elif c[0] in ("neg", "not", "ifx", "fnx") or (c[0] == "call" and False):
                need = True
            return self.operand(c, ind, force=need)
        ls, rs = side(l, False), side(r, True)
        sp1 = self.sep()
        if self.brk("break_binop", 1, 4):
            # every further break of the same statement goes deeper: continuation lines at EQUAL indentation
            # are accepted or rejected depending on operator nesting (finding C10c, see corpus/C10)
            self.nbreaks += 1
            pad = "\x00"      # replaced in emit(): the k-th continuation line (in text order) goes k steps deeper
            if self.lay.flip("break_binop", 1, 2):
                return f"{ls}{sp1}{op}\n{pad}{rs}"          # break after the operator
            return f"{ls}\n{pad}{op}{self.sep()}{rs}"        # break before the operator
        return f"{ls}{sp1}{op}{self.sep()}{rs}"

    def sep(self):
        if self.lay.flip("inline_comments", 1, 10):
            return " #- c -# "
        return " "

    def bracket(self, o, c, items, ind):
        if o == "(" and len(items) == 1:
            return "(" + items[0] + ",)"
        if items and self.brk("break_brackets", 1, 4):
            pad = " " * (ind + self.lay.cont)
            return o + "\n" + "".join(f"{pad}{it},\n" for it in items[:-1]) + f"{pad}{items[-1]}\n" + " " * ind + c
        return o + ", ".join(items) + c

    def call(self, e, ind, allow_bare):
        _, f, args = e
        texts = [self.expr(a, ind) for a in args]
        first_ok = bool(args) and args[0][0] in ("num", "id", "str", "bool") or \
            (bool(args) and args[0][0] == "call" and texts[0][0].isalpha())
        if allow_bare and args and first_ok and all("\n" not in t for t in texts) and \
                self.lay.flip("call_parens", 1, 2):
            if len(texts) > 1 and self.brk("break_args", 1, 3):
                pad = " " * (ind + self.lay.cont)
                return f + " " + texts[0] + "," + "".join(f"\n{pad}{t}," for t in texts[1:-1]) + f"\n{pad}{texts[-1]}"
            return f + " " + ", ".join(texts)
        if args and self.brk("break_args", 1, 5):
            pad = " " * (ind + self.lay.cont)
            return f + "(\n" + "".join(f"{pad}{t},\n" for t in texts[:-1]) + f"{pad}{texts[-1]}\n" + " " * ind + ")"
        return f + "(" + ", ".join(texts) + ")"

    def chain(self, e, ind, top=False):
        _, root, links = e
        s = self.operand(root, ind, force=not is_atom(root))
        # only a chain that is the whole right-hand side / statement is broken (the documented form)
        brk = top and len(links) >= 2 and "\n" not in s and self.brk("break_chain", 1, 2)
        pad = " " * (ind + self.lay.cont)
        for name, args in links:
            a = "(" + ", ".join(self.expr(x, ind) for x in args) + ")"
            s += (f"\n{pad}" if brk else "") + "." + name + a
        return s

    # ---- statements

    def emit(self, ind, text, tag="complete"):
        """text may contain continuation lines"""
        parts = text.split("\n")
        k = 0
        for i, p in enumerate(parts):
            if p.startswith("\x00"):
                k += 1
                parts[i] = " " * (ind + self.lay.cont * k) + p[1:]
        depth = 0
        for i, p in enumerate(parts):
            last = i == len(parts) - 1
            if i == 0:
                line = " " * ind + p
            else:
                line = p
            depth += sum(p.count(ch) for ch in "([{") - sum(p.count(ch) for ch in ")]}")
            if last:
                t = tag
            elif depth > 0:
                t = "inside"
            else:
                stripped = strip_trivia(p)
                t = "open" if ends_open(stripped) else "inside"
            self.lines.append(Line(ind, line, t, first=(i == 0), multi=len(parts) > 1))

    def block(self, stmts, ind):
        for s in stmts:
            self.stmt(s, ind)

    def simple(self, s):
        if s[0] == "assign":
            return s[2][0] not in ("mapblock", "fn", "ifblock", "matchx", "switchx")
        return s[0] in ("print", "expr", "opassign")

    def simple_text(self, s, ind):
        k = s[0]
        if k == "assign":
            return f"{s[1]} = {self.expr(s[2], ind, top=True, allow_bare_call=True)}"
        if k == "opassign":
            return f"{s[1]} {s[2]}= {self.expr(s[3], ind)}"
        if k == "print":
            return self.expr(("call", "print", [s[1]]), ind, top=True, allow_bare_call=True)
        if k == "expr":
            return self.expr(s[1], ind, top=True, allow_bare_call=True)
        raise ValueError(k)

    def inline_ok(self, blk):
        return len(blk) == 1 and self.simple(blk[0])

    def body_inline(self, blk, ind):
        t = self.simple_text(blk[0], ind)
        if t.startswith("if ") or " = if " in t:
            return None      # `then if ..` / `else if ..` would re-associate the else
        return t if "\n" not in t else None

    def stmt(self, s, ind):
        lay = self.lay
        k = s[0]
        self.choose_break_kind()
        self.nbreaks = 0
        if k == "assign" and s[2][0] == "mapblock":
            entries = s[2][1]
            if lay.flip("map_form", 1, 2):
                self.emit(ind, f"{s[1]} = " + self.bracket("{", "}", [f"{kk}: {self.expr(v, ind)}" for kk, v in entries], ind))
            else:
                self.emit(ind, f"{s[1]} =", "open")
                for kk, v in entries:
                    self.emit(ind + 2, f"{kk}: {self.expr(v, ind + 2)}")
        elif k == "assign" and s[2][0] == "fn":
            _, params, body = s[2]
            head = f"{s[1]} = |" + ", ".join(params) + "|"
            t = self.body_inline(body, ind) if self.inline_ok(body) and lay.flip("inline_fn", 1, 2) else None
            if t is not None:
                self.emit(ind, head + " " + t)
            else:
                self.emit(ind, head, "header")
                self.block(body, ind + 2)
        elif k == "assign" and s[2][0] in ("ifblock", "matchx", "switchx"):
            self.compound(s[2], ind, prefix=f"{s[1]} = ")
        elif k == "assign":
            if lay.flip("break_assign", 1, 6):
                pad = ind + lay.cont
                self.emit(ind, f"{s[1]} =", "open")
                self.emit(pad, self.expr(s[2], pad, top=True, allow_bare_call=True))
            else:
                self.emit(ind, self.simple_text(s, ind))
        elif self.simple(s):
            self.emit(ind, self.simple_text(s, ind))
        elif k == "return":
            self.emit(ind, "return " + self.expr(s[1], ind, top=True))
        elif k in ("ifblock", "matchx", "switchx"):
            self.compound(s, ind, prefix="")
        elif k == "for":
            self.emit(ind, f"for {s[1]} in {self.hexpr(s[2], ind)}", "header")
            self.block(s[3], ind + 2)
        elif k == "while":
            self.emit(ind, f"while {self.hexpr(s[1], ind)}", "header")
            self.block(s[2], ind + 2)
        elif k == "loopn":
            self.emit(ind, "loop", "header")
            self.block(s[1], ind + 2)
        elif k == "try":
            self.emit(ind, "try", "header")
            self.block(s[1], ind + 2)
            self.emit(ind, f"catch {s[2]}", "header")
            self.block(s[3], ind + 2)
            if s[4] is not None:
                self.emit(ind, "finally", "header")
                self.block(s[4], ind + 2)
        elif k == "break":
            self.emit(ind, "break")
        elif k == "throw":
            self.emit(ind, "throw " + self.expr(s[1], ind))
        else:
            raise ValueError(k)

    def compound(self, s, ind, prefix):
        lay = self.lay
        k = s[0]
        if k == "ifblock":
            _, cond, then, elifs, els = s
            blocks = [then] + [b for _, b in elifs] + ([els] if els is not None else [])
            # the single-line form has no `else if`
            if not elifs and all(self.inline_ok(b) for b in blocks) and (els is not None or not prefix) \
                    and lay.flip("inline_if", 1, 2):
                parts = [f"if {self.expr(cond, ind)} then {self.body_inline(then, ind)}"]
                for c, b in elifs:
                    parts.append(f"else if {self.expr(c, ind)} then {self.body_inline(b, ind)}")
                if els is not None:
                    parts.append(f"else {self.body_inline(els, ind)}")
                t = " ".join(parts)
                if "\n" not in t and "None" not in t:
                    self.emit(ind, prefix + t)
                    return
            self.emit(ind, f"{prefix}if {self.hexpr(cond, ind)}", "header")
            self.block(then, ind + 2)
            for c, b in elifs:
                self.emit(ind, f"else if {self.hexpr(c, ind)}", "header")
                self.block(b, ind + 2)
            if els is not None:
                self.emit(ind, "else", "header")
                self.block(els, ind + 2)
        elif k == "matchx":
            _, subject, arms = s
            self.emit(ind, f"{prefix}match {self.hexpr(subject, ind)}", "header")
            for pat, blk in arms:
                self.arm(pat if pat is not None else "else", pat is None, blk, ind + 2)
        elif k == "switchx":
            self.emit(ind, f"{prefix}switch", "header")
            for cond, blk in s[1]:
                self.arm(self.hexpr(cond, ind + 2) if cond is not None else "else", cond is None, blk, ind + 2)

    def arm(self, head, is_else, blk, ind):
        t = self.body_inline(blk, ind) if self.inline_ok(blk) and self.lay.flip("inline_arm", 1, 2) else None
        kw = "" if is_else else " then"
        if t is not None:
            self.emit(ind, f"{head}{kw} {t}")
        else:
            self.emit(ind, f"{head}{kw}", "armheader")
            self.block(blk, ind + 2)

    # ---- trivia pass

    def finish(self):
        lay = self.lay
        out = []
        for ln in self.lines:
            if lay.flip("blank", 1, 8):
                out.append(Line(0, " " * lay.pick([0, 0, 1, 3, 7]), None))
            if lay.flip("comments", 1, 8):
                out.append(Line(0, " " * lay.pick([ln.indent, ln.indent, 0, ln.indent + 2, 1, 9]) + "# note", None))
            text = ln.text
            if lay.flip("comments", 1, 8):
                text += "  # eol"
            elif lay.flip("trailing", 1, 5):
                text += " " * lay.pick([1, 2, 5])
            out.append(Line(ln.indent, text, ln.tag, ln.first, ln.multi))
        if lay.flip("blank", 1, 4):
            out.append(Line(0, "", None))
        if lay.flip("comments", 1, 6):
            out.append(Line(0, "# end", None))
        return out


def balanced(s):
    d = 0
    for i, ch in enumerate(s):
        if ch == "(":
            d += 1
        elif ch == ")":
            d -= 1
            if d == 0 and i != len(s) - 1:
                return False
    return d == 0


def strip_trivia(p):
    if "#" in p:
        # comments the printer emits never contain quotes; strings never contain '#'
        i = p.index("#")
        j = p.find("-#", i)
        if p.startswith("#-", i) and j >= 0:
            return strip_trivia(p[:i] + p[j + 2:])
        p = p[:i]
    return p.rstrip()


def ends_open(stripped):
    if stripped.endswith("="):
        return True
    for op in ("+", "-", "*", "/", "%", "^", " and", " or", "<", ">"):
        if stripped.endswith(op):
            return True
    return False


def render(prog, layout):
    p = Printer(layout)
    p.block(prog, 0)
    lines = p.finish()
    return lines


def text_of(lines):
    return "".join(l.text + "\n" for l in lines)


# ---------------------------------------------------------------------------------------------
# programs


class Gen:
    def __init__(self, rng):
        self.rng = rng
        self.vars = []      # integer-valued variables in scope
        self.fns = []       # (name, arity)
        self.protected = set()   # loop counters: never assigned by generated statements
        self.n = 0

    def fresh(self, p):
        self.n += 1
        return f"{p}{self.n}"

    def atom(self):
        r = self.rng
        if self.vars and r.chance(1, 2):
            return ("id", r.choice(self.vars))
        return ("num", r.below(10))

    def expr(self, depth):
        r = self.rng
        if depth <= 0 or r.chance(1, 4):
            return self.atom()
        c = r.below(12)
        if c < 6:
            op = r.choice(["+", "-", "*", "+", "-", "*", "%", "^"])
            a, b = self.expr(depth - 1), self.expr(depth - 1)
            if op == "^":
                b = ("num", r.below(3))
            if op == "%":
                b = ("num", 1 + r.below(5))
            return ("bin", op, a, b)
        if c == 6:
            return ("neg", self.expr(depth - 1))
        if c == 7 and self.fns:
            f, ar = r.choice(self.fns)
            return ("call", f, [self.expr(depth - 1) for _ in range(ar)])
        if c == 8:
            return ("ifx", self.cond(depth - 1), self.expr(depth - 1), self.expr(depth - 1))
        if c == 9:
            items = [self.expr(depth - 1) for _ in range(1 + r.below(3))]
            return ("chain", ("list", items), r.choice([
                [("size", [])],
                [("first", [])],
                [("to_tuple", []), ("size", [])],
                [("iter", []), ("skip", [("num", 1)]), ("count", [])],
                [("iter", []), ("take", [("num", 2)]), ("to_list", []), ("size", [])],
            ]))
        if c == 10:
            items = [self.expr(depth - 1) for _ in range(2 + r.below(2))]
            return ("index", ("list", items), ("num", r.below(2)))
        return ("bin", r.choice(["+", "*"]), self.atom(), self.expr(depth - 1))

    def cond(self, depth):
        r = self.rng
        c = ("bin", r.choice(list(COMPARE)), self.expr(depth), self.expr(depth))
        k = r.below(6)
        if k == 0:
            return ("bin", r.choice(["and", "or"]), c, ("bin", r.choice(list(COMPARE)), self.atom(), self.atom()))
        if k == 1:
            return ("not", c)
        return c

    def simple_stmt(self, depth):
        r = self.rng
        k = r.below(5)
        if k <= 1 or not self.vars:
            return ("print", self.expr(depth))
        free = [v for v in self.vars if v not in self.protected]
        if k == 2 and free:
            return ("opassign", r.choice(free), r.choice(["+", "-", "*"]), self.expr(depth - 1))
        if k == 3 and free:
            return ("assign", r.choice(free), self.expr(depth))
        return ("print", ("str", r.choice(["a", "bc", "x y"])))

    def block(self, depth, n=None):
        r = self.rng
        n = n if n is not None else 1 + r.below(2)
        saved = list(self.vars)
        out = []
        for _ in range(n):
            s = self.stmt(depth - 1) if depth > 1 and r.chance(1, 4) else self.simple_stmt(2)
            if s[0] == "wblock":
                out += [("assign", s[1], ("num", 0)), s[2]]
            else:
                out.append(s)
        self.vars = saved
        return out

    def stmt(self, depth):
        r = self.rng
        k = r.below(15)
        if k == 14:
            # a method chain as the whole right-hand side (the form the guide breaks over lines)
            v = self.fresh("v")
            items = [self.expr(1) for _ in range(2 + r.below(2))]
            links = r.choice([
                [("iter", []), ("skip", [("num", 1)]), ("count", [])],
                [("iter", []), ("take", [("num", 2)]), ("to_list", []), ("size", [])],
                [("to_tuple", []), ("size", [])],
                [("iter", []), ("skip", [("num", 1)]), ("take", [("num", 1)]), ("to_tuple", []), ("size", [])],
            ])
            s = ("assign", v, ("chain", ("list", items), links))
            self.vars.append(v)
            return s
        if k <= 2 or not self.vars:
            v = self.fresh("v")
            s = ("assign", v, self.expr(3))
            self.vars.append(v)
            return s
        if k == 3:
            return self.simple_stmt(3)
        if k == 4:
            elifs = [(self.cond(1), self.block(depth))] if r.chance(1, 3) else []
            els = self.block(depth) if r.chance(2, 3) else None
            return ("ifblock", self.cond(2), self.block(depth), elifs, els)
        if k == 5:
            i = self.fresh("i")
            self.vars.append(i)
            body = self.block(depth)
            self.vars.remove(i)
            return ("for", i, ("bin", "+", ("num", 0), ("num", 0)) if False else ("tuple", [("num", r.below(4)), ("num", r.below(4))]), body)
        if k == 6:
            params = [self.fresh("p") for _ in range(1 + r.below(3))]
            f = self.fresh("f")
            saved = self.vars
            self.vars = list(params)
            body = self.block(min(depth, 2), n=1 + r.below(2))
            # the function's value is its last expression: make it one
            last = ("expr", self.expr(2))
            self.vars = saved
            if r.chance(1, 2):
                body = [last]
            else:
                body.append(last)
            self.fns.append((f, len(params)))
            return ("assign", f, ("fn", params, body))
        if k == 7:
            arms = []
            for lit in sorted({r.below(4) for _ in range(1 + r.below(2))}):
                arms.append((str(lit), self.block(depth)))
            arms.append((None, self.block(depth)))
            m = ("matchx", ("bin", "%", self.expr(2), ("num", 4)), arms)
            if r.chance(1, 2) and all(len(b) == 1 and b[0][0] == "print" for _, b in arms):
                v = self.fresh("v")
                m = ("matchx", m[1], [(p, [("expr", b[0][1])]) for p, b in arms])
                self.vars.append(v)
                return ("assign", v, m)
            return m
        if k == 8:
            arms = [(self.cond(1), self.block(depth)) for _ in range(1 + r.below(2))]
            arms.append((None, self.block(depth)))
            return ("switchx", arms)
        if k == 9:
            e = self.fresh("e")
            body = self.block(depth) + ([("throw", ("str", "boom"))] if r.chance(1, 2) else [])
            self.vars_backup = None
            catch = [("print", ("str", "caught"))] + self.block(depth, n=1)
            fin = [("print", ("str", "fin"))] if r.chance(1, 2) else None
            return ("try", body, e, catch, fin)
        if k == 10:
            m = self.fresh("m")
            entries = [(kk, self.expr(2)) for kk in ["a", "b", "c"][: 1 + r.below(3)]]
            return ("assign", m, ("mapblock", entries))
        if k == 11:
            w = self.fresh("w")
            self.vars.append(w)
            self.protected.add(w)
            body = self.block(depth) + [("opassign", w, "+", ("num", 1))]
            return ("wblock", w, ("while", ("bin", "<", ("id", w), ("num", 1 + r.below(3))), body))
        if k == 12:
            v = self.fresh("v")
            s = ("assign", v, ("ifblock", self.cond(2), [("expr", self.expr(2))], [], [("expr", self.expr(2))]))
            self.vars.append(v)
            return s
        return ("print", self.cond(2))


def gen_program(rng, nstmts):
    g = Gen(rng)
    prog = []
    for _ in range(nstmts):
        s = g.stmt(3)
        if s[0] == "wblock":
            prog.append(("assign", s[1], ("num", 0)))
            prog.append(s[2])
        else:
            prog.append(s)
        # maps: print a field so that the map matters
        if s[0] == "assign" and s[2][0] == "mapblock":
            prog.append(("print", ("id", s[1] + ".a")))
    for v in g.vars[:6]:
        prog.append(("print", ("id", v)))
    return prog


def fix_throw(text):
    return text


# ---------------------------------------------------------------------------------------------
# expected classification of a prefix


def prefix_expectation(lines, n):
    """lines[:n] is the prefix; returns 'indent' | 'not-indent' | None (not specified)"""
    tag = None
    for ln in reversed(lines[:n]):
        if ln.tag is not None:
            tag = ln.tag
            break
    if tag in ("header", "open"):
        return "indent"
    if tag == "complete":
        return "not-indent"
    return None   # inside brackets, arm headers: outside the property's list


# ---------------------------------------------------------------------------------------------


def run_cases(binp, cases, tag):
    os.makedirs(os.path.join(C.BUILD, "cases"), exist_ok=True)
    cf = os.path.join(C.BUILD, "cases", f"{tag}-{os.getpid()}.jsonl")
    with open(cf, "w") as f:
        for c in cases:
            f.write(json.dumps(c) + "\n")
    rc, out = C.sh([binp, cf], timeout=3000)
    os.remove(cf)
    res = [json.loads(l) for l in out.splitlines() if l.startswith("{")]
    if rc != 0 or len(res) != len(cases):
        raise RuntimeError(f"kh_syn failed rc={rc}, {len(res)}/{len(cases)} results: {out[-800:]}")
    return res


def run_sharded(binp, cases, tag):
    """run the harness on `cases` in parallel shards"""
    import concurrent.futures
    n = max(1, min(C.NPROC, len(cases) // 200))
    size = (len(cases) + n - 1) // n
    shards = [cases[i * size:(i + 1) * size] for i in range(n)]
    shards = [s for s in shards if s]
    out = []
    with concurrent.futures.ThreadPoolExecutor(max_workers=n) as ex:
        for res in ex.map(lambda a: run_cases(binp, a[1], f"{tag}{a[0]}"), list(enumerate(shards))):
            out += res
    return out


# known finding classes -------------------------------------------------------------------------

def class_c10b(lines):
    """C10b: a statement that spans several lines (broken operator / argument list / brackets / chain, or
    `x =` + indented value) is followed at the same indentation by a line that starts with `-`."""
    prev = None
    for ln in lines:
        if ln.tag is None:
            continue
        if ln.first and prev is not None and ln.text.lstrip().startswith("-"):
            lead = len(ln.text) - len(ln.text.lstrip())
            plead = len(prev.text) - len(prev.text.lstrip())
            if prev.multi or plead > lead:
                return True
        prev = ln
    return False


def class_c10a(text):
    """C10a: the first statement of the file is indented and something (a comment or blank line) precedes
    it on an earlier line -- or nothing does (the same source without that line is accepted)."""
    for line in text.split("\n"):
        s = strip_trivia(line)
        if s.strip() == "":
            continue
        return line[:1] in (" ", "\t")
    return False


# ---------------------------------------------------------------------------------------------
# composition family: several layout freedoms applied to ONE expression
#
# a call chain (root of every kind) x the position of the chain in its statement (same line / value on its
# own indented line after `=`, `return`, `yield` / argument of a parenthesis-free call on its own line /
# one argument per line / map-block value / if body / right operand on a continuation line) x how the chain
# is broken x an operator continuation after it x comments / blank lines between the lines x the
# indentation width of every nesting level (1, 2, 3, 4, 8 spaces, tabs); reference = the one-line spelling.

COMP_ROOTS = [
    # name, root text, links, uses self
    ("id", "data", [".to_tuple()", ".last()"], False),
    ("string", "'a,b,c'", [".split(',')", ".to_tuple()", ".size()"], False),
    ("number", "12", [".max(20)", ".min(15)"], False),
    ("paren", "(data)", [".to_tuple()", ".last()"], False),
    ("list", "[3, 1, 2]", [".to_tuple()", ".last()"], False),
    ("map", "{a: 1, b: 2}", [".keys()", ".to_tuple()", ".size()"], False),
    ("call", "ident(data)", [".to_tuple()", ".first()"], False),
    ("index", "data[1..]", [".to_tuple()", ".size()"], False),
    ("self", "self", [".data", ".to_tuple()", ".last()"], True),
]
COMP_POSITIONS = ["same", "assign", "return", "yield", "arg", "args", "mapvalue", "ifbody", "operand"]
COMP_CHAINS = ["one", "all", "tail"]
COMP_INDENTS = [(2, 2, 2, 2, 2), (1, 1, 1, 1, 1), (3, 3, 3, 3, 3), (4, 4, 4, 4, 4), (8, 8, 8, 8, 8), "tabs",
                (2, 4, 1, 3, 2), (4, 2, 8, 1, 3), (1, 3, 2, 4, 2)]


def comp_statement(root, links, position, chain, tail_op):
    """(lines of the laid-out statement as (relative level, text), the one-line spelling, how to read the result)"""
    def e_lines(prefix, rel, suffix=""):
        if chain == "one":
            ls = [(rel, prefix + root + "".join(links))]
        elif chain == "all":
            ls = [(rel, prefix + root)] + [(rel + 1, l) for l in links]
        else:
            ls = [(rel, prefix + root + links[0])] + [(rel + 1, l) for l in links[1:]]
        if tail_op:
            ls.append((rel + 1, "+ 1"))
        ls[-1] = (ls[-1][0], ls[-1][1] + suffix)
        return ls
    e1 = root + "".join(links) + (" + 1" if tail_op else "")
    if position == "same":
        return e_lines("x = ", 0), f"x = {e1}", "x"
    if position == "assign":
        return [(0, "x =")] + e_lines("", 1), f"x = {e1}", "x"
    if position == "return":
        return [(0, "return")] + e_lines("", 1), f"return {e1}", None
    if position == "yield":
        return [(0, "yield")] + e_lines("", 1), f"yield {e1}", None
    if position == "arg":
        return [(0, "x = show")] + e_lines("", 1), f"x = show {e1}", "x"
    if position == "args":
        return [(0, "x = pair")] + e_lines("", 1, ",") + [(1, "7")], f"x = pair {e1}, 7", "x"
    if position == "mapvalue":
        return [(0, "mm ="), (1, "k:")] + e_lines("", 2), f"mm = {{k: {e1}}}", "mm.k"
    if position == "ifbody":
        return [(0, "x = if data.size() > 1")] + e_lines("", 1) + [(0, "else"), (1, "0")], \
            f"x = if data.size() > 1 then {e1} else 0", "x"
    if position == "operand":
        return [(0, "x = 1 +")] + e_lines("", 1), f"x = 1 + {e1}", "x"
    raise ValueError(position)


def comp_program(rootspec, position, chain, tail_op, trivia, indents, rng):
    """returns (layout text, one-line text)"""
    name, root, links, uses_self = rootspec
    lines, oneline, result = comp_statement(root, links, position, chain, tail_op)
    setup = ["data = [3, 1, 2]", "show = |x| x", "pair = |a, b| (a, b)", "ident = |x| x"]
    if uses_self:
        head = [(0, "obj ="), (1, "data: [3, 1, 2]"), (1, "get: ||")]
        base = 2
        call = "obj.get()"
    else:
        head = [(0, "f = ||")]
        base = 1
        call = "f()"
    tail = [(base, result)] if result else []
    last = [(0, f"print {call}.to_tuple()" if position == "yield" else f"print {call}")]

    def width(level):
        if indents == "tabs":
            return "\t" * level
        return " " * sum(indents[:level])

    def emit(body):
        out = []
        allv = head + [(base + l, t) for l, t in body] + tail
        for i, (l, t) in enumerate(allv):
            inbody = len(head) <= i < len(head) + len(body)
            if inbody and i > len(head) and trivia == "between" and rng is not None:
                k = rng.below(3)
                if k == 0:
                    out.append("")
                elif k == 1:
                    out.append(width(l) + "# between")
                else:
                    out.append(" " * rng.below(9) + "# note")
            text = width(l) + t
            if inbody and trivia == "eol":
                text += rng.choice(["  # c", " # c", "   #- c -#", "  "]) if rng is not None else "  # c"
            out.append(text)
        return "\n".join(setup + out + [t for _, t in last]) + "\n"
    return emit(lines), emit([(0, oneline)] if True else lines)


def comp_cases(rng, tier):
    out = []
    for rs in COMP_ROOTS:
        for pos in COMP_POSITIONS:
            for ch in COMP_CHAINS:
                combos = [(False, "none", COMP_INDENTS[0])]
                if tier == "quick":
                    for _ in range(3):
                        combos.append((rng.chance(1, 2), rng.choice(["none", "eol", "between"]), rng.choice(COMP_INDENTS)))
                else:
                    combos = [(t, tr, ind) for t in (False, True) for tr in ("none", "eol", "between") for ind in COMP_INDENTS]
                for tail_op, trivia, ind in combos:
                    if pos == "same" and ch == "one" and not tail_op:
                        continue     # that IS the one-line spelling
                    layout, _ = comp_program(rs, pos, ch, tail_op, trivia, ind, rng)
                    _, ref = comp_program(rs, pos, ch, tail_op, "none", COMP_INDENTS[0], None)
                    out.append({"root": rs[0], "position": pos, "chain": ch, "tail_op": tail_op, "trivia": trivia,
                                "indent": ind if ind == "tabs" else list(ind), "src": layout, "ref": ref})
    return out



# ---------------------------------------------------------------------------------------------
# spelling family: alternative spellings of one construct, executed with OBSERVABLE branch bodies
# (they push to a log) in statement position (value discarded, not the last statement; inside loops and function
# bodies) and in value position, under every truth combination of the conditions.  Only behaviour is compared
# (the ASTs legitimately differ).

def _act(tag, style):
    if style == "paren":
        return f"log.push('{tag}')"
    if style == "bare":
        return f"log.push '{tag}'"
    return f"'{tag}' -> log.push"          # pipe


def _ind(lines, n):
    return [" " * n + l for l in lines]


def cascade_spellings(nconds, has_else):
    """spellings of `if c0 A0 else if c1 A1 ... [else E]` as lists of lines"""
    conds = [f"c{i}" for i in range(nconds)]
    tags = [chr(65 + i) for i in range(nconds)]
    out = {}
    for style in ("paren", "bare", "pipe"):
        # block cascade
        ls = []
        for i, (c, t) in enumerate(zip(conds, tags)):
            ls += [("if " if i == 0 else "else if ") + c, "  " + _act(t, style)]
        if has_else:
            ls += ["else", "  " + _act("E", style)]
        out[f"block-cascade/{style}"] = ls
        # nested else / if
        def nested(i):
            ls = [f"if {conds[i]}", "  " + _act(tags[i], style)]
            if i + 1 < nconds:
                ls += ["else"] + _ind(nested(i + 1), 2)
            elif has_else:
                ls += ["else", "  " + _act("E", style)]
            return ls
        out[f"nested-else-if/{style}"] = nested(0)
        # switch, inline and block arms
        ls = ["switch"] + [f"  {c} then {_act(t, style)}" for c, t in zip(conds, tags)]
        if has_else:
            ls.append("  else " + _act("E", style))
        out[f"switch-inline-arms/{style}"] = ls
        ls = ["switch"]
        for c, t in zip(conds, tags):
            ls += [f"  {c} then", "    " + _act(t, style)]
        if has_else:
            ls += ["  else", "    " + _act("E", style)]
        out[f"switch-block-arms/{style}"] = ls
    # single-line nested inline ifs (parenthesised calls: a bare call would swallow the `else`)
    def inline(i):
        s = f"if {conds[i]} then {_act(tags[i], 'paren')}"
        if i + 1 < nconds:
            s += f" else ({inline(i + 1)})"
        elif has_else:
            s += f" else {_act('E', 'paren')}"
        return s
    out["inline-nested/paren"] = [inline(0)]
    # the bodies as calls of one-line / multi-line functions
    ls = []
    for i, (c, t) in enumerate(zip(conds, tags)):
        ls += [("if " if i == 0 else "else if ") + c, f"  act{'1' if i % 2 else '2'}('{t}')"]
    if has_else:
        ls += ["else", "  act1 'E'"]
    out["block-cascade/function-bodies"] = ls
    return out


def match_spellings(has_else):
    out = {}
    for style in ("paren", "bare", "pipe"):
        ls = ["match v"] + [f"  {k} then {_act(chr(65 + k), style)}" for k in range(2)]
        if has_else:
            ls.append("  else " + _act("E", style))
        out[f"match-inline-arms/{style}"] = ls
        ls = ["match v"]
        for k in range(2):
            ls += [f"  {k} then", "    " + _act(chr(65 + k), style)]
        if has_else:
            ls += ["  else", "    " + _act("E", style)]
        out[f"match-block-arms/{style}"] = ls
    if has_else:
        out["if-cascade/paren"] = ["if v == 0", "  log.push('A')", "else if v == 1", "  log.push('B')", "else", "  log.push('E')"]
        out["switch/paren"] = ["switch", "  v == 0 then log.push('A')", "  v == 1 then log.push('B')", "  else log.push('E')"]
    return out


SPELL_CONTEXTS = ["top", "for", "while", "fn", "fn-nested-loop", "value"]


def spell_program(setup, body, context):
    head = ["log = []", "act1 = |t| log.push t", "act2 = |t|", "  x = t", "  log.push x"] + setup
    if context == "top":
        mid = body + ["log.push 'end'"]
    elif context == "for":
        mid = ["for i in 0..2"] + _ind(body + ["log.push i"], 2)
    elif context == "while":
        mid = ["n = 0", "while n < 2"] + _ind(body + ["n += 1", "log.push n"], 2)
    elif context == "fn":
        mid = ["f = ||"] + _ind(body + ["log.push 'end'", "0"], 2) + ["f()", "log.push 'after'"]
    elif context == "fn-nested-loop":
        mid = ["f = |k|"] + _ind(["for i in 0..k"] + _ind(body + ["log.push i"], 2) + ["k"], 2) + ["f 2", "log.push 'after'"]
    else:   # value position: the construct is the last expression of a function whose result is used
        mid = ["f = ||"] + _ind(["log.push 'start'"] + body, 2) + ["r = f()", "log.push 'after'"]
    return "\n".join(head + mid + ["print log"]) + "\n"


def spelling_groups(rng, tier):
    """[(description, [(spelling name, source)])]: all sources of a group must behave identically"""
    import itertools
    groups = []
    for nconds in (2, 3):
        for has_else in (False, True):
            sp = cascade_spellings(nconds, has_else)
            for truth in itertools.product([True, False], repeat=nconds):
                setup = [f"c{i} = {'true' if t else 'false'}" for i, t in enumerate(truth)]
                ctxs = SPELL_CONTEXTS if tier != "quick" or nconds == 2 else [rng.choice(SPELL_CONTEXTS[:5]), "top"]
                for ctx in ctxs:
                    groups.append((f"cascade n={nconds} else={has_else} truth={truth} context={ctx}",
                                   [(name, spell_program(setup, body, ctx)) for name, body in sp.items()]))
    for has_else in (False, True):
        sp = match_spellings(has_else)
        for v in range(3):
            for ctx in SPELL_CONTEXTS:
                groups.append((f"match else={has_else} v={v} context={ctx}",
                               [(name, spell_program([f"v = {v}"], body, ctx)) for name, body in sp.items()]))
    return groups



def corpus_cases():
    out = []
    d = os.path.join(C.VERIF, "corpus", PID)
    if os.path.isdir(d):
        for f in sorted(os.listdir(d)):
            if f.endswith(".jsonl"):
                for line in open(os.path.join(d, f), encoding="utf-8"):
                    line = line.strip()
                    if line:
                        out.append(json.loads(line))
    return out


def prec_cases(rng, n):
    """random operator expressions over atoms: (token list for the model, source text)"""
    ops = ["+", "-", "*", "/", "%", "^", "==", "!=", "<", "<=", ">", ">=", "and", "or"]
    out = []
    for _ in range(n):
        k = 2 + rng.below(5)
        toks = []
        depth = 0
        for i in range(k):
            if rng.chance(1, 5):
                toks.append("(")
                depth += 1
            toks.append(("a", i))
            if depth and rng.chance(1, 3):
                toks.append(")")
                depth -= 1
            if i < k - 1:
                toks.append(rng.choice(ops))
        toks += [")"] * depth
        out.append(toks)
    return out


OPNAME = {"+": "OpAdd", "-": "OpSubtract", "*": "OpMultiply", "/": "OpDivide", "%": "OpRemainder", "^": "OpPower",
          "==": "OpEqual", "!=": "OpNotEqual", "<": "OpLess", "<=": "OpLessOrEqual", ">": "OpGreater",
          ">=": "OpGreaterOrEqual", "and": "OpAnd", "or": "OpOr"}


def prec_term(toks):
    parts = []
    for t in toks:
        if t == "(":
            parts.append("PLParen")
        elif t == ")":
            parts.append("PRParen")
        elif isinstance(t, tuple):
            parts.append(f"PAtom {t[1]}")
        else:
            parts.append(f"POp {OPNAME[t]}")
    return "[" + "; ".join(parts) + "]"


def prec_src(toks):
    return "x = " + " ".join(t if isinstance(t, str) else f"a{t[1]}" for t in toks) + "\n"


def tree_of_model(flat):
    """PrecRun.enc_tree, preorder: Leaf n -> [0; n]   Bin o l r -> [1; code] ++ l ++ r"""
    pos = [0]

    def go():
        tag = flat[pos[0]]
        if tag == 0:
            n = flat[pos[0] + 1]
            pos[0] += 2
            return f'(id "a{n}")'
        op = BINOP_BY_CODE[flat[pos[0] + 1]]
        pos[0] += 2
        l = go()
        r = go()
        return f"(bin {op} {l} {r})"
    return go()


BINOP_BY_CODE = ["+", "-", "*", "/", "%", "^", "+=", "-=", "*=", "/=", "%=", "^=", "==", "!=", ">", ">=", "<", "<=",
                 "and", "or", "->"]


def theorems(chk, pid, props_file, pinned, gens):
    """regenerate tables, build, check the pinned theorems; returns (model_ok, axioms)"""
    gen_ok = True
    # the unit is one Coq project: all three generated files are needed to build it; the obligations of this
    # property are the generators named in `gens`
    for name in sorted(k2v_syn.GENERATORS, key=lambda n: n not in gens):
        v, j = k2v_syn.DEFAULT_OUTPUTS[name]
        try:
            k2v_syn.GENERATORS[name](os.path.join(C.COQ, v[len("coq/"):]), os.path.join(C.VERIF, j))
            if name in gens:
                chk.oblige(f"gen:{name} (tools/k2v_syn.py: tables regenerated, transcribed functions unchanged)", True)
        except k2v.GenError as e:
            if name in gens:
                gen_ok = False
                chk.oblige(f"gen:{name}", False, str(e))
                chk.log(f"translator failed: {e}")
            else:
                chk.notes.append(f"generator {name} (other property of this unit) failed: {e}")
                # keep the previous generated file if there is one so that the unit still builds
    if not gen_ok:
        for name in pinned:
            chk.oblige("thm:" + name, False, "tables could not be regenerated / source changed")
        return False, []
    ok, log = C.coq_build(UNIT)
    if not ok:
        chk.log("coq/syn does not build:\n" + log[-2500:])
    pr = C.check_props_file(UNIT, props_file, pinned) if ok else {"ok": False, "missing": [], "bad_axioms": [], "axioms": [], "log": ""}
    hits = C.forbidden_scan(UNIT)
    if ok and not pr["ok"]:
        chk.log(f"{props_file} does not check:\n" + pr["log"][-2500:])
    for name in pinned:
        good = ok and pr["ok"] and name not in pr["missing"] and ("Print Assumptions " + name) not in pr["missing"] \
            and not pr["bad_axioms"] and not hits
        chk.oblige("thm:" + name, good)
    if hits:
        chk.log("forbidden constructs: " + "; ".join(hits))
    if pr["bad_axioms"]:
        chk.log("axioms outside the allowlist: " + ", ".join(pr["bad_axioms"]))
    return ok, pr["axioms"]


def run(tier, seed):
    chk = C.Check(PID, tier, seed, "partial")
    if os.environ.get("SYN_SKIP_COQ"):
        model_ok, axioms = False, []
    else:
        model_ok, axioms = theorems(chk, PID, "C10Props", PINNED, ["syn-prec", "syn-tokaccess"])

    binp, blog = C.build_harness("kh_syn")
    if not binp:
        chk.log("harness build failed:\n" + blog[-3000:])
        chk.violation("build", {"kind": "obligation", "correspondence": "kh_syn does not build against the koto checkout",
                                "log": blog[-3000:]}, no_input=True)
        return chk.finish("n/a")

    rng = C.Rng(seed)
    nprog = 120 if tier == "quick" else 700
    nlay = 8 if tier == "quick" else 64
    nprefix_layouts = 2 if tier == "quick" else 6

    # ---- cases
    cases = []     # harness cases
    meta = []      # parallel: dict(kind=..., ...)
    dist = {}

    def add(case, m):
        cases.append(case)
        meta.append(m)
        dist[m["kind"]] = dist.get(m["kind"], 0) + 1

    for cc in corpus_cases():
        if cc.get("kind") == "pair":
            add({"mode": "prog", "src": cc["a"], "run": True}, {"kind": "corpus-pair", "role": "a", "c": cc})
            add({"mode": "prog", "src": cc["b"], "run": True}, {"kind": "corpus-pair", "role": "b", "c": cc})
        elif cc.get("kind") == "prefix":
            add({"mode": "prog", "src": cc["src"]}, {"kind": "corpus-prefix", "c": cc})

    for cc in comp_cases(rng, tier):
        add({"mode": "prog", "src": cc["ref"], "run": True}, {"kind": "composition", "role": "ref", "c": cc})
        add({"mode": "prog", "src": cc["src"], "run": True}, {"kind": "composition", "role": "layout", "c": cc})

    for gi, (desc, variants) in enumerate(spelling_groups(rng, tier)):
        for vi, (name, src) in enumerate(variants):
            add({"mode": "prog", "src": src, "run": True},
                {"kind": "spelling", "group": gi, "first": vi == 0, "desc": desc, "name": name, "ref_name": variants[0][0]})

    progs = []
    for pi in range(nprog):
        prog = gen_program(rng, 3 + rng.below(6))
        canon = render(prog, Layout())
        ctext = fix_throw(text_of(canon))
        base = len(cases)
        add({"mode": "prog", "src": ctext, "run": True}, {"kind": "canonical", "prog": pi})
        layouts = [(canon, ctext, set())]
        for li in range(nlay):
            if li % 4 == 0:
                flags = TRIVIA
            elif li % 4 == 1:
                flags = STRUCT
            else:
                flags = tuple(f for f in TRIVIA + STRUCT if rng.chance(1, 2))
            lay = Layout(rng, flags)
            lines = render(prog, lay)
            text = fix_throw(text_of(lines))
            add({"mode": "prog", "src": text, "run": True},
                {"kind": "layout", "prog": pi, "base": base, "used": sorted(lay.used), "lines": lines,
                 "trivia_only": all(u in TRIVIA for u in lay.used)})
            layouts.append((lines, text, lay.used))
        progs.append((prog, layouts, base))

    chk.log(f"{len(cases)} cases: {dist}")
    try:
        res = run_sharded(binp, cases, "c10")
    except RuntimeError as e:
        chk.log(str(e))
        chk.violation("harness", {"kind": "obligation", "correspondence": "kh_syn crashed", "log": str(e)[-2000:]}, no_input=True)
        return chk.finish("n/a")

    # ---- second round: every line-prefix of the canonical layout and of sampled layouts (only layouts
    # that parse: a prefix of a rejected layout says nothing)
    n1 = len(cases)
    for pi, (prog, layouts, base) in enumerate(progs):
        which = [0] + sorted({1 + rng.below(nlay) for _ in range(nprefix_layouts)})
        for wi in which:
            if not res[base + wi].get("ok"):
                continue
            lines, text, used = layouts[wi]
            for n in range(1, len(lines)):
                exp = prefix_expectation(lines, n)
                if exp is None:
                    continue
                add({"mode": "prog", "src": text_of(lines[:n])},
                    {"kind": "prefix", "prog": pi, "expect": exp, "n": n, "layout": wi})
    try:
        res += run_sharded(binp, cases[n1:], "c10b")
    except RuntimeError as e:
        chk.log(str(e))
        chk.violation("harness", {"kind": "obligation", "correspondence": "kh_syn crashed", "log": str(e)[-2000:]}, no_input=True)
        return chk.finish("n/a")
    chk.log(f"{len(cases)} cases: {dist}")

    fails = []   # (size, name, payload)
    used_hist = {}
    comp_hist = {}
    comp_ref_fail = set()
    spell_ref = None
    canon_fail = 0
    for i, (c, m, r) in enumerate(zip(cases, meta, res)):
        src = c["src"]
        if "panic" in r:
            fails.append((len(src), "parser-panic", {"src": src, "impl_says": r, "predicate_failed": "the parser panicked"}))
            continue
        k = m["kind"]
        if k == "canonical":
            chk.count_case(src, True)
            if not r["ok"]:
                canon_fail += 1
        elif k == "layout":
            b = res[m["base"]]
            if not b.get("ok"):
                continue
            for u in m["used"]:
                used_hist[u] = used_hist.get(u, 0) + 1
            chk.count_case(src, bool(m["used"]))
            what = None
            if not r["ok"]:
                what = f"layout variant does not parse ({r.get('err_kind')}, line {r.get('err_line')}) but the canonical layout does"
            elif m["trivia_only"] and r["strict"] != b["strict"]:
                what = "AST (spans erased) differs although only comments / blank lines / trailing spaces were added"
            elif r["loose"] != b["loose"]:
                what = "AST (spans erased, notational flags dropped) differs from the canonical layout's"
            elif "ETimeout" in (r.get("result"), b.get("result")):
                pass     # the execution limit cut the run at a timing-dependent point
            elif (r.get("result"), r.get("out")) != (b.get("result"), b.get("out")):
                what = f"run result differs: {r.get('result')!r}/{r.get('out')!r} vs canonical {b.get('result')!r}/{b.get('out')!r}"
            if what and class_c10b(m["lines"]):
                chk.known("C10b a line starting with `-` after a statement that spans several lines is parsed as the "
                          "continuation of that statement (binary minus)")
                continue
            if what:
                if class_c10a(src) and not class_c10a(cases[m["base"]]["src"]):
                    chk.known("C10a an indented first statement is accepted only when no comment / blank line precedes it")
                    continue
                fails.append((len(src), "layout", {
                    "src": src, "canonical_src": cases[m["base"]]["src"], "freedoms_used": m["used"],
                    "impl_says": {kk: r.get(kk) for kk in ("ok", "err_kind", "err_line", "result", "out", "loose")},
                    "canonical_says": {kk: b.get(kk) for kk in ("ok", "result", "out", "loose")},
                    "predicate_failed": what}))
        elif k == "prefix":
            chk.count_case(src, True)
            ie = (not r["ok"]) and r.get("indent_err")
            le = (not r["ok"]) and r.get("loader_indent_err")
            if not r["ok"] and ie != le:
                fails.append((len(src), "prefix", {"src": src, "impl_says": r,
                                                   "predicate_failed": "parser and module loader disagree on is_indentation_error"}))
            elif m["expect"] == "indent" and not ie:
                fails.append((len(src), "prefix", {
                    "src": src, "impl_says": {kk: r.get(kk) for kk in ("ok", "indent_err", "err_kind", "err_line")},
                    "predicate_failed": "the program is cut off after a header line / `=` / binary operator but the "
                                        "error is not an indentation error"}))
            elif m["expect"] == "not-indent" and ie:
                fails.append((len(src), "prefix", {
                    "src": src, "impl_says": {kk: r.get(kk) for kk in ("ok", "indent_err", "err_kind", "err_line")},
                    "predicate_failed": "the program is cut off after a complete statement but is reported as an "
                                        "indentation error"}))
        elif k == "corpus-prefix":
            chk.count_case(src, True)
            ie = (not r["ok"]) and r.get("indent_err")
            if ie != (m["c"]["expect"] == "indent"):
                fails.append((len(src), "prefix", {"src": src, "impl_says": r, "predicate_failed":
                                                   f"corpus prefix: expected {m['c']['expect']}"}))
        elif k == "spelling":
            chk.count_case(src, True)
            if m["first"]:
                spell_ref = (i, r)
                if not r.get("ok"):
                    fails.append((len(src), "spelling", {"src": src, "impl_says": r, "predicate_failed":
                                                         f"reference spelling {m['name']} does not compile ({m['desc']})"}))
                continue
            ri, a = spell_ref
            if not a.get("ok"):
                continue
            what = None
            if not r.get("ok"):
                what = f"spelling {m['name']} does not compile ({r.get('err_kind')}) while {m['ref_name']} does"
            elif (r.get("result"), r.get("out")) != (a.get("result"), a.get("out")):
                what = (f"spelling {m['name']} behaves differently from {m['ref_name']}: {r.get('result')!r}/{r.get('out')!r} vs "
                        f"{a.get('result')!r}/{a.get('out')!r}")
            if what:
                fails.append((len(src), "spelling", {
                    "src": src, "canonical_src": cases[ri]["src"], "behaviour_only": True,
                    "freedoms_used": [m["desc"], m["name"], "vs " + m["ref_name"]],
                    "impl_says": {kk: r.get(kk) for kk in ("ok", "err_kind", "err_line", "result", "out")},
                    "canonical_says": {kk: a.get(kk) for kk in ("ok", "result", "out")},
                    "predicate_failed": what}))
        elif k == "composition" and m["role"] == "layout":
            a = res[i - 1]
            cc = m["c"]
            chk.count_case(src, True)
            key = f"{cc['root']}/{cc['position']}/{cc['chain']}"
            comp_hist[key] = comp_hist.get(key, 0) + 1
            if not a.get("ok"):
                comp_ref_fail.add((cc["root"], cc["position"], cc["tail_op"]))
                continue
            what = None
            if not r.get("ok"):
                what = f"composed layout does not parse ({r.get('err_kind')}, line {r.get('err_line')}) but the one-line spelling does"
            elif r["loose"] != a["loose"]:
                what = "AST (spans erased, notational flags dropped) differs from the one-line spelling's"
            elif (r.get("result"), r.get("out")) != (a.get("result"), a.get("out")):
                what = f"run result differs: {r.get('result')!r}/{r.get('out')!r} vs one-line {a.get('result')!r}/{a.get('out')!r}"
            if what:
                fails.append((len(src), "composition", {
                    "src": src, "canonical_src": cc["ref"],
                    "freedoms_used": [f"root={cc['root']}", f"position={cc['position']}", f"chain={cc['chain']}",
                                      f"tail_op={cc['tail_op']}", f"trivia={cc['trivia']}", f"indent={cc['indent']}"],
                    "impl_says": {kk: r.get(kk) for kk in ("ok", "err_kind", "err_line", "result", "out", "loose")},
                    "canonical_says": {kk: a.get(kk) for kk in ("ok", "result", "out", "loose")},
                    "predicate_failed": what}))
        elif k == "corpus-pair" and m["role"] == "b":
            a = res[i - 1]
            chk.count_case(src, True)
            same = a.get("ok") == r.get("ok") and (not r.get("ok") or
                                                   (a["loose"], a.get("result"), a.get("out")) == (r["loose"], r.get("result"), r.get("out")))
            if not same:
                kn = m["c"].get("known")
                if kn:
                    chk.known(kn)
                else:
                    fails.append((len(src), "layout", {"src": src, "canonical_src": m["c"]["a"], "impl_says": r,
                                                       "canonical_says": a, "predicate_failed": "corpus pair behaves differently"}))
            elif m["c"].get("known"):
                chk.notes.append(f"known finding no longer reproduces: {m['c']['known']}")
    if comp_ref_fail:
        chk.notes.append(f"composition family: one-line spelling rejected for {sorted(comp_ref_fail)} (skipped)")
        chk.log(f"composition family: one-line spelling rejected for {sorted(comp_ref_fail)}")
    if canon_fail:
        chk.notes.append(f"{canon_fail} generated programs do not parse in their canonical layout (generator defect; skipped)")
    chk.oblige("gen:programs parse in canonical layout (>= 95%)", canon_fail * 20 <= nprog, f"{canon_fail}/{nprog}")

    # ---- R: precedence model vs the real parser
    disagreements = []
    if model_ok:
        pc = prec_cases(rng, 300 if tier == "quick" else 5000)
        pres = run_sharded(binp, [{"mode": "prog", "src": "a0=1\n" + prec_src(t)} for t in pc], "c10p")
        header = "From KV.syn Require Import SynBase GenPrecedence PrecModel PrecRun.\nFrom Coq Require Import NArith List.\nImport ListNotations.\nOpen Scope N_scope.\n"
        try:
            vals = C.coq_eval(UNIT, header, [f"run_climb {prec_term(t)}" for t in pc], tag="c10", per_shard=200)
        except RuntimeError as e:
            chk.log(str(e)[-2000:])
            vals = None
        if vals is None:
            chk.oblige("corr:precedence model evaluates", False)
        else:
            for t, v, r in zip(pc, vals, pres):
                src = prec_src(t)
                chk.count_case(src, True)
                if v[0] == 1:
                    want = tree_of_model(v[1])
                    got = None
                    if r.get("ok"):
                        lo = r["loose"]
                        j = lo.find('(assign let=false (id "x") ')
                        got = lo[j + len('(assign let=false (id "x") '):-3] if j >= 0 else lo
                    if got != want:
                        disagreements.append((len(src), src, want, got if got is not None else r.get("err_kind")))
                else:
                    if r.get("ok"):
                        disagreements.append((len(src), src, "model: no parse", r["loose"]))
            chk.oblige("corr:precedence model vs koto_parser on random operator expressions", not disagreements,
                       f"{len(disagreements)} disagreements")

    # ---- verdict
    if os.environ.get("SYN_DEBUG"):
        hist = {}
        for _, name, p in fails:
            key = (name, p["predicate_failed"][:60], tuple(p.get("freedoms_used", [])) if len(p.get("freedoms_used", [])) <= 2 else "many")
            hist.setdefault(key, []).append(p)
        for key, ps in sorted(hist.items(), key=lambda kv: -len(kv[1]))[:25]:
            ps.sort(key=lambda p: len(p["src"]))
            print("=====", len(ps), key)
            print(ps[0]["src"])
            print(json.dumps(ps[0].get("impl_says"))[:300])
            os.makedirs("/tmp/syn/fails", exist_ok=True)
            with open(f"/tmp/syn/fails/{PID}-{len(ps)}-{abs(hash(key)) % 1000}.json", "w") as fh:
                json.dump(ps[:3], fh, indent=1)
    if fails:
        fails.sort(key=lambda x: x[0])
        _, name, payload = fails[0]
        payload.update({"kind": "input", "others": len(fails) - 1, "how_to_rerun": "./check C10 --replay <this file>"})
        chk.violation("input", payload)
        chk.log(f"{len(fails)} inputs violate C10; smallest:\n{payload['src']}\n-> {payload['predicate_failed']}")
    broken = [o for o in chk.obligations if not o[1]]
    if broken and not fails:
        payload = {"kind": "obligation", "broken": [o[0] + (": " + o[2] if o[2] else "") for o in broken]}
        if disagreements:
            disagreements.sort()
            payload["smallest_disagreement"] = {"src": disagreements[0][1], "model_says": disagreements[0][2],
                                                "impl_says": disagreements[0][3]}
        chk.violation("obligation", payload, no_input=True)

    tb = ["Coq 8.16.1 kernel (coqc); vm_compute for table sweeps and for evaluating the precedence model",
          "axioms reported by Print Assumptions: " + (", ".join(axioms) if axioms else "none (closed under the global context)"),
          "tools/k2v_syn.py: transcription of operator_precedence / Indentation arms / Token::is_whitespace; sha1 "
          "fingerprints of the hand-transcribed access functions",
          "NOT modelled: the ~60 parse functions of parser.rs above the token-access layer (searched only)",
          "kh_syn (Rust harness: AST dump, run) and checks/c10.py (program generator, layouts, comparison)"]
    return chk.finish(
        rule="programs: committed corpus + seeded random block-structured programs (if/else, functions, loops, match, "
             "switch, try, maps, chains, calls) x layouts (8 quick / 64 thorough per program; coins of 15 named freedoms) + "
             "all line-prefixes of the canonical and of sampled layouts; non-trivial = at least one freedom used / prefix; "
             "distinct by source text",
        explanation="theorems: token-access layer is transparent to trivia (all token lists), precedence climbing inverts "
                    "the conventional printer (all trees); search: AST and run equality across layouts, indentation-error "
                    "classification of prefixes. Absence of a failing layout for the grammar-level freedoms is NOT shown.",
        trusted_base=tb,
        extra={"distribution": dist, "freedoms_used": used_hist, "exhaustive": False,
               "model_impl_disagreements": len(disagreements)})


def replay(path, args):
    data = json.load(open(path))
    src = data.get("src")
    if src is None:
        print("replay file names an obligation, not an input:", json.dumps(data.get("broken")))
        return run("quick", data.get("seed", 1))
    binp, _ = C.build_harness("kh_syn")
    cs = [{"mode": "prog", "src": src, "run": True}]
    if data.get("canonical_src"):
        cs.append({"mode": "prog", "src": data["canonical_src"], "run": True})
    res = run_cases(binp, cs, "c10-replay")
    for r in res:
        print(json.dumps({k: r.get(k) for k in ("ok", "indent_err", "err_kind", "err_line", "result", "out")}))
    bad = False
    pf = data.get("predicate_failed", "")
    if len(res) == 2 and data.get("behaviour_only"):
        a, b = res
        bad = a.get("ok") != b.get("ok") or (a.get("result"), a.get("out")) != (b.get("result"), b.get("out"))
    elif len(res) == 2:
        a, b = res
        bad = a.get("ok") != b.get("ok") or (a.get("ok") and (a["loose"], a.get("result"), a.get("out")) != (b["loose"], b.get("result"), b.get("out")))
    elif "not an indentation error" in pf:
        bad = not ((not res[0]["ok"]) and res[0].get("indent_err"))
    elif "reported as an indentation error" in pf:
        bad = (not res[0]["ok"]) and res[0].get("indent_err")
    elif "panic" in res[0]:
        bad = True
    if bad:
        print(f"VIOLATION property={PID} replay={path}")
        return 1
    print("no clause of C10 fails on this input")
    return 0
