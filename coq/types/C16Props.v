(* C16 -- Type hints check exactly as documented; disabling them changes nothing else.
   ONLY the pinned statements live here; every proof is `exact <lemma>`. *)
From Coq Require Import String List Bool ZArith Lia.
Import ListNotations.
From KV.types Require Import TypesModel TypesSpec TypesProofs EraseModel EraseProofs.
Open Scope string_scope.

(* ---- part 1: the runtime check is the documented relation ---- *)

(* for every value (with an @base chain of ANY length), hint name and `?` flag, the VM's
   compare_value_type decides the documented relation *)
Theorem type_match_spec : forall v h opt,
    compare_value_type v h opt = true <-> matches v h opt.
Proof. exact TypesProofs.type_match_spec. Qed.
Print Assumptions type_match_spec.

(* AssertType and CheckType evaluate the same predicate; one raises, the other jumps *)
Theorem assert_vs_check : forall v h opt,
    (compare_value_type v h opt = true ->
       run_assert_type v h opt = Continue /\ run_check_type v h opt = Continue)
    /\ (compare_value_type v h opt = false ->
       run_assert_type v h opt = TypeError h opt /\ run_check_type v h opt = JumpForward).
Proof. exact TypesProofs.assert_vs_check. Qed.
Print Assumptions assert_vs_check.

(* let / for / argument / return / yield positions: an error exactly on a mismatch *)
Theorem assert_position_ok : forall v h opt,
    assert_position v h opt (effect_of (run_assert_type v h opt)).
Proof. exact TypesProofs.assert_position_ok. Qed.
Print Assumptions assert_position_ok.

(* match arms / typed catch: the next alternative exactly on a mismatch, never an error *)
Theorem check_position_ok : forall v h opt,
    check_position v h opt (effect_of (run_check_type v h opt)).
Proof. exact TypesProofs.check_position_ok. Qed.
Print Assumptions check_position_ok.

(* a matching type name is found under any number of @base links *)
Theorem deep_base_found : forall n v h,
    ~ special h -> type_name v = h -> compare_value_type (wrap n v) h false = true.
Proof. exact TypesProofs.deep_base_found. Qed.
Print Assumptions deep_base_found.

(* non-vacuity: the guide's Dog / Animal example, and mismatches *)
Definition animal := VMap true (MTStr "Animal") false false false None.
Definition dog := VMap true (MTStr "Dog") false false false (Some animal).
Example dog_is_animal : compare_value_type dog "Animal" false = true /\ matches dog "Animal" false.
Proof. split; [reflexivity|apply TypesProofs.type_match_spec; reflexivity]. Qed.
Example animal_is_no_dog :
  compare_value_type animal "Dog" false = false /\ ~ matches animal "Dog" false
  /\ run_assert_type animal "Dog" false = TypeError "Dog" false
  /\ run_check_type animal "Dog" false = JumpForward.
Proof.
  repeat split; try reflexivity. intros H. apply TypesProofs.type_match_spec in H. discriminate.
Qed.
Example null_only_with_question_mark :
  compare_value_type VNull "Dog" true = true /\ compare_value_type VNull "Dog" false = false.
Proof. split; reflexivity. Qed.
Example generator_not_callable :
  compare_value_type (VFunction true) "Callable" false = false
  /\ compare_value_type (VFunction false) "Callable" false = true.
Proof. split; reflexivity. Qed.

(* ---- part 2: enable_type_checks = false ---- *)

Open Scope Z_scope.

Section OnOff.
  Variable Opc : Type.    (* every instruction other than AssertType / CheckType *)
  Variable St : Type.     (* the rest of the VM state *)
  Variable view : St -> N -> value.
  Variable sem : Opc -> Z -> list Z -> St -> outcome St.
  Variable raise : string -> bool -> St -> outcome St.
  (* code addresses held in the state are opaque to all other instructions *)
  Variable mapS : (Z -> Z) -> St -> St.
  Hypothesis view_mapS : forall f s r, view (mapS f s) r = view s r.
  Hypothesis sem_natural : forall f o next ts s,
      sem o (f next) (map f ts) (mapS f s) = map_outcome St mapS f (sem o next ts s).

  (* every run of the code with assertions in which no assertion fails (from any decodable
     address, of any length) is reproduced by the erased code with re-computed offsets, in at
     most as many steps, ending in the same state up to re-addressing *)
  Theorem erase_asserts_sim : forall (c : list (instr Opc)) n ip s s',
      wf c ->
      clean_run view sem c n ip s = Some s' ->
      exists m, (m <= n)%nat /\
                run view sem raise (erase c) m (remap c ip) (mapS (remap c) s)
                = Done (mapS (remap c) s').
  Proof. exact (EraseProofs.erase_asserts_sim Opc St view sem raise mapS view_mapS sem_natural). Qed.

  Theorem erase_asserts_sim_entry : forall (c : list (instr Opc)) n s s',
      wf c ->
      clean_run view sem c n 0 s = Some s' ->
      exists m, (m <= n)%nat /\
                run view sem raise (erase c) m 0 (mapS (remap c) s) = Done (mapS (remap c) s').
  Proof. exact (EraseProofs.erase_asserts_sim_entry Opc St view sem raise mapS view_mapS sem_natural). Qed.

  (* and such a run is an ordinary run of the code with assertions *)
  Theorem clean_run_run : forall (c : list (instr Opc)) n ip s s',
      clean_run view sem c n ip s = Some s' -> run view sem raise c n ip s = Done s'.
  Proof. exact (EraseProofs.clean_run_run Opc St view sem raise). Qed.
End OnOff.
Print Assumptions erase_asserts_sim.
Print Assumptions erase_asserts_sim_entry.
Print Assumptions clean_run_run.

(* erase removes exactly the asserts; CheckType sites (and everything else) are kept in order,
   only their offsets change *)
Theorem erase_is_filter : forall Opc (c : list (instr Opc)),
    map strip (erase c) = map strip (filter (fun i => negb (is_assert i)) c).
Proof. intros. exact (EraseProofs.erase_from_filter Opc c c 0). Qed.
Print Assumptions erase_is_filter.

Theorem erase_no_asserts : forall Opc (c : list (instr Opc)),
    Forall (fun i => is_assert i = false) (erase c).
Proof. intros. exact (EraseProofs.erase_from_no_assert Opc c c 0). Qed.
Print Assumptions erase_no_asserts.

(* ---- non-vacuity of part 2: a toy machine that satisfies the hypotheses ---- *)
Module Toy.
  Inductive op := Nop | Save | JumpSaved | Jmp | Halt.
  (* state: saved code addresses, a step counter, the value in every register *)
  Definition st := (list Z * N * value)%type.
  Definition view (s : st) (_ : N) : value := snd s.
  Definition mapS (f : Z -> Z) (s : st) : st := (map f (fst (fst s)), snd (fst s), snd s).
  Definition sem (o : op) (next : Z) (ts : list Z) (s : st) : outcome st :=
    let '(saved, n, v) := s in
    match o with
    | Nop => OFall (saved, N.succ n, v)
    | Save => OFall (next :: ts ++ saved, n, v)
    | JumpSaved => match saved with a :: r => OGoto a (r, n, v) | [] => OStop s end
    | Jmp => match ts with a :: _ => OGoto a s | [] => OFall s end
    | Halt => OStop s
    end.
  Definition raise (_ : string) (_ : bool) (s : st) : outcome st := OStop s.

  Lemma view_mapS : forall f s r, view (mapS f s) r = view s r.
  Proof. reflexivity. Qed.
  Lemma sem_natural : forall f o next ts s,
      sem o (f next) (map f ts) (mapS f s) = map_outcome st mapS f (sem o next ts s).
  Proof.
    intros f o next ts [[saved n] v]. destruct o; simpl; unfold mapS; simpl; try reflexivity.
    - rewrite map_app. reflexivity.
    - destruct saved; reflexivity.
    - destruct ts; reflexivity.
  Qed.

  (* Save(+9: the Halt), Assert Number, Jmp +3 (over an assert), Assert String (skipped),
     Check String -> +1 (skips the Nop), Nop, JumpSaved (to the address after Save), ... *)
  Definition prog : list (instr op) :=
    [ IOther 3 Save [16];
      IAssert 3 0%N "Number" false;
      IOther 3 Jmp [3];
      IAssert 3 0%N "String" false;
      ICheck 5 0%N "String" false 1;
      IOther 1 Nop [];
      IOther 1 JumpSaved [];
      IOther 1 Halt [] ].
  Definition s0 : st := ([], 0%N, VNumber).

  Example toy_wf : wf prog.
  Proof. repeat constructor. Qed.
  Example toy_on_runs : clean_run view sem prog 20 0 s0 = Some ([], 0%N, VNumber).
  Proof. vm_compute. reflexivity. Qed.
  Example toy_erased :
    erase prog = [ IOther 3 Save [10]; IOther 3 Jmp [0]; ICheck 5 0%N "String" false 1;
                   IOther 1 Nop []; IOther 1 JumpSaved []; IOther 1 Halt [] ].
  Proof. vm_compute. reflexivity. Qed.
  Example toy_off_runs :
    exists m, (m <= 20)%nat /\
      run view sem raise (erase prog) m 0 (mapS (remap prog) s0)
      = Done (mapS (remap prog) ([], 0%N, VNumber)).
  Proof.
    exact (erase_asserts_sim_entry op st view sem raise mapS view_mapS sem_natural
             prog 20 s0 _ toy_wf toy_on_runs).
  Qed.
  (* a failing assert stops the ON run but not the OFF run *)
  Example toy_failing_assert :
    clean_run view sem prog 20 0 ([], 0%N, VStr) = None
    /\ exists s, run view sem raise (erase prog) 20 0 ([], 0%N, VStr) = Done s.
  Proof. split; [vm_compute; reflexivity|eexists; vm_compute; reflexivity]. Qed.
End Toy.

(* ---- part 3: the emission-site table (tied to the real bytecode by checks/c16.py) ---- *)
From KV.types Require Import SitesModel.

Theorem assert_sites_complete : forall s,
    kind_of s = AssertSite -> (1 <= asserts_emitted s)%N.
Proof. exact TypesProofs.assert_sites_complete. Qed.
Print Assumptions assert_sites_complete.

(* former finding C16a (fixed): `let {x as _: T} = m` and its `let a, {..} = ..` / `for {..} in ..` forms
   emit their assertion *)
Example ignored_rebind_asserted :
  asserts_emitted S_let_map_rebind_ignored = 1%N
  /\ asserts_emitted S_multi_map_rebind_ignored = 1%N
  /\ asserts_emitted S_for_map_rebind_ignored = 1%N.
Proof. exact TypesProofs.ignored_rebind_asserted. Qed.
Print Assumptions ignored_rebind_asserted.

Theorem check_sites_kept : forall s,
    kind_of s = CheckSite -> (1 <= checks_emitted s)%N /\ asserts_emitted s = 0%N.
Proof. exact TypesProofs.check_sites_kept. Qed.
Print Assumptions check_sites_kept.
