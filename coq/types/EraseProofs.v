(* C16 -- proofs about EraseModel: code compiled without type assertions simulates, step by
   step, every run of the code compiled with them in which no assertion fails. *)
From Coq Require Import String List Bool ZArith Lia.
Import ListNotations.
From KV.types Require Import TypesModel EraseModel.
Open Scope Z_scope.

Section Proofs.
  Variable Opc : Type.
  Variable St : Type.
  Notation instr := (instr Opc).
  Notation code := (list instr).

  Definition alen (i : instr) : Z := if is_assert i then ilen i else 0.

  (* ---------------- addresses ---------------- *)
  Lemma fetch_In : forall (c : code) a i, fetch c a = Some i -> In i c.
  Proof.
    induction c as [|h r IH]; simpl; intros a i H; [discriminate|].
    destruct (a =? 0). { inversion H; auto. }
    destruct (a <? ilen h); [discriminate|]. right. eapply IH; eauto.
  Qed.

  Lemma wf_In : forall (c : code) i, wf c -> In i c -> 0 < ilen i.
  Proof. intros c i H Hin. unfold wf in H. rewrite Forall_forall in H. auto. Qed.

  Lemma fetch_nonneg : forall (c : code) a i, wf c -> fetch c a = Some i -> 0 <= a.
  Proof.
    induction c as [|h r IH]; simpl; intros a i Hwf H; [discriminate|].
    inversion Hwf; subst.
    destruct (a =? 0) eqn:E0. { apply Z.eqb_eq in E0. lia. }
    destruct (a <? ilen h) eqn:El; [discriminate|].
    apply Z.ltb_ge in El. lia.
  Qed.

  Lemma shift_zero : forall (c : code) a, a <= 0 -> shift c a = 0.
  Proof.
    destruct c; simpl; intros a H; [reflexivity|].
    destruct (a <=? 0) eqn:E; [reflexivity|]. apply Z.leb_gt in E. lia.
  Qed.

  Lemma shift_cons_pos : forall h (r : code) a,
      0 < a -> shift (h :: r) a = alen h + shift r (a - ilen h).
  Proof.
    intros h r a H. simpl. destruct (a <=? 0) eqn:E.
    - apply Z.leb_le in E. lia.
    - reflexivity.
  Qed.

  Lemma alen_bounds : forall i : instr, 0 < ilen i -> 0 <= alen i <= ilen i.
  Proof. intros i H. unfold alen. destruct (is_assert i); lia. Qed.

  (* the address in the erased code of an instruction boundary is not negative *)
  Lemma fetch_remap_nonneg : forall (c : code) a i,
      wf c -> fetch c a = Some i -> 0 <= a - shift c a.
  Proof.
    induction c as [|h r IH]; intros a i Hwf H; [discriminate|].
    inversion Hwf as [|? ? Hh Hr]; subst.
    simpl in H.
    destruct (a =? 0) eqn:E0.
    { apply Z.eqb_eq in E0. subst. rewrite shift_zero; lia. }
    apply Z.eqb_neq in E0.
    destruct (a <? ilen h) eqn:El; [discriminate|]. apply Z.ltb_ge in El.
    rewrite shift_cons_pos by lia.
    specialize (IH _ _ Hr H). pose proof (alen_bounds h Hh). lia.
  Qed.

  (* stepping over an instruction moves the erased address by its length, or not at all for
     an assert *)
  Lemma shift_next : forall (c : code) a i,
      wf c -> fetch c a = Some i -> shift c (a + ilen i) = shift c a + alen i.
  Proof.
    induction c as [|h r IH]; intros a i Hwf H; [discriminate|].
    pose proof (wf_In _ _ Hwf (fetch_In _ _ _ H)) as Hi.
    inversion Hwf as [|? ? Hh Hr]; subst.
    simpl in H.
    destruct (a =? 0) eqn:E0.
    { apply Z.eqb_eq in E0. subst. inversion H; subst i.
      rewrite shift_cons_pos by lia. rewrite (shift_zero (h :: r) 0) by lia.
      replace (0 + ilen h - ilen h) with 0 by lia. rewrite shift_zero; lia. }
    apply Z.eqb_neq in E0.
    destruct (a <? ilen h) eqn:El; [discriminate|]. apply Z.ltb_ge in El.
    rewrite !shift_cons_pos by lia.
    replace (a + ilen i - ilen h) with (a - ilen h + ilen i) by lia.
    rewrite (IH _ _ Hr H). lia.
  Qed.

  Lemma remap_next : forall (c : code) a i,
      wf c -> fetch c a = Some i ->
      remap c (a + ilen i) = remap c a + (if is_assert i then 0 else ilen i).
  Proof.
    intros c a i Hwf H. unfold remap. rewrite (shift_next _ _ _ Hwf H).
    unfold alen. destruct (is_assert i); lia.
  Qed.

  Lemma remap_zero : forall c : code, remap c 0 = 0.
  Proof. intros c. unfold remap. rewrite shift_zero; lia. Qed.

  Lemma ilen_retarget : forall (w : code) p i, ilen (retarget_instr w p i) = ilen i.
  Proof. destruct i; reflexivity. Qed.

  (* decoding the erased code at the re-mapped address gives the re-targeted instruction *)
  Lemma fetch_erase_from : forall (whole suf : code) pos a i,
      wf suf -> fetch suf a = Some i -> is_assert i = false ->
      fetch (erase_from whole pos suf) (a - shift suf a) = Some (retarget_instr whole (pos + a) i).
  Proof.
    intros whole. induction suf as [|h r IH]; intros pos a i Hwf H Hna; [discriminate|].
    inversion Hwf as [|? ? Hh Hr]; subst.
    simpl in H.
    destruct (a =? 0) eqn:E0.
    { apply Z.eqb_eq in E0. subst a. inversion H; subst i.
      rewrite shift_zero by lia. cbn [erase_from]. rewrite Hna.
      simpl. rewrite Z.add_0_r. reflexivity. }
    apply Z.eqb_neq in E0.
    destruct (a <? ilen h) eqn:El; [discriminate|]. apply Z.ltb_ge in El.
    rewrite shift_cons_pos by lia.
    cbn [erase_from]. unfold alen.
    destruct (is_assert h) eqn:Eh.
    - replace (a - (ilen h + shift r (a - ilen h))) with ((a - ilen h) - shift r (a - ilen h)) by lia.
      rewrite (IH (pos + ilen h) (a - ilen h) i Hr H Hna).
      f_equal. f_equal. lia.
    - pose proof (fetch_remap_nonneg _ _ _ Hr H) as Hnn.
      cbn [fetch]. rewrite ilen_retarget.
      destruct (a - (0 + shift r (a - ilen h)) =? 0) eqn:E1.
      { apply Z.eqb_eq in E1. lia. }
      destruct (a - (0 + shift r (a - ilen h)) <? ilen h) eqn:E2.
      { apply Z.ltb_lt in E2. lia. }
      replace (a - (0 + shift r (a - ilen h)) - ilen h) with ((a - ilen h) - shift r (a - ilen h)) by lia.
      rewrite (IH (pos + ilen h) (a - ilen h) i Hr H Hna).
      f_equal. f_equal. lia.
  Qed.

  Lemma fetch_erase : forall (c : code) ip i,
      wf c -> fetch c ip = Some i -> is_assert i = false ->
      fetch (erase c) (remap c ip) = Some (retarget_instr c ip i).
  Proof.
    intros c ip i Hwf H Hna. unfold erase, remap.
    rewrite (fetch_erase_from c c 0 ip i Hwf H Hna). reflexivity.
  Qed.

  (* ---------------- erase is "filter out the asserts", offsets aside ---------------- *)
  Lemma strip_retarget : forall (w : code) p i, strip (retarget_instr w p i) = strip i.
  Proof. destruct i; simpl; try reflexivity. rewrite map_map. reflexivity. Qed.

  Lemma erase_from_filter : forall (whole c : code) pos,
      map strip (erase_from whole pos c)
      = map strip (filter (fun i => negb (is_assert i)) c).
  Proof.
    intros whole. induction c as [|h r IH]; intros pos; [reflexivity|].
    cbn [erase_from filter]. destruct (is_assert h); simpl.
    - apply IH.
    - rewrite strip_retarget, IH. reflexivity.
  Qed.

  Lemma erase_from_no_assert : forall (whole c : code) pos,
      Forall (fun i => is_assert i = false) (erase_from whole pos c).
  Proof.
    intros whole. induction c as [|h r IH]; intros pos; [constructor|].
    cbn [erase_from]. destruct (is_assert h) eqn:E.
    - apply IH.
    - constructor; [|apply IH]. destruct h; simpl in *; congruence.
  Qed.

  (* ---------------- simulation ---------------- *)
  Variable view : St -> N -> value.
  Variable sem : Opc -> Z -> list Z -> St -> outcome St.
  Variable raise : string -> bool -> St -> outcome St.

  (* code addresses kept in the state (function entry points, return addresses, catch points)
     are only ever stored and jumped to: every other instruction commutes with re-addressing *)
  Variable mapS : (Z -> Z) -> St -> St.
  Definition map_outcome (f : Z -> Z) (o : outcome St) : outcome St :=
    match o with
    | OFall s => OFall (mapS f s)
    | OGoto a s => OGoto (f a) (mapS f s)
    | OStop s => OStop (mapS f s)
    end.
  Hypothesis view_mapS : forall f s r, view (mapS f s) r = view s r.
  Hypothesis sem_natural : forall f o next ts s,
      sem o (f next) (map f ts) (mapS f s) = map_outcome f (sem o next ts s).

  Notation step := (@EraseModel.step Opc St view sem).
  Notation run := (@EraseModel.run Opc St view sem raise).
  Notation clean_run := (@EraseModel.clean_run Opc St view sem).

  Lemma targets_remap : forall (c : code) next offs,
      map (Z.add (remap c next)) (map (retarget c next) offs)
      = map (remap c) (map (Z.add next) offs).
  Proof.
    intros. rewrite !map_map. apply map_ext. intros o. unfold retarget. lia.
  Qed.

  Lemma step_sim : forall (c : code) ip s,
      wf c ->
      match step c ip s with
      | SRun ip' s' =>
          (remap c ip' = remap c ip /\ s' = s)       (* a passing assert: the erased code stands still *)
          \/ step (erase c) (remap c ip) (mapS (remap c) s) = SRun (remap c ip') (mapS (remap c) s')
      | SDone s' =>
          step (erase c) (remap c ip) (mapS (remap c) s) = SDone (mapS (remap c) s')
      | SFail _ _ _ => True
      | SFault => True
      end.
  Proof.
    intros c ip s Hwf. unfold EraseModel.step at 1.
    destruct (fetch c ip) as [i|] eqn:Hf; [|exact I].
    pose proof (remap_next _ _ _ Hwf Hf) as Hnext.
    destruct i as [l r ty opt | l r ty opt off | l o offs]; cbn [ilen is_assert] in *.
    - (* AssertType *)
      unfold run_assert_type. destruct (compare_value_type (view s r) ty opt); [|exact I].
      left. split; [lia|reflexivity].
    - (* CheckType *)
      pose proof (fetch_erase _ _ _ Hwf Hf eq_refl) as Hfe. cbn [retarget_instr] in Hfe.
      unfold run_check_type.
      destruct (compare_value_type (view s r) ty opt) eqn:Ec; cbn [negb]; right;
        unfold EraseModel.step; rewrite Hfe; cbn [ilen]; unfold run_check_type;
        rewrite view_mapS, Ec; cbn [negb]; f_equal.
      + lia.
      + unfold retarget. lia.
    - (* everything else *)
      pose proof (fetch_erase _ _ _ Hwf Hf eq_refl) as Hfe. cbn [retarget_instr] in Hfe.
      assert (Hs : sem o (remap c ip + l) (map (Z.add (remap c ip + l)) (map (retarget c (ip + l)) offs))
                       (mapS (remap c) s)
                   = map_outcome (remap c) (sem o (ip + l) (map (Z.add (ip + l)) offs) s)).
      { rewrite <- Hnext. rewrite targets_remap. apply sem_natural. }
      destruct (sem o (ip + l) (map (Z.add (ip + l)) offs) s) as [s'|a s'|s'] eqn:Es;
        cbn [map_outcome] in Hs.
      + right. unfold EraseModel.step. rewrite Hfe. cbn [ilen]. rewrite Hs. f_equal. lia.
      + right. unfold EraseModel.step. rewrite Hfe. cbn [ilen]. rewrite Hs. reflexivity.
      + unfold EraseModel.step. rewrite Hfe. cbn [ilen]. rewrite Hs. reflexivity.
  Qed.

  (* a run without failing asserts is an ordinary run *)
  Lemma clean_run_run : forall (c : code) n ip s s',
      clean_run c n ip s = Some s' -> run c n ip s = Done s'.
  Proof.
    intros c. induction n as [|k IH]; intros ip s s' H; [discriminate|].
    cbn [EraseModel.clean_run] in H. cbn [EraseModel.run].
    destruct (step c ip s); try discriminate.
    - apply IH. exact H.
    - inversion H. reflexivity.
  Qed.

  Theorem erase_asserts_sim : forall (c : code) n ip s s',
      wf c ->
      clean_run c n ip s = Some s' ->
      exists m, (m <= n)%nat /\
                run (erase c) m (remap c ip) (mapS (remap c) s) = Done (mapS (remap c) s').
  Proof.
    intros c n. induction n as [|k IH]; intros ip s s' Hwf H; [discriminate|].
    cbn [EraseModel.clean_run] in H.
    pose proof (step_sim c ip s Hwf) as Hsim.
    destruct (step c ip s) as [ip1 s1|s1|? ? ?|] eqn:Est; try discriminate.
    - destruct Hsim as [[Hip Hs]|Hoff].
      + subst s1. destruct (IH _ _ _ Hwf H) as (m & Hm & Hr).
        exists m. split; [lia|]. rewrite <- Hip. exact Hr.
      + destruct (IH _ _ _ Hwf H) as (m & Hm & Hr).
        exists (S m). split; [lia|]. cbn [EraseModel.run]. rewrite Hoff. exact Hr.
    - inversion H; subst s1. exists 1%nat. split; [lia|].
      cbn [EraseModel.run]. rewrite Hsim. reflexivity.
  Qed.

  (* from the entry point *)
  Corollary erase_asserts_sim_entry : forall (c : code) n s s',
      wf c ->
      clean_run c n 0 s = Some s' ->
      exists m, (m <= n)%nat /\ run (erase c) m 0 (mapS (remap c) s) = Done (mapS (remap c) s').
  Proof.
    intros c n s s' Hwf H. destruct (erase_asserts_sim c n 0 s s' Hwf H) as (m & Hm & Hr).
    exists m. split; [exact Hm|]. rewrite remap_zero in Hr. exact Hr.
  Qed.
End Proofs.
