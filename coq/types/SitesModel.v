(* C16 -- the hinted positions (emission sites of compile_assert_type / compile_check_type in
   crates/bytecode/src/compiler.rs), one constructor per position exercised by checks/c16.py, with
   the number of AssertType / CheckType instructions the compiler emits for ONE hint at that
   position when enable_type_checks is on.  Transcribed by hand from the compiler; checks/c16.py
   compares this table with the decoded bytecode of every generated program (B5 / B6) and with
   its own template table.  NO proofs in this file. *)
From Coq Require Import NArith List.
Import ListNotations.
Open Scope N_scope.

Inductive site :=
| S_let
| S_let_ignored
| S_let_export
| S_multi_temp
| S_multi_temp_first
| S_multi_temp_ignored
| S_multi_iter
| S_multi_iter_ignored
| S_let_map
| S_let_map_rebind
| S_let_map_second
| S_let_map_rebind_ignored
| S_multi_map
| S_multi_map_rebind_ignored
| S_for_map_rebind_ignored
| S_for_single
| S_for_ignored
| S_for_multi
| S_for_multi_ignored
| S_for_second_iteration
| S_for_map
| S_arg
| S_arg_ignored
| S_arg_second
| S_arg_default
| S_arg_default_used
| S_arg_before_variadic
| S_arg_method
| S_arg_nested
| S_arg_nested_ignored
| S_arg_nested_deep
| S_arg_nested_from_end
| S_arg_nested_before_rest
| S_arg_map
| S_arg_map_rebind_ignored
| S_arg_map_in_tuple
| S_ret_implicit
| S_ret_explicit
| S_ret_early
| S_ret_inline
| S_ret_empty
| S_ret_no_value
| S_yield
| S_yield_second
| S_match
| S_match_ignored
| S_match_second_arm
| S_match_or_first
| S_match_or_second
| S_match_nested
| S_match_multi
| S_match_guard
| S_match_no_else
| S_match_map
| S_catch
| S_catch_ignored
| S_catch_second
| S_catch_finally
| S_catch_runtime_error.

Inductive site_kind := AssertSite | CheckSite.

Definition all_sites : list site :=
  [S_let; S_let_ignored; S_let_export; S_multi_temp; S_multi_temp_first; S_multi_temp_ignored; S_multi_iter; S_multi_iter_ignored; S_let_map; S_let_map_rebind; S_let_map_second; S_let_map_rebind_ignored; S_multi_map; S_multi_map_rebind_ignored; S_for_map_rebind_ignored; S_for_single; S_for_ignored; S_for_multi; S_for_multi_ignored; S_for_second_iteration; S_for_map; S_arg; S_arg_ignored; S_arg_second; S_arg_default; S_arg_default_used; S_arg_before_variadic; S_arg_method; S_arg_nested; S_arg_nested_ignored; S_arg_nested_deep; S_arg_nested_from_end; S_arg_nested_before_rest; S_arg_map; S_arg_map_rebind_ignored; S_arg_map_in_tuple; S_ret_implicit; S_ret_explicit; S_ret_early; S_ret_inline; S_ret_empty; S_ret_no_value; S_yield; S_yield_second; S_match; S_match_ignored; S_match_second_arm; S_match_or_first; S_match_or_second; S_match_nested; S_match_multi; S_match_guard; S_match_no_else; S_match_map; S_catch; S_catch_ignored; S_catch_second; S_catch_finally; S_catch_runtime_error].

(* let / for / argument / return / yield positions raise; match / catch positions select *)
Definition kind_of (s : site) : site_kind :=
  match s with
  | S_match | S_match_ignored | S_match_second_arm | S_match_or_first | S_match_or_second | S_match_nested | S_match_multi | S_match_guard | S_match_no_else | S_match_map | S_catch | S_catch_ignored | S_catch_second | S_catch_finally | S_catch_runtime_error => CheckSite
  | _ => AssertSite
  end.

(* AssertType instructions emitted for the hint (2: compile_assign_to_map_finish emits the assert of a
   map-pattern entry twice; ret_early / yield_second / multi_temp have two emission points; ret_explicit had two until /repo fix 086fc95) *)
Definition asserts_emitted (s : site) : N :=
  match s with
  | S_match | S_match_ignored | S_match_second_arm | S_match_or_first | S_match_or_second | S_match_nested | S_match_multi | S_match_guard | S_match_no_else | S_match_map | S_catch | S_catch_ignored | S_catch_second | S_catch_finally | S_catch_runtime_error => 0
  | S_multi_temp | S_let_map | S_let_map_rebind | S_let_map_second | S_multi_map | S_for_map | S_ret_early | S_yield_second => 2
  | _ => 1
  end.

Definition checks_emitted (s : site) : N :=
  match s with
  | S_match | S_match_ignored | S_match_nested | S_match_multi | S_match_guard | S_match_no_else | S_match_map | S_catch | S_catch_ignored | S_catch_finally | S_catch_runtime_error => 1
  | S_match_second_arm | S_match_or_first | S_match_or_second | S_catch_second => 2
  | _ => 0
  end.

(* former finding C16a (fixed in /repo): the hint of an ignored rebind (`x as _: T`) in a map-destructuring
   assignment now gets its AssertType from compile_assign_to_map_finish (once, unlike named entries) *)

Definition site_row (s : site) : N * (N * N) :=
  ((match kind_of s with AssertSite => 0 | CheckSite => 1 end), (asserts_emitted s, checks_emitted s)).
Definition site_table : list (N * (N * N)) := map site_row all_sites.
