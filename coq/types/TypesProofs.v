(* C16 -- proofs about the type-matching model (TypesModel) against the documented
   relation (TypesSpec). *)
From Coq Require Import String List Bool.
Import ListNotations.
From KV.types Require Import TypesModel TypesSpec.
Open Scope string_scope.

(* ---- induction along @base (the nested `option value` needs its own principle) ---- *)
Definition sub (v : value) : option value :=
  match v with VMap _ _ _ _ _ b => b | _ => None end.

Section value_ind2.
  Variable P : value -> Prop.
  Hypothesis Hleaf : forall v, sub v = None -> P v.
  Hypothesis Hnode : forall v b, sub v = Some b -> P b -> P v.
  Fixpoint value_ind2 (v : value) : P v :=
    match v as v0 return P v0 with
    | VMap hm ty c i n (Some b) => Hnode (VMap hm ty c i n (Some b)) b eq_refl (value_ind2 b)
    | VMap hm ty c i n None => Hleaf (VMap hm ty c i n None) eq_refl
    | VNull => Hleaf VNull eq_refl
    | VBool => Hleaf VBool eq_refl
    | VNumber => Hleaf VNumber eq_refl
    | VRange => Hleaf VRange eq_refl
    | VList => Hleaf VList eq_refl
    | VTuple => Hleaf VTuple eq_refl
    | VStr => Hleaf VStr eq_refl
    | VFunction g => Hleaf (VFunction g) eq_refl
    | VNativeFunction => Hleaf VNativeFunction eq_refl
    | VIterator => Hleaf VIterator eq_refl
    | VTemporaryTuple => Hleaf VTemporaryTuple eq_refl
    | VObject s c z i => Hleaf (VObject s c z i) eq_refl
    end.
End value_ind2.

Lemma chain_head : forall v, exists r, chain v = v :: r.
Proof. destruct v; simpl; eauto. Qed.

(* ---- type names ---- *)
Lemma meta_type_first : forall v, meta_type v = first_type (chain v).
Proof.
  intros v. induction v as [v H | v b H IHv] using value_ind2.
  - destruct v as [ | | | | | | |is_generator| | | |s callable0 sized iterable0|has_meta ty has_call has_iterator has_next base]; simpl in *; try reflexivity.
    subst base. destruct has_meta; [|reflexivity]. destruct ty; reflexivity.
  - destruct v as [ | | | | | | |is_generator| | | |s callable0 sized iterable0|has_meta ty has_call has_iterator has_next base]; simpl in H; try discriminate. subst base.
    destruct has_meta; [|reflexivity].
    destruct ty; try reflexivity.
    cbn [meta_type chain first_type].
    destruct b; try reflexivity.
    exact IHv.
Qed.

Lemma type_as_string_name : forall v, type_as_string v = type_name v.
Proof.
  intros v. destruct v as [ | | | | | | |is_generator| | | |s callable0 sized iterable0|has_meta ty has_call has_iterator has_next base]; try reflexivity.
  - destruct has_meta; [|reflexivity].
    unfold type_as_string, type_name. rewrite meta_type_first. reflexivity.
Qed.

(* ---- the @base loop ---- *)
Lemma base_loop_spec : forall v h,
    base_loop v h = true <-> exists u, In u (tl (chain v)) /\ type_name u = h.
Proof.
  intros v. induction v as [v H | v b H IHv] using value_ind2; intros h.
  - destruct v as [ | | | | | | |is_generator| | | |s callable0 sized iterable0|has_meta ty has_call has_iterator has_next base]; simpl in H; subst; simpl; try (split; [discriminate | intros (u & [] & _)]).
    destruct has_meta; simpl; split; try discriminate; intros (u & [] & _).
  - destruct v as [ | | | | | | |is_generator| | | |s callable0 sized iterable0|has_meta ty has_call has_iterator has_next base]; simpl in H; try discriminate. subst base.
    destruct has_meta.
    + cbn [base_loop chain tl].
      destruct (chain_head b) as (r & Hr).
      destruct (String.eqb (type_as_string b) h) eqn:E.
      * split; [intros _|reflexivity].
        exists b. split. { rewrite Hr. left. reflexivity. }
        rewrite <- type_as_string_name. apply String.eqb_eq. exact E.
      * rewrite IHv. rewrite Hr. simpl.
        split.
        -- intros (u & Hin & Hu). exists u. auto.
        -- intros (u & [Hin|Hin] & Hu).
           ++ subst u. rewrite <- type_as_string_name in Hu.
              apply String.eqb_neq in E. contradiction.
           ++ exists u. auto.
    + simpl. split; [discriminate | intros (u & [] & _)].
Qed.

(* ---- the three structural predicates ---- *)
Lemma is_callable_spec : forall v, is_callable v = true <-> callable v.
Proof.
  intros v; split.
  - destruct v as [ | | | | | | |is_generator| | | |s callable0 sized iterable0|has_meta ty has_call has_iterator has_next base]; simpl; try discriminate.
    + destruct is_generator; [discriminate|constructor].
    + constructor.
    + intros ->. constructor.
    + destruct has_meta, has_call; simpl; try discriminate. constructor.
  - destruct 1; reflexivity.
Qed.

Lemma is_indexable_spec : forall v, is_indexable v = true <-> indexable v.
Proof.
  intros v; split.
  - destruct v as [ | | | | | | |is_generator| | | |s callable0 sized iterable0|has_meta ty has_call has_iterator has_next base]; simpl; try discriminate; try constructor.
    intros ->. constructor.
  - destruct 1; reflexivity.
Qed.

Lemma is_iterable_spec : forall v, is_iterable v = true <-> iterable v.
Proof.
  intros v; split.
  - destruct v as [ | | | | | | |is_generator| | | |s callable0 sized iterable0|has_meta ty has_call has_iterator has_next base]; simpl; try discriminate; try constructor.
    + intros ->. constructor.
    + destruct has_meta; [|constructor].
      destruct has_iterator; [constructor|].
      destruct has_next; [constructor|discriminate].
  - destruct 1; simpl; try reflexivity; apply orb_true_r.
Qed.

Lemma is_null_spec : forall v, is_null v = true <-> v = VNull.
Proof. destruct v; simpl; split; congruence. Qed.

Lemma special_dec : forall h,
    special h <->
    (String.eqb h "Any" || String.eqb h "Callable" || String.eqb h "Indexable"
     || String.eqb h "Iterable") = true.
Proof.
  intros h. unfold special. rewrite !orb_true_iff, !String.eqb_eq. tauto.
Qed.

(* ---- main theorem of part 1 ---- *)
Theorem type_match_spec : forall v h opt,
    compare_value_type v h opt = true <-> matches v h opt.
Proof.
  intros v h opt. unfold compare_value_type, matches.
  destruct (opt && is_null v) eqn:Enull.
  { apply andb_true_iff in Enull. destruct Enull as [-> Hn].
    apply is_null_spec in Hn. tauto. }
  assert (Hnn : ~ (opt = true /\ v = VNull)).
  { intros [-> ->]. discriminate. }
  destruct (String.eqb h "Any") eqn:EA.
  { apply String.eqb_eq in EA. tauto. }
  apply String.eqb_neq in EA.
  destruct (String.eqb h "Callable") eqn:EC.
  { apply String.eqb_eq in EC. subst h. rewrite is_callable_spec.
    split; [tauto|].
    intros [?|[?|[[_ ?]|[[? _]|[[? _]|[Hs _]]]]]]; try tauto; try discriminate.
    exfalso. apply Hs. unfold special. tauto. }
  apply String.eqb_neq in EC.
  destruct (String.eqb h "Indexable") eqn:EI.
  { apply String.eqb_eq in EI. subst h. rewrite is_indexable_spec.
    split; [tauto|].
    intros [?|[?|[[? _]|[[_ ?]|[[? _]|[Hs _]]]]]]; try tauto; try discriminate.
    exfalso. apply Hs. unfold special. tauto. }
  apply String.eqb_neq in EI.
  destruct (String.eqb h "Iterable") eqn:ET.
  { apply String.eqb_eq in ET. subst h. rewrite is_iterable_spec.
    split; [tauto|].
    intros [?|[?|[[? _]|[[? _]|[[_ ?]|[Hs _]]]]]]; try tauto; try discriminate.
    exfalso. apply Hs. unfold special. tauto. }
  apply String.eqb_neq in ET.
  assert (Hns : ~ special h) by (unfold special; tauto).
  destruct (chain_head v) as (r & Hr).
  destruct (String.eqb (type_as_string v) h) eqn:E.
  - apply String.eqb_eq in E. rewrite type_as_string_name in E.
    split; [intros _|reflexivity].
    do 5 right. split; [exact Hns|]. exists v. split; [rewrite Hr; left; reflexivity|exact E].
  - apply String.eqb_neq in E. rewrite type_as_string_name in E.
    rewrite base_loop_spec. rewrite Hr. simpl.
    split.
    + intros (u & Hin & Hu). do 5 right. split; [exact Hns|]. exists u. auto.
    + intros [?|[?|[[? _]|[[? _]|[[? _]|[_ (u & [Hin|Hin] & Hu)]]]]]]; try tauto.
      * subst u. contradiction.
      * exists u. auto.
Qed.

(* same predicate, different effect *)
Theorem assert_vs_check : forall v h opt,
    (compare_value_type v h opt = true ->
       run_assert_type v h opt = Continue /\ run_check_type v h opt = Continue)
    /\ (compare_value_type v h opt = false ->
       run_assert_type v h opt = TypeError h opt /\ run_check_type v h opt = JumpForward).
Proof.
  intros. unfold run_assert_type, run_check_type.
  destruct (compare_value_type v h opt); simpl; split; intros; try discriminate; auto.
Qed.

Theorem assert_position_ok : forall v h opt,
    assert_position v h opt (effect_of (run_assert_type v h opt)).
Proof.
  intros. unfold assert_position, run_assert_type.
  destruct (compare_value_type v h opt) eqn:E.
  - left. split; [apply type_match_spec; exact E|reflexivity].
  - right. split; [|reflexivity]. intros Hm. apply type_match_spec in Hm. congruence.
Qed.

Theorem check_position_ok : forall v h opt,
    check_position v h opt (effect_of (run_check_type v h opt)).
Proof.
  intros. unfold check_position, run_check_type.
  destruct (compare_value_type v h opt) eqn:E; simpl.
  - left. split; [apply type_match_spec; exact E|reflexivity].
  - right. split; [|reflexivity]. intros Hm. apply type_match_spec in Hm. congruence.
Qed.

(* the base chain may be arbitrarily long: a hit at any depth is found *)
Fixpoint wrap (n : nat) (v : value) : value :=
  match n with
  | O => v
  | S k => VMap true (MTStr "Wrapper") false false false (Some (wrap k v))
  end.

Lemma chain_wrap_in : forall n v, In v (chain (wrap n v)).
Proof.
  induction n; intros v; simpl.
  - destruct (chain_head v) as (r & ->). left. reflexivity.
  - right. apply IHn.
Qed.

Theorem deep_base_found : forall n v h,
    ~ special h -> type_name v = h -> compare_value_type (wrap n v) h false = true.
Proof.
  intros n v h Hs Hn. apply type_match_spec. do 5 right. split; [exact Hs|].
  exists v. split; [apply chain_wrap_in|exact Hn].
Qed.

(* ---- emission sites (SitesModel) ---- *)
From KV.types Require Import SitesModel.
From Coq Require Import NArith.

Lemma all_sites_complete : forall s, In s all_sites.
Proof. destruct s; simpl; tauto. Qed.

(* every documented raising position gets at least one AssertType *)
Theorem assert_sites_complete : forall s,
    kind_of s = AssertSite -> (1 <= asserts_emitted s)%N.
Proof. destruct s; simpl; intros; try discriminate; apply N.leb_le; reflexivity. Qed.

(* former finding C16a: the ignored typed rebind in a map-destructuring assignment is asserted *)
Example ignored_rebind_asserted :
  asserts_emitted S_let_map_rebind_ignored = 1%N
  /\ asserts_emitted S_multi_map_rebind_ignored = 1%N
  /\ asserts_emitted S_for_map_rebind_ignored = 1%N.
Proof. repeat split. Qed.

(* selecting positions get CheckType instructions and no AssertType *)
Theorem check_sites_kept : forall s,
    kind_of s = CheckSite -> (1 <= checks_emitted s)%N /\ asserts_emitted s = 0%N.
Proof. destruct s; simpl; intros; try discriminate; split; try reflexivity; apply N.leb_le; reflexivity. Qed.
