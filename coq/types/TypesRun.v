(* C16 -- encoders used by the correspondence check (checks/c16.py):
   results are nested lists / tuples of N numbers and bools. *)
From Coq Require Import String List Bool ZArith.
Import ListNotations.
From KV.types Require Import TypesModel EraseModel.

Definition effect_code (e : check_effect) : N :=
  match e with Continue => 0%N | JumpForward => 1%N | TypeError _ _ => 2%N end.

(* (compare_value_type, effect of AssertType, effect of CheckType) *)
Definition tm (v : value) (h : string) (opt : bool) : bool * (N * N) :=
  (compare_value_type v h opt,
   (effect_code (run_assert_type v h opt), effect_code (run_check_type v h opt))).

(* a decoded listing row: (kind, (len, (op id, offsets))); kind 0 = AssertType,
   1 = CheckType, 2 = anything else; offsets as (negative?, magnitude) *)
Definition row := (N * (N * (N * list (bool * N))))%type.

Definition dec_off (o : bool * N) : Z :=
  let '(neg, m) := o in if neg then Z.opp (Z.of_N m) else Z.of_N m.
Definition enc_off (z : Z) : bool * N :=
  if (z <? 0)%Z then (true, Z.to_N (Z.opp z)) else (false, Z.to_N z).

Definition dec_row (r : row) : instr N :=
  let '(k, (l, (op, offs))) := r in
  match k with
  | 0%N => IAssert (Z.of_N l) op EmptyString false
  | 1%N => ICheck (Z.of_N l) op EmptyString false
             (match offs with o :: _ => dec_off o | [] => 0%Z end)
  | _ => IOther (Z.of_N l) op (map dec_off offs)
  end.

Definition enc_row (i : instr N) : row :=
  match i with
  | IAssert l r _ _ => (0%N, (Z.to_N l, (r, [])))
  | ICheck l r _ _ off => (1%N, (Z.to_N l, (r, [enc_off off])))
  | IOther l o offs => (2%N, (Z.to_N l, (o, map enc_off offs)))
  end.

(* the model's prediction of the listing compiled with enable_type_checks = false *)
Definition erase_out (rows : list row) : list row :=
  map enc_row (erase (map dec_row rows)).

(* flat encodings (large nested literals are slow to type-check): a listing is a list of
   5 numbers per row: kind, len, op id, sign (0 = no offset, 1 = forward, 2 = backward), magnitude *)
Fixpoint dec_flat (fuel : nat) (l : list N) : list row :=
  match fuel with
  | O => []
  | S k =>
      match l with
      | kind :: len :: op :: sign :: mag :: r =>
          (kind, (len, (op, match sign with
                            | 0%N => []
                            | 1%N => [(false, mag)]
                            | _ => [(true, mag)]
                            end))) :: dec_flat k r
      | _ => []
      end
  end.

Definition enc_flat_row (r : row) : list N :=
  let '(k, (l, (op, offs))) := r in
  match offs with
  | [] => [k; l; op; 0%N; 0%N]
  | (neg, m) :: _ => [k; l; op; (if neg then 2%N else 1%N); m]
  end.

Definition erase_flat (l : list N) : list N :=
  flat_map enc_flat_row (erase_out (dec_flat (length l) l)).

(* the whole (value x hint x ?) table at once *)
Definition tm_matrix (vs : list value) (hs : list string) : list (list (bool * (N * N))) :=
  map (fun v => flat_map (fun h => [tm v h false; tm v h true]) hs) vs.
