(* C16 -- the effect of CompilerSettings::enable_type_checks at the bytecode level.

   compile_assert_type (crates/bytecode/src/compiler.rs) emits
       AssertType / AssertOptionalType  [*value, @type constant]
   only when `enable_type_checks` is set; compile_check_type emits
       CheckType / CheckOptionalType    [*value, @type constant, jump_offset[2]]
   unconditionally.  Nothing else in the compiler reads the flag, so the code compiled with the
   flag off is the code compiled with the flag on minus the assert instructions, with every
   relative jump offset (Jump, JumpBack, JumpIf*, IterNext, TryAccess*, TryStart, CheckType and the
   body size of Function) re-computed.  This file models
     - bytecode as a list of instructions WITH THEIR BYTE LENGTHS, addressed by byte offsets like
       the VM's InstructionReader.ip (an address inside an instruction does not decode);
     - the VM loop: AssertType (run_assert_type), CheckType (run_check_type: jump_ip(offset)
       relative to the ip after the instruction), and every other instruction through an abstract
       transition function that receives the ip after the instruction and its jump targets
       (TryStart stores ip+catch_offset, Function stores the ip of the body and skips `size`
       bytes, Call stores the return ip, Return / a thrown error jump to a stored ip);
     - `erase`: remove the asserts and re-compute the offsets.
   NO proofs in this file. *)
From Coq Require Import String List Bool ZArith.
Import ListNotations.
From KV.types Require Import TypesModel.
Open Scope Z_scope.

Section Machine.
  Variable Opc : Type.    (* all other instructions (opcode and operands, offsets excluded) *)
  Variable St : Type.     (* registers, frames, call stack, catch points, output, ... *)

  Inductive instr :=
  | IAssert (len : Z) (reg : N) (ty : string) (opt : bool)
  | ICheck (len : Z) (reg : N) (ty : string) (opt : bool) (off : Z)
  | IOther (len : Z) (op : Opc) (offs : list Z).   (* offsets relative to the END of the instruction;
                                                    negative for JumpBack *)

  Definition ilen (i : instr) : Z :=
    match i with IAssert l _ _ _ => l | ICheck l _ _ _ _ => l | IOther l _ _ => l end.

  Definition is_assert (i : instr) : bool :=
    match i with IAssert _ _ _ _ => true | _ => false end.

  (* InstructionReader: decode the instruction that STARTS at byte `ip` *)
  Fixpoint fetch (c : list instr) (ip : Z) : option instr :=
    match c with
    | [] => None
    | i :: r =>
        if ip =? 0 then Some i
        else if ip <? ilen i then None
        else fetch r (ip - ilen i)
    end.

  Inductive outcome :=
  | OFall (s : St)            (* continue with the next instruction *)
  | OGoto (a : Z) (s : St)    (* set_ip(a) / jump_ip: a is one of the targets or an address kept in S *)
  | OStop (s : St).           (* the run is over (result or uncaught error recorded in S) *)

  Variable view : St -> N -> value.                   (* what compare_value_type sees of a register *)
  Variable sem : Opc -> Z -> list Z -> St -> outcome.   (* op, ip after it, absolute jump targets *)
  Variable raise : string -> bool -> St -> outcome.   (* unexpected_type(..): unwind to a catch point *)

  Inductive step_result :=
  | SRun (ip : Z) (s : St)
  | SDone (s : St)
  | SFail (expected : string) (optional : bool) (s : St)   (* an AssertType failed *)
  | SFault.                                               (* undecodable ip *)

  Definition step (c : list instr) (ip : Z) (s : St) : step_result :=
    match fetch c ip with
    | None => SFault
    | Some i =>
        let next := ip + ilen i in
        match i with
        | IAssert _ r ty opt =>
            match run_assert_type (view s r) ty opt with
            | Continue => SRun next s
            | TypeError t o => SFail t o s
            | JumpForward => SFault
            end
        | ICheck _ r ty opt off =>
            match run_check_type (view s r) ty opt with
            | Continue => SRun next s
            | JumpForward => SRun (next + off) s
            | TypeError _ _ => SFault
            end
        | IOther _ o offs =>
            match sem o next (map (Z.add next) offs) s with
            | OFall s' => SRun next s'
            | OGoto a s' => SRun a s'
            | OStop s' => SDone s'
            end
        end
    end.

  Inductive run_result := Done (s : St) | Fault | OutOfFuel.

  (* the VM loop; a failed assert raises an error, which the script may catch *)
  Fixpoint run (c : list instr) (fuel : nat) (ip : Z) (s : St) : run_result :=
    match fuel with
    | O => OutOfFuel
    | S k =>
        match step c ip s with
        | SRun ip' s' => run c k ip' s'
        | SDone s' => Done s'
        | SFail t o s' =>
            match raise t o s' with
            | OGoto a s'' => run c k a s''
            | OStop s'' => Done s''
            | OFall _ => Fault
            end
        | SFault => Fault
        end
    end.

  (* the same loop, giving up (None) as soon as an assert fails, faults or fuel runs out:
     "a run in which no type assertion fails" *)
  Fixpoint clean_run (c : list instr) (fuel : nat) (ip : Z) (s : St) : option St :=
    match fuel with
    | O => None
    | S k =>
        match step c ip s with
        | SRun ip' s' => clean_run c k ip' s'
        | SDone s' => Some s'
        | _ => None
        end
    end.

  (* ---- compiling with enable_type_checks = false ---- *)

  (* bytes of assert instructions that start before address a *)
  Fixpoint shift (c : list instr) (a : Z) : Z :=
    match c with
    | [] => 0
    | i :: r =>
        if a <=? 0 then 0
        else (if is_assert i then ilen i else 0) + shift r (a - ilen i)
    end.

  Definition remap (c : list instr) (a : Z) : Z := a - shift c a.

  Definition retarget (c : list instr) (next off : Z) : Z :=
    remap c (next + off) - remap c next.

  (* i starts at byte ip of c *)
  Definition retarget_instr (c : list instr) (ip : Z) (i : instr) : instr :=
    match i with
    | IAssert _ _ _ _ => i
    | ICheck l r t o off => ICheck l r t o (retarget c (ip + l) off)
    | IOther l o offs => IOther l o (map (retarget c (ip + l)) offs)
    end.

  Fixpoint erase_from (whole : list instr) (pos : Z) (c : list instr) : list instr :=
    match c with
    | [] => []
    | i :: r =>
        if is_assert i then erase_from whole (pos + ilen i) r
        else retarget_instr whole pos i :: erase_from whole (pos + ilen i) r
    end.

  Definition erase (c : list instr) : list instr := erase_from c 0 c.

  (* an instruction without its offsets *)
  Definition strip (i : instr) : instr :=
    match i with
    | IAssert _ _ _ _ => i
    | ICheck l r t o _ => ICheck l r t o 0
    | IOther l o offs => IOther l o (map (fun _ => 0) offs)
    end.

  Definition wf (c : list instr) : Prop := Forall (fun i => 0 < ilen i) c.
End Machine.

Arguments ilen {Opc}.
Arguments is_assert {Opc}.
Arguments fetch {Opc}.
Arguments shift {Opc}.
Arguments remap {Opc}.
Arguments retarget {Opc}.
Arguments retarget_instr {Opc}.
Arguments erase_from {Opc}.
Arguments erase {Opc}.
Arguments strip {Opc}.
Arguments wf {Opc}.
Arguments step {Opc St}.
Arguments run {Opc St}.
Arguments clean_run {Opc St}.
Arguments SRun {St}.
Arguments SDone {St}.
Arguments SFail {St}.
Arguments SFault {St}.
Arguments IAssert {Opc}.
Arguments ICheck {Opc}.
Arguments IOther {Opc}.
Arguments OFall {St}.
Arguments OGoto {St}.
Arguments OStop {St}.
Arguments Done {St}.
Arguments Fault {St}.
Arguments OutOfFuel {St}.
