(* C16 -- every exit path of a function with an output type is type-checked.
   `output_paths` is regenerated from compile_return / compile_frame / compile_yield
   (crates/bytecode/src/compiler.rs) by tools/k2v_types.py on every run: each push of a Return /
   Yield instruction, with whether a compile_check_output_type call dominates it. *)
From Coq Require Import NArith List Bool.
Import ListNotations.
From KV.types Require Import GenOutputSites.
Open Scope N_scope.

Theorem output_paths_checked : forallb (fun p => snd (snd p)) output_paths = true.
Proof. vm_compute. reflexivity. Qed.
Print Assumptions output_paths_checked.

(* all five paths of compile_return, both implicit returns of compile_frame, and yield are there *)
Theorem output_paths_enumerated :
  (5 <=? N.of_nat (length (filter (fun p => fst p =? 0) output_paths)))
  && (2 <=? N.of_nat (length (filter (fun p => fst p =? 1) output_paths)))
  && (1 <=? N.of_nat (length (filter (fun p => fst p =? 2) output_paths))) = true.
Proof. vm_compute. reflexivity. Qed.
Print Assumptions output_paths_enumerated.
