(* C16 -- model of the runtime side of type hints.
   Shaped after
     crates/runtime/src/vm.rs          compare_value_type, run_assert_type, run_check_type
     crates/runtime/src/types/value.rs type_as_string, is_callable, is_indexable, is_iterable
     crates/runtime/src/types/map.rs   meta_type, contains_meta_key, get_meta_value
   Values are abstracted to what these routines look at: the KValue variant, and for
   maps the metamap (presence, the @type entry, the @call / @iterator / @next keys and the
   @base entry, which is again a value).  NO proofs in this file. *)
From Coq Require Import String List Bool.
Import ListNotations.
Open Scope string_scope.

(* the @type entry of a metamap: absent, a string, or some other value *)
Inductive mtype := MTNone | MTStr (s : string) | MTOther.

Inductive value :=
| VNull
| VBool
| VNumber
| VRange
| VList
| VTuple
| VStr
| VFunction (is_generator : bool)
| VNativeFunction
| VIterator
| VTemporaryTuple
(* KObject: type_string(), is_callable(), size().is_some(), is_iterable() <> NotIterable
   (the object is assumed not to be mutably borrowed while it is checked) *)
| VObject (type_string : string) (callable sized iterable : bool)
(* KMap: meta.is_some(), then the entries of the metamap that matter *)
| VMap (has_meta : bool) (ty : mtype) (has_call has_iterator has_next : bool) (base : option value).

Definition plain_map : value := VMap false MTNone false false false None.

(* MetaKey::Base lookup: contains_meta_key(&MetaKey::Base) / get_meta_value(&MetaKey::Base) *)
Definition meta_base (v : value) : option value :=
  match v with
  | VMap true _ _ _ _ b => b
  | _ => None
  end.

(* KMap::meta_type: the @type entry; without one, the @base map's meta_type *)
Fixpoint meta_type (v : value) : option string :=
  match v with
  | VMap true ty _ _ _ base =>
      match ty with
      | MTStr s => Some s
      | MTOther => Some "Error: expected string as result of @type"
      | MTNone =>
          match base with
          | Some (VMap _ _ _ _ _ _ as b) => meta_type b
          | _ => None
          end
      end
  | _ => None
  end.

(* KValue::type_as_string *)
Definition type_as_string (v : value) : string :=
  match v with
  | VNull => "Null"
  | VBool => "Bool"
  | VNumber => "Number"
  | VList => "List"
  | VRange => "Range"
  | VMap true _ _ _ _ _ =>
      match meta_type v with Some s => s | None => "Object" end
  | VMap false _ _ _ _ _ => "Map"
  | VStr => "String"
  | VTuple => "Tuple"
  | VFunction true => "Generator"
  | VFunction false => "Function"
  | VNativeFunction => "Function"
  | VObject s _ _ _ => s
  | VIterator => "Iterator"
  | VTemporaryTuple => "TemporaryTuple"
  end.

(* KValue::is_callable *)
Definition is_callable (v : value) : bool :=
  match v with
  | VFunction true => false
  | VFunction false => true
  | VNativeFunction => true
  | VMap hm _ has_call _ _ _ => hm && has_call
  | VObject _ c _ _ => c
  | _ => false
  end.

(* KValue::is_indexable *)
Definition is_indexable (v : value) : bool :=
  match v with
  | VList | VMap _ _ _ _ _ _ | VStr | VTuple => true
  | VObject _ _ s _ => s
  | _ => false
  end.

(* KValue::is_iterable *)
Definition is_iterable (v : value) : bool :=
  match v with
  | VRange | VList | VTuple | VStr | VIterator => true
  | VMap hm _ _ has_iterator has_next _ =>
      if hm then has_iterator || has_next else true
  | VObject _ _ _ i => i
  | _ => false
  end.

Definition is_null (v : value) : bool := match v with VNull => true | _ => false end.

(* the `loop { match value { Map(m) if m.contains_meta_key(Base) => ..., _ => break } }` of
   compare_value_type; the recursion is on the @base entry *)
Fixpoint base_loop (v : value) (expected : string) : bool :=
  match v with
  | VMap true _ _ _ _ (Some base) =>
      if String.eqb (type_as_string base) expected then true
      else base_loop base expected
  | _ => false
  end.

(* KotoVm::compare_value_type *)
Definition compare_value_type (v : value) (expected : string) (allow_null : bool) : bool :=
  if allow_null && is_null v then true
  else if String.eqb expected "Any" then true
  else if String.eqb expected "Callable" then is_callable v
  else if String.eqb expected "Indexable" then is_indexable v
  else if String.eqb expected "Iterable" then is_iterable v
  else if String.eqb (type_as_string v) expected then true
  else base_loop v expected.

(* effects of the two instructions on the instruction pointer / error channel *)
Inductive check_effect :=
| Continue            (* fall through to the next instruction *)
| JumpForward         (* CheckType: jump_ip(jump_offset) *)
| TypeError (expected : string) (optional : bool).   (* AssertType: unexpected_type(..) *)

(* KotoVm::run_assert_type *)
Definition run_assert_type (v : value) (expected : string) (allow_null : bool) : check_effect :=
  if compare_value_type v expected allow_null then Continue
  else TypeError expected allow_null.

(* KotoVm::run_check_type *)
Definition run_check_type (v : value) (expected : string) (allow_null : bool) : check_effect :=
  if negb (compare_value_type v expected allow_null) then JumpForward
  else Continue.
