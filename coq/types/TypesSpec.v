(* C16 -- what the language guide says about type hints (docs/language_guide.md, "Type Checks",
   "@type", "@base", "Type checks on catch blocks"), independent of how the VM computes it.

   - a hint `T?` accepts null;
   - `Any` accepts every value;
   - `Callable` accepts functions and objects that can behave like a function;
   - `Indexable` accepts values that support `[]`; `Iterable` accepts iterable values;
   - any other name accepts a value whose type name (as reported by `koto.type`, i.e. its
     `@type` entry for objects) is that name, or which has, somewhere on its `@base` chain,
     a value whose type name is that name ("Type checks will refer to base class @type
     entries when needed"). *)
From Coq Require Import String List Bool.
Import ListNotations.
From KV.types Require Import TypesModel.
Open Scope string_scope.

(* the @base chain of a value: the value, its base value, the base's base, ... *)
Fixpoint chain (v : value) : list value :=
  v :: match v with
       | VMap true _ _ _ _ (Some b) => chain b
       | _ => []
       end.

(* nearest @type entry along a chain of objects (maps with a metamap) *)
Fixpoint first_type (l : list value) : option string :=
  match l with
  | VMap true (MTStr s) _ _ _ _ :: _ => Some s
  | VMap true MTOther _ _ _ _ :: _ => Some "Error: expected string as result of @type"
  | VMap true MTNone _ _ _ _ :: r => first_type r
  | _ => None
  end.

(* the name reported by koto.type *)
Definition type_name (v : value) : string :=
  match v with
  | VNull => "Null" | VBool => "Bool" | VNumber => "Number" | VRange => "Range"
  | VList => "List" | VTuple => "Tuple" | VStr => "String"
  | VFunction g => if g then "Generator" else "Function"
  | VNativeFunction => "Function"
  | VIterator => "Iterator"
  | VTemporaryTuple => "TemporaryTuple"
  | VObject s _ _ _ => s
  | VMap false _ _ _ _ _ => "Map"
  | VMap true _ _ _ _ _ => match first_type (chain v) with Some s => s | None => "Object" end
  end.

Inductive callable : value -> Prop :=
| call_fn : callable (VFunction false)
| call_native : callable VNativeFunction
| call_map : forall ty i n b, callable (VMap true ty true i n b)      (* object with @call *)
| call_obj : forall s z i, callable (VObject s true z i).

Inductive indexable : value -> Prop :=
| idx_list : indexable VList
| idx_tuple : indexable VTuple
| idx_str : indexable VStr
| idx_map : forall hm ty c i n b, indexable (VMap hm ty c i n b)
| idx_obj : forall s c i, indexable (VObject s c true i).

Inductive iterable : value -> Prop :=
| it_range : iterable VRange
| it_list : iterable VList
| it_tuple : iterable VTuple
| it_str : iterable VStr
| it_iter : iterable VIterator
| it_plain_map : forall ty c i n b, iterable (VMap false ty c i n b)
| it_map_iterator : forall ty c n b, iterable (VMap true ty c true n b)   (* @iterator *)
| it_map_next : forall ty c i b, iterable (VMap true ty c i true b)       (* @next *)
| it_obj : forall s c z, iterable (VObject s c z true).

Definition special (h : string) : Prop :=
  h = "Any" \/ h = "Callable" \/ h = "Indexable" \/ h = "Iterable".

(* the documented relation "value v satisfies the hint h (h? when opt)" *)
Definition matches (v : value) (h : string) (opt : bool) : Prop :=
  (opt = true /\ v = VNull)
  \/ h = "Any"
  \/ (h = "Callable" /\ callable v)
  \/ (h = "Indexable" /\ indexable v)
  \/ (h = "Iterable" /\ iterable v)
  \/ (~ special h /\ exists u, In u (chain v) /\ type_name u = h).

(* what each kind of hint position does with the relation *)
Inductive hint_effect := Proceeds | Throws | NextAlternative.

(* let / for / argument / return / yield: "an error will be thrown" on a mismatch *)
Definition assert_position (v : value) (h : string) (opt : bool) (e : hint_effect) : Prop :=
  (matches v h opt /\ e = Proceeds) \/ (~ matches v h opt /\ e = Throws).

(* match arms and typed catch blocks: "the next match pattern will be attempted" *)
Definition check_position (v : value) (h : string) (opt : bool) (e : hint_effect) : Prop :=
  (matches v h opt /\ e = Proceeds) \/ (~ matches v h opt /\ e = NextAlternative).

Definition effect_of (c : check_effect) : hint_effect :=
  match c with Continue => Proceeds | JumpForward => NextAlternative | TypeError _ _ => Throws end.
