(* C06 -- impl-shaped models of crates/runtime/src/core_lib/number.rs, types/number.rs and
   core_lib/number/step_to.rs.  NO proofs here. *)
Require Import ZArith Bool List.
From KV.safe Require Import SafeBase.
Open Scope Z_scope.

(* number_fn!(abs): KNumber::abs  --  I64(n) => I64(n.wrapping_abs())  (abs(i64::MIN) = i64::MIN) *)
Definition wrapping_abs (z : Z) : Z := wrap (Z.abs z).
Definition abs_model (n : num) : outcome val :=
  match n with
  | F _ _ => Ok VF
  | I z => Ok (VI (wrapping_abs z))
  end.

(* bitwise_fn!(and, &) etc.: (i64::from(a) op i64::from(b)).into() *)
Definition and_model (a b : num) : outcome val := Ok (VI (Z.land (to_i64 a) (to_i64 b))).
Definition or_model (a b : num) : outcome val := Ok (VI (Z.lor (to_i64 a) (to_i64 b))).
Definition xor_model (a b : num) : outcome val := Ok (VI (Z.lxor (to_i64 a) (to_i64 b))).

(* bitwise_fn_positive_arg!(shift_left, <<):
     (Number(a), [Number(b)]) if *b >= 0 && *b < i64::BITS as i64 => Ok((i64::from(a) << i64::from(b)).into())
   both comparisons are KNumber-vs-integer comparisons: they look at the `as i64` CAST of b.
   `<<` on i64 panics in a debug build when the amount is >= 64: the second guard is what prevents it *)
Definition shift_guard (b : num) : bool := ge0_int b && (to_i64 b <? 64).
Definition shl_i64 (a b : Z) : outcome Z :=
  if 64 <=? b then Panic ShiftOverflow else Ok (wrap (a * 2 ^ b)).
Definition shr_i64 (a b : Z) : outcome Z :=
  if 64 <=? b then Panic ShiftOverflow else Ok (Z.shiftr a b).

Definition shift_left_model (a b : num) : outcome val :=
  if shift_guard b then do r <- shl_i64 (to_i64 a) (to_i64 b); Ok (VI r) else Err.
Definition shift_right_model (a b : num) : outcome val :=
  if shift_guard b then do r <- shr_i64 (to_i64 a) (to_i64 b); Ok (VI r) else Err.

(* flip_bits: (!n.to_bits() as i64); for a float the bits are not modelled *)
Definition flip_bits_model (n : num) : outcome val :=
  match n with I z => Ok (VI (- z - 1)) | F _ _ => Ok VAny end.

(* to_int: i64::from(n) *)
Definition to_int_model (n : num) : outcome val := Ok (VI (to_i64 n)).

(* lerp: *a + (b - a) * *t  -- KNumber ops: wrapping_* on (I64, I64), float otherwise *)
Definition nadd (a b : num) : num := match a, b with I x, I y => I (wrap (x + y)) | _, _ => F 0 false end.
Definition nsub (a b : num) : num := match a, b with I x, I y => I (wrap (x - y)) | _, _ => F 0 false end.
Definition nmul (a b : num) : num := match a, b with I x, I y => I (wrap (x * y)) | _, _ => F 0 false end.
Definition num_val (n : num) : val := match n with I z => VI z | F _ _ => VF end.
Definition lerp_model (a b t : num) : outcome val := Ok (num_val (nadd a (nmul (nsub b a) t))).

(* the VM's arithmetic on two Numbers *)
Definition add_model (a b : num) : outcome val := Ok (num_val (nadd a b)).
Definition sub_model (a b : num) : outcome val := Ok (num_val (nsub a b)).
Definition mul_model (a b : num) : outcome val := Ok (num_val (nmul a b)).
Definition div_model (a b : num) : outcome val := Ok VF.     (* always f64 division *)

(* i64::wrapping_rem: panics for a zero divisor, MIN % -1 = 0 *)
Definition wrapping_rem (a b : Z) : outcome Z :=
  if b =? 0 then Panic DivZero else Ok (Z.rem a b).
Definition nrem (a b : num) : outcome val :=
  match a, b with
  | I x, I y => do r <- wrapping_rem x y; Ok (VI r)
  | _, _ => Ok VF
  end.
(* run_remainder: `(Number(_), Number(I64(0))) => NaN` guards the primitive *)
Definition rem_model (a b : num) : outcome val :=
  match b with
  | I 0 => Ok VF
  | _ => nrem a b
  end.
(* run_remainder_assign: run_compound_assign_op!(.. |a, b| if matches!(b, I64(0)) { NaN } else { a % b } ..)
   (the guard was added by the fix commit b262b37; without it this is `nrem a b`) *)
Definition rem_assign_model (a b : num) : outcome val :=
  match b with
  | I 0 => Ok VF
  | _ => nrem a b
  end.

(* StepToI64Iterator::new(start, target, step_by):
     let steps_to_target = (target - start).abs() / step_by;
     let step_by = if target < start { -step_by } else { step_by };
     let target = start + step_by * steps_to_target; *)
Record step_to_state := { st_target : Z; st_step : Z; st_steps : Z }.

Definition step_to_new (start target step : Z) : outcome step_to_state :=
  do d <- csub target start;
  do ad <- cabs d;
  do steps <- cdiv ad step;
  do step' <- (if target <? start then cneg step else Ok step);
  do m <- cmul step' steps;
  do t <- cadd start m;
  Ok {| st_target := t; st_step := step'; st_steps := steps |}.

(* size_hint: (self.steps_to_target + 1) as usize *)
Definition step_to_size_hint (s : step_to_state) : outcome Z :=
  do h <- cadd (st_steps s) 1; Ok (Z.max 0 h).

(* number.step_to(start, end [, step]) for integer arguments, followed by the size_hint every
   consumer asks for *)
Definition step_to_model (start target step : Z) : outcome val :=
  do s <- step_to_new start target step;
  do _ <- step_to_size_hint s;
  Ok VAny.

(* the inputs on which the faithful model panics (known finding C06f) *)
Definition known_step_to (start target step : Z) : bool :=
  (step =? 0)
  || negb (in_i64b (target - start))
  || (target - start =? I64_MIN)
  || ((target <? start) && (step =? I64_MIN))
  || (Z.quot (Z.abs (target - start)) step =? I64_MAX).
