(* C06 -- encoders used by the correspondence check: outcomes as (class, value) pairs of Z. *)
Require Import ZArith Bool List.
From KV.safe Require Import SafeBase NumCore RangeCore ListCore.
Import ListNotations.
Open Scope Z_scope.

Definition why_code (w : why) : Z :=
  match w with Overflow => 1 | ShiftOverflow => 2 | DivZero => 3 | BorrowError => 4 | BorrowMutError => 5 | IndexOob => 6 end.

Definition enc_val (v : val) : Z * Z :=
  match v with VI z => (0, z) | VF => (1, 0) | VB b => (2, if b then 1 else 0) | VNull => (3, 0) | VAny => (4, 0) end.

Definition enc (o : outcome val) : Z * Z :=
  match o with Ok v => enc_val v | Err => (5, 0) | Panic w => (6, why_code w) end.

Definition forget {A} (o : outcome A) : outcome val := do _ <- o; Ok VAny.

Definition rng (s : option Z) (e : option (Z * bool)) : range := {| r_start := s; r_end := e |}.

(* number.step_to without the size_hint that consumers ask for afterwards *)
Definition step_to_new_model (s t k : Z) : outcome val := forget (step_to_new s t k).

Definition anys (n : nat) : list val := repeat VAny n.
Definition ints (l : list Z) : list val := map VI l.

Definition get_v (l : list val) (i : num) (d : val) : outcome val := get_model val l i d.
Definition insert_v (l : list val) (i : num) : outcome val := forget (insert_model val l i VAny).
Definition remove_v (l : list val) (i : num) : outcome val :=
  do r <- remove_model val l i; Ok (fst r).
Definition resize_v (l : list val) (n : num) : outcome val := forget (resize_model val l n VNull).
Definition first_v (l : list val) : outcome val := first_model val VNull l.
Definition last_v (l : list val) : outcome val := last_model val VNull l.
Definition pop_v (l : list val) : outcome val := do r <- pop_model val VNull l; Ok (fst r).

Definition free : cells := fun _ => Free.
Definition extend_v (same : bool) : outcome val := forget (extend_borrows free 0 (if same then 0 else 1)).
Definition swap_v (same : bool) : outcome val := do _ <- swap_borrows free 0 (if same then 0 else 1); Ok VNull.

(* koto.size(range): KRange::size() = None (not bounded) is reported as an error *)
Definition size_v (r : range) : outcome val :=
  match size_model r with Ok VNull => Err | o => o end.
