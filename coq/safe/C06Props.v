(* C06 -- Host safety (PARTIAL): panic-freedom of the MODELLED entry points only.
   ONLY pinned statements live here; every proof is `exact <lemma of SafeProofs>`.
   Each theorem is about ALL arguments of the model (i64 as Z with explicit wrap / overflow), or
   about all arguments outside a decidable known_C06 class, with a `_refuted` witness inside it. *)
Require Import ZArith Bool List.
From KV.safe Require Import SafeBase NumCore RangeCore ListCore SafeProofs.
Open Scope Z_scope.

(* ---- number ---- *)
Theorem abs_no_panic : forall n, no_panic (abs_model n).
Proof. exact SafeProofs.abs_no_panic. Qed.
Print Assumptions abs_no_panic.
Theorem abs_exact : forall z, in_i64 z -> z <> I64_MIN -> abs_model (I z) = Ok (VI (Z.abs z)).
Proof. exact SafeProofs.abs_exact. Qed.
Print Assumptions abs_exact.

Theorem shift_left_no_panic : forall a b, no_panic (shift_left_model a b).
Proof. exact SafeProofs.shift_left_no_panic. Qed.
Print Assumptions shift_left_no_panic.
Theorem shift_right_no_panic : forall a b, no_panic (shift_right_model a b).
Proof. exact SafeProofs.shift_right_no_panic. Qed.
Print Assumptions shift_right_no_panic.
(* shift amounts >= 64 are rejected with an error; the primitive `<<` itself would panic there *)
Theorem shift_left_rejects : forall a b, 64 <= to_i64 b -> shift_left_model a b = Err.
Proof. exact SafeProofs.shift_left_rejects. Qed.
Print Assumptions shift_left_rejects.
Theorem shl_primitive_panics : forall a b, 64 <= b -> shl_i64 a b = Panic ShiftOverflow.
Proof. exact SafeProofs.shl_primitive_panics. Qed.
Print Assumptions shl_primitive_panics.

Theorem bitwise_no_panic : forall a b,
    no_panic (and_model a b) /\ no_panic (or_model a b) /\ no_panic (xor_model a b).
Proof. intros; repeat split; [exact (SafeProofs.and_no_panic a b)|exact (SafeProofs.or_no_panic a b)|exact (SafeProofs.xor_no_panic a b)]. Qed.
Print Assumptions bitwise_no_panic.
Theorem flip_bits_no_panic : forall n, no_panic (flip_bits_model n).
Proof. exact SafeProofs.flip_bits_no_panic. Qed.
Print Assumptions flip_bits_no_panic.
Theorem to_int_no_panic : forall n, no_panic (to_int_model n).
Proof. exact SafeProofs.to_int_no_panic. Qed.
Print Assumptions to_int_no_panic.
Theorem lerp_no_panic : forall a b t, no_panic (lerp_model a b t).
Proof. exact SafeProofs.lerp_no_panic. Qed.
Print Assumptions lerp_no_panic.
Theorem arithmetic_no_panic : forall a b,
    no_panic (add_model a b) /\ no_panic (sub_model a b) /\ no_panic (mul_model a b) /\ no_panic (div_model a b).
Proof. intros; repeat split; [exact (SafeProofs.add_no_panic a b)|exact (SafeProofs.sub_no_panic a b)|exact (SafeProofs.mul_no_panic a b)|exact (SafeProofs.div_no_panic a b)]. Qed.
Print Assumptions arithmetic_no_panic.
Theorem rem_no_panic : forall a b, no_panic (rem_model a b).
Proof. exact SafeProofs.rem_no_panic. Qed.
Print Assumptions rem_no_panic.
Theorem rem_assign_no_panic : forall a b, no_panic (rem_assign_model a b).
Proof. exact SafeProofs.rem_assign_no_panic. Qed.
Print Assumptions rem_assign_no_panic.
(* i64::wrapping_rem itself panics for a zero divisor: the guards in run_remainder / run_remainder_assign matter *)
Theorem nrem_refuted : nrem (I 1) (I 0) = Panic DivZero.
Proof. exact SafeProofs.nrem_refuted. Qed.
Print Assumptions nrem_refuted.

Theorem step_to_no_panic : forall s t k,
    in_i64 s -> in_i64 t -> in_i64 k -> known_step_to s t k = false -> no_panic (step_to_model s t k).
Proof. exact SafeProofs.step_to_no_panic. Qed.
Print Assumptions step_to_no_panic.
Theorem step_to_refuted :
  step_to_model 1 10 0 = Panic DivZero /\ step_to_model I64_MIN 1 1 = Panic Overflow /\
  step_to_model 0 I64_MAX 1 = Panic Overflow.
Proof. exact (conj SafeProofs.step_to_refuted_zero_step (conj SafeProofs.step_to_refuted_distance SafeProofs.step_to_refuted_size_hint)). Qed.
Print Assumptions step_to_refuted.

(* ---- range ---- *)
Theorem as_bounded_no_panic : forall r, range_ok r -> known_bounded r = false -> no_panic (as_bounded r).
Proof. exact SafeProofs.as_bounded_no_panic. Qed.
Print Assumptions as_bounded_no_panic.
Theorem as_bounded_refuted : as_bounded {| r_start := Some 0; r_end := Some (I64_MAX, true) |} = Panic Overflow.
Proof. exact SafeProofs.as_bounded_refuted. Qed.
Print Assumptions as_bounded_refuted.
Theorem contains_num_no_panic : forall r n, range_ok r -> known_bounded r = false -> no_panic (contains_num_model r n).
Proof. exact SafeProofs.contains_num_no_panic. Qed.
Print Assumptions contains_num_no_panic.
Theorem contains_range_no_panic : forall a b,
    range_ok a -> range_ok b -> known_bounded a = false -> known_bounded b = false -> no_panic (contains_range_model a b).
Proof. exact SafeProofs.contains_range_no_panic. Qed.
Print Assumptions contains_range_no_panic.
Theorem intersection_no_panic : forall a b,
    range_ok a -> range_ok b -> known_bounded a = false -> known_bounded b = false -> no_panic (intersection_model a b).
Proof. exact SafeProofs.intersection_no_panic. Qed.
Print Assumptions intersection_no_panic.
Theorem union_no_panic : forall a b, no_panic (union_model a b).
Proof. exact SafeProofs.union_no_panic. Qed.
Print Assumptions union_no_panic.
Theorem size_no_panic : forall r,
    range_ok r -> known_bounded r = false -> known_size r = false -> no_panic (size_model r).
Proof. exact SafeProofs.size_no_panic. Qed.
Print Assumptions size_no_panic.
Theorem size_refuted : size_model {| r_start := Some I64_MIN; r_end := Some (I64_MAX, false) |} = Panic Overflow.
Proof. exact SafeProofs.size_refuted. Qed.
Print Assumptions size_refuted.
Theorem expanded_no_panic : forall r n, known_expanded r n = false -> no_panic (expanded_model r n).
Proof. exact SafeProofs.expanded_no_panic. Qed.
Print Assumptions expanded_no_panic.
Theorem expanded_refuted :
  expanded_model {| r_start := Some 0; r_end := Some (10, false) |} I64_MAX = Panic Overflow.
Proof. exact SafeProofs.expanded_refuted. Qed.
Print Assumptions expanded_refuted.
Theorem indices_no_panic : forall r n, range_ok r -> known_bounded r = false -> no_panic (indices_model r n).
Proof. exact SafeProofs.indices_no_panic. Qed.
Print Assumptions indices_no_panic.
(* what indices returns can be used to slice a container of that length *)
Theorem indices_in_bounds : forall r n s e, 0 <= n -> indices_model r n = Ok (s, e) -> 0 <= s <= e /\ e <= n.
Proof. exact SafeProofs.indices_in_bounds. Qed.
Print Assumptions indices_in_bounds.
Theorem pop_front_no_panic : forall lo hi s e i, lo <= s -> e <= hi -> no_panic (pop_front_model lo hi s e i).
Proof. exact SafeProofs.pop_front_no_panic. Qed.
Print Assumptions pop_front_no_panic.
Theorem pop_back_no_panic : forall lo hi s e i, lo <= s -> e <= hi -> no_panic (pop_back_model lo hi s e i).
Proof. exact SafeProofs.pop_back_no_panic. Qed.
Print Assumptions pop_back_no_panic.

(* ---- list / tuple / map indexing: all containers, ALL indices ---- *)
Theorem get_no_panic : forall V (l : list V) i d, no_panic (get_model V l i d).
Proof. exact SafeProofs.get_no_panic. Qed.
Print Assumptions get_no_panic.
Theorem insert_no_panic : forall V (l : list V) n x, no_panic (insert_model V l n x).
Proof. exact SafeProofs.insert_no_panic. Qed.
Print Assumptions insert_no_panic.
Theorem remove_no_panic : forall V (l : list V) n, no_panic (remove_model V l n).
Proof. exact SafeProofs.remove_no_panic. Qed.
Print Assumptions remove_no_panic.
Theorem resize_no_panic : forall V (l : list V) n x, no_panic (resize_model V l n x).
Proof. exact SafeProofs.resize_no_panic. Qed.
Print Assumptions resize_no_panic.
Theorem first_last_pop_fill_no_panic : forall V (null : V) (l : list V) x,
    no_panic (first_model V null l) /\ no_panic (last_model V null l) /\ no_panic (pop_model V null l) /\
    no_panic (fill_model V l x).
Proof.
  intros; repeat split;
    [exact (SafeProofs.first_no_panic V null l)|exact (SafeProofs.last_no_panic V null l)
    |exact (SafeProofs.pop_no_panic V null l)|exact (SafeProofs.fill_no_panic V l x)].
Qed.
Print Assumptions first_last_pop_fill_no_panic.

(* ---- RefCell discipline when an argument aliases the receiver ---- *)
Theorem extend_no_panic : forall h l o, all_free h -> l <> o -> no_panic (extend_borrows h l o).
Proof. exact SafeProofs.extend_no_panic. Qed.
Print Assumptions extend_no_panic.
Theorem extend_refuted : forall h l, all_free h -> extend_borrows h l l = Panic BorrowError.
Proof. exact SafeProofs.extend_refuted. Qed.
Print Assumptions extend_refuted.
Theorem swap_no_panic : forall h a b, all_free h -> a <> b -> no_panic (swap_borrows h a b).
Proof. exact SafeProofs.swap_no_panic. Qed.
Print Assumptions swap_no_panic.
Theorem swap_refuted : forall h a, all_free h -> swap_borrows h a a = Panic BorrowMutError.
Proof. exact SafeProofs.swap_refuted. Qed.
Print Assumptions swap_refuted.

(* ---- non-vacuity ---- *)
Example shift_left_value : shift_left_model (I 3) (I 62) = Ok (VI (- 2 ^ 62)).
Proof. vm_compute. reflexivity. Qed.
Example lerp_wraps : lerp_model (I 0) (I I64_MAX) (I 2) = Ok (VI (-2)).
Proof. vm_compute. reflexivity. Qed.
Example abs_min : abs_model (I I64_MIN) = Ok (VI I64_MIN).
Proof. vm_compute. reflexivity. Qed.
Example shift_64 : shift_left_model (I 1) (I 64) = Err.
Proof. reflexivity. Qed.
Example rem_guarded : rem_model (I 1) (I 0) = Ok VF.
Proof. reflexivity. Qed.
Example step_to_ok : step_to_model 10 1 3 = Ok VAny.
Proof. vm_compute. reflexivity. Qed.
Example size_ok : size_model {| r_start := Some (-3); r_end := Some (3, true) |} = Ok (VI 7).
Proof. vm_compute. reflexivity. Qed.
Example insert_err : insert_model Z (1 :: 2 :: nil) (I 3) 9 = Err.
Proof. reflexivity. Qed.
Example insert_end : insert_model Z (1 :: 2 :: nil) (I 2) 9 = Ok (1 :: 2 :: 9 :: nil).
Proof. reflexivity. Qed.
Example get_float_index : get_model Z (1 :: 2 :: nil) (F 1 false) 0 = Ok 2.
Proof. reflexivity. Qed.
