(* C06 -- impl-shaped models of crates/runtime/src/types/range.rs and core_lib/range.rs.  NO proofs. *)
Require Import ZArith Bool List.
From KV.safe Require Import SafeBase.
Open Scope Z_scope.

(* KRange: optional start, optional (end, inclusive).  (The Bounded{i32} / BoundedLarge{i64}
   representation split only matters for pop_front / pop_back, modelled with an explicit width.) *)
Record range := { r_start : option Z; r_end : option (Z * bool) }.

Definition range_ok (r : range) : Prop :=
  match r_start r with Some s => in_i64 s | None => True end /\
  match r_end r with Some (e, _) => in_i64 e | None => True end.

Definition is_bounded (r : range) : bool :=
  match r_start r, r_end r with Some _, Some _ => true | _, _ => false end.

(* as_bounded_range: missing bounds become MIN / MAX; `let end = if inclusive { end + 1 } else { end };
   start..end.max(start)` *)
Definition as_bounded (r : range) : outcome (Z * Z) :=
  let '(s, e, incl) :=
    match r_start r, r_end r with
    | Some s, None => (s, I64_MAX, false)
    | None, Some (e, i) => (I64_MIN, e, i)
    | Some s, Some (e, i) => (s, e, i)
    | None, None => (I64_MIN, I64_MAX, false)
    end in
  do e' <- (if incl then cadd e 1 else Ok e);
  Ok (s, Z.max e' s).

Definition range_contains_z (b : Z * Z) (n : Z) : bool := (fst b <=? n) && (n <? snd b).

(* contains(n): the number is rounded away from zero first (no panic: `as` casts) *)
Definition contains_num_model (r : range) (n : Z) : outcome val :=
  do b <- as_bounded r; Ok (VB (range_contains_z b n)).

(* range.contains(range) *)
Definition contains_range_model (a b : range) : outcome val :=
  do ra <- as_bounded a;
  do rb <- as_bounded b;
  Ok (VB ((fst ra <=? fst rb) && (snd rb <=? snd ra))).

(* intersection: no arithmetic beyond as_bounded_range *)
Definition intersection_model (a b : range) : outcome val :=
  do this <- as_bounded a;
  do other <- as_bounded b;
  if negb (range_contains_z this (fst other) || range_contains_z this (snd other)) then Ok VNull
  else Ok VAny.

(* size: Some(((range.end).max(range.start) - range.start) as usize) *)
Definition size_model (r : range) : outcome val :=
  if is_bounded r then
    do b <- as_bounded r;
    do n <- csub (Z.max (snd b) (fst b)) (fst b);
    Ok (VI n)
  else Ok VNull.

(* range.expanded(n): KRange::new(Some(start - n), Some((end + n, inclusive))) *)
Definition expanded_model (r : range) (n : Z) : outcome val :=
  match r_start r, r_end r with
  | Some s, Some (e, _) =>
      do _ <- csub s n;
      do _ <- cadd e n;
      Ok VAny
  | _, _ => Err
  end.

(* range.union: comparisons only *)
Definition union_model (a b : range) : outcome val :=
  if is_bounded a && is_bounded b then Ok VAny else Err.

(* indices(max_index): clamps of as_bounded_range, then `as usize` *)
Definition indices_model (r : range) (len : Z) : outcome (Z * Z) :=
  do b <- as_bounded r;
  let start := Z.max 0 (Z.min (fst b) len) in           (* clamp(0, len) *)
  let end_ := Z.max start (Z.min (snd b) len) in        (* clamp(start, len) *)
  Ok (start, end_).

(* pop_front / pop_back on a bounded range whose fields have `hi` as largest value
   (i32::MAX for Inner::Bounded, i64::MAX for BoundedLarge); `*start += 1` / `*end - 1` are checked *)
Definition checked_w (lo hi z : Z) : outcome Z := if (lo <=? z) && (z <=? hi) then Ok z else Panic Overflow.

Definition pop_front_model (lo hi s e : Z) (incl : bool) : outcome (option Z * (Z * Z * bool)) :=
  if s <? e then do s' <- checked_w lo hi (s + 1); Ok (Some s, (s', e, incl))
  else if s =? e then (if incl then Ok (Some s, (s, e, false)) else Ok (None, (s, e, incl)))
  else Ok (None, (s, e, incl)).

Definition pop_back_model (lo hi s e : Z) (incl : bool) : outcome (option Z * (Z * Z * bool)) :=
  if s <? e then
    do r <- (if incl then Ok e else checked_w lo hi (e - 1));
    do e' <- checked_w lo hi (e - 1);
    Ok (Some r, (s, e', incl))
  else if s =? e then (if incl then Ok (Some s, (s, e, false)) else Ok (None, (s, e, incl)))
  else Ok (None, (s, e, incl)).

(* the ranges on which as_bounded_range panics (known finding C06g) *)
Definition known_bounded (r : range) : bool :=
  match r_end r with Some (e, true) => e =? I64_MAX | _ => false end.

(* the ranges on which size panics although as_bounded_range does not *)
Definition known_size (r : range) : bool :=
  match r_start r, r_end r with
  | Some s, Some (e, i) => negb (in_i64b (Z.max (if i then e + 1 else e) s - s))
  | _, _ => false
  end.

Definition known_expanded (r : range) (n : Z) : bool :=
  match r_start r, r_end r with
  | Some s, Some (e, _) => negb (in_i64b (s - n)) || negb (in_i64b (e + n))
  | _, _ => false
  end.
