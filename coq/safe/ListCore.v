(* C06 -- impl-shaped models of the indexing functions of core_lib/list.rs, tuple.rs, map.rs and of
   the RefCell discipline of KList / KMap (crates/memory/src/ptr_impl/rc.rs).  NO proofs. *)
Require Import ZArith Bool List.
From KV.safe Require Import SafeBase.
Import ListNotations.
Open Scope Z_scope.

Section Lists.
  Variable V : Type.                 (* element values *)
  Variable null : V.

  Definition len (l : list V) : Z := Z.of_nat (length l).
  Definition vec_get (l : list V) (i : Z) : option V :=
    if (i <? 0) || (len l <=? i) then None else nth_error l (Z.to_nat i).

  (* Vec::insert panics if index > len; Vec::remove panics if index >= len *)
  Definition vec_insert (l : list V) (i : Z) (x : V) : outcome (list V) :=
    if (i <? 0) || (len l <? i) then Panic IndexOob
    else Ok (firstn (Z.to_nat i) l ++ x :: skipn (Z.to_nat i) l).
  Definition vec_remove (l : list V) (i : Z) : outcome (V * list V) :=
    if (i <? 0) || (len l <=? i) then Panic IndexOob
    else match nth_error l (Z.to_nat i) with
         | Some x => Ok (x, firstn (Z.to_nat i) l ++ skipn (S (Z.to_nat i)) l)
         | None => Panic IndexOob
         end.

  (* list.get / tuple.get / map.get_index:
       if *index >= 0 { match data.get(usize::from(index)) { Some(v) => v, None => default } } else { default } *)
  Definition get_model (l : list V) (index : num) (default : V) : outcome V :=
    if ge0_int index then
      match vec_get l (to_usize index) with Some v => Ok v | None => Ok default end
    else Ok default.

  Definition first_model (l : list V) : outcome V := Ok (hd null l).
  Definition last_model (l : list V) : outcome V := Ok (last l null).

  (* list.insert: let index: usize = n.into();
                  if *n < 0.0 || index > l.data().len() { return error }  l.data_mut().insert(index, value) *)
  Definition insert_model (l : list V) (n : num) (x : V) : outcome (list V) :=
    let index := to_usize n in
    if lt0_float n || (len l <? index) then Err else vec_insert l index x.

  (* list.remove: if *n < 0.0 || index >= len { error } data_mut().remove(index) *)
  Definition remove_model (l : list V) (n : num) : outcome (V * list V) :=
    let index := to_usize n in
    if lt0_float n || (len l <=? index) then Err else vec_remove l index.

  (* list.resize: n < 0.0 -> error, else Vec::resize (allocation is outside C06) *)
  Definition resize_model (l : list V) (n : num) (x : V) : outcome (list V) :=
    if lt0_float n then Err
    else let k := Z.to_nat (to_usize n) in
         Ok (firstn k l ++ repeat x (k - length l)).

  Definition fill_model (l : list V) (x : V) : outcome (list V) := Ok (map (fun _ => x) l).
  Definition pop_model (l : list V) : outcome (V * list V) :=
    match rev l with [] => Ok (null, l) | x :: r => Ok (x, rev r) end.
End Lists.

(* ---- RefCell discipline: which cells are borrowed, and how ------------------------------- *)
Inductive bstate := Free | Shared (n : positive) | Excl.

Definition cells := Z -> bstate.                (* location -> borrow flag *)
Definition set (h : cells) (l : Z) (b : bstate) : cells := fun k => if k =? l then b else h k.
Definition all_free (h : cells) : Prop := forall l, h l = Free.

(* RefCell::borrow(): fails if mutably borrowed ("already mutably borrowed", rc.rs borrow()) *)
Definition borrow (h : cells) (l : Z) : outcome cells :=
  match h l with
  | Excl => Panic BorrowError
  | Free => Ok (set h l (Shared 1))
  | Shared n => Ok (set h l (Shared (Pos.succ n)))
  end.
(* RefCell::borrow_mut(): fails if borrowed at all ("already borrowed", rc.rs borrow_mut()) *)
Definition borrow_mut (h : cells) (l : Z) : outcome cells :=
  match h l with
  | Free => Ok (set h l Excl)
  | _ => Panic BorrowMutError
  end.

(* list.extend(l, other):  l.data_mut().extend(other.data().iter().cloned())
   -- the mutable guard of l is alive while other is borrowed *)
Definition extend_borrows (h : cells) (l other : Z) : outcome cells :=
  do h1 <- borrow_mut h l;
  do h2 <- borrow h1 other;
  Ok h.                                           (* both guards dropped at the end of the statement *)

(* list.swap(a, b): std::mem::swap(a.data_mut().deref_mut(), b.data_mut().deref_mut()) *)
Definition swap_borrows (h : cells) (a b : Z) : outcome cells :=
  do h1 <- borrow_mut h a;
  do h2 <- borrow_mut h1 b;
  Ok h.

(* map.extend(m, other) with a Map argument: m.data_mut().extend(other.data().iter()..) *)
Definition map_extend_borrows := extend_borrows.
