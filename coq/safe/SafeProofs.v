(* C06 -- all proofs. *)
Require Import ZArith Lia Bool List.
From KV.safe Require Import SafeBase NumCore RangeCore ListCore.
Import ListNotations.
Open Scope Z_scope.

Lemma np_ok {A} (a : A) : no_panic (Ok a).
Proof. intros w; discriminate. Qed.
Lemma np_err {A} : no_panic (@Err A).
Proof. intros w; discriminate. Qed.
Lemma np_bind {A B} (o : outcome A) (f : A -> outcome B) :
  no_panic o -> (forall a, o = Ok a -> no_panic (f a)) -> no_panic (bind o f).
Proof.
  intros Ho Hf. destruct o; simpl; auto using np_err.
  exfalso. eapply Ho; reflexivity.
Qed.
Global Hint Resolve np_ok np_err : np.

Ltac i64 := unfold in_i64, I64_MIN, I64_MAX in *.

(* ------------------------------------------------------------------ numbers *)
Lemma abs_no_panic n : no_panic (abs_model n).
Proof. destruct n; apply np_ok. Qed.
Lemma abs_in_range z r : abs_model (I z) = Ok (VI r) -> in_i64 r.
Proof. simpl. intros H; inversion H. apply wrap_in. Qed.
Lemma abs_exact z : in_i64 z -> z <> I64_MIN -> abs_model (I z) = Ok (VI (Z.abs z)).
Proof. intros H Hne. simpl. unfold wrapping_abs. rewrite wrap_id; [reflexivity|]. i64. lia. Qed.

Lemma and_no_panic a b : no_panic (and_model a b). Proof. apply np_ok. Qed.
Lemma or_no_panic a b : no_panic (or_model a b). Proof. apply np_ok. Qed.
Lemma xor_no_panic a b : no_panic (xor_model a b). Proof. apply np_ok. Qed.
Lemma flip_bits_no_panic n : no_panic (flip_bits_model n). Proof. destruct n; apply np_ok. Qed.
Lemma to_int_no_panic n : no_panic (to_int_model n). Proof. apply np_ok. Qed.
Lemma lerp_no_panic a b t : no_panic (lerp_model a b t). Proof. apply np_ok. Qed.
Lemma add_no_panic a b : no_panic (add_model a b). Proof. apply np_ok. Qed.
Lemma sub_no_panic a b : no_panic (sub_model a b). Proof. apply np_ok. Qed.
Lemma mul_no_panic a b : no_panic (mul_model a b). Proof. apply np_ok. Qed.
Lemma div_no_panic a b : no_panic (div_model a b). Proof. apply np_ok. Qed.

(* results of the wrapping operations are i64 values again *)
Lemma nadd_ok a b : num_ok (nadd a b).
Proof. destruct a, b; simpl; try apply wrap_in; i64; lia. Qed.
Lemma nsub_ok a b : num_ok (nsub a b).
Proof. destruct a, b; simpl; try apply wrap_in; i64; lia. Qed.
Lemma nmul_ok a b : num_ok (nmul a b).
Proof. destruct a, b; simpl; try apply wrap_in; i64; lia. Qed.

Lemma shift_left_no_panic a b : no_panic (shift_left_model a b).
Proof.
  unfold shift_left_model, shift_guard, shl_i64. destruct (ge0_int b); simpl; auto with np.
  destruct (to_i64 b <? 64) eqn:E; auto with np.
  apply Z.ltb_lt in E. assert (64 <=? to_i64 b = false) as -> by (apply Z.leb_gt; lia). simpl. auto with np.
Qed.
Lemma shift_right_no_panic a b : no_panic (shift_right_model a b).
Proof.
  unfold shift_right_model, shift_guard, shr_i64. destruct (ge0_int b); simpl; auto with np.
  destruct (to_i64 b <? 64) eqn:E; auto with np.
  apply Z.ltb_lt in E. assert (64 <=? to_i64 b = false) as -> by (apply Z.leb_gt; lia). simpl. auto with np.
Qed.
(* the primitive behind them: without the `< 64` guard the shift panics *)
Lemma shl_primitive_panics a b : 64 <= b -> shl_i64 a b = Panic ShiftOverflow.
Proof. intros H. unfold shl_i64. apply Z.leb_le in H. now rewrite H. Qed.
Lemma shift_left_rejects a b : 64 <= to_i64 b -> shift_left_model a b = Err.
Proof.
  intros H. unfold shift_left_model, shift_guard.
  assert (to_i64 b <? 64 = false) as -> by (apply Z.ltb_ge; lia). now rewrite andb_false_r.
Qed.
Lemma shift_left_in_range a b r : shift_left_model a b = Ok (VI r) -> in_i64 r.
Proof.
  unfold shift_left_model, shl_i64. destruct (shift_guard b); [|discriminate].
  destruct (64 <=? to_i64 b); simpl; [discriminate|]. intros H; inversion H. apply wrap_in.
Qed.

Lemma rem_no_panic a b : no_panic (rem_model a b).
Proof.
  unfold rem_model, nrem, wrapping_rem.
  destruct b as [z|c n]; [destruct z|]; destruct a; simpl; auto with np.
Qed.
Lemma rem_assign_no_panic a b : no_panic (rem_assign_model a b).
Proof. exact (rem_no_panic a b). Qed.
(* the primitive behind both: the zero guard is what keeps `%` and `%=` from panicking *)
Lemma nrem_refuted : nrem (I 1) (I 0) = Panic DivZero.
Proof. reflexivity. Qed.

(* step_to *)
Lemma step_to_refuted_zero_step : step_to_model 1 10 0 = Panic DivZero.
Proof. reflexivity. Qed.
Lemma step_to_refuted_distance : step_to_model I64_MIN 1 1 = Panic Overflow.
Proof. reflexivity. Qed.
Lemma step_to_refuted_size_hint : step_to_model 0 I64_MAX 1 = Panic Overflow.
Proof. vm_compute. reflexivity. Qed.

Lemma quot_mul_bounds a b : 0 <= a -> b <> 0 -> 0 <= Z.quot a b * b <= a.
Proof.
  intros Ha Hb.
  pose proof (Z.quot_rem' a b) as E.
  pose proof (Z.rem_nonneg a b Hb Ha) as R0.
  assert (Z.abs (Z.rem a b) < Z.abs b) by (apply Z.rem_bound_abs; assumption).
  assert (0 <= Z.quot a b * b).
  { destruct (Z_lt_le_dec 0 b).
    - assert (0 <= Z.quot a b) by (apply Z.quot_pos; lia). nia.
    - assert (b < 0) by lia.
      assert (Z.quot a b <= 0).
      { rewrite <- (Z.opp_involutive b). rewrite Z.quot_opp_r by lia.
        assert (0 <= Z.quot a (- b)) by (apply Z.quot_pos; lia). lia. }
      nia. }
  nia.
Qed.

Lemma step_to_no_panic s t k :
  in_i64 s -> in_i64 t -> in_i64 k -> known_step_to s t k = false -> no_panic (step_to_model s t k).
Proof.
  intros Hs Ht Hk Hn. unfold known_step_to in Hn.
  rewrite !orb_false_iff in Hn. destruct Hn as [[[[H0 Hd] Hm] Hneg] Hq].
  apply Z.eqb_neq in H0. apply negb_false_iff in Hd. apply in_i64b_spec in Hd.
  apply Z.eqb_neq in Hm. apply Z.eqb_neq in Hq.
  unfold step_to_model, step_to_new, step_to_size_hint, csub, cadd, cmul, cdiv.
  rewrite (checked_ok (t - s)) by assumption. simpl.
  assert (Ha : in_i64 (Z.abs (t - s)) /\ 0 <= Z.abs (t - s)) by (i64; lia).
  destruct Ha as [Ha Ha0].
  assert (Eabs : cabs (t - s) = Ok (Z.abs (t - s))).
  { unfold cabs, cneg. destruct (t - s <? 0) eqn:E.
    - apply Z.ltb_lt in E. rewrite <- Z.abs_neq by lia. apply checked_ok; assumption.
    - apply Z.ltb_ge in E. rewrite Z.abs_eq by lia. reflexivity. }
  rewrite Eabs. simpl.
  destruct (k =? 0) eqn:Ek; [apply Z.eqb_eq in Ek; contradiction|].
  set (q := Z.quot (Z.abs (t - s)) k) in *.
  pose proof (quot_mul_bounds (Z.abs (t - s)) k Ha0 H0) as Hqk. fold q in Hqk.
  assert (Hqa : Z.abs q <= Z.abs (t - s)).
  { assert (Z.abs (q * k) = Z.abs q * Z.abs k) by apply Z.abs_mul. assert (1 <= Z.abs k) by lia. nia. }
  assert (Hqi : in_i64 q) by (i64; lia).
  rewrite (checked_ok q) by assumption. simpl.
  destruct (t <? s) eqn:Ets.
  - (* descending: step' = -k *)
    apply Z.ltb_lt in Ets.
    assert (k <> I64_MIN).
    { intro; subst. vm_compute in Hneg. discriminate. }
    unfold cneg. rewrite (checked_ok (- k)) by (i64; lia). simpl.
    assert (- k * q = - (q * k)) by ring.
    rewrite (checked_ok (- k * q)) by (i64; lia). simpl.
    rewrite (checked_ok (s + - k * q)) by (i64; lia). simpl.
    rewrite (checked_ok (q + 1)) by (i64; lia). simpl. apply np_ok.
  - apply Z.ltb_ge in Ets. simpl.
    assert (k * q = q * k) by ring.
    rewrite (checked_ok (k * q)) by (i64; lia). simpl.
    rewrite (checked_ok (s + k * q)) by (i64; lia). simpl.
    rewrite (checked_ok (q + 1)) by (i64; lia). simpl. apply np_ok.
Qed.

(* ------------------------------------------------------------------ ranges *)
Lemma as_bounded_no_panic r : range_ok r -> known_bounded r = false -> no_panic (as_bounded r).
Proof.
  unfold range_ok, known_bounded, as_bounded. intros [Hs He] Hk.
  destruct (r_start r) as [s|], (r_end r) as [[e [|]]|]; simpl; auto with np;
    apply Z.eqb_neq in Hk; unfold cadd; rewrite checked_ok by (i64; lia); simpl; auto with np.
Qed.
Lemma as_bounded_refuted :
  as_bounded {| r_start := Some 0; r_end := Some (I64_MAX, true) |} = Panic Overflow.
Proof. vm_compute. reflexivity. Qed.

Lemma as_bounded_in r s e : range_ok r -> as_bounded r = Ok (s, e) -> in_i64 s /\ in_i64 e /\ s <= e.
Proof.
  unfold range_ok, as_bounded. intros [Hs He].
  destruct (r_start r) as [s0|], (r_end r) as [[e0 [|]]|]; simpl; unfold cadd, checked;
    try (destruct (in_i64b (e0 + 1)) eqn:E; simpl; [apply in_i64b_spec in E|discriminate]);
    intros H; inversion H; subst; i64; lia.
Qed.

Lemma contains_num_no_panic r n : range_ok r -> known_bounded r = false -> no_panic (contains_num_model r n).
Proof. intros. apply np_bind; auto using as_bounded_no_panic with np. Qed.
Lemma contains_range_no_panic a b :
  range_ok a -> range_ok b -> known_bounded a = false -> known_bounded b = false -> no_panic (contains_range_model a b).
Proof.
  intros. apply np_bind; auto using as_bounded_no_panic. intros.
  apply np_bind; auto using as_bounded_no_panic with np.
Qed.
Lemma intersection_no_panic a b :
  range_ok a -> range_ok b -> known_bounded a = false -> known_bounded b = false -> no_panic (intersection_model a b).
Proof.
  intros. apply np_bind; auto using as_bounded_no_panic. intros.
  apply np_bind; auto using as_bounded_no_panic. intros.
  destruct (negb _); auto with np.
Qed.
Lemma union_no_panic a b : no_panic (union_model a b).
Proof. unfold union_model. destruct (_ && _); auto with np. Qed.

Lemma size_no_panic r :
  range_ok r -> known_bounded r = false -> known_size r = false -> no_panic (size_model r).
Proof.
  intros Hok Hk Hs. unfold size_model. destruct (is_bounded r) eqn:Hb; auto with np.
  apply np_bind; auto using as_bounded_no_panic. intros [s e] Hab.
  apply np_bind; auto with np. simpl.
  unfold known_size, known_bounded, is_bounded, as_bounded, range_ok in *.
  destruct (r_start r) as [s0|]; [|discriminate]. destruct (r_end r) as [[e0 i]|]; [|discriminate].
  apply negb_false_iff, in_i64b_spec in Hs. destruct Hok as [H1 H2].
  destruct i; simpl in Hab.
  - apply Z.eqb_neq in Hk. unfold cadd in Hab. rewrite checked_ok in Hab by (i64; lia).
    simpl in Hab. inversion Hab; subst. unfold csub. apply checked_no_panic.
    replace (Z.max (Z.max (e0 + 1) s) s) with (Z.max (e0 + 1) s) by lia. assumption.
  - inversion Hab; subst. unfold csub. apply checked_no_panic.
    replace (Z.max (Z.max e0 s) s) with (Z.max e0 s) by lia. assumption.
Qed.
Lemma size_refuted :
  size_model {| r_start := Some I64_MIN; r_end := Some (I64_MAX, false) |} = Panic Overflow.
Proof. vm_compute. reflexivity. Qed.

Lemma expanded_no_panic r n : known_expanded r n = false -> no_panic (expanded_model r n).
Proof.
  unfold known_expanded, expanded_model. intros H.
  destruct (r_start r) as [s|]; auto with np. destruct (r_end r) as [[e i]|]; auto with np.
  apply orb_false_iff in H. destruct H as [H1 H2].
  apply negb_false_iff, in_i64b_spec in H1. apply negb_false_iff, in_i64b_spec in H2.
  unfold csub, cadd. rewrite !checked_ok by assumption. simpl. auto with np.
Qed.
Lemma expanded_refuted :
  expanded_model {| r_start := Some 0; r_end := Some (10, false) |} I64_MAX = Panic Overflow.
Proof. vm_compute. reflexivity. Qed.

(* indices never panics outside the class, and what it returns is a valid slice of 0..len *)
Lemma indices_no_panic r n : range_ok r -> known_bounded r = false -> no_panic (indices_model r n).
Proof. intros. apply np_bind; auto using as_bounded_no_panic with np. Qed.
Lemma indices_in_bounds r n s e : 0 <= n -> indices_model r n = Ok (s, e) -> 0 <= s <= e /\ e <= n.
Proof.
  unfold indices_model. intros Hn. destruct (as_bounded r) as [[bs be]| |]; simpl; try discriminate.
  intros H; inversion H; subst. lia.
Qed.

Lemma pop_front_no_panic lo hi s e i : lo <= s -> e <= hi -> no_panic (pop_front_model lo hi s e i).
Proof.
  intros. unfold pop_front_model, checked_w.
  destruct (s <? e) eqn:E.
  - apply Z.ltb_lt in E. assert ((lo <=? s + 1) && (s + 1 <=? hi) = true) as ->.
    { apply andb_true_iff; rewrite !Z.leb_le; lia. } simpl. auto with np.
  - destruct (s =? e); [destruct i|]; auto with np.
Qed.
Lemma pop_back_no_panic lo hi s e i : lo <= s -> e <= hi -> no_panic (pop_back_model lo hi s e i).
Proof.
  intros. unfold pop_back_model, checked_w.
  destruct (s <? e) eqn:E.
  - apply Z.ltb_lt in E. assert ((lo <=? e - 1) && (e - 1 <=? hi) = true) as ->.
    { apply andb_true_iff; rewrite !Z.leb_le; lia. }
    destruct i; simpl; auto with np.
  - destruct (s =? e); [destruct i|]; auto with np.
Qed.

(* ------------------------------------------------------------------ lists / tuples / maps *)
Section ListProofs.
  Variable V : Type.
  Variable null : V.

  Lemma get_no_panic l i d : no_panic (get_model V l i d).
  Proof. unfold get_model. destruct (ge0_int i); auto with np. destruct (vec_get _ _ _); auto with np. Qed.
  Lemma first_no_panic l : no_panic (first_model V null l). Proof. apply np_ok. Qed.
  Lemma last_no_panic l : no_panic (last_model V null l). Proof. apply np_ok. Qed.
  Lemma fill_no_panic l x : no_panic (fill_model V l x). Proof. apply np_ok. Qed.
  Lemma pop_no_panic l : no_panic (pop_model V null l).
  Proof. unfold pop_model. destruct (rev l); apply np_ok. Qed.
  Lemma resize_no_panic l n x : no_panic (resize_model V l n x).
  Proof. unfold resize_model. destruct (lt0_float n); auto with np. Qed.

  Lemma insert_no_panic l n x : no_panic (insert_model V l n x).
  Proof.
    unfold insert_model, vec_insert.
    destruct (lt0_float n || (len V l <? to_usize n)) eqn:E; auto with np.
    apply orb_false_iff in E. destruct E as [_ E]. rewrite E.
    assert (to_usize n <? 0 = false) as -> by (apply Z.ltb_ge; unfold to_usize; lia).
    simpl. auto with np.
  Qed.
  Lemma remove_no_panic l n : no_panic (remove_model V l n).
  Proof.
    unfold remove_model, vec_remove.
    destruct (lt0_float n || (len V l <=? to_usize n)) eqn:E; auto with np.
    apply orb_false_iff in E. destruct E as [_ E]. rewrite E.
    assert (to_usize n <? 0 = false) as -> by (apply Z.ltb_ge; unfold to_usize; lia).
    simpl. apply Z.leb_gt in E. unfold len in E.
    destruct (nth_error l (Z.to_nat (to_usize n))) eqn:N; auto with np.
    apply nth_error_None in N. unfold to_usize in *. lia.
  Qed.
  (* the length after a successful insert / remove *)
  Lemma insert_len l n x l' : insert_model V l n x = Ok l' -> len V l' = len V l + 1.
  Proof.
    unfold insert_model, vec_insert.
    destruct (lt0_float n || (len V l <? to_usize n)) eqn:E; [discriminate|].
    apply orb_false_iff in E. destruct E as [_ E]. rewrite E.
    assert (to_usize n <? 0 = false) as -> by (apply Z.ltb_ge; unfold to_usize; lia).
    simpl. intros H; inversion H; subst. unfold len.
    rewrite app_length. simpl. rewrite firstn_length, skipn_length.
    apply Z.ltb_ge in E. unfold len in E. unfold to_usize in *. lia.
  Qed.
End ListProofs.

Lemma extend_no_panic h l o : all_free h -> l <> o -> no_panic (extend_borrows h l o).
Proof.
  intros Hf Hne. unfold extend_borrows, borrow_mut, borrow, set. rewrite (Hf l). simpl.
  assert (o =? l = false) as -> by (apply Z.eqb_neq; congruence). rewrite (Hf o). simpl. apply np_ok.
Qed.
Lemma extend_refuted h l : all_free h -> extend_borrows h l l = Panic BorrowError.
Proof. intros Hf. unfold extend_borrows, borrow_mut, borrow, set. rewrite (Hf l). simpl. rewrite Z.eqb_refl. reflexivity. Qed.
Lemma swap_no_panic h a b : all_free h -> a <> b -> no_panic (swap_borrows h a b).
Proof.
  intros Hf Hne. unfold swap_borrows, borrow_mut, set. rewrite (Hf a). simpl.
  assert (b =? a = false) as -> by (apply Z.eqb_neq; congruence). rewrite (Hf b). simpl. apply np_ok.
Qed.
Lemma swap_refuted h a : all_free h -> swap_borrows h a a = Panic BorrowMutError.
Proof. intros Hf. unfold swap_borrows, borrow_mut, set. rewrite (Hf a). simpl. rewrite Z.eqb_refl. reflexivity. Qed.
