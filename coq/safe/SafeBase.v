(* C06 -- shared definitions: i64 arithmetic with Rust's debug-build panics explicit. *)
Require Import ZArith Lia Bool List.
Import ListNotations.
Open Scope Z_scope.

Definition I64_MIN : Z := - 2 ^ 63.
Definition I64_MAX : Z := 2 ^ 63 - 1.
Definition in_i64 (z : Z) : Prop := I64_MIN <= z <= I64_MAX.
Definition in_i64b (z : Z) : bool := (I64_MIN <=? z) && (z <=? I64_MAX).

Lemma in_i64b_spec z : in_i64b z = true <-> in_i64 z.
Proof. unfold in_i64b, in_i64. rewrite andb_true_iff, !Z.leb_le. tauto. Qed.

(* two's complement wrap-around (wrapping_add, wrapping_mul, ...) *)
Definition wrap (z : Z) : Z := (z + 2 ^ 63) mod 2 ^ 64 - 2 ^ 63.

Lemma wrap_in z : in_i64 (wrap z).
Proof.
  unfold wrap, in_i64, I64_MIN, I64_MAX.
  pose proof (Z.mod_pos_bound (z + 2 ^ 63) (2 ^ 64) ltac:(lia)). lia.
Qed.

Lemma wrap_id z : in_i64 z -> wrap z = z.
Proof.
  unfold wrap, in_i64, I64_MIN, I64_MAX. intros H.
  rewrite Z.mod_small; lia.
Qed.

(* why a Rust function panicked *)
Inductive why :=
| Overflow        (* attempt to add / subtract / multiply / negate with overflow *)
| ShiftOverflow   (* attempt to shift left / right with overflow *)
| DivZero         (* attempt to divide / calculate the remainder with a divisor of zero *)
| BorrowError     (* RefCell already mutably borrowed *)
| BorrowMutError  (* RefCell already borrowed *)
| IndexOob.       (* index out of bounds / insertion index > len / removal index >= len *)

Inductive outcome (A : Type) :=
| Ok (a : A)
| Err              (* the function returns Err(..): a koto runtime error, fine for C06 *)
| Panic (w : why).
Arguments Ok {A} a.
Arguments Err {A}.
Arguments Panic {A} w.

Definition bind {A B} (o : outcome A) (f : A -> outcome B) : outcome B :=
  match o with Ok a => f a | Err => Err | Panic w => Panic w end.
Notation "'do' x <- o ; f" := (bind o (fun x => f)) (at level 200, x name, o at level 100, f at level 200).

Definition no_panic {A} (o : outcome A) : Prop := forall w, o <> Panic w.
Definition panics {A} (o : outcome A) : bool := match o with Panic _ => true | _ => false end.

Lemma no_panic_iff {A} (o : outcome A) : no_panic o <-> panics o = false.
Proof. unfold no_panic. destruct o; simpl; split; intros; try congruence; try discriminate. exfalso. eapply H; reflexivity. Qed.

(* checked i64 arithmetic (overflow-checks = on) *)
Definition checked (z : Z) : outcome Z := if in_i64b z then Ok z else Panic Overflow.
Definition cadd a b := checked (a + b).
Definition csub a b := checked (a - b).
Definition cmul a b := checked (a * b).
Definition cneg a := checked (- a).
Definition cabs a := if a <? 0 then cneg a else Ok a.           (* i64::abs *)
Definition cdiv a b := if b =? 0 then Panic DivZero else checked (Z.quot a b).   (* MIN / -1 overflows *)

Lemma checked_ok z : in_i64 z -> checked z = Ok z.
Proof. intros H. unfold checked. apply in_i64b_spec in H. now rewrite H. Qed.

Lemma checked_no_panic z : in_i64 z -> no_panic (checked z).
Proof. intros H. rewrite checked_ok by assumption. intros w. discriminate. Qed.

(* A koto Number as seen by integer-facing native code.  A float is abstracted by exactly the two
   observations that code makes of it: its saturating `as i64` cast and whether it is `< 0.0`. *)
Inductive num :=
| I (z : Z)
| F (cast : Z) (neg : bool).

Definition num_ok (n : num) : Prop := match n with I z => in_i64 z | F c _ => in_i64 c end.
Definition to_i64 (n : num) : Z := match n with I z => z | F c _ => c end.        (* i64::from(KNumber) *)
Definition ge0_int (n : num) : bool := 0 <=? to_i64 n.     (* `*n >= 0`: PartialOrd<i32> compares the CAST *)
Definition lt0_float (n : num) : bool := match n with I z => z <? 0 | F _ neg => neg end.  (* `*n < 0.0` *)
(* usize::from(KNumber): saturating; lengths are <= isize::MAX so saturating at 2^63-1 or 2^64-1 is the same *)
Definition to_usize (n : num) : Z := Z.max 0 (to_i64 n).

(* results *)
Inductive val :=
| VI (z : Z)      (* an integer Number *)
| VF              (* a float Number (value not modelled) *)
| VB (b : bool)
| VNull
| VAny.           (* some value (elements of containers, ranges, iterators) *)
