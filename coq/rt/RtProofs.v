(* C07 / C08 — proofs about the unwinding / residue model *)
From Coq Require Import ZArith List Bool Lia Arith.
From KV.rt Require Import GenRtConsts RtModel.
Import ListNotations.
Open Scope Z_scope.

(* ---------------------------------------------------------------------------------------------
   pop_call_stack_on_error(_, false) *)

Fixpoint drop_to_barrier (stk : list frame) : list frame :=
  match stk with
  | [] => []
  | f :: rest => if fr_barrier f then f :: rest else drop_to_barrier rest
  end.

Lemma pop_frame_stack : forall v f rest, stack v = f :: rest ->
  exists v', pop_frame v = Some v' /\ stack v' = rest /\
             seqb v' = seqb v /\ strb v' = strb v /\ placeholders v' = placeholders v /\ exports v' = exports v /\
             handlers_run v' = handlers_run v /\ timeouts_delivered v' = timeouts_delivered v.
Proof.
  intros v f rest H. unfold pop_frame. rewrite H.
  destruct rest as [|r rest'].
  - eexists; split; [reflexivity|]. simpl. repeat split; reflexivity.
  - destruct (fr_barrier f); eexists; (split; [reflexivity|]); simpl; repeat split; reflexivity.
Qed.

(* with allow_catch = false the unwinding never yields a catch point, whatever the catch stacks hold,
   and it stops exactly at the first execution barrier *)
Lemma unwind_false : forall stk v, stack v = stk ->
  fst (unwind false stk v) = false /\ stack (snd (unwind false stk v)) = drop_to_barrier stk /\
  timeouts_delivered (snd (unwind false stk v)) = timeouts_delivered v /\
  handlers_run (snd (unwind false stk v)) = handlers_run v.
Proof.
  induction stk as [|f rest IH]; intros v Hs; simpl.
  - repeat split; auto.
  - assert (Hm : (match fr_catch f with
                  | [] => if fr_barrier f then (false, v) else match pop_frame v with None => (false, v) | Some v' => unwind false rest v' end
                  | _ :: _ => if fr_barrier f then (false, v) else match pop_frame v with None => (false, v) | Some v' => unwind false rest v' end
                  end) = (if fr_barrier f then (false, v) else match pop_frame v with None => (false, v) | Some v' => unwind false rest v' end))
      by (destruct (fr_catch f); reflexivity).
    rewrite Hm. clear Hm.
    destruct (fr_barrier f) eqn:B.
    + simpl. repeat split; auto.
    + destruct (pop_frame_stack v f rest Hs) as (v' & Hp & Hs' & _ & _ & _ & _ & Hh & Ht).
      rewrite Hp. destruct (IH v' Hs') as (A1 & A2 & A3 & A4).
      repeat split; auto; congruence.
Qed.

Lemma unwind_ghost : forall a stk v, stack v = stk ->
  timeouts_delivered (snd (unwind a stk v)) = timeouts_delivered v.
Proof.
  induction stk as [|f rest IH]; intros v Hs; simpl; [reflexivity|].
  destruct (fr_catch f), a; simpl; try reflexivity;
    (destruct (fr_barrier f); [reflexivity|]);
    destruct (pop_frame_stack v f rest Hs) as (v' & Hp & Hs' & _ & _ & _ & _ & _ & Ht);
    rewrite Hp; rewrite (IH v' Hs'); exact Ht.
Qed.

(* ---------------------------------------------------------------------------------------------
   a Timeout raised in an activation is never delivered to a catch block of that activation *)

(* the bytecode of the activation does not re-enter the vm through native functions *)
Fixpoint flat (c : code) : bool :=
  match c with
  | Nop | Fail | Tick => true
  | Seq a b => flat a && flat b
  | Call _ _ b | Str b | Lst b => flat b
  | Try b h => flat b && flat h
  | _ => false
  end.

Lemma raise_false_escapes : forall e v, fst (raise false e v) = OEscape e.
Proof.
  intros. unfold raise. pose proof (unwind_false (stack v) v eq_refl) as (H & _).
  destruct (unwind false (stack v) v) as [c v']. simpl in H. subst. reflexivity.
Qed.

Lemma raise_ghost : forall a e v, timeouts_delivered (snd (raise a e v)) = timeouts_delivered v.
Proof.
  intros. unfold raise. pose proof (unwind_ghost a (stack v) v eq_refl).
  destruct (unwind a (stack v) v) as [c v']. destruct c; simpl in *; assumption.
Qed.

Lemma raise_true_kind : forall a e v e', fst (raise a e v) = OUnwind e' -> e' = e.
Proof.
  intros. unfold raise in H. destruct (unwind a (stack v) v) as [c v']. destruct c; simpl in H; congruence.
Qed.

Lemma pop_frame_ghost : forall v v', pop_frame v = Some v' -> timeouts_delivered v' = timeouts_delivered v.
Proof.
  intros v v' H. unfold pop_frame in H. destruct (stack v) as [|f rest]; [discriminate|].
  destruct rest; [|destruct (fr_barrier f)]; inversion H; reflexivity.
Qed.

Lemma new_frame_ghost : forall v n, timeouts_delivered (new_frame v n) = timeouts_delivered v.
Proof. intros. unfold new_frame. destruct (stack v); reflexivity. Qed.
Lemma push_catch_ghost : forall v, timeouts_delivered (push_catch v) = timeouts_delivered v.
Proof. intros. unfold push_catch. destruct (stack v); reflexivity. Qed.
Lemma pop_catch_ghost : forall v, timeouts_delivered (pop_catch v) = timeouts_delivered v.
Proof. intros. unfold pop_catch. destruct (stack v); reflexivity. Qed.

Lemma timeout_flat : timeout_allow_catch = false -> forall c, flat c = true -> forall v o v',
  exec c v = (o, v') -> timeouts_delivered v' = timeouts_delivered v /\ o <> OUnwind ETimeout.
Proof.
  intros TA. induction c; intros Hf v o v' He; simpl in Hf; try discriminate Hf; simpl in He.
  - inversion He; subst. split; [reflexivity|discriminate].
  - pose proof (raise_ghost error_allow_catch EThrown v) as G. rewrite He in G. simpl in G.
    split; [exact G|]. intro Ho. subst o.
    pose proof (raise_true_kind error_allow_catch EThrown v ETimeout) as K. rewrite He in K. simpl in K.
    specialize (K eq_refl). discriminate.
  - rewrite TA in He. pose proof (raise_ghost false ETimeout v) as G. rewrite He in G. simpl in G.
    split; [exact G|]. pose proof (raise_false_escapes ETimeout v) as E. rewrite He in E. simpl in E.
    subst o. discriminate.
  - apply andb_true_iff in Hf as [Ha Hb].
    destruct (exec c1 v) as [o1 v1] eqn:E1. destruct (IHc1 Ha _ _ _ E1) as [G1 N1].
    destruct o1; try (inversion He; subst; split; [exact G1|exact N1]).
    destruct (IHc2 Hb _ _ _ He) as [G2 N2]. split; [congruence|exact N2].
  - destruct (exec c (new_frame (push_frame v frame_base false) required)) as [o1 v1] eqn:E1.
    destruct (IHc Hf _ _ _ E1) as [G1 N1]. rewrite new_frame_ghost in G1. simpl in G1.
    destruct o1; try (inversion He; subst; split; [exact G1|exact N1]).
    destruct (pop_frame v1) eqn:P; inversion He; subst.
    + split; [rewrite (pop_frame_ghost _ _ P); exact G1|discriminate].
    + split; [exact G1|discriminate].
  - destruct (exec c (set_strb v (S (strb v)))) as [o1 v1] eqn:E1.
    destruct (IHc Hf _ _ _ E1) as [G1 N1]. simpl in G1.
    destruct o1; inversion He; subst; (split; [exact G1|try exact N1; try discriminate]).
  - destruct (exec c (set_seqb v (S (seqb v)))) as [o1 v1] eqn:E1.
    destruct (IHc Hf _ _ _ E1) as [G1 N1]. simpl in G1.
    destruct o1; inversion He; subst; (split; [exact G1|try exact N1; try discriminate]).
  - apply andb_true_iff in Hf as [Ha Hb].
    destruct (exec c1 (push_catch v)) as [o1 v1] eqn:E1.
    destruct (IHc1 Ha _ _ _ E1) as [G1 N1]. rewrite push_catch_ghost in G1.
    destruct o1.
    + inversion He; subst. split; [rewrite pop_catch_ghost; exact G1|discriminate].
    + destruct (Nat.eqb (length (stack v1)) (length (stack v))).
      * destruct e; [|exfalso; apply N1; reflexivity].
        destruct (IHc2 Hb _ _ _ He) as [G2 N2]. simpl in G2. rewrite pop_catch_ghost in G2.
        split; [congruence|exact N2].
      * inversion He; subst. split; [exact G1|exact N1].
    + inversion He; subst. split; [exact G1|exact N1].
    + inversion He; subst. split; [exact G1|exact N1].
Qed.

(* ---------------------------------------------------------------------------------------------
   C07: what an activation leaves behind *)

(* inside an activation: the top frame's window is exactly the register stack *)
Definition J (v : vm) : Prop :=
  exists f rest, stack v = f :: rest /\ base v = fr_base f /\ regs v = fr_base f + fr_required f.

Definition nb (f : frame) : Prop := fr_barrier f = false.

Definition same_frame (f1 f2 : frame) : Prop :=
  fr_base f1 = fr_base f2 /\ fr_required f1 = fr_required f2 /\ fr_barrier f1 = fr_barrier f2.

(* equal up to the catch stack of the top frame *)
Definition eqc (s1 s2 : list frame) : Prop :=
  match s1, s2 with
  | [], [] => True
  | f1 :: r1, f2 :: r2 => same_frame f1 f2 /\ r1 = r2
  | _, _ => False
  end.

Lemma eqc_refl : forall s, eqc s s.
Proof. destruct s; simpl; auto. repeat split; reflexivity. Qed.

Definition aux (v : vm) := (seqb v, strb v, placeholders v, exports v).

Lemma frame_eta : forall f, mkFrame (fr_base f) (fr_required f) (fr_catch f) (fr_barrier f) = f.
Proof. destruct f; reflexivity. Qed.

Lemma unwind_spec : forall a stk v, stack v = stk ->
  forall c v', unwind a stk v = (c, v') ->
  exists k, stack v' = skipn k stk /\ Forall nb (firstn k stk) /\
    (k <> 0%nat -> stack v' <> [] -> J v') /\ (k = 0%nat -> v' = v) /\
    (c = true -> exists f r, stack v' = f :: r /\ fr_catch f <> []) /\
    (c = false -> stack v' = [] \/ exists f r, stack v' = f :: r /\ fr_barrier f = true) /\
    aux v' = aux v.
Proof.
  induction stk as [|f rest IH]; intros v Hs c v' Hu; simpl in Hu.
  - inversion Hu; subst. exists 0%nat. simpl. repeat split; auto; try congruence; try (intros _; left; exact Hs).
  - assert (Hstop : forall cc, (c, v') = (cc, v) ->
              (cc = true -> fr_catch f <> []) -> (cc = false -> fr_barrier f = true) ->
              exists k, stack v' = skipn k (f :: rest) /\ Forall nb (firstn k (f :: rest)) /\
                (k <> 0%nat -> stack v' <> [] -> J v') /\ (k = 0%nat -> v' = v) /\
                (c = true -> exists f0 r, stack v' = f0 :: r /\ fr_catch f0 <> []) /\
                (c = false -> stack v' = [] \/ exists f0 r, stack v' = f0 :: r /\ fr_barrier f0 = true) /\
                aux v' = aux v).
    { intros cc E H1 H2. inversion E; subst. exists 0%nat. simpl. repeat split; auto; try congruence.
      - intros Hc. exists f, rest. split; [exact Hs|auto].
      - intros Hc. right. exists f, rest. split; [exact Hs|auto]. }
    assert (Hgo : (c, v') = (if fr_barrier f then (false, v) else
                      match pop_frame v with None => (false, v) | Some v0 => unwind a rest v0 end) ->
              exists k, stack v' = skipn k (f :: rest) /\ Forall nb (firstn k (f :: rest)) /\
                (k <> 0%nat -> stack v' <> [] -> J v') /\ (k = 0%nat -> v' = v) /\
                (c = true -> exists f0 r, stack v' = f0 :: r /\ fr_catch f0 <> []) /\
                (c = false -> stack v' = [] \/ exists f0 r, stack v' = f0 :: r /\ fr_barrier f0 = true) /\
                aux v' = aux v).
    { intros E. destruct (fr_barrier f) eqn:B.
      - apply (Hstop false E); [discriminate|auto].
      - destruct (pop_frame_stack v f rest Hs) as (v0 & Hp & Hs0 & A1 & A2 & A3 & A4 & _ & _).
        rewrite Hp in E. symmetry in E.
        destruct (IH v0 Hs0 c v' E) as (k & K1 & K2 & K3 & K4 & K5 & K6 & K7).
        exists (S k). simpl. split; [exact K1|]. split; [constructor; [exact B|exact K2]|].
        split.
        { intros _ Hne. destruct k.
          - specialize (K4 eq_refl). subst v'.
            unfold pop_frame in Hp. rewrite Hs in Hp. destruct rest as [|r rest'].
            + inversion Hp; subst. simpl in Hne. congruence.
            + rewrite B in Hp. inversion Hp; subst. exists r, rest'. simpl. repeat split; reflexivity.
          - apply K3; [discriminate|exact Hne]. }
        split; [discriminate|]. split; [exact K5|]. split; [exact K6|].
        unfold aux in *. rewrite K7. rewrite A1, A2, A3, A4. reflexivity. }
    destruct (fr_catch f) eqn:Cf.
    + apply Hgo. symmetry. destruct a; exact Hu.
    + destruct a.
      * apply (Hstop true); [symmetry; exact Hu| intros _; discriminate | discriminate].
      * apply Hgo. symmetry. exact Hu.
Qed.

Definition spec (v : vm) (o : outcome) (v' : vm) : Prop :=
  match o with
  | ONormal => stack v' = stack v /\ regs v' = regs v /\ base v' = base v
  | OUnwind _ =>
      J v' /\ exists k, stack v' = skipn k (stack v) /\ Forall nb (firstn k (stack v)) /\
                        exists f r, stack v' = f :: r /\ fr_catch f <> []
  | OEscape _ =>
      exists k, eqc (stack v') (skipn k (stack v)) /\ Forall nb (firstn k (stack v)) /\
                (J v' \/ stack v' = []) /\
                (stack v' = [] \/ exists f r, stack v' = f :: r /\ fr_barrier f = true)
  | OPanic => False
  end.

Lemma raise_spec : forall a e v, J v -> forall o v', raise a e v = (o, v') -> spec v o v' /\ aux v' = aux v.
Proof.
  intros a e v HJ o v' H. unfold raise in H.
  destruct (unwind a (stack v) v) as [c v0] eqn:U.
  destruct (unwind_spec a (stack v) v eq_refl c v0 U) as (k & K1 & K2 & K3 & K4 & K5 & K6 & K7).
  assert (HJ0 : stack v0 <> [] -> J v0).
  { intros Hne. destruct k; [rewrite (K4 eq_refl); exact HJ|apply K3; [discriminate|exact Hne]]. }
  destruct c; inversion H; subst; (split; [|exact K7]); simpl.
  - destruct (K5 eq_refl) as (f & r & F1 & F2).
    split; [apply HJ0; rewrite F1; discriminate|].
    exists k. split; [exact K1|]. split; [exact K2|]. exists f, r. auto.
  - exists k. split; [rewrite K1; apply eqc_refl|]. split; [exact K2|].
    split; [|exact (K6 eq_refl)].
    destruct (stack v') eqn:S; [right; reflexivity|left; apply HJ0; discriminate].
Qed.

Lemma skipn_length_eq : forall (A : Type) k (s : list A), s <> [] -> length (skipn k s) = length s -> k = 0%nat.
Proof.
  intros A k s Hs H. rewrite skipn_length in H. destruct s; [congruence|]. cbn [length] in H. lia.
Qed.

Lemma exec_spec : forall c, flat c = true -> forall v, J v -> forall o v', exec c v = (o, v') -> spec v o v'.
Proof.
  induction c; intros Hf v HJ o v' He; simpl in Hf; try discriminate; simpl in He.
  - inversion He; subst. simpl. auto.
  - exact (proj1 (raise_spec _ _ _ HJ _ _ He)).
  - exact (proj1 (raise_spec _ _ _ HJ _ _ He)).
  - apply andb_true_iff in Hf as [Ha Hb].
    destruct (exec c1 v) as [o1 v1] eqn:E1. pose proof (IHc1 Ha v HJ _ _ E1) as S1.
    destruct o1; try (inversion He; subst; exact S1).
    simpl in S1. destruct S1 as (P1 & P2 & P3).
    assert (HJ1 : J v1).
    { destruct HJ as (f & r & A & B & C). exists f, r. rewrite P1, P2, P3. auto. }
    pose proof (IHc2 Hb v1 HJ1 _ _ He) as S2.
    destruct o; simpl in *; rewrite ?P1, ?P2, ?P3 in S2; exact S2.
  - (* Call *)
    destruct HJ as (f0 & r0 & A0 & B0 & C0).
    set (v1 := new_frame (push_frame v frame_base false) required) in *.
    set (nf := mkFrame (base v + frame_base) required [] false).
    assert (S1 : stack v1 = nf :: stack v) by (unfold v1, new_frame, push_frame; simpl; reflexivity).
    assert (HJ1 : J v1).
    { exists nf, (stack v). split; [exact S1|]. unfold v1, new_frame, push_frame; simpl. split; reflexivity. }
    destruct (exec c v1) as [o1 v2] eqn:E1. pose proof (IHc Hf v1 HJ1 _ _ E1) as Sp.
    destruct o1; unfold spec in Sp.
    + destruct Sp as (P1 & P2 & P3).
      unfold pop_frame in He. rewrite P1, S1, A0 in He. simpl in He.
      inversion He; subst. simpl. rewrite A0. repeat split; auto; lia.
    + inversion He; subst. destruct Sp as (HJ2 & k & K1 & K2 & f & r & F1 & F2). simpl.
      split; [exact HJ2|]. rewrite S1 in K1, K2.
      destruct k as [|k].
      * simpl in K1. rewrite K1 in F1. inversion F1; subst. simpl in F2. congruence.
      * simpl in K1, K2. inversion K2; subst. exists k. repeat split; auto. exists f, r. auto.
    + inversion He; subst. destruct Sp as (k & K1 & K2 & K3 & K4). simpl. rewrite S1 in K1, K2.
      destruct k as [|k].
      * simpl in K1. exfalso. destruct (stack v') as [|f1 r1] eqn:S; simpl in K1; [exact K1|].
        destruct K1 as ((_ & _ & Hb) & _). destruct K4 as [K4|(f & r & F1 & F2)]; [discriminate|].
        inversion F1; subst. simpl in Hb. congruence.
      * simpl in K1, K2. inversion K2; subst. exists k. repeat split; auto.
    + destruct Sp.
  - (* Str *)
    assert (HJ1 : J (set_strb v (S (strb v)))) by exact HJ.
    destruct (exec c (set_strb v (S (strb v)))) as [o1 v2] eqn:E1. pose proof (IHc Hf _ HJ1 _ _ E1) as Sp.
    destruct o1; inversion He; subst; exact Sp.
  - (* Lst *)
    assert (HJ1 : J (set_seqb v (S (seqb v)))) by exact HJ.
    destruct (exec c (set_seqb v (S (seqb v)))) as [o1 v2] eqn:E1. pose proof (IHc Hf _ HJ1 _ _ E1) as Sp.
    destruct o1; inversion He; subst; exact Sp.
  - (* Try *)
    apply andb_true_iff in Hf as [Ha Hb].
    destruct HJ as (f0 & r0 & A0 & B0 & C0).
    set (f0' := mkFrame (fr_base f0) (fr_required f0) (tt :: fr_catch f0) (fr_barrier f0)).
    assert (S1 : stack (push_catch v) = f0' :: r0) by (unfold push_catch; rewrite A0; reflexivity).
    assert (HJ1 : J (push_catch v)).
    { exists f0', r0. split; [exact S1|]. unfold push_catch; rewrite A0; simpl. auto. }
    destruct (exec c1 (push_catch v)) as [o1 v2] eqn:E1. pose proof (IHc1 Ha _ HJ1 _ _ E1) as Sp.
    assert (Hpc : forall w, stack w = f0' :: r0 -> stack (pop_catch w) = stack v /\ regs (pop_catch w) = regs w /\ base (pop_catch w) = base w).
    { intros w Hw. unfold pop_catch. rewrite Hw. simpl. rewrite A0. rewrite frame_eta. auto. }
    destruct o1; simpl in Sp.
    + destruct Sp as (P1 & P2 & P3). inversion He; subst. rewrite S1 in P1.
      destruct (Hpc _ P1) as (Q1 & Q2 & Q3). simpl. rewrite Q1, Q2, Q3, P2, P3.
      unfold push_catch; rewrite A0; simpl. auto.
    + destruct Sp as (HJ2 & k & K1 & K2 & f & r & F1 & F2). rewrite S1 in K1, K2.
      destruct (Nat.eqb (length (stack v2)) (length (stack v))) eqn:L.
      * apply Nat.eqb_eq in L. rewrite K1, A0 in L.
        assert (k = 0%nat) by (apply (skipn_length_eq _ k (f0' :: r0)); [discriminate|simpl in *; exact L]).
        subst k. simpl in K1.
        destruct (Hpc _ K1) as (Q1 & Q2 & Q3).
        set (vh := note_handler (pop_catch v2) e) in *.
        assert (Sh : stack vh = stack v /\ regs vh = regs v /\ base vh = base v).
        { unfold vh; simpl. rewrite Q1, Q2, Q3.
          destruct HJ2 as (g & gr & G1 & G2 & G3). rewrite K1 in G1. inversion G1; subst g gr.
          simpl in G2, G3. rewrite G2, G3, B0, C0. auto. }
        destruct Sh as (H1 & H2 & H3).
        assert (HJh : J vh) by (exists f0, r0; rewrite H1, H2, H3; auto).
        pose proof (IHc2 Hb vh HJh _ _ He) as S2.
        destruct o; simpl in *; rewrite ?H1, ?H2, ?H3 in S2; exact S2.
      * inversion He; subst. simpl. split; [exact HJ2|].
        destruct k as [|k].
        { simpl in K1. rewrite K1, A0 in L. simpl in L. rewrite Nat.eqb_refl in L. discriminate. }
        simpl in K1, K2. inversion K2; subst. exists (S k). rewrite A0. simpl.
        split; [exact K1|]. split; [constructor; auto|]. exists f, r. auto.
    + inversion He; subst. destruct Sp as (k & K1 & K2 & K3 & K4). rewrite S1 in K1, K2. simpl.
      destruct k as [|k].
      * exists 0%nat. simpl. rewrite A0. split.
        { simpl in K1. destruct (stack v') as [|f1 r1]; simpl in *; [exact K1|].
          destruct K1 as ((X1 & X2 & X3) & X4). repeat split; auto. }
        repeat split; auto.
      * simpl in K1, K2. inversion K2; subst. exists (S k). rewrite A0. simpl. repeat split; auto; try (constructor; auto).
    + destruct Sp.
Qed.

(* ---- builders --------------------------------------------------------------------------- *)

(* can this code raise an error (of any kind)? *)
Fixpoint may_fail (c : code) : bool :=
  match c with
  | Nop => false
  | Seq a b => may_fail a || may_fail b
  | Call _ _ b | Str b | Lst b => may_fail b
  | Try b h => may_fail b || may_fail h
  | _ => true
  end.

(* class C07b is the complement: no error can be raised between a StringStart/SequenceStart and its finish *)
Fixpoint safe (c : code) : bool :=
  match c with
  | Seq a b => safe a && safe b
  | Call _ _ b => safe b
  | Str b | Lst b => negb (may_fail b) && safe b
  | Try b h => safe b && safe h
  | _ => true
  end.

Lemma nofail_normal : forall c, flat c = true -> may_fail c = false -> forall v, J v -> fst (exec c v) = ONormal.
Proof.
  induction c; intros Hf Hm v HJ; simpl in Hf, Hm; try discriminate; simpl.
  - reflexivity.
  - apply andb_true_iff in Hf as [Ha Hb]. apply orb_false_iff in Hm as [Ma Mb].
    destruct (exec c1 v) as [o1 v1] eqn:E1.
    pose proof (IHc1 Ha Ma v HJ) as N1. rewrite E1 in N1. simpl in N1. subst o1.
    pose proof (exec_spec c1 Ha v HJ _ _ E1) as (P1 & P2 & P3).
    apply IHc2; auto. destruct HJ as (f & r & A & B & C). exists f, r. rewrite P1, P2, P3. auto.
  - set (v1 := new_frame (push_frame v frame_base false) required).
    assert (HJ1 : J v1).
    { exists (mkFrame (base v + frame_base) required [] false), (stack v).
      unfold v1, new_frame, push_frame; simpl. auto. }
    destruct (exec c v1) as [o1 v2] eqn:E1.
    pose proof (IHc Hf Hm v1 HJ1) as N1. rewrite E1 in N1. simpl in N1. subst o1.
    pose proof (exec_spec c Hf v1 HJ1 _ _ E1) as (P1 & _ & _).
    unfold pop_frame. rewrite P1. unfold v1, new_frame, push_frame; simpl.
    destruct HJ as (f & r & A & _). rewrite A. reflexivity.
  - destruct (exec c (set_strb v (S (strb v)))) as [o1 v2] eqn:E1.
    pose proof (IHc Hf Hm (set_strb v (S (strb v))) HJ) as N1. rewrite E1 in N1. simpl in N1. subst. reflexivity.
  - destruct (exec c (set_seqb v (S (seqb v)))) as [o1 v2] eqn:E1.
    pose proof (IHc Hf Hm (set_seqb v (S (seqb v))) HJ) as N1. rewrite E1 in N1. simpl in N1. subst. reflexivity.
  - apply andb_true_iff in Hf as [Ha Hb]. apply orb_false_iff in Hm as [Ma Mb].
    assert (HJ1 : J (push_catch v)).
    { destruct HJ as (f & r & A & B & C). unfold push_catch. rewrite A.
      eexists; eexists; simpl; split; [reflexivity|simpl; auto]. }
    destruct (exec c1 (push_catch v)) as [o1 v2] eqn:E1.
    pose proof (IHc1 Ha Ma _ HJ1) as N1. rewrite E1 in N1. simpl in N1. subst. reflexivity.
Qed.

Lemma pop_frame_aux : forall v v', pop_frame v = Some v' -> aux v' = aux v.
Proof.
  intros v v' H. unfold pop_frame in H. destruct (stack v) as [|f rest]; [discriminate|].
  destruct rest; [|destruct (fr_barrier f)]; inversion H; reflexivity.
Qed.
Lemma new_frame_aux : forall v n, aux (new_frame v n) = aux v.
Proof. intros. unfold new_frame. destruct (stack v); reflexivity. Qed.
Lemma push_catch_aux : forall v, aux (push_catch v) = aux v.
Proof. intros. unfold push_catch. destruct (stack v); reflexivity. Qed.
Lemma pop_catch_aux : forall v, aux (pop_catch v) = aux v.
Proof. intros. unfold pop_catch. destruct (stack v); reflexivity. Qed.

(* outside class C07b an activation leaves the builder stacks (and imports) as it found them — on EVERY exit path *)
Lemma exec_aux : forall c, flat c = true -> safe c = true -> forall v, J v -> forall o v',
  exec c v = (o, v') -> aux v' = aux v.
Proof.
  induction c; intros Hf Hsafe v HJ o v' He; simpl in Hf, Hsafe; try discriminate; simpl in He.
  - inversion He; reflexivity.
  - exact (proj2 (raise_spec _ _ _ HJ _ _ He)).
  - exact (proj2 (raise_spec _ _ _ HJ _ _ He)).
  - apply andb_true_iff in Hf as [Ha Hb]. apply andb_true_iff in Hsafe as [Sa Sb].
    destruct (exec c1 v) as [o1 v1] eqn:E1. pose proof (IHc1 Ha Sa v HJ _ _ E1) as A1.
    pose proof (exec_spec c1 Ha v HJ _ _ E1) as S1.
    destruct o1; try (inversion He; subst; exact A1).
    destruct S1 as (P1 & P2 & P3).
    assert (HJ1 : J v1) by (destruct HJ as (f & r & A & B & C); exists f, r; rewrite P1, P2, P3; auto).
    rewrite <- A1. exact (IHc2 Hb Sb v1 HJ1 _ _ He).
  - set (v1 := new_frame (push_frame v frame_base false) required) in *.
    assert (HJ1 : J v1).
    { exists (mkFrame (base v + frame_base) required [] false), (stack v).
      unfold v1, new_frame, push_frame; simpl. auto. }
    assert (A0 : aux v1 = aux v) by (unfold v1; rewrite new_frame_aux; reflexivity).
    destruct (exec c v1) as [o1 v2] eqn:E1. pose proof (IHc Hf Hsafe v1 HJ1 _ _ E1) as A1.
    destruct o1; try (inversion He; subst; congruence).
    destruct (pop_frame v2) eqn:P; inversion He; subst; [rewrite (pop_frame_aux _ _ P)|]; congruence.
  - apply andb_true_iff in Hsafe as [Nf Sb]. apply negb_true_iff in Nf.
    set (v1 := set_strb v (S (strb v))) in *.
    destruct (exec c v1) as [o1 v2] eqn:E1.
    pose proof (nofail_normal c Hf Nf v1 HJ) as N. rewrite E1 in N. simpl in N. subst o1.
    pose proof (IHc Hf Sb v1 HJ _ _ E1) as A1. inversion He; subst.
    unfold aux in *. simpl in *. inversion A1. rewrite H1. simpl. congruence.
  - apply andb_true_iff in Hsafe as [Nf Sb]. apply negb_true_iff in Nf.
    set (v1 := set_seqb v (S (seqb v))) in *.
    destruct (exec c v1) as [o1 v2] eqn:E1.
    pose proof (nofail_normal c Hf Nf v1 HJ) as N. rewrite E1 in N. simpl in N. subst o1.
    pose proof (IHc Hf Sb v1 HJ _ _ E1) as A1. inversion He; subst.
    unfold aux in *. simpl in *. inversion A1. rewrite H0. simpl. congruence.
  - apply andb_true_iff in Hf as [Ha Hb]. apply andb_true_iff in Hsafe as [Sa Sb].
    assert (HJ1 : J (push_catch v)).
    { destruct HJ as (f & r & A & B & C). unfold push_catch. rewrite A.
      eexists; eexists; simpl; split; [reflexivity|simpl; auto]. }
    destruct (exec c1 (push_catch v)) as [o1 v2] eqn:E1.
    pose proof (IHc1 Ha Sa _ HJ1 _ _ E1) as A1. rewrite push_catch_aux in A1.
    pose proof (exec_spec c1 Ha _ HJ1 _ _ E1) as Sp.
    destruct o1; try (inversion He; subst; rewrite ?pop_catch_aux; exact A1).
    destruct (Nat.eqb (length (stack v2)) (length (stack v))) eqn:L; [|inversion He; subst; exact A1].
    (* the handler runs from a state that satisfies J again *)
    destruct HJ as (f0 & r0 & A0 & B0 & C0).
    destruct Sp as (HJ2 & k & K1 & K2 & _).
    assert (S1 : stack (push_catch v) = mkFrame (fr_base f0) (fr_required f0) (tt :: fr_catch f0) (fr_barrier f0) :: r0)
      by (unfold push_catch; rewrite A0; reflexivity).
    rewrite S1 in K1. apply Nat.eqb_eq in L. rewrite K1, A0 in L.
    assert (k = 0%nat) by (eapply skipn_length_eq; [|rewrite L; reflexivity]; discriminate).
    subst k. simpl in K1.
    set (vh := note_handler (pop_catch v2) e) in *.
    assert (HJh : J vh).
    { destruct HJ2 as (g & gr & G1 & G2 & G3). rewrite K1 in G1. inversion G1; subst g gr. simpl in G2, G3.
      exists f0, r0. unfold vh, pop_catch. rewrite K1. simpl. rewrite frame_eta. auto. }
    pose proof (IHc2 Hb Sb vh HJh _ _ He) as A2. rewrite A2. unfold vh.
    unfold aux in *. simpl. rewrite <- A1. pose proof (pop_catch_aux v2) as Q. unfold aux in Q. exact Q.
Qed.

(* ---- host entry points ------------------------------------------------------------------- *)

Definition clean (v : vm) : Prop :=
  regs v = 0 /\ base v = 0 /\ stack v = [] /\ seqb v = 0%nat /\ strb v = 0%nat /\ placeholders v = [].

Definition frames_clean (v : vm) : Prop := regs v = 0 /\ base v = 0 /\ stack v = [].

Lemma finish_clean : forall c v1 b, flat c = true ->
  stack v1 = [b] -> fr_barrier b = true -> base v1 = fr_base b -> regs v1 = fr_base b + fr_required b -> 0 <= regs v1 ->
  forall r, finish_activation (exec c v1) 0 = r ->
  fst r <> HPanic /\ frames_clean (snd r) /\ (safe c = true -> aux (snd r) = aux v1).
Proof.
  intros c v1 b Hf S B Hb Hr Hpos r Hfin.
  assert (HJ : J v1) by (exists b, []; auto).
  destruct (exec c v1) as [o v'] eqn:E.
  pose proof (exec_spec c Hf v1 HJ _ _ E) as Sp.
  assert (Ha : safe c = true -> aux v' = aux v1) by (intros Hs; exact (exec_aux c Hf Hs v1 HJ _ _ E)).
  assert (Hpop : forall w b', stack w = [b'] -> 0 <= regs w ->
            pop_frame w = Some (set_frames w 0 []) /\
            frames_clean (truncate_registers (set_frames w 0 []) 0) /\
            aux (truncate_registers (set_frames w 0 []) 0) = aux w).
  { intros w b' Sw Hw. unfold pop_frame. rewrite Sw. split; [reflexivity|].
    unfold frames_clean, truncate_registers; simpl. repeat split; auto. lia. }
  destruct o; simpl in Sp; unfold finish_activation in Hfin.
  - destruct Sp as (P1 & P2 & P3). rewrite S in P1.
    destruct (Hpop v' b P1 ltac:(lia)) as (Q1 & Q2 & Q3). rewrite Q1 in Hfin. subst r. simpl.
    split; [discriminate|]. split; [exact Q2|]. intros Hs. rewrite Q3. auto.
  - destruct Sp as (HJ' & k & K1 & K2 & _). rewrite S in K1, K2.
    destruct k as [|k]; [|simpl in K2; inversion K2; subst; unfold nb in *; congruence].
    simpl in K1.
    assert (0 <= regs v').
    { destruct HJ' as (g & gr & G1 & G2 & G3). rewrite K1 in G1. inversion G1; subst. lia. }
    destruct (Hpop v' b K1 H) as (Q1 & Q2 & Q3). rewrite Q1 in Hfin. subst r. simpl.
    split; [discriminate|]. split; [exact Q2|]. intros Hs. rewrite Q3. auto.
  - destruct Sp as (k & K1 & K2 & K3 & K4). rewrite S in K1, K2.
    destruct k as [|k]; [|simpl in K2; inversion K2; subst; unfold nb in *; congruence].
    simpl in K1. destruct (stack v') as [|b' r'] eqn:S'; simpl in K1; [destruct K1|].
    destruct K1 as ((X1 & X2 & X3) & X4). subst r'.
    assert (0 <= regs v').
    { destruct K3 as [(g & gr & G1 & G2 & G3)|K3]; [|discriminate].
      rewrite S' in G1. inversion G1; subst. lia. }
    destruct (Hpop v' b' S' H) as (Q1 & Q2 & Q3). rewrite Q1 in Hfin. subst r. simpl.
    split; [discriminate|]. split; [exact Q2|]. intros Hs. rewrite Q3. auto.
  - destruct Sp.
Qed.

(* classes of host operations *)
Definition op_code (h : hostop) : code :=
  match h with
  | HRun _ c | HCallKoto _ _ c | HUnopKoto _ c | HBinopKoto _ c => c
  | _ => Nop
  end.

Definition op_wf (h : hostop) : bool :=
  match h with
  | HRun r _ | HUnopKoto r _ | HBinopKoto r _ => 0 <=? r
  | HCallKoto n r _ => (0 <=? n) && (0 <=? r)
  | HCallPre n | HCallNative n => 0 <=? n
  | _ => true
  end.

(* the proven class: the activation's bytecode does not re-enter the vm through a native function.
   (The former class C07a — entry points returning through an early `?` — is gone: with_register_cleanup.) *)
Definition in_class (h : hostop) : bool := op_wf h && flat (op_code h).
(* additionally outside C07b *)
Definition in_class_b (h : hostop) : bool := in_class h && safe (op_code h).

Lemma cleanup_ok : forall (r : hres * vm), fst r <> HPanic -> frames_clean (snd r) ->
  fst (cleanup 0 r) <> HPanic /\ frames_clean (snd (cleanup 0 r)) /\ aux (snd (cleanup 0 r)) = aux (snd r).
Proof.
  intros [hr v'] Hp (R & B & S). unfold cleanup. simpl in *.
  destruct hr; simpl; repeat split; auto; try discriminate. rewrite R. reflexivity.
Qed.

(* an early `?`: Err with the call stack untouched and some registers pushed *)
Lemma cleanup_early : forall e v', base v' = 0 -> stack v' = [] -> 0 <= regs v' ->
  fst (cleanup 0 (HErr e, v')) <> HPanic /\ frames_clean (snd (cleanup 0 (HErr e, v'))) /\ aux (snd (cleanup 0 (HErr e, v'))) = aux v'.
Proof.
  intros e v' B S R. unfold cleanup, frames_clean. simpl. repeat split; auto; try discriminate. lia.
Qed.

Lemma host_restores : forall h, in_class h = true -> forall v, clean v ->
  fst (host h v) <> HPanic /\ frames_clean (snd (host h v)) /\ (safe (op_code h) = true -> aux (snd (host h v)) = aux v).
Proof.
  intros h Hc v (R0 & B0 & S0 & Q0 & T0 & P0).
  unfold in_class in Hc. apply andb_true_iff in Hc as [Hwf Hfl].
  destruct v as [rg bs st sq sb ph ex hr td]. simpl in *. subst.
  destruct h; simpl in Hwf, Hfl; try discriminate.
  - (* HRun *)
    apply Z.leb_le in Hwf.
    set (b := mkFrame 0 required [] true).
    assert (Hp : 0 <= 0 + required) by lia.
    pose proof (finish_clean c (mkVm (0 + required) 0 [b] 0 0 [] ex hr td) b Hfl eq_refl eq_refl eq_refl eq_refl
                  Hp _ eq_refl) as (F1 & F2 & F3).
    unfold host, do_run. exact (conj F1 (conj F2 F3)).
  - simpl. unfold frames_clean. simpl. repeat split; auto; discriminate.
  - (* HCallKoto *)
    apply andb_true_iff in Hwf as [Hn Hr]. apply Z.leb_le in Hn. apply Z.leb_le in Hr.
    set (b := mkFrame 1 required [] true).
    assert (Hp : 0 <= 1 + required) by lia.
    pose proof (finish_clean c (mkVm (1 + required) 1 [b] 0 0 [] ex hr td) b Hfl eq_refl eq_refl eq_refl eq_refl
                  Hp _ eq_refl) as (F1 & F2 & F3).
    destruct (cleanup_ok _ F1 F2) as (G1 & G2 & G3).
    match goal with |- context [host ?h ?w] =>
      assert (E : host h w = cleanup 0 (finish_activation (exec c (mkVm (1 + required) 1 [b] 0 0 [] ex hr td)) 0))
        by reflexivity; rewrite E end.
    split; [exact G1|]. split; [exact G2|]. intros Hs. rewrite G3. exact (F3 Hs).
  - (* HCallPre *)
    apply Z.leb_le in Hwf.
    unfold host, do_call, with_register_cleanup, do_call_inner, next_register, push_regs, set_regs.
    cbn [regs base stack seqb strb placeholders exports].
    change ((0 + 1 - 0) mod 256) with 1. change (255 <=? 1) with false. cbv iota.
    match goal with |- context [cleanup 0 (HErr ?e, ?w)] =>
      assert (Rw : 0 <= regs w) by (cbn [regs]; lia);
      destruct (cleanup_early e w eq_refl eq_refl Rw) as (G1 & G2 & G3) end.
    split; [exact G1|]. split; [exact G2|]. intros _. rewrite G3. reflexivity.
  - (* HCallNative *)
    apply Z.leb_le in Hwf.
    unfold host, do_call, with_register_cleanup, do_call_inner, next_register, push_regs, truncate_registers, set_regs.
    cbn [regs base stack seqb strb placeholders exports].
    change ((0 - 0) mod 256) with 0. change ((0 + 1 - 0) mod 256) with 1. change (255 <=? 1) with false.
    cbn [regs base stack seqb strb placeholders exports fst snd]. cbv iota.
    match goal with |- context [cleanup 0 (HOk, ?w)] =>
      assert (Fw : frames_clean w) by (unfold frames_clean; cbn [regs base stack]; repeat split; auto; lia);
      destruct (cleanup_ok (HOk, w) ltac:(simpl; discriminate) Fw) as (G1 & G2 & G3) end.
    split; [exact G1|]. split; [exact G2|]. intros _. rewrite G3. reflexivity.
  - (* HUnopKoto *)
    apply Z.leb_le in Hwf.
    set (b := mkFrame 2 required [] true).
    assert (Hp : 0 <= 2 + required) by lia.
    pose proof (finish_clean c (mkVm (2 + required) 2 [b] 0 0 [] ex hr td) b Hfl eq_refl eq_refl eq_refl eq_refl
                  Hp _ eq_refl) as (F1 & F2 & F3).
    destruct (cleanup_ok _ F1 F2) as (G1 & G2 & G3).
    match goal with |- context [host ?h ?w] =>
      assert (E : host h w = cleanup 0 (finish_activation (exec c (mkVm (2 + required) 2 [b] 0 0 [] ex hr td)) 0))
        by reflexivity; rewrite E end.
    split; [exact G1|]. split; [exact G2|]. intros Hs. rewrite G3. exact (F3 Hs).
  - (* HUnopPre *)
    unfold host, do_op, with_register_cleanup, cleanup, do_op_inner, next_register, push_regs, truncate_registers, frames_clean;
      simpl; repeat split; auto; discriminate.
  - (* HUnopPreOv *)
    unfold host, do_op, with_register_cleanup, cleanup, do_op_inner, next_register, push_regs, truncate_registers, frames_clean;
      simpl; repeat split; auto; discriminate.
  - (* HUnopPlain *)
    unfold host, do_op, with_register_cleanup, cleanup, do_op_inner, next_register, push_regs, truncate_registers, frames_clean;
      simpl; repeat split; auto; discriminate.
  - (* HBinopKoto *)
    apply Z.leb_le in Hwf.
    set (b := mkFrame 3 required [] true).
    assert (Hp : 0 <= 3 + required) by lia.
    pose proof (finish_clean c (mkVm (3 + required) 3 [b] 0 0 [] ex hr td) b Hfl eq_refl eq_refl eq_refl eq_refl
                  Hp _ eq_refl) as (F1 & F2 & F3).
    destruct (cleanup_ok _ F1 F2) as (G1 & G2 & G3).
    match goal with |- context [host ?h ?w] =>
      assert (E : host h w = cleanup 0 (finish_activation (exec c (mkVm (3 + required) 3 [b] 0 0 [] ex hr td)) 0))
        by reflexivity; rewrite E end.
    split; [exact G1|]. split; [exact G2|]. intros Hs. rewrite G3. exact (F3 Hs).
  - (* HBinopPre *)
    unfold host, do_op, with_register_cleanup, cleanup, do_op_inner, next_register, push_regs, truncate_registers, frames_clean;
      simpl; repeat split; auto; discriminate.
  - (* HBinopPlain *)
    unfold host, do_op, with_register_cleanup, cleanup, do_op_inner, next_register, push_regs, truncate_registers, frames_clean;
      simpl; repeat split; auto; discriminate.
  - simpl. unfold frames_clean. simpl. repeat split; auto; discriminate.
  - simpl. unfold frames_clean. simpl. repeat split; auto; discriminate.
Qed.

Theorem entry_restores_frames_thm : forall h, in_class h = true -> forall v, clean v ->
  fst (host h v) <> HPanic /\ frames_clean (snd (host h v)).
Proof. intros h Hc v Hv. destruct (host_restores h Hc v Hv) as (A & B & _). auto. Qed.

Theorem entry_restores_thm : forall h, in_class_b h = true -> forall v, clean v ->
  fst (host h v) <> HPanic /\ clean (snd (host h v)).
Proof.
  intros h Hc v Hv. unfold in_class_b in Hc. apply andb_true_iff in Hc as [Hc Hs].
  destruct (host_restores h Hc v Hv) as (A & (B1 & B2 & B3) & Cx). split; [exact A|].
  specialize (Cx Hs). destruct Hv as (_ & _ & _ & Q & T & P).
  unfold aux in Cx. inversion Cx. unfold clean. repeat split; auto; congruence.
Qed.

(* any finite history of host operations in the class: every operation starts from, and ends in, a clean state *)
Theorem history_clean_thm : forall ops, forallb in_class_b ops = true -> forall v, clean v ->
  Forall (fun r => fst r <> HPanic /\ clean (snd r)) (history ops v).
Proof.
  induction ops as [|h rest IH]; intros Hall v Hv; simpl; [constructor|].
  simpl in Hall. apply andb_true_iff in Hall as [Hh Hr].
  destruct (entry_restores_thm h Hh v Hv) as (A & B).
  constructor; [split; assumption|].
  destruct (fst (host h v)) eqn:F; try (apply IH; assumption). congruence.
Qed.

(* ---- generators ---------------------------------------------------------------------------- *)

(* an error (of any kind, a timeout included) that escapes a generator's vm leaves its call stack EMPTY: none of its
   frames is an execution barrier, so the unwinding pops them all; every later resume finds it finished *)
Lemma escape_empties_barrier_free_stack : forall c, flat c = true -> forall v, J v -> Forall nb (stack v) ->
  forall e v', exec c v = (OEscape e, v') -> stack v' = [].
Proof.
  intros c Hf v HJ Hnb e v' He.
  pose proof (exec_spec c Hf v HJ _ _ He) as (k & K1 & _ & _ & K4).
  destruct K4 as [K4|(f & r & F1 & F2)]; [exact K4|].
  exfalso. rewrite F1 in K1.
  assert (Hs : Forall nb (skipn k (stack v))).
  { rewrite <- (firstn_skipn k (stack v)) in Hnb. apply Forall_app in Hnb. tauto. }
  destruct (skipn k (stack v)) as [|g gr]; simpl in K1; [exact K1|].
  destruct K1 as ((_ & _ & Hb) & _). inversion Hs; subst. unfold nb in *. congruence.
Qed.

Theorem failed_generator_is_finished_thm : forall c required, flat c = true -> forall e gv',
  exec c (generator_vm required) = (OEscape e, gv') ->
  stack gv' = [] /\ forall c', continue_running c' gv' = (HOk, gv').
Proof.
  intros c required Hf e gv' He.
  assert (HJ : J (generator_vm required)).
  { unfold generator_vm, new_frame, push_frame, fresh; simpl. eexists; eexists; simpl. split; [reflexivity|simpl; auto]. }
  assert (Hnb : Forall nb (stack (generator_vm required))).
  { unfold generator_vm, new_frame, push_frame, fresh; simpl. constructor; [reflexivity|constructor]. }
  pose proof (escape_empties_barrier_free_stack c Hf _ HJ Hnb e gv' He) as S.
  split; [exact S|]. intros c'. unfold continue_running. rewrite S. reflexivity.
Qed.
