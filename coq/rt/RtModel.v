(* C07 / C08 — model of the KotoVm's execution state at the level of its SIZES:
   (|registers|, |call_stack|, |sequence_builders|, |string_builders|, register_base),
   plus the module-cache placeholders and the identity of the active exports map,
   for the host-facing entry points of crates/runtime/src/vm.rs:
     run, call_function/call_and_run_function, run_unary_op, run_binary_op (get_overridden_op_result),
     value_to_string, and run_import's placeholder / exports swap,
   and of the unwinding: push_frame, pop_frame, pop_call_stack_on_error(error, allow_catch),
   truncate_registers, the `as u8` casts of next_register().  Definitions only.

   A script is abstracted to the structure of its size-relevant effects (`code`); what it computes is
   not modelled.  The unwinding itself is implementation-shaped: an explicit call stack of frames with
   per-frame catch stacks and execution barriers, walked by `unwind` exactly like
   pop_call_stack_on_error; the structured `code` only decides where control continues after a catch. *)
From Coq Require Import ZArith List Bool Lia.
From KV.rt Require Import GenRtConsts.
Import ListNotations.
Open Scope Z_scope.

Inductive err := EThrown | ETimeout.

Record frame := mkFrame {
  fr_base : Z;              (* Frame::register_base *)
  fr_required : Z;          (* Frame::required_registers (set by NewFrame) *)
  fr_catch : list unit;     (* Frame::catch_stack (register/ip payload irrelevant here) *)
  fr_barrier : bool         (* Frame::execution_barrier *)
}.

Record vm := mkVm {
  regs : Z;                 (* registers.len() *)
  base : Z;                 (* register_base *)
  stack : list frame;       (* call_stack, head = top *)
  seqb : nat;               (* sequence_builders.len() *)
  strb : nat;               (* string_builders.len() *)
  placeholders : list Z;    (* modules with a None (in progress) entry in module_cache *)
  exports : Z;              (* identity of the active exports map *)
  handlers_run : nat;       (* ghost: catch blocks entered *)
  timeouts_delivered : nat  (* ghost: catch blocks entered with a Timeout error *)
}.

Definition fresh : vm := mkVm 0 0 [] 0 0 [] 0 0 0.

Definition sizes (v : vm) : Z * Z * Z * Z * Z :=
  (regs v, Z.of_nat (length (stack v)), Z.of_nat (seqb v), Z.of_nat (strb v), base v).

Definition set_regs (v : vm) (r : Z) : vm :=
  mkVm r (base v) (stack v) (seqb v) (strb v) (placeholders v) (exports v) (handlers_run v) (timeouts_delivered v).
Definition set_frames (v : vm) (b : Z) (s : list frame) : vm :=
  mkVm (regs v) b s (seqb v) (strb v) (placeholders v) (exports v) (handlers_run v) (timeouts_delivered v).
Definition set_seqb (v : vm) (n : nat) : vm :=
  mkVm (regs v) (base v) (stack v) n (strb v) (placeholders v) (exports v) (handlers_run v) (timeouts_delivered v).
Definition set_strb (v : vm) (n : nat) : vm :=
  mkVm (regs v) (base v) (stack v) (seqb v) n (placeholders v) (exports v) (handlers_run v) (timeouts_delivered v).
Definition set_import (v : vm) (p : list Z) (e : Z) : vm :=
  mkVm (regs v) (base v) (stack v) (seqb v) (strb v) p e (handlers_run v) (timeouts_delivered v).
Definition note_handler (v : vm) (e : err) : vm :=
  mkVm (regs v) (base v) (stack v) (seqb v) (strb v) (placeholders v) (exports v) (S (handlers_run v))
       (match e with ETimeout => S (timeouts_delivered v) | EThrown => timeouts_delivered v end).

(* next_register(): (registers.len() - register_base) as u8 *)
Definition next_register (v : vm) : Z := (regs v - base v) mod 256.
(* truncate_registers(len): registers.truncate(register_base + len) *)
Definition truncate_registers (v : vm) (len : Z) : vm := set_regs v (Z.min (regs v) (base v + len)).
Definition push_regs (v : vm) (n : Z) : vm := set_regs v (regs v + n).

(* push_frame(chunk, ip, frame_base, ..): the new frame's base is register_base + frame_base *)
Definition push_frame (v : vm) (frame_base : Z) (barrier : bool) : vm :=
  let nb := base v + frame_base in
  set_frames v nb (mkFrame nb 0 [] barrier :: stack v).

(* NewFrame { register_count }: required_registers := n; registers.resize(register_base + n) *)
Definition new_frame (v : vm) (n : Z) : vm :=
  match stack v with
  | [] => v
  | f :: rest => set_regs (set_frames v (base v) (mkFrame (fr_base f) n (fr_catch f) (fr_barrier f) :: rest)) (base v + n)
  end.

(* pop_frame: None = Err(EmptyCallStack) *)
Definition pop_frame (v : vm) : option vm :=
  match stack v with
  | [] => None
  | f :: rest =>
    match rest with
    | [] => Some (set_frames v 0 [])
    | r :: _ =>
      if fr_barrier f then Some (set_frames v (fr_base r) rest)
      else Some (set_regs (set_frames v (fr_base r) rest) (fr_base r + fr_required r))
    end
  end.

(* pop_call_stack_on_error(error, allow_catch): (true, v) = Ok(catch point of the frame now on top),
   (false, v) = Err(error) *)
Fixpoint unwind (allow_catch : bool) (stk : list frame) (v : vm) : bool * vm :=
  match stk with
  | [] => (false, v)
  | f :: rest =>
    match fr_catch f, allow_catch with
    | _ :: _, true => (true, v)
    | _, _ =>
      if fr_barrier f then (false, v)
      else match pop_frame v with
           | None => (false, v)
           | Some v' => unwind allow_catch rest v'
           end
    end
  end.

Definition push_catch (v : vm) : vm :=
  match stack v with
  | [] => v
  | f :: rest => set_frames v (base v) (mkFrame (fr_base f) (fr_required f) (tt :: fr_catch f) (fr_barrier f) :: rest)
  end.
Definition pop_catch (v : vm) : vm :=
  match stack v with
  | [] => v
  | f :: rest => set_frames v (base v) (mkFrame (fr_base f) (fr_required f) (tl (fr_catch f)) (fr_barrier f) :: rest)
  end.
Definition set_barrier (v : vm) : vm :=
  match stack v with
  | [] => v
  | f :: rest => set_frames v (base v) (mkFrame (fr_base f) (fr_required f) (fr_catch f) true :: rest)
  end.

(* The size-relevant structure of a piece of bytecode.  N* constructors are native functions (core
   library or host) that re-enter THE SAME vm through a host entry point and propagate its error with `?`. *)
Inductive code :=
| Nop
| Fail                                   (* an instruction returns Err: throw, runtime error, failed type check, failing native *)
| Tick                                   (* check_for_timeout() returns true before this instruction *)
| Seq (a b : code)
| Call (frame_base required : Z) (body : code)   (* call of a Koto function in the same activation; NewFrame; body; Return *)
| Str (body : code)                      (* StringStart; body; StringFinish *)
| Lst (body : code)                      (* SequenceStart; body; SequenceToList/Tuple *)
| Try (body handler : code)              (* TryStart; body; TryEnd | catch: TryEnd; handler *)
| Import (m : Z) (required : Z) (body : code)     (* run_import of file module m, not yet cached: run its script *)
| ImportMain (m : Z) (required : Z) (body : code) (rmain : Z) (main : code)   (* .. then call its @main *)
| NRun (required : Z) (body : code)      (* vm.run(chunk) *)
| NCallKoto (nargs required : Z) (body : code)   (* vm.call_function(koto function, args) *)
| NCallPre (nargs : Z)                   (* vm.call_function where call_callable fails before a frame exists *)
| NCallNative (nargs : Z)                (* vm.call_function(native function) that succeeds *)
| NUnopKoto (required : Z) (body : code) (* vm.run_unary_op dispatching to an overridden operator written in Koto *)
| NUnopPre                               (* vm.run_unary_op whose operation fails without pushing a frame *)
| NUnopPlain                             (* vm.run_unary_op on a plain value *)
| NBinopKoto (required : Z) (body : code)
| NBinopPre
| NBinopPlain
| NDisplay.                              (* value_to_string / display: runs on a spawned vm *)

Inductive outcome :=
| ONormal
| OUnwind (e : err)    (* pop_call_stack_on_error returned a catch point; control goes to that handler *)
| OEscape (e : err)    (* execute_instructions returns Err(e) *)
| OPanic.              (* a Rust panic (u8 overflow in register arithmetic; overflow checks on) *)

Inductive hres := HOk | HErr (e : err) | HPanic.

(* an instruction returned Err(e): execute_instructions calls pop_call_stack_on_error(e, true) — for
   EVERY error kind; a Timeout raised by check_for_timeout() takes allow_catch = false instead *)
Definition raise (allow_catch : bool) (e : err) (v : vm) : outcome * vm :=
  let '(caught, v') := unwind allow_catch (stack v) v in
  if caught then (OUnwind e, v') else (OEscape e, v').

Definition after_native (r : hres * vm) : outcome * vm :=
  match r with
  | (HOk, v) => (ONormal, v)
  | (HErr e, v) => raise error_allow_catch e v
  | (HPanic, v) => (OPanic, v)
  end.

(* the tail shared by run / call_and_run_function / get_overridden_op_result:
   execute_instructions(); if Err then pop_frame()?; truncate_registers(result_register) *)
Definition finish_activation (r : outcome * vm) (trunc_to : Z) : hres * vm :=
  match r with
  | (ONormal, v) =>                       (* Return in the barrier frame: pop_frame gives Some(value) *)
    match pop_frame v with
    | Some v' => (HOk, truncate_registers v' trunc_to)
    | None => (HErr EThrown, v)
    end
  | (OEscape e, v) | (OUnwind e, v) =>    (* OUnwind cannot reach an entry point (see RtProofs) *)
    match pop_frame v with
    | Some v' => (HErr e, truncate_registers v' trunc_to)
    | None => (HErr EThrown, v)           (* `?` on pop_frame: early return *)
    end
  | (OPanic, v) => (HPanic, v)
  end.

(* KotoVm::run *)
Definition do_run (body : vm -> outcome * vm) (required : Z) (v : vm) : hres * vm :=
  let fb := next_register v in
  let v := push_regs v 1 in
  let v := push_frame v fb true in
  let v := new_frame v required in
  finish_activation (body v) fb.

(* call_koto_function (+ NewFrame) for a host-initiated call; u8 arithmetic `frame_base + 1` *)
Definition enter_koto (v : vm) (fb nargs required : Z) : option vm :=
  if 255 <=? fb then None
  else
    let v := set_regs v (Z.min (regs v) (base v + fb + 1 + nargs)) in
    let v := push_frame v fb false in
    let v := set_barrier v in
    Some (new_frame v required).

(* CPreOv: the operator is overloaded by a native function that fails (the instance is pushed first) *)
Inductive callee := CKoto (required : Z) (body : vm -> outcome * vm) | CPre | CPreOv | CNative.

(* KotoVm::with_register_cleanup: when the wrapped operation returns Err, the register stack is truncated
   back to its length at entry (an absolute length, not a u8 register number); a panic passes through *)
Definition cleanup (n : Z) (r : hres * vm) : hres * vm :=
  match r with
  | (HErr e, v') => (HErr e, set_regs v' (Z.min (regs v') n))
  | r => r
  end.
Arguments cleanup : simpl never.
Definition with_register_cleanup (op : vm -> hres * vm) (v : vm) : hres * vm := cleanup (regs v) (op v).

(* KotoVm::call_and_run_function_inner with CallArgs::Separate(nargs values) *)
Definition do_call_inner (c : callee) (nargs : Z) (v : vm) : hres * vm :=
  let rr := next_register v in
  let v := push_regs v 1 in
  let fb := next_register v in
  let v := push_regs v 1 in
  let v := push_regs v nargs in
  match c with
  | CPre | CPreOv =>
    (* call_callable(..)? returns early (the registers pushed so far are removed by with_register_cleanup); both a native reading its arguments (CallContext::args) and the arity
       check of a Koto function (call_koto_function) first compute frame_base + 1 in u8 *)
    if 255 <=? fb then (HPanic, v) else (HErr EThrown, v)
  | CNative =>
    if 255 <=? fb then (HPanic, v)                           (* CallContext::args: frame_base + 1 *)
    else
      let v := match stack v with
               | [] => v
               | f :: _ => set_regs v (Z.max (Z.min (regs v) (base v + fb)) (base v + fr_required f))
               end in
      (HOk, truncate_registers v rr)
  | CKoto required body =>
    match enter_koto v fb nargs required with
    | None => (HPanic, v)
    | Some v => finish_activation (body v) rr
    end
  end.

Definition do_call (c : callee) (nargs : Z) (v : vm) : hres * vm :=
  with_register_cleanup (do_call_inner c nargs) v.

(* run_unary_op_inner (extra = 1) / run_binary_op_inner (extra = 2): result register + operands, then either a
   plain result, an early `?`, or call_overridden_op_N + get_overridden_op_result *)
Definition do_op_inner (c : callee) (extra : Z) (v : vm) : hres * vm :=
  let rr := next_register v in
  if 255 <? rr + extra then (HPanic, v)                      (* result_register + 1 / + 2 in u8 *)
  else
    let v := push_regs v (1 + extra) in
    match c with
    | CPre => (HErr EThrown, v)
    | CNative => (HOk, truncate_registers v rr)
    | CPreOv =>
      if 255 <? regs v - base v then (HErr EThrown, v)
      else (HErr EThrown, push_regs v extra)                 (* call_overridden_op_N pushed its registers; `?` *)
    | CKoto required body =>
      if 255 <? regs v - base v then (HErr EThrown, v)       (* new_frame_base()? : "Overflow of the .. register stack" *)
      else
        let fb := regs v - base v in
        let v := push_regs v extra in                        (* instance (+ argument) *)
        match enter_koto v fb (extra - 1) required with
        | None => (HPanic, v)
        | Some v => finish_activation (body v) rr
        end
    end.

Definition do_op (c : callee) (extra : Z) (v : vm) : hres * vm :=
  with_register_cleanup (do_op_inner c extra) v.

(* run_import for a file module that has to be executed: placeholder (recursive imports are errors), fresh
   exports map, run the script, then @main if there is one; on Ok the placeholder is replaced by the module's
   exports, on Err it is REMOVED; the importer's exports map is put back on both paths *)
Fixpoint remove_one (m : Z) (l : list Z) : list Z :=
  match l with
  | [] => []
  | x :: r => if x =? m then r else x :: remove_one m r
  end.

Definition do_import (m : Z) (body : vm -> outcome * vm) (required : Z)
                     (main : option (Z * (vm -> outcome * vm))) (v : vm) : hres * vm :=
  if existsb (Z.eqb m) (placeholders v) then (HErr EThrown, v)      (* "recursive import of module" *)
  else
    let saved := exports v in
    let v := set_import v (m :: placeholders v) (saved + 1) in
    let '(r, v) := do_run body required v in
    let '(r, v) :=
      match r, main with
      | HOk, Some (rm, mb) => do_call (CKoto rm mb) 0 v
      | _, _ => (r, v)
      end in
    (r, set_import v (remove_one m (placeholders v)) saved).

Fixpoint exec (c : code) (v : vm) : outcome * vm :=
  match c with
  | Nop => (ONormal, v)
  | Fail => raise error_allow_catch EThrown v
  | Tick => raise timeout_allow_catch ETimeout v
  | Seq a b => match exec a v with
               | (ONormal, v') => exec b v'
               | r => r
               end
  | Call fb required body =>
    let v := push_frame v fb false in
    let v := new_frame v required in
    match exec body v with
    | (ONormal, v') => match pop_frame v' with
                       | Some v'' => (ONormal, v'')
                       | None => (OEscape EThrown, v')
                       end
    | r => r
    end
  | Str body =>
    match exec body (set_strb v (S (strb v))) with
    | (ONormal, v') => (ONormal, set_strb v' (pred (strb v')))
    | r => r                                   (* nothing pops the builder on the error path *)
    end
  | Lst body =>
    match exec body (set_seqb v (S (seqb v))) with
    | (ONormal, v') => (ONormal, set_seqb v' (pred (seqb v')))
    | r => r
    end
  | Try body handler =>
    let depth := length (stack v) in
    match exec body (push_catch v) with
    | (ONormal, v') => (ONormal, pop_catch v')
    | (OUnwind e, v') =>
      if Nat.eqb (length (stack v')) depth
      then exec handler (note_handler (pop_catch v') e)
      else (OUnwind e, v')
    | r => r
    end
  | Import m required body => after_native (do_import m (exec body) required None v)
  | ImportMain m required body rmain main =>
      after_native (do_import m (exec body) required (Some (rmain, exec main)) v)
  | NRun required body => after_native (do_run (exec body) required v)
  | NCallKoto nargs required body => after_native (do_call (CKoto required (exec body)) nargs v)
  | NCallPre nargs => after_native (do_call CPre nargs v)
  | NCallNative nargs => after_native (do_call CNative nargs v)
  | NUnopKoto required body => after_native (do_op (CKoto required (exec body)) 1 v)
  | NUnopPre => after_native (do_op CPre 1 v)
  | NUnopPlain => after_native (do_op CNative 1 v)
  | NBinopKoto required body => after_native (do_op (CKoto required (exec body)) 2 v)
  | NBinopPre => after_native (do_op CPre 2 v)
  | NBinopPlain => after_native (do_op CNative 2 v)
  | NDisplay => (ONormal, v)
  end.

(* A generator's own vm: call_generator pushes ONE frame WITHOUT an execution barrier on a spawned vm (arguments
   and captures in its registers); GeneratorIterator drives it with continue_running, which does nothing once the
   call stack is empty ("finished").  `c` is the bytecode run by this resume, up to its yield / return / error. *)
Definition generator_vm (required : Z) : vm := new_frame (push_frame fresh 0 false) required.

Definition continue_running (c : code) (gv : vm) : hres * vm :=
  match stack gv with
  | [] => (HOk, gv)                                   (* ReturnOrYield::Return(Null): nothing is executed *)
  | _ => match exec c gv with
         | (ONormal, v') => (HOk, v')                 (* yielded (Return additionally pops the frame) *)
         | (OEscape e, v') | (OUnwind e, v') => (HErr e, v')
         | (OPanic, v') => (HPanic, v')
         end
  end.

(* host operations on a runtime instance *)
Inductive hostop :=
| HRun (required : Z) (c : code)                 (* compile_and_run of a script that compiles *)
| HCompileError                                  (* compile_and_run of a script that does not compile *)
| HCallKoto (nargs required : Z) (c : code)      (* call_function on an exported Koto function *)
| HCallPre (nargs : Z)                           (* call_function whose call_callable fails (failing native, arity) *)
| HCallNative (nargs : Z)
| HUnopKoto (required : Z) (c : code) | HUnopPre | HUnopPreOv | HUnopPlain
| HBinopKoto (required : Z) (c : code) | HBinopPre | HBinopPlain
| HDisplay                                       (* value_to_string: runs on a spawned vm *)
| HDisplayFails.                                 (* value_to_string whose @display fails (on the spawned vm) *)

Definition host (h : hostop) (v : vm) : hres * vm :=
  match h with
  | HRun required c => do_run (exec c) required v
  | HCompileError => (HErr EThrown, v)
  | HCallKoto nargs required c => do_call (CKoto required (exec c)) nargs v
  | HCallPre nargs => do_call CPre nargs v
  | HCallNative nargs => do_call CNative nargs v
  | HUnopKoto required c => do_op (CKoto required (exec c)) 1 v
  | HUnopPre => do_op CPre 1 v
  | HUnopPreOv => do_op CPreOv 1 v
  | HUnopPlain => do_op CNative 1 v
  | HBinopKoto required c => do_op (CKoto required (exec c)) 2 v
  | HBinopPre => do_op CPre 2 v
  | HBinopPlain => do_op CNative 2 v
  | HDisplay => (HOk, v)
  | HDisplayFails => (HErr EThrown, v)
  end.

(* ---- class C07b (decidable): an error can be raised between a StringStart / SequenceStart and its finish -----
   `may_fail_any` over-approximates "can end in an error" (a try block is not assumed to catch: a timeout is not
   catchable); `builder_safe` is the complement of the class.  On `flat` code they coincide with may_fail / safe of
   RtProofs. *)
Fixpoint may_fail_any (c : code) : bool :=
  match c with
  | Nop | NDisplay | NCallNative _ | NUnopPlain | NBinopPlain => false
  | Seq a b | Try a b => may_fail_any a || may_fail_any b
  | Call _ _ b | Str b | Lst b | Import _ _ b | NRun _ b | NCallKoto _ _ b | NUnopKoto _ b | NBinopKoto _ b => may_fail_any b
  | ImportMain _ _ b _ m => may_fail_any b || may_fail_any m
  | _ => true
  end.

Fixpoint builder_safe (c : code) : bool :=
  match c with
  | Seq a b | Try a b => builder_safe a && builder_safe b
  | Call _ _ b | Import _ _ b | NRun _ b | NCallKoto _ _ b | NUnopKoto _ b | NBinopKoto _ b => builder_safe b
  | ImportMain _ _ b _ m => builder_safe b && builder_safe m
  | Str b | Lst b => negb (may_fail_any b) && builder_safe b
  | _ => true
  end.

Definition hostop_code (h : hostop) : code :=
  match h with
  | HRun _ c | HCallKoto _ _ c | HUnopKoto _ c | HBinopKoto _ c => c
  | _ => Nop
  end.

(* a finite history of host operations on one instance: results and the state after each step *)
Fixpoint history (ops : list hostop) (v : vm) : list (hres * vm) :=
  match ops with
  | [] => []
  | h :: rest => let r := host h v in r :: (match fst r with HPanic => [] | _ => history rest (snd r) end)
  end.
