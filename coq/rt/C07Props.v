(* C07 — A failed run leaves the runtime reusable and clean.   (level: PARTIAL)
   ONLY the pinned statements live here; every proof is `exact <lemma>` (or a computation on a witness).

   The model (RtModel.v) tracks the execution state the property is about at the level of its sizes:
   (|registers|, |call_stack|, |sequence_builders|, |string_builders|, register_base), plus module-cache
   placeholders and the identity of the active exports map.  A script is abstracted to the structure of its
   size-relevant effects; exports and container contents are OUTSIDE the model (checked against a fresh
   instance by the correspondence check only).

   Classes (decidable predicates on host operations):
     (the former class C07a — entry points returning through an early `?` before truncating — is closed:
      koto aa2ee9a wraps them in with_register_cleanup, which the model follows; no hypothesis is left for it)
     safe (op_code h)  complement of known finding C07b: no error can be raised between StringStart /
                       SequenceStart and the matching finish
     flat (op_code h)  the activation does not re-enter the vm through a native function.
   FULL STATEMENT NOT PROVED (left to the correspondence check): entry_restores for activations that DO re-enter
   the vm (NRun / NCall* / NUnop* / NBinop* / Import in the model); the model evaluates those shapes and is
   compared with the implementation's hook after every step, but the induction is only carried out for
   `flat` code.  history_equiv is proved in the form "every operation of the history starts from and ends in a
   clean state"; that equal clean states give equal results is determinism of the (pure) model function. *)
From Coq Require Import ZArith List Bool Lia.
From KV.rt Require Import GenRtConsts RtModel RtProofs RtRun GenReplFlags ReplModel ReplProofs.
Import ListNotations.
Open Scope Z_scope.

(* registers, call stack and register base are restored by every host operation (early `?` exits included), for every
   outcome (Ok, thrown, runtime error, failed type check, timeout), whatever happens to the builders *)
Theorem entry_restores_frames : forall h, in_class h = true -> forall v, clean v ->
  fst (host h v) <> HPanic /\ frames_clean (snd (host h v)).
Proof. exact entry_restores_frames_thm. Qed.

(* outside C07b: from a clean state every host operation returns to a clean state, for every outcome *)
Theorem entry_restores : forall h, in_class_b h = true -> forall v, clean v ->
  fst (host h v) <> HPanic /\ clean (snd (host h v)).
Proof. exact entry_restores_thm. Qed.

(* corollary over any finite history of host operations *)
Theorem history_equiv : forall ops, forallb in_class_b ops = true -> forall v, clean v ->
  Forall (fun r => fst r <> HPanic /\ clean (snd r)) (history ops v).
Proof. exact history_clean_thm. Qed.

(* formerly known finding C07a, now a positive example: the early-exit operations are in the class, and 300
   failing host-initiated calls of a native function (and the other early exits) leave every size at zero, as
   does an ordinary call after them *)
Theorem early_exit_restored :
  forallb in_class_b [HCallPre 1; HCallPre 0; HUnopPre; HUnopPreOv; HBinopPre] = true /\
  forallb (fun r => match sizes (snd r) with (0, 0, 0, 0, 0) => true | _ => false end)
          (history (repeat_op 300 (HCallPre 1) ++ [HCallPre 0; HUnopPre; HUnopPreOv; HBinopPre; HCallKoto 1 5 Nop; HRun 5 Nop])
                   fresh) = true /\
  length (history (repeat_op 300 (HCallPre 1) ++ [HCallKoto 1 5 Nop]) fresh) = 301%nat.
Proof. vm_compute. repeat split; reflexivity. Qed.

(* known finding C07b: g = || try "{throw 1}" catch e "c" ; "a{g()}b" — the run succeeds and leaves one
   string builder behind; an escaped error inside a list literal leaves a sequence builder *)
Theorem entry_restores_refuted_builders :
  let w := HRun 5 (Str (Call 3 5 (Try (Str Fail) Nop))) in
  in_class w = true /\ safe (op_code w) = false /\
  fst (host w fresh) = HOk /\ sizes (snd (host w fresh)) = (0, 0, 0, 1, 0) /\
  sizes (snd (host (HRun 5 (Lst Fail)) fresh)) = (0, 0, 1, 0, 0).
Proof. vm_compute. repeat split; reflexivity. Qed.

(* generators: an error that escapes a generator's own vm (thrown, runtime error, failed type check, timeout; at any
   depth of calls and try blocks inside it) leaves that vm with an empty call stack, so it is finished: every later
   resume returns without executing anything.  (`flat`: the generator body does not re-enter its vm through natives.) *)
Theorem failed_generator_is_finished : forall c required, flat c = true -> forall e gv',
  exec c (generator_vm required) = (OEscape e, gv') ->
  stack gv' = [] /\ forall c', continue_running c' gv' = (HOk, gv').
Proof. exact failed_generator_is_finished_thm. Qed.
Print Assumptions failed_generator_is_finished.

Example generator_fails_in_called_function :
  let r := continue_running (Seq Nop (Try (Call 3 5 Nop) Nop)) (snd (continue_running (Call 3 5 (Call 3 4 Fail)) (generator_vm 6))) in
  fst (continue_running (Call 3 5 (Call 3 4 Fail)) (generator_vm 6)) = HErr EThrown /\ fst r = HOk /\ stack (snd r) = [].
Proof. vm_compute. repeat split; reflexivity. Qed.

(* value_to_string runs on a spawned vm: nothing of this instance changes *)
Theorem value_to_string_clean : forall v, host HDisplay v = (HOk, v) /\ host HDisplayFails v = (HErr EThrown, v).
Proof. split; reflexivity. Qed.

Theorem compile_error_clean : forall v, host HCompileError v = (HErr EThrown, v).
Proof. reflexivity. Qed.

Print Assumptions entry_restores_frames.
Print Assumptions entry_restores.
Print Assumptions history_equiv.
Print Assumptions early_exit_restored.
Print Assumptions entry_restores_refuted_builders.
Print Assumptions value_to_string_clean.
Print Assumptions compile_error_clean.

(* run_import: a module that fails at run time (at top level, in its @main, or in a nested import) leaves no
   placeholder and the importer's exports map is back: the module RUNS AGAIN when it is imported again (the model's
   Import answers "recursive import" only while the placeholder exists).  Correspondence-only shapes (re-entrant). *)
Example failed_import_leaves_no_placeholder :
  map (fun r => (fst r, placeholders (snd r), exports (snd r), sizes (snd r)))
      (history [HRun 5 (Import 4 5 Fail); HRun 5 (Import 4 5 Fail);
                HRun 5 (ImportMain 7 5 Nop 5 Fail); HRun 5 (Import 9 5 (Import 4 5 Fail));
                HRun 5 (Try (Import 4 5 Fail) Nop)] fresh)
  = [(HErr EThrown, [], 0, (0, 0, 0, 0, 0)); (HErr EThrown, [], 0, (0, 0, 0, 0, 0));
     (HErr EThrown, [], 0, (0, 0, 0, 0, 0)); (HErr EThrown, [], 0, (0, 0, 0, 0, 0));
     (HOk, [], 0, (0, 0, 0, 0, 0))].
Proof. vm_compute. reflexivity. Qed.

(* a recursive import is an error while the placeholder exists *)
Example recursive_import_is_an_error :
  fst (host (HRun 5 (Import 1 5 (Import 1 5 Nop))) fresh) = HErr EThrown.
Proof. vm_compute. reflexivity. Qed.

(* ---- non-vacuity: the class contains failing operations of every kind, at depth -------------- *)
Example class_nonempty :
  forallb in_class_b
    [HRun 5 (Seq (Call 3 5 (Seq (Lst Nop) (Try (Call 3 5 Fail) (Str Nop)))) Fail);   (* caught at depth, then thrown *)
     HRun 5 (Call 3 5 (Try (Call 3 5 Tick) Nop));                                   (* timeout under a try *)
     HCallKoto 2 5 (Call 3 5 Fail); HUnopKoto 5 Fail; HBinopKoto 5 Tick;
     HCallNative 1; HCallPre 2; HUnopPre; HBinopPre; HDisplay; HCompileError] = true.
Proof. vm_compute. reflexivity. Qed.

Example class_history_outcomes :
  map (fun r => fst r)
      (history [HRun 5 (Seq (Call 3 5 (Seq (Lst Nop) (Try (Call 3 5 Fail) (Str Nop)))) Fail);
                HRun 5 (Call 3 5 (Try (Call 3 5 Tick) Nop)); HCallKoto 2 5 (Call 3 5 Fail); HCompileError; HRun 5 Nop] fresh)
  = [HErr EThrown; HErr ETimeout; HErr EThrown; HErr EThrown; HOk].
Proof. vm_compute. reflexivity. Qed.

(* ---- the REPL (crates/cli/src/repl.rs): one runtime instance driven line by line ------------------------------
   ReplModel.on_line is transcribed from Repl::on_line; WHERE continued_lines is reset is regenerated from the
   source text (GenReplFlags.v), so the proofs below are about the checked-out repl.rs: each `eq_refl` is the claim
   that the corresponding exit path clears the buffer. *)

(* after ANY step that ends an entry — the chunk ran (Ok or runtime error), a help query, a compile error that is
   not "needs more input", Ctrl-C — the buffer of continued lines is empty, whatever compiler and runtime answered *)
Theorem buffer_empty_after_run : forall st e a st',
  step st e = (a, st') -> ends_entry a = true -> continued st' = [].
Proof. exact (step_empties eq_refl eq_refl eq_refl eq_refl eq_refl eq_refl). Qed.

(* .. at every such point of every session *)
Theorem buffer_empty_after_run_in_sessions : forall es st acts fin, session es st = (acts, fin) ->
  forall n a, nth_error acts n = Some a -> ends_entry a = true ->
  continued (snd (session (firstn (S n) es) st)) = [].
Proof. exact (session_buffer eq_refl eq_refl eq_refl eq_refl eq_refl eq_refl). Qed.

(* a REPL session behaves like running its completed chunks in order on the one runtime: everything that is handed
   to koto.run during a session, in order, followed by the lines still pending, is a SUBLIST of the typed lines —
   order preserved, no line is ever executed twice (a failed entry is not re-submitted), nothing is invented *)
Theorem session_equals_chunks : forall es acts fin, session es repl_start = (acts, fin) ->
  Sub (ran_lines acts ++ continued fin) (typed_lines es).
Proof.
  intros es acts fin H.
  exact (session_sub eq_refl eq_refl eq_refl eq_refl eq_refl eq_refl es repl_start [] [] acts fin H (Sub_nil)).
Qed.

Print Assumptions buffer_empty_after_run.
Print Assumptions buffer_empty_after_run_in_sessions.
Print Assumptions session_equals_chunks.

(* non-vacuity: `for i in 1..3` / `  push` / `  throw` / blank (runs, fails) / `counter` (runs alone) *)
Example repl_failed_multiline_entry :
  let L := fun i b => mkLine i b 0 in
  let o := fun c r m => mkOracle c false r m in
  let es := [Line (L 1 false) (o CIndent true false); Line (L 2 false) (o COk true false);
             Line (L 3 false) (o COk true false); Line (L 0 true) (o COk false false);
             Line (L 4 false) (o COk true false)] in
  map chunk_of (fst (session es repl_start)) = [[]; []; []; [L 1 false; L 2 false; L 3 false]; [L 4 false]]
  /\ continued (snd (session es repl_start)) = [].
Proof. vm_compute. split; reflexivity. Qed.
