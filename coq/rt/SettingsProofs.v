(* C08 — the KotoSettings builder methods (GenKotoSettings.v is regenerated from crates/koto/src/koto.rs) *)
From Coq Require Import ZArith Bool List Lia.
From KV.rt Require Import GenKotoSettings.
Import ListNotations.
Open Scope Z_scope.

Definition limit_of (s : settings) : option Z := vs_execution_limit (s_vm s).

Definition is_limit (b : builder) : bool := match b with B_with_execution_limit => true | _ => false end.

(* a builder chain: the methods applied left to right *)
Fixpoint apply_chain (chain : list (builder * Z)) (s : settings) : settings :=
  match chain with
  | [] => s
  | (b, a) :: rest => apply_chain rest (apply_builder b a s)
  end.

Lemma other_builders_keep_limit : forall b a s, is_limit b = false -> limit_of (apply_builder b a s) = limit_of s.
Proof. intros b a s H. destruct b; try discriminate H; reflexivity. Qed.

Lemma limit_builder_sets_limit : forall a s, limit_of (apply_builder B_with_execution_limit a s) = Some a.
Proof. reflexivity. Qed.

Lemma chain_keeps_limit : forall chain s, forallb (fun ba => negb (is_limit (fst ba))) chain = true ->
  limit_of (apply_chain chain s) = limit_of s.
Proof.
  induction chain as [|[b a] rest IH]; intros s H; simpl in *; [reflexivity|].
  apply andb_true_iff in H as [Hb Hr]. apply negb_true_iff in Hb.
  rewrite (IH _ Hr). apply other_builders_keep_limit. exact Hb.
Qed.

Lemma apply_chain_app : forall c1 c2 s, apply_chain (c1 ++ c2) s = apply_chain c2 (apply_chain c1 s).
Proof. induction c1 as [|[b a] r IH]; intros; simpl; [reflexivity|apply IH]. Qed.

(* wherever with_execution_limit d stands in the chain: if no later call configures another limit, the runtime is
   built with limit d *)
Lemma limit_survives : forall pre d post s,
  forallb (fun ba => negb (is_limit (fst ba))) post = true ->
  limit_of (apply_chain (pre ++ (B_with_execution_limit, d) :: post) s) = Some d.
Proof.
  intros. rewrite apply_chain_app. simpl. rewrite (chain_keeps_limit post _ H). reflexivity.
Qed.
