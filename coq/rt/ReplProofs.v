(* C07 — proofs about the REPL line state machine *)
From Coq Require Import ZArith List Bool Lia.
From KV.rt Require Import GenReplFlags ReplModel.
Import ListNotations.
Open Scope Z_scope.

Opaque clear_after_run_ok clear_after_run_help clear_after_run_error clear_after_compile_help
       clear_after_compile_error clear_on_interrupt.

Section Flags.
  Hypothesis F1 : clear_after_run_ok = true.
  Hypothesis F2 : clear_after_run_help = true.
  Hypothesis F3 : clear_after_run_error = true.
  Hypothesis F4 : clear_after_compile_help = true.
  Hypothesis F5 : clear_after_compile_error = true.
  Hypothesis F6 : clear_on_interrupt = true.

  Lemma step_empties : forall st e a st', step st e = (a, st') -> ends_entry a = true -> continued st' = [].
  Proof.
    intros st e a st' H E. destruct e as [l o|]; simpl in H.
    - unfold on_line, keep in H. rewrite F1, F2, F3, F4, F5 in H.
      destruct ((match continued st with [] => true | _ => false end) || l_blank l).
      + destruct (o_compile o).
        * destruct (o_run_ok o); [|destruct (o_help o)]; inversion H; reflexivity.
        * destruct (o_help o); [inversion H; reflexivity|].
          destruct (true && match continued st with [] => true | _ => false end);
            inversion H; subst; [discriminate E|reflexivity].
        * destruct (o_help o); [inversion H; reflexivity|].
          simpl in H. inversion H; reflexivity.
      + inversion H; subst. discriminate E.
    - unfold keep in H. rewrite F6 in H. inversion H; reflexivity.
  Qed.

  (* a chunk is only handed to the runtime by a step that ends the entry *)
  Lemma ran_ends : forall st e a st', step st e = (a, st') -> chunk_of a <> [] -> ends_entry a = true.
  Proof. intros. destruct a; simpl in *; try reflexivity; congruence. Qed.

  (* sublists (order preserving, no repetition) *)
  Inductive Sub {A} : list A -> list A -> Prop :=
  | Sub_nil : Sub [] []
  | Sub_skip : forall x a c, Sub a c -> Sub a (x :: c)
  | Sub_take : forall x a c, Sub a c -> Sub (x :: a) (x :: c).

  Lemma Sub_nil_l : forall A (c : list A), Sub [] c.
  Proof. induction c; constructor; auto. Qed.

  Lemma Sub_snoc : forall A (a c : list A) x, Sub a c -> Sub (a ++ [x]) (c ++ [x]).
  Proof.
    induction 1; simpl.
    - apply Sub_take. apply Sub_nil.
    - apply Sub_skip. assumption.
    - apply Sub_take. assumption.
  Qed.

  Lemma Sub_skip_end : forall A (a c : list A) x, Sub a c -> Sub a (c ++ [x]).
  Proof.
    induction 1; simpl.
    - apply Sub_skip. apply Sub_nil.
    - apply Sub_skip. assumption.
    - apply Sub_take. assumption.
  Qed.

  Lemma Sub_prefix : forall A (a b c : list A), Sub (a ++ b) c -> Sub a c.
  Proof.
    intros A a b c H. remember (a ++ b) as ab. revert a b Heqab.
    induction H; intros a' b' E.
    - destruct a'; [constructor|discriminate].
    - apply Sub_skip. eapply IHSub; eauto.
    - destruct a' as [|y a'']; [apply Sub_nil_l|]. simpl in E. inversion E; subst.
      apply Sub_take. eapply IHSub; eauto.
  Qed.

  (* one step: what has been run so far plus what is pending stays a sublist of what has been typed *)
  Lemma step_sub : forall st e a st' done typed,
    step st e = (a, st') -> Sub (done ++ continued st) typed ->
    Sub ((done ++ chunk_of a) ++ continued st') (typed ++ line_of e).
  Proof.
    intros st e a st' done typed H S. destruct e as [l o|]; simpl in H; simpl line_of.
    - unfold on_line, keep in H. rewrite F1, F2, F3, F4, F5 in H.
      destruct (continued st) as [|c0 cr] eqn:C; simpl in H.
      + (* nothing pending *)
        rewrite app_nil_r in S.
        destruct (l_blank l) eqn:B; simpl in H.
        * destruct (o_compile o).
          -- destruct (o_run_ok o); [|destruct (o_help o)]; inversion H; subst; simpl;
               rewrite ?app_nil_r; apply Sub_skip_end; exact S.
          -- destruct (o_help o); inversion H; subst; simpl; rewrite ?app_nil_r.
             ++ apply Sub_skip_end; exact S.
             ++ apply Sub_snoc; exact S.
          -- destruct (o_help o); inversion H; subst; simpl; rewrite ?app_nil_r; apply Sub_skip_end; exact S.
        * destruct (o_compile o).
          -- destruct (o_run_ok o); [|destruct (o_help o)]; inversion H; subst; simpl;
               rewrite ?app_nil_r; apply Sub_snoc; exact S.
          -- destruct (o_help o); inversion H; subst; simpl; rewrite ?app_nil_r.
             ++ apply Sub_skip_end; exact S.
             ++ apply Sub_snoc; exact S.
          -- destruct (o_help o); inversion H; subst; simpl; rewrite ?app_nil_r; apply Sub_skip_end; exact S.
      + (* collecting *)
        destruct (l_blank l) eqn:B; simpl in H.
        * destruct (o_compile o).
          -- destruct (o_run_ok o); [|destruct (o_help o)]; inversion H; subst; simpl;
               rewrite ?app_nil_r; apply Sub_skip_end; exact S.
          -- destruct (o_help o); inversion H; subst; simpl; rewrite ?app_nil_r;
               apply Sub_skip_end; eapply Sub_prefix; exact S.
          -- destruct (o_help o); inversion H; subst; simpl; rewrite ?app_nil_r;
               apply Sub_skip_end; eapply Sub_prefix; exact S.
        * inversion H; subst. simpl. rewrite app_nil_r.
          replace (done ++ c0 :: cr ++ [l]) with ((done ++ c0 :: cr) ++ [l]) by (rewrite <- app_assoc; reflexivity).
          apply Sub_snoc. exact S.
    - unfold keep in H. rewrite F6 in H. inversion H; subst. simpl. rewrite !app_nil_r.
      eapply Sub_prefix. exact S.
  Qed.

  Lemma session_sub : forall es st done typed acts fin,
    session es st = (acts, fin) -> Sub (done ++ continued st) typed ->
    Sub ((done ++ ran_lines acts) ++ continued fin) (typed ++ typed_lines es).
  Proof.
    induction es as [|e rest IH]; intros st done typed acts fin H S; simpl in H.
    - inversion H; subst. simpl. rewrite !app_nil_r. exact S.
    - destruct (step st e) as [a st'] eqn:E. destruct (session rest st') as [acts' fin'] eqn:R.
      inversion H; subst. simpl.
      pose proof (step_sub _ _ _ _ done typed E S) as S1.
      pose proof (IH _ _ _ _ _ R S1) as S2.
      unfold ran_lines in *. simpl. rewrite <- !app_assoc in *. exact S2.
  Qed.

  (* every step of a session that ends an entry leaves the buffer empty *)
  Lemma session_buffer : forall es st acts fin, session es st = (acts, fin) ->
    forall n a, nth_error acts n = Some a -> ends_entry a = true ->
    continued (snd (session (firstn (S n) es) st)) = [].
  Proof.
    induction es as [|e rest IH]; intros st acts fin H n a Hn E; simpl in H.
    - inversion H; subst. destruct n; discriminate.
    - destruct (step st e) as [a0 st'] eqn:S0. destruct (session rest st') as [acts' fin'] eqn:R.
      inversion H; subst. destruct n as [|n]; simpl in Hn.
      + inversion Hn; subst. simpl. rewrite S0. simpl. exact (step_empties _ _ _ _ S0 E).
      + simpl. rewrite S0.
        pose proof (IH st' acts' _ R n a Hn E) as Q. simpl in Q.
        destruct (session (match rest with [] => [] | x :: l => x :: firstn n l end) st') eqn:Z.
        simpl in *. exact Q.
  Qed.
End Flags.
