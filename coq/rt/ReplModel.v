(* C07 — the line state machine of the REPL (crates/cli/src/repl.rs: Repl::on_line and the Ctrl-C arm of Repl::run).
   Definitions only.  The REPL is ONE runtime instance driven line by line; what it hands to koto.run is modelled,
   the runtime itself is the subject of RtModel.  Where `continued_lines` is reset is read from the source text
   (GenReplFlags.v); what the compiler and the runtime answer for an input is an oracle attached to each line. *)
From Coq Require Import ZArith List Bool.
From KV.rt Require Import GenReplFlags.
Import ListNotations.
Open Scope Z_scope.

Record line := mkLine {
  l_id : Z;               (* identity of the text *)
  l_blank : bool;         (* line.chars().all(char::is_whitespace) *)
  l_lead : Z              (* position of the first non-whitespace character (0 if there is none) *)
}.

Inductive compile_res := COk | CIndent | COther.     (* Ok / error with is_indentation_error() / any other error *)

(* the answers of compiler, help lookup and runtime for the input built from this line *)
Record oracle := mkOracle {
  o_compile : compile_res;   (* koto.compile of the evaluated input *)
  o_help : bool;             (* run_help(input) is Some *)
  o_run_ok : bool;           (* koto.run(chunk) is Ok *)
  o_more_indent : bool       (* collecting: compile of the lines so far is an indentation error *)
}.

Record repl := mkRepl { continued : list line; indent : Z }.
Definition repl_start : repl := mkRepl [] 0.

Inductive action :=
| Ran (chunk : list line) (ok : bool)      (* the chunk was handed to koto.run *)
| RanHelp (chunk : list line)              (* run failed and the input was a help query *)
| CompileHelp                              (* did not compile, was a help query *)
| CompileError                             (* did not compile: error printed *)
| NeedMore                                 (* incomplete: start collecting *)
| Collected                                (* appended to the pending entry *)
| Interrupted.                             (* Ctrl-C *)

Definition keep (flag : bool) (st : repl) : list line := if flag then [] else continued st.

Definition next_indent (cont : list line) (more : bool) : Z :=
  match rev cont with
  | [] => 0
  | l :: _ => if more then l_lead l + repl_indent_size else l_lead l
  end.

(* Repl::on_line *)
Definition on_line (st : repl) (l : line) (o : oracle) : action * repl :=
  if (match continued st with [] => true | _ => false end) || l_blank l then
    let input := continued st ++ (if l_blank l then [] else [l]) in
    match o_compile o with
    | COk =>
      if o_run_ok o then
        let c := keep clear_after_run_ok st in (Ran input true, mkRepl c (next_indent c false))
      else if o_help o then
        let c := keep clear_after_run_help st in (RanHelp input, mkRepl c (next_indent c false))
      else
        let c := keep clear_after_run_error st in (Ran input false, mkRepl c (next_indent c false))
    | cerr =>
      if o_help o then
        let c := keep clear_after_compile_help st in (CompileHelp, mkRepl c (next_indent c false))
      else if (match cerr with CIndent => true | _ => false end) && (match continued st with [] => true | _ => false end) then
        (NeedMore, mkRepl [l] (next_indent [l] true))
      else
        let c := keep clear_after_compile_error st in (CompileError, mkRepl c (next_indent c false))
    end
  else
    let c := continued st ++ [l] in
    (Collected, mkRepl c (next_indent c (o_more_indent o))).

Inductive event := Line (l : line) (o : oracle) | CtrlC.

Definition step (st : repl) (e : event) : action * repl :=
  match e with
  | Line l o => on_line st l o
  | CtrlC => (Interrupted, mkRepl (keep clear_on_interrupt st) 0)
  end.

(* a session: the actions taken, and the final state *)
Fixpoint session (es : list event) (st : repl) : list action * repl :=
  match es with
  | [] => ([], st)
  | e :: rest => let '(a, st') := step st e in
                 let '(acts, fin) := session rest st' in (a :: acts, fin)
  end.

Definition chunk_of (a : action) : list line :=
  match a with Ran c _ | RanHelp c => c | _ => [] end.

(* everything handed to the runtime, in order *)
Definition ran_lines (acts : list action) : list line := flat_map chunk_of acts.

Definition line_of (e : event) : list line := match e with Line l _ => [l] | CtrlC => [] end.
Definition typed_lines (es : list event) : list line := flat_map line_of es.

(* does this action end an entry (anything but "needs more input" / "collected")? *)
Definition ends_entry (a : action) : bool :=
  match a with NeedMore | Collected => false | _ => true end.
