(* C08 — The execution limit stops runaway scripts.   (level: PARTIAL — see the Section hypotheses)
   ONLY the pinned statements live here; every proof is `exact <lemma>`.
   What is proved is the LOGIC of the limit (timer state machine, unwinding).  That real instructions take
   between dmin and dmax, that `Instant` is monotone, and how the OS schedules the process are runtime
   behaviour: they appear as hypotheses, not as claims. *)
From Coq Require Import ZArith List Bool Lia.
From KV.rt Require Import GenRtConsts TimeoutModel TimeoutProofs RtModel RtProofs GenKotoSettings SettingsProofs.
Import ListNotations.
Open Scope Z_scope.

Section Timer.
  (* the interval adjustment `(n as f64 * (next / elapsed)) as usize`: ANY function within +1 of the exact
     quotient (covers the f64 rounding); the scripted clock; cfg!(debug_assertions); the limit in ns *)
  Variable adj : Z -> Z -> Z -> Z.
  Variable now : nat -> Z.
  Variable debug : bool.
  Variable lim : Z.

  (* one call of check_for_timeout: below the interval it only counts (no clock read, nothing else changes);
     at the interval it reads the clock, fires iff the deadline is reached, and otherwise re-arms with
     next interval = adj interval (min (limit/10, deadline - now)) (now - last_check) *)
  Theorem check_cadence : forall tm t,
    (since tm < interval_instr tm ->
       check adj tm t = (false, with_since tm (since tm + 1))) /\
    (interval_instr tm <= since tm ->
       check adj tm t =
         if deadline tm <=? t then (true, tm)
         else (false, mkTimer t (deadline tm) (interval_ns tm)
                        (adj (interval_instr tm) (Z.min (interval_ns tm) (deadline tm - t)) (Z.max 0 (t - last_check tm)))
                        0 (limit tm))).
  Proof. intros; split; [exact (check_counting adj tm t)|exact (check_reading adj tm t)]. Qed.

  (* between two clock reads exactly `interval_instructions` calls (instructions) pass without one:
     from a state reached after k calls, the next j <= interval - since calls only count *)
  Theorem cadence_run : forall j k tm,
    st adj now debug lim k = Some tm -> since tm + Z.of_nat j <= interval_instr tm ->
    st adj now debug lim (k + j) = Some (with_since tm (since tm + Z.of_nat j)).
  Proof. exact (skip adj now debug lim). Qed.

  (* a timeout is never reported before the limit has elapsed on the clock *)
  Theorem timeout_not_early : forall k, fires_at adj now debug lim k -> now 0 + lim <= now k.
  Proof. exact (fires_not_early adj now debug lim). Qed.

  (* THE HONEST CONTENT: assuming every instruction takes between dmin > 0 and dmax ns, a run that does not
     end by itself is stopped, at a clock value t with
         t <= start + (N0 + 1) dmax                                    (the first check), or
         (t - (start + limit)) dmin <= (limit/10)(dmax - dmin) + 2 dmax dmin
     i.e.  t <= start + limit + (limit/10)(dmax/dmin - 1) + 2 dmax *)
  Theorem timeout_bound : forall dmin dmax,
    0 < dmin ->
    (forall k, dmin <= now (S k) - now k) ->
    (forall k, now (S k) - now k <= dmax) ->
    adj_ok adj -> 0 <= lim ->
    exists k, fires_at adj now debug lim k /\
      (now k <= now 0 + (interval_instr (timer_new debug lim (now 0)) + 1) * dmax \/
       (now k - (now 0 + lim)) * dmin <= lim / 10 * (dmax - dmin) + 2 * dmax * dmin).
  Proof. exact (TimeoutProofs.timeout_bound adj now debug lim). Qed.

  (* a script that executes `len` instructions and ends before the deadline returns what it returns
     without a limit (monotone clock) *)
  Theorem terminating_unaffected :
    (forall k, now k <= now (S k)) ->
    forall A len (v : A), now len < now 0 + lim ->
      exec_limited adj now debug lim len v = exec_unlimited len v.
  Proof. exact (TimeoutProofs.terminating_unaffected adj now debug lim). Qed.
End Timer.

(* the exact-rational reading of the adjustment satisfies the hypothesis of timeout_bound *)
Theorem adj_exact_satisfies_hypothesis : adj_ok adj_exact.
Proof. exact adj_exact_ok. Qed.

(* pop_call_stack_on_error(_, allow_catch = false): whatever the catch stacks of the frames hold, no catch
   point is returned, and the call stack is cut exactly down to the first execution barrier *)
Theorem timeout_never_caught_by_unwinding : forall stk v, stack v = stk ->
  fst (unwind false stk v) = false /\ stack (snd (unwind false stk v)) = drop_to_barrier stk /\
  timeouts_delivered (snd (unwind false stk v)) = timeouts_delivered v /\
  handlers_run (snd (unwind false stk v)) = handlers_run v.
Proof. exact unwind_false. Qed.

(* a Timeout raised by the deadline poll of an activation (any call depth, under any try/catch nesting) is
   never delivered to a catch block of that activation.  Class: `flat` — the activation's bytecode does
   not re-enter the vm through a native function (outside the class: nested_timeout_catchable_refuted).
   The statement depends on the allow_catch flag regenerated from vm.rs. *)
Theorem timeout_not_catchable : forall c, flat c = true -> forall v o v',
  exec c v = (o, v') -> timeouts_delivered v' = timeouts_delivered v /\ o <> OUnwind ETimeout.
Proof. exact (timeout_flat eq_refl). Qed.

(* known finding C08a: a timeout raised in a NESTED activation (here: a Koto function called back by a
   native function) is an ordinary error for the enclosing activation: its catch block runs and the
   script ends normally *)
Theorem nested_timeout_catchable_refuted :
  let r := host (HRun 1 (Try (NCallKoto 0 1 Tick) Nop)) fresh in
  fst r = HOk /\ timeouts_delivered (snd r) = 1%nat /\ sizes (snd r) = (0, 0, 0, 0, 0).
Proof. vm_compute. repeat split; reflexivity. Qed.

(* ---- configuration through the public builder API (GenKotoSettings.v: regenerated from koto.rs) ------------ *)

(* every KotoSettings builder method other than with_execution_limit leaves the configured limit unchanged *)
Theorem builders_preserve_limit : forall b a s, is_limit b = false -> limit_of (apply_builder b a s) = limit_of s.
Proof. exact other_builders_keep_limit. Qed.

(* so, in any order of the builder calls: if with_execution_limit d is called and no later call configures another
   limit, the runtime is built with limit d *)
Theorem limit_survives_any_chain : forall pre d post s,
  forallb (fun ba => negb (is_limit (fst ba))) post = true ->
  limit_of (apply_chain (pre ++ (B_with_execution_limit, d) :: post) s) = Some d.
Proof. exact limit_survives. Qed.

Print Assumptions builders_preserve_limit.
Print Assumptions limit_survives_any_chain.
Print Assumptions check_cadence.
Print Assumptions cadence_run.
Print Assumptions timeout_not_early.
Print Assumptions timeout_bound.
Print Assumptions terminating_unaffected.
Print Assumptions adj_exact_satisfies_hypothesis.
Print Assumptions timeout_never_caught_by_unwinding.
Print Assumptions timeout_not_catchable.
Print Assumptions nested_timeout_catchable_refuted.

(* ---- non-vacuity ------------------------------------------------------------------------------ *)

(* a clock satisfying the hypotheses of timeout_bound (40 ns per instruction), limit 1 ms, debug build:
   first interval 1000 instructions; the model fires, at call 25026 = 1.00104 ms *)
Definition clock40 (k : nat) : Z := 40 * Z.of_nat k.
Example bound_hypotheses_satisfiable :
  (forall k, 40 <= clock40 (S k) - clock40 k) /\ (forall k, clock40 (S k) - clock40 k <= 40).
Proof. unfold clock40; split; intros; lia. Qed.

Example first_interval_1ms : interval_instr (timer_new true 1000000 0) = 1000.
Proof. vm_compute. reflexivity. Qed.

(* the same-activation version of the refuted witness: try { loop } catch — the handler does not run *)
Example flat_timeout_escapes :
  let r := host (HRun 1 (Try (Call 1 3 (Try Tick Nop)) Nop)) fresh in
  fst r = HErr ETimeout /\ handlers_run (snd r) = 0%nat /\ sizes (snd r) = (0, 0, 0, 0, 0).
Proof. vm_compute. repeat split; reflexivity. Qed.

(* an ordinary error in the same position IS caught (the model does not trivially escape everything) *)
Example flat_error_is_caught :
  let r := host (HRun 1 (Try (Call 1 3 (Try Fail Nop)) Nop)) fresh in
  fst r = HOk /\ handlers_run (snd r) = 1%nat.
Proof. vm_compute. repeat split; reflexivity. Qed.

(* non-vacuity: the chain of the seeded scenario (limit, then stdout) on the regenerated builders *)
Example limit_then_stdout :
  limit_of (apply_chain [(B_with_execution_limit, 50); (B_with_stdout, 1); (B_with_stderr, 2)] s_default) = Some 50
  /\ length all_builders = 8%nat.
Proof. vm_compute. split; reflexivity. Qed.
