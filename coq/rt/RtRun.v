(* encoders used by the correspondence checks (results: nested lists / tuples of Z and bool) *)
From Coq Require Import ZArith List Bool.
From KV.rt Require Import TimeoutModel RtModel ReplModel.
Import ListNotations.
Open Scope Z_scope.

Definition hres_code (r : hres) : Z :=
  match r with HOk => 0 | HErr EThrown => 1 | HErr ETimeout => 2 | HPanic => 3 end.

Definition sizes_list (v : vm) : list Z :=
  [regs v; Z.of_nat (length (stack v)); Z.of_nat (seqb v); Z.of_nat (strb v); base v;
   Z.of_nat (length (placeholders v)); exports v; Z.of_nat (timeouts_delivered v)].

(* C07: the history of host operations from a fresh instance *)
Definition history_out (ops : list hostop) : list (Z * list Z) :=
  map (fun r => (hres_code (fst r), sizes_list (snd r))) (history ops fresh).

(* per operation: is it in class C07b (an error can be raised while a string / sequence is under construction)? *)
Definition c07b_flags (ops : list hostop) : list bool := map (fun h => negb (builder_safe (hostop_code h))) ops.
Definition history_out2 (ops : list hostop) : list (Z * list Z) * list bool := (history_out ops, c07b_flags ops).

(* n repetitions of one operation *)
Fixpoint repeat_op (n : nat) (h : hostop) : list hostop :=
  match n with O => [] | S n' => h :: repeat_op n' h end.

(* C08: the timer against a scripted clock; the implementation's adjustments are the oracle *)
(* the clock is given run-length encoded: start value and segments (count, increment per call) *)
Fixpoint ramp (n : nat) (t d : Z) : list Z :=
  match n with O => [] | S n' => (t + d) :: ramp n' (t + d) d end.
Fixpoint expand (t : Z) (segs : list (Z * Z)) : list Z :=
  match segs with
  | [] => []
  | (c, d) :: rest => ramp (Z.to_nat c) t d ++ expand (t + c * d) rest
  end.

(* n0: the first interval as computed by the implementation in f64 (compared with timer_first by the caller) *)
Definition timer_out (debug : bool) (lim : Z) (t0 : Z) (segs : list (Z * Z)) (n0 : Z) (orc : list Z)
  : list (Z * bool * Z * Z) :=
  let tm := timer_new debug lim t0 in
  reads_oracle 1 (mkTimer (last_check tm) (deadline tm) (interval_ns tm) n0 (since tm) (limit tm)) (expand t0 segs) orc.

Definition timer_first (debug : bool) (lim : Z) : Z := interval_instr (timer_new debug lim 0).

(* C07 REPL: per typed line (action code, number of pending lines afterwards) *)
Definition action_code (a : action) : Z :=
  match a with
  | Ran _ true => 0 | Ran _ false => 1 | RanHelp _ => 2 | CompileHelp => 3 | CompileError => 4
  | NeedMore => 5 | Collected => 6 | Interrupted => 7
  end.
Fixpoint repl_trace (es : list event) (st : repl) : list (Z * Z * Z) :=
  match es with
  | [] => []
  | e :: rest => let '(a, st') := step st e in
                 (action_code a, Z.of_nat (length (continued st')), Z.of_nat (length (chunk_of a))) :: repl_trace rest st'
  end.
Definition repl_out (es : list event) : list (Z * Z * Z) := repl_trace es repl_start.
