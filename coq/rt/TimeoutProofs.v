(* C08 — proofs about the timer model *)
From Coq Require Import ZArith List Bool Lia Arith.
From KV.rt Require Import TimeoutModel.
Import ListNotations.
Open Scope Z_scope.

Lemma sat_usize_nonneg : forall x, 0 <= sat_usize x.
Proof. intros; unfold sat_usize; lia. Qed.

Lemma sat_usize_le : forall x, 0 <= x -> sat_usize x <= x.
Proof. intros; unfold sat_usize; lia. Qed.

(* the exact reading satisfies what the theorems assume of the adjustment *)
Lemma adj_exact_ok : adj_ok adj_exact.
Proof.
  intros n next e Hn Hx He. unfold adj_exact.
  destruct (e =? 0) eqn:E; [apply Z.eqb_eq in E; lia|].
  split; [apply sat_usize_nonneg|].
  assert (0 <= n * next) by nia.
  assert (0 <= n * next / e) by (apply Z.div_pos; lia).
  pose proof (sat_usize_le (n * next / e) H0).
  pose proof (Z.mul_div_le (n * next) e He).
  assert (0 <= sat_usize (n * next / e)) by apply sat_usize_nonneg.
  nia.
Qed.

Section Timer.
  Variable adj : Z -> Z -> Z -> Z.
  Variable now : nat -> Z.
  Variable debug : bool.
  Variable lim : Z.

  Notation st := (st adj now debug lim).
  Notation fires_at := (fires_at adj now debug lim).

  Definition with_since (tm : timer) (s : Z) : timer :=
    mkTimer (last_check tm) (deadline tm) (interval_ns tm) (interval_instr tm) s (limit tm).

  (* ---- cadence ------------------------------------------------------------------------- *)

  (* a call that does not read the clock only counts *)
  Lemma check_counting : forall tm t, since tm < interval_instr tm ->
    check adj tm t = (false, with_since tm (since tm + 1)).
  Proof.
    intros. unfold check. destruct (since tm <? interval_instr tm) eqn:E.
    - reflexivity.
    - apply Z.ltb_ge in E. lia.
  Qed.

  (* a call with the counter at the interval reads the clock: fires iff the deadline is reached,
     otherwise re-arms: counter 0, last_check = now, and the next interval is
     adj interval (min(limit/10, deadline - now)) (now - last_check) *)
  Lemma check_reading : forall tm t, interval_instr tm <= since tm ->
    check adj tm t =
      if deadline tm <=? t then (true, tm)
      else (false, mkTimer t (deadline tm) (interval_ns tm)
                     (adj (interval_instr tm) (Z.min (interval_ns tm) (deadline tm - t))
                          (Z.max 0 (t - last_check tm))) 0 (limit tm)).
  Proof.
    intros. unfold check. destruct (since tm <? interval_instr tm) eqn:E.
    - apply Z.ltb_lt in E. lia.
    - reflexivity.
  Qed.

  (* j calls after a state with `since + j <= interval`: none reads the clock, the counter advances by j *)
  Lemma skip : forall j k tm, st k = Some tm -> since tm + Z.of_nat j <= interval_instr tm ->
    st (k + j) = Some (with_since tm (since tm + Z.of_nat j)).
  Proof.
    induction j; intros k tm Hst Hle.
    - rewrite Nat.add_0_r, Hst. f_equal. destruct tm; unfold with_since; simpl. f_equal. lia.
    - replace (k + S j)%nat with (S (k + j)) by lia. simpl.
      rewrite (IHj k tm Hst) by lia.
      rewrite check_counting by (simpl; lia).
      simpl. f_equal. unfold with_since; simpl. f_equal. lia.
  Qed.

  (* ---- the timeout is never early ------------------------------------------------------- *)

  Lemma st_deadline : forall k tm, st k = Some tm -> deadline tm = now 0 + lim.
  Proof.
    induction k; intros tm H; simpl in H.
    - inversion H. reflexivity.
    - destruct (st k) as [tm0|] eqn:E; [|discriminate].
      specialize (IHk tm0 eq_refl).
      unfold check in H.
      destruct (since tm0 <? interval_instr tm0).
      + inversion H; subst; simpl; assumption.
      + destruct (deadline tm0 <=? now (S k)); [discriminate|].
        inversion H; subst; simpl; assumption.
  Qed.

  Lemma fires_not_early : forall k, fires_at k -> now 0 + lim <= now k.
  Proof.
    intros k (k' & tm & -> & Hst & Hf).
    rewrite <- (st_deadline _ _ Hst).
    unfold check in Hf.
    destruct (since tm <? interval_instr tm); [simpl in Hf; discriminate|].
    destruct (deadline tm <=? now (S k')) eqn:E; [apply Z.leb_le in E; exact E|simpl in Hf; discriminate].
  Qed.

  (* ---- bounded lateness under the timing hypothesis ------------------------------------- *)
  Section Bound.
    Variables dmin dmax : Z.
    Hypothesis dmin_pos : 0 < dmin.
    Hypothesis step_lo : forall k, dmin <= now (S k) - now k.
    Hypothesis step_hi : forall k, now (S k) - now k <= dmax.
    Hypothesis adj_good : adj_ok adj.
    Hypothesis lim_nonneg : 0 <= lim.

    Lemma dmin_le_dmax : dmin <= dmax.
    Proof. pose proof (step_lo 0%nat). pose proof (step_hi 0%nat). lia. Qed.

    Lemma span_lo : forall j k, Z.of_nat j * dmin <= now (k + j) - now k.
    Proof.
      induction j; intros.
      - rewrite Nat.add_0_r. lia.
      - replace (k + S j)%nat with (S (k + j)) by lia.
        pose proof (step_lo (k + j)). specialize (IHj k). lia.
    Qed.

    Lemma span_hi : forall j k, now (k + j) - now k <= Z.of_nat j * dmax.
    Proof.
      induction j; intros.
      - rewrite Nat.add_0_r. lia.
      - replace (k + S j)%nat with (S (k + j)) by lia.
        pose proof (step_hi (k + j)). specialize (IHj k). lia.
    Qed.

    Let I := lim / 10.
    Let DL := now 0 + lim.
    (* lateness allowed to every check but the first one, scaled by dmin (no division) *)
    Let SL := I * (dmax - dmin) + 2 * dmax * dmin.

    (* "just after a clock read at call k that did not fire" *)
    Definition armed (k : nat) (tm : timer) : Prop :=
      st k = Some tm /\ since tm = 0 /\ last_check tm = now k /\ interval_ns tm = I /\
      0 <= interval_instr tm.

    Lemma I_nonneg : 0 <= I.
    Proof. unfold I. apply Z.div_pos; lia. Qed.

    (* from an armed state whose next read is not later than allowed, the timer fires in time *)
    Lemma armed_fires : forall m k tm,
      Z.to_nat (DL - now k) = m -> armed k tm -> now k < DL ->
      (now (k + Z.to_nat (interval_instr tm) + 1) - DL) * dmin <= SL ->
      exists k', fires_at k' /\ (now k' - DL) * dmin <= SL.
    Proof.
      induction m as [m IH] using lt_wf_ind.
      intros k tm Hm (Hst & Hs & Hl & Hi & Hn) Hlt Hb.
      set (n := Z.to_nat (interval_instr tm)) in *.
      assert (Hsk : st (k + n) = Some (with_since tm (interval_instr tm))).
      { rewrite (skip n k tm Hst) by (unfold n; rewrite Z2Nat.id; lia).
        f_equal. unfold n. rewrite Z2Nat.id by lia. rewrite Hs. reflexivity. }
      set (k1 := (k + n + 1)%nat) in *.
      assert (Hk1 : k1 = S (k + n)) by (unfold k1; lia).
      pose proof (st_deadline _ _ Hst) as Hd. fold DL in Hd.
      pose proof (check_reading (with_since tm (interval_instr tm)) (now k1)) as Hc.
      simpl in Hc. specialize (Hc (Z.le_refl _)).
      destruct (deadline tm <=? now k1) eqn:E.
      - (* fires at k1 *)
        exists k1. split; [|exact Hb].
        exists (k + n)%nat, (with_since tm (interval_instr tm)). repeat split; auto.
        rewrite Hc. reflexivity.
      - apply Z.leb_gt in E. rewrite Hd in E.
        (* re-armed at k1 *)
        set (e := now k1 - now k) in *.
        assert (He : Z.of_nat (n + 1) * dmin <= e).
        { unfold e, k1. replace (k + n + 1)%nat with (k + (n + 1))%nat by lia. apply span_lo. }
        assert (Hn1 : Z.of_nat (n + 1) = interval_instr tm + 1).
        { rewrite Nat2Z.inj_add. unfold n. rewrite Z2Nat.id by lia. reflexivity. }
        assert (Hepos : 0 < e) by nia.
        set (D := Z.min I (DL - now k1)) in *.
        assert (HD : 0 <= D) by (pose proof I_nonneg; unfold D; lia).
        set (n' := adj (interval_instr tm) D e) in *.
        destruct (adj_good (interval_instr tm) D e Hn HD Hepos) as [Hn'0 Hn'].
        fold n' in Hn'0, Hn'.
        set (tm' := mkTimer (now k1) (deadline tm) (interval_ns tm) n' 0 (limit tm)).
        assert (Hst' : st k1 = Some tm').
        { rewrite Hk1. simpl. rewrite Hsk. rewrite <- Hk1. rewrite Hc.
          unfold tm', n', D, e. simpl. rewrite Hl, Hi, Hd.
          replace (Z.max 0 (now k1 - now k)) with (now k1 - now k) by lia. reflexivity. }
        assert (Harm : armed k1 tm').
        { unfold armed, tm'; simpl. repeat split; auto. }
        (* (n' - 1) * dmin <= D *)
        assert (Hkey : (n' - 1) * dmin <= D).
        { destruct (Z.eq_dec n' 0) as [->|Hnz]; [lia|].
          assert (1 <= n') by lia.
          assert ((n' - 1) * e <= interval_instr tm * D) by nia.
          assert ((n' - 1) * ((interval_instr tm + 1) * dmin) <= (n' - 1) * e) by nia.
          assert ((n' - 1) * dmin * (interval_instr tm + 1) <= D * interval_instr tm) by nia.
          assert (D * interval_instr tm <= D * (interval_instr tm + 1)) by nia.
          nia. }
        assert (Hnext : (now (k1 + Z.to_nat n' + 1) - DL) * dmin <= SL).
        { pose proof (span_hi (Z.to_nat n' + 1) k1) as Hh.
          replace (k1 + (Z.to_nat n' + 1))%nat with (k1 + Z.to_nat n' + 1)%nat in Hh by lia.
          rewrite Nat2Z.inj_add, Z2Nat.id in Hh by lia. change (Z.of_nat 1) with 1 in Hh.
          pose proof dmin_le_dmax.
          assert (HDle : D <= DL - now k1) by (unfold D; lia).
          assert (HDI : D <= I) by (unfold D; lia).
          unfold SL.
          (* (t' - DL) dmin <= ((n'+1) dmax - (DL - t)) dmin <= D dmax + 2 dmax dmin - D dmin *)
          assert ((now (k1 + Z.to_nat n' + 1) - now k1) * dmin <= (n' + 1) * dmax * dmin) by nia.
          assert ((n' + 1) * dmax * dmin = (n' - 1) * dmin * dmax + 2 * dmax * dmin) by ring.
          assert ((n' - 1) * dmin * dmax <= D * dmax) by nia.
          assert (D * (dmax - dmin) <= I * (dmax - dmin)) by nia.
          nia. }
        assert (Hmeas : (Z.to_nat (DL - now k1) < m)%nat).
        { rewrite <- Hm. apply Z2Nat.inj_lt; lia. }
        exact (IH _ Hmeas k1 tm' eq_refl Harm E Hnext).
    Qed.

    Let N0 := interval_instr (timer_new debug lim (now 0)).

    (* the run is stopped, and not later than the larger of: the first interval, or
       limit + (limit/10)(dmax/dmin - 1) + 2 dmax *)
    Theorem timeout_bound :
      exists k, fires_at k /\
        (now k <= now 0 + (N0 + 1) * dmax \/ (now k - (now 0 + lim)) * dmin <= SL).
    Proof.
      assert (HN0 : 0 <= N0) by (unfold N0; simpl; apply sat_usize_nonneg).
      set (tm0 := timer_new debug lim (now 0)).
      assert (Hst0 : st 0 = Some tm0) by reflexivity.
      set (n := Z.to_nat N0).
      assert (Hsk : st (0 + n) = Some (with_since tm0 N0)).
      { rewrite (skip n 0 tm0 Hst0).
        - f_equal. unfold n. rewrite Z2Nat.id by lia. reflexivity.
        - unfold n. rewrite Z2Nat.id by lia. unfold tm0, N0. simpl. lia. }
      simpl in Hsk.
      set (k1 := S n).
      pose proof (check_reading (with_since tm0 N0) (now k1)) as Hc.
      simpl in Hc. fold N0 in Hc. specialize (Hc (Z.le_refl _)).
      assert (Hfirst : now k1 <= now 0 + (N0 + 1) * dmax).
      { pose proof (span_hi k1 0) as Hh. change (0 + k1)%nat with k1 in Hh.
        assert (Z.of_nat k1 = N0 + 1) by (unfold k1, n; rewrite Nat2Z.inj_succ, Z2Nat.id; lia).
        lia. }
      destruct (now 0 + lim <=? now k1) eqn:E.
      - exists k1. split; [|left; exact Hfirst].
        exists n, (with_since tm0 N0). repeat split; auto. rewrite Hc. reflexivity.
      - apply Z.leb_gt in E.
        set (e := now k1 - now 0).
        assert (He : (N0 + 1) * dmin <= e).
        { pose proof (span_lo k1 0) as Hl. change (0 + k1)%nat with k1 in Hl.
          assert (Z.of_nat k1 = N0 + 1) by (unfold k1, n; rewrite Nat2Z.inj_succ, Z2Nat.id; lia).
          unfold e. lia. }
        assert (Hepos : 0 < e) by nia.
        set (D := Z.min I (DL - now k1)).
        assert (HD : 0 <= D) by (pose proof I_nonneg; unfold D, DL; lia).
        set (n' := adj N0 D e).
        destruct (adj_good N0 D e HN0 HD Hepos) as [Hn'0 Hn']. fold n' in Hn'0, Hn'.
        set (tm' := mkTimer (now k1) (now 0 + lim) I n' 0 lim).
        assert (Hst' : st k1 = Some tm').
        { unfold k1. simpl. rewrite Hsk. fold k1. rewrite Hc.
          unfold tm', n', D, e, DL, I. simpl.
          replace (Z.max 0 (now k1 - now 0)) with (now k1 - now 0) by (unfold e in Hepos; lia).
          reflexivity. }
        assert (Harm : armed k1 tm') by (unfold armed, tm'; simpl; repeat split; auto).
        assert (Hkey : (n' - 1) * dmin <= D).
        { destruct (Z.eq_dec n' 0) as [->|Hnz]; [lia|].
          assert (1 <= n') by lia.
          assert ((n' - 1) * e <= N0 * D) by nia.
          assert ((n' - 1) * ((N0 + 1) * dmin) <= (n' - 1) * e) by nia.
          assert ((n' - 1) * dmin * (N0 + 1) <= D * N0) by nia.
          assert (D * N0 <= D * (N0 + 1)) by nia.
          nia. }
        assert (Hnext : (now (k1 + Z.to_nat (interval_instr tm') + 1) - DL) * dmin <= SL).
        { change (interval_instr tm') with n'. pose proof (span_hi (Z.to_nat n' + 1) k1) as Hh.
          replace (k1 + (Z.to_nat n' + 1))%nat with (k1 + Z.to_nat n' + 1)%nat in Hh by lia.
          rewrite Nat2Z.inj_add, Z2Nat.id in Hh by lia. change (Z.of_nat 1) with 1 in Hh.
          pose proof dmin_le_dmax.
          assert (HDle : D <= DL - now k1) by (unfold D; lia).
          assert (HDI : D <= I) by (unfold D; lia).
          unfold SL.
          assert ((now (k1 + Z.to_nat n' + 1) - now k1) * dmin <= (n' + 1) * dmax * dmin) by nia.
          assert ((n' + 1) * dmax * dmin = (n' - 1) * dmin * dmax + 2 * dmax * dmin) by ring.
          assert ((n' - 1) * dmin * dmax <= D * dmax) by nia.
          assert (D * (dmax - dmin) <= I * (dmax - dmin)) by nia.
          nia. }
        destruct (armed_fires _ k1 tm' eq_refl Harm E Hnext) as (k' & Hf & Hb).
        exists k'. split; [exact Hf|right; exact Hb].
    Qed.
  End Bound.

  (* ---- terminating runs are unaffected ---------------------------------------------------- *)
  Section Unaffected.
    Hypothesis mono : forall k, now k <= now (S k).

    Lemma mono_le : forall j k, now k <= now (k + j).
    Proof.
      induction j; intros.
      - rewrite Nat.add_0_r. lia.
      - replace (k + S j)%nat with (S (k + j)) by lia. pose proof (mono (k + j)). specialize (IHj k). lia.
    Qed.

    Lemma exec_from_finishes : forall A fuel k tm (v : A),
      (forall j, (j <= fuel)%nat -> now (k + j) < deadline tm) ->
      exec_from adj now fuel k tm v = Finished v.
    Proof.
      induction fuel; intros k tm v H; simpl; [reflexivity|].
      assert (Hd : now (S k) < deadline tm).
      { specialize (H 1%nat ltac:(lia)). replace (k + 1)%nat with (S k) in H by lia. exact H. }
      unfold check. destruct (since tm <? interval_instr tm).
      - apply IHfuel. simpl. intros j Hj. specialize (H (S j) ltac:(lia)).
        replace (k + S j)%nat with (S k + j)%nat in H by lia. exact H.
      - destruct (deadline tm <=? now (S k)) eqn:E; [apply Z.leb_le in E; lia|].
        apply IHfuel. simpl. intros j Hj. specialize (H (S j) ltac:(lia)).
        replace (k + S j)%nat with (S k + j)%nat in H by lia. exact H.
    Qed.

    (* a script that executes `len` instructions and reaches its end before the deadline returns the
       same result as without a limit *)
    Theorem terminating_unaffected : forall A len (v : A),
      now len < now 0 + lim ->
      exec_limited adj now debug lim len v = exec_unlimited len v.
    Proof.
      intros. unfold exec_limited, exec_unlimited. apply exec_from_finishes. simpl.
      intros j Hj. pose proof (mono_le (len - j) j) as Hm.
      replace (j + (len - j))%nat with len in Hm by lia. lia.
    Qed.
  End Unaffected.
End Timer.
