(* C08 — model of `ExecutionTimeout::{new, check_for_timeout}` (crates/runtime/src/vm.rs) and of the
   deadline polling in `execute_instructions`.  Definitions only.

   Clock: `now : nat -> Z`, nanoseconds.  `now 0` is the `Instant::now()` of `ExecutionTimeout::new`;
   `now k` (k >= 1) is what `Instant::now()` would return inside the k-th call of `check_for_timeout`
   (one call per instruction, before the instruction is executed).  The clock is read only on the
   calls that take the `else` branch.

   Arithmetic: Durations are integers (ns).  `interval_seconds`/`remaining`/`elapsed` are f64 seconds in
   the Rust code; the model keeps them as exact integers of nanoseconds and the whole interval
   adjustment `(interval_instructions as f64 * (next / elapsed)) as usize` is ONE function
   `adj n next elapsed`, a parameter of the model:
     - `adj_exact` is the exact-rational reading of that expression with the Rust cast semantics made
       explicit (`as usize` saturates, NaN -> 0, x/0.0 = inf);
     - the theorems only need `adj_ok` (the result is at most one above the exact quotient), which also
       covers the rounding of the f64 evaluation; the check compares the real source text of
       ExecutionTimeout, compiled against a scripted clock, with both. *)
From Coq Require Import ZArith List Bool Lia.
From KV.rt Require Import GenRtConsts.
Import ListNotations.
Open Scope Z_scope.

Definition USIZE_MAX : Z := 18446744073709551615.
Definition sat_usize (x : Z) : Z := Z.max 0 (Z.min USIZE_MAX x).

Record timer := mkTimer {
  last_check : Z;          (* Instant of the last deadline check *)
  deadline : Z;            (* Instant *)
  interval_ns : Z;         (* interval_seconds, in ns: (execution_limit / 10) *)
  interval_instr : Z;      (* interval_instructions : usize *)
  since : Z;               (* instructions_since_last_check : usize *)
  limit : Z                (* execution_limit in ns *)
}.

(* instructions per second assumed for the first interval: cfg!(debug_assertions) ? 1e7 : 1e8 *)
Definition rate (debug : bool) : Z := if debug then rate_debug else rate_release.
Definition NANOS : Z := 1000000000.

(* ExecutionTimeout::new *)
Definition timer_new (debug : bool) (lim t0 : Z) : timer :=
  let i := lim / limit_divisor in                        (* Duration / 10 *)
  mkTimer t0 (t0 + lim) i (sat_usize ((rate debug * i) / NANOS)) 0 lim.

(* (n as f64 * (next / elapsed)) as usize, exact reading *)
Definition adj_exact (n next elapsed : Z) : Z :=
  if elapsed =? 0 then
    (if (n =? 0) || (next =? 0) then 0       (* 0.0 * inf = NaN, x * (0/0) = NaN; NaN as usize = 0 *)
     else USIZE_MAX)                         (* inf as usize saturates *)
  else sat_usize ((n * next) / elapsed).

(* what the theorems need of the adjustment *)
Definition adj_ok (adj : Z -> Z -> Z -> Z) : Prop :=
  forall n next e, 0 <= n -> 0 <= next -> 0 < e ->
    0 <= adj n next e /\ adj n next e * e <= n * next + e.

(* ExecutionTimeout::check_for_timeout; `t` is the clock value this call would read *)
Definition check (adj : Z -> Z -> Z -> Z) (tm : timer) (t : Z) : bool * timer :=
  if since tm <? interval_instr tm then
    (false, mkTimer (last_check tm) (deadline tm) (interval_ns tm) (interval_instr tm) (since tm + 1) (limit tm))
  else if deadline tm <=? t then (true, tm)
  else
    let remaining := deadline tm - t in
    let next := Z.min (interval_ns tm) remaining in
    let elapsed := Z.max 0 (t - last_check tm) in       (* Instant - Instant saturates at zero *)
    (false, mkTimer t (deadline tm) (interval_ns tm) (adj (interval_instr tm) next elapsed) 0 (limit tm)).

(* does this call read the clock? *)
Definition reads_clock (tm : timer) : bool := negb (since tm <? interval_instr tm).

Section Run.
  Variable adj : Z -> Z -> Z -> Z.
  Variable now : nat -> Z.
  Variable debug : bool.
  Variable lim : Z.

  (* state after the calls 1..k of check_for_timeout, all of which returned false; None: one fired *)
  Fixpoint st (k : nat) : option timer :=
    match k with
    | O => Some (timer_new debug lim (now 0))
    | S k' => match st k' with
              | None => None
              | Some tm => let '(b, tm') := check adj tm (now (S k')) in if b then None else Some tm'
              end
    end.

  (* the k-th call (k >= 1) is the one that returns true *)
  Definition fires_at (k : nat) : Prop :=
    exists k' tm, k = S k' /\ st k' = Some tm /\ fst (check adj tm (now k)) = true.

  (* execute_instructions on a script that executes `len` instructions and then returns `v`:
     check_for_timeout is called once before each instruction *)
  Inductive result (A : Type) := Finished (v : A) | TimedOut (at_call : nat).
  Arguments Finished {A}. Arguments TimedOut {A}.

  Fixpoint exec_from {A} (fuel : nat) (k : nat) (tm : timer) (v : A) : result A :=
    match fuel with
    | O => Finished v
    | S f => let '(b, tm') := check adj tm (now (S k)) in
             if b then TimedOut (S k) else exec_from f (S k) tm' v
    end.

  Definition exec_limited {A} (len : nat) (v : A) : result A :=
    exec_from len 0 (timer_new debug lim (now 0)) v.
  Definition exec_unlimited {A} (len : nat) (v : A) : result A := Finished v.
End Run.
Arguments Finished {A}. Arguments TimedOut {A}.

(* trace used by the correspondence check: for the scripted clock `ts` (ts_0 = creation, ts_k = k-th call)
   the list of (fired, interval_instructions, instructions_since_last_check) after each call *)
Fixpoint trace (adj : Z -> Z -> Z -> Z) (tm : timer) (ts : list Z) : list (bool * Z * Z) :=
  match ts with
  | [] => []
  | t :: rest => let '(b, tm') := check adj tm t in
                 (b, interval_instr tm', since tm') :: (if b then [] else trace adj tm' rest)
  end.

(* the same trace, with the interval adjustments supplied by an oracle (the values the implementation
   computed in f64): keeps model and implementation in step when the f64 result differs from the exact
   quotient by rounding; the 4th component is `adj_exact` at clock reads (and -1 elsewhere) so that the
   caller can compare the oracle with it *)
Fixpoint trace_oracle (tm : timer) (ts : list Z) (orc : list Z) : list (bool * Z * Z * Z) :=
  match ts with
  | [] => []
  | t :: rest =>
    if reads_clock tm && negb (deadline tm <=? t) then
      let a := hd 0 orc in
      let ex := adj_exact (interval_instr tm) (Z.min (interval_ns tm) (deadline tm - t)) (Z.max 0 (t - last_check tm)) in
      let '(b, tm') := check (fun _ _ _ => a) tm t in
      (b, interval_instr tm', since tm', ex) :: trace_oracle tm' rest (tl orc)
    else
      let '(b, tm') := check (fun _ _ _ => 0) tm t in
      (b, interval_instr tm', since tm', -1) :: (if b then [] else trace_oracle tm' rest orc)
  end.

(* the same, reporting only the calls that read the clock: (call index, fired, interval after, adj_exact) *)
Fixpoint reads_oracle (k : Z) (tm : timer) (ts : list Z) (orc : list Z) : list (Z * bool * Z * Z) :=
  match ts with
  | [] => []
  | t :: rest =>
    if reads_clock tm then
      if deadline tm <=? t then [(k, true, interval_instr tm, -1)]
      else
        let a := hd 0 orc in
        let ex := adj_exact (interval_instr tm) (Z.min (interval_ns tm) (deadline tm - t)) (Z.max 0 (t - last_check tm)) in
        let '(b, tm') := check (fun _ _ _ => a) tm t in
        (k, b, interval_instr tm', ex) :: reads_oracle (k + 1) tm' rest (tl orc)
    else
      let '(b, tm') := check (fun _ _ _ => 0) tm t in
      reads_oracle (k + 1) tm' rest orc
  end.
