(* Clause 5 of C05: sequence builders, string builders and catch handlers are balanced on every path.
   AbsVM extended with depth counters (specification), and the executable check `depths_ok`
   (a forward dataflow proposes a depth for every instruction start; every edge is then validated
   against that assignment, so soundness does not depend on how the assignment was found).
   Definitions only; proofs in Wf5Proofs.v.

   vm.rs: sequence_builders / string_builders are stacks of the VM; SequencePush / SequencePushN /
   SequenceToList / SequenceToTuple fail with MissingSequenceBuilder, StringPush / StringFinish with
   MissingStringBuilder when the stack is empty.  catch_stack is a stack of the frame: TryStart pushes,
   TryEnd pops (a pop of an empty stack does nothing); the handler is still registered when control
   reaches the catch ip (the catch block begins with its own TryEnd).  Depths are relative to the
   frame's entry: a called function starts at (0, 0, 0) and, being balanced itself, gives the stacks
   back as it found them. *)
From Coq Require Import List NArith Bool FMapPositive.
From KV.bc Require Import Instr GenOps Decode AbsVM Wf.
Import ListNotations.
Open Scope N_scope.

Definition depth := (N * N * N)%type.     (* sequence builders, string builders, catch handlers *)
Definition d0 : depth := (0, 0, 0).

Definition is_op (i : instr) (o : N) : bool := i_op i =? o.

Definition needs_seq (i : instr) : bool :=
  is_op i OP_SequencePush || is_op i OP_SequenceToList || is_op i OP_SequenceToTuple ||
  (is_op i OP_SequencePushN && negb (arg i 1 =? 0)).

Definition needs_str (i : instr) : bool := is_op i OP_StringPush || is_op i OP_StringFinish.

Definition depth_after (i : instr) (d : depth) : depth :=
  let '(sq, st, tr) := d in
  if is_op i OP_SequenceStart then (sq + 1, st, tr)
  else if is_op i OP_SequenceToList || is_op i OP_SequenceToTuple then (sq - 1, st, tr)
  else if is_op i OP_StringStart then (sq, st + 1, tr)
  else if is_op i OP_StringFinish then (sq, st - 1, tr)
  else if is_op i OP_TryStart then (sq, st, tr + 1)
  else if is_op i OP_TryEnd then (sq, st, tr - 1)
  else d.

Inductive dstate := DS (pc : N) (n : N) (d : depth).

Section Chunk5.
  Variable code : bytes.

  Inductive step5 : dstate -> dstate -> Prop :=
  | step5_next : forall pc n d i k,
      fetch code pc = DOk i k -> falls_through i = true ->
      step5 (DS pc n d) (DS (next_pc i pc k) (frame_after i n) (depth_after i d))
  | step5_jump : forall pc n d i k ts t,
      fetch code pc = DOk i k -> jump_targets i pc k = Some ts -> In t ts ->
      step5 (DS pc n d) (DS t n (depth_after i d))
  | step5_enter : forall pc n d i k,
      fetch code pc = DOk i k -> i_op i = OP_Function ->
      step5 (DS pc n d) (DS (pc + k) 0 d0).

  Inductive reach5 : dstate -> Prop :=
  | reach5_init : reach5 (DS 0 0 d0)
  | reach5_step : forall s s', reach5 s -> step5 s s' -> reach5 s'.

  (* MissingSequenceBuilder / MissingStringBuilder, or builders left behind when the frame returns *)
  Definition fault5 (s : dstate) : Prop :=
    let '(DS pc n (sq, st, tr)) := s in
    match fetch code pc with
    | DOk i k =>
        (needs_seq i = true /\ sq = 0) \/ (needs_str i = true /\ st = 0) \/
        (i_op i = OP_Return /\ (sq <> 0 \/ st <> 0))
    | _ => False
    end.
End Chunk5.

(* ---- the check ---------------------------------------------------------------------------------- *)

Definition dtable := PM.t depth.

Definition deq (a b : depth) : bool :=
  let '(a1, a2, a3) := a in let '(b1, b2, b3) := b in (a1 =? b1) && (a2 =? b2) && (a3 =? b3).

Definition has (dm : dtable) (t : N) (d : depth) : bool :=
  match PM.find (key t) dm with
  | Some d' => deq d' d
  | None => false
  end.

Definition add_absent (dm : dtable) (t : N) (d : depth) : dtable :=
  match PM.find (key t) dm with
  | Some _ => dm
  | None => PM.add (key t) d dm
  end.

(* one step of the linear pass: (table, depth flowing in from the previous instruction) *)
Definition flow_step (st : dtable * option depth) (it : item) : dtable * option depth :=
  let '(dm, cur) := st in
  let pc := it_pc it in
  let i := it_i it in
  let k := it_k it in
  match (match PM.find (key pc) dm with Some d => Some d | None => cur end) with
  | None => (dm, None)                       (* dead code *)
  | Some d =>
      let dm1 := PM.add (key pc) d dm in
      let out := depth_after i d in
      let dm2 := match jump_targets i pc k with
                 | Some ts => fold_left (fun m t => add_absent m t out) ts dm1
                 | None => dm1
                 end in
      if is_op i OP_Function
      then (add_absent (add_absent dm2 (pc + k) d0) (next_pc i pc k) out, None)
      else (dm2, if falls_through i then Some out else None)
  end.

Definition flow (items_in_order : list item) : dtable :=
  fst (fold_left flow_step items_in_order (PM.add (key 0) d0 (PM.empty _), None)).

Definition check_depth (dm : dtable) (it : item) : bool :=
  match PM.find (key (it_pc it)) dm with
  | None => true
  | Some d =>
      let i := it_i it in
      let pc := it_pc it in
      let k := it_k it in
      let '(sq, st, tr) := d in
      let out := depth_after i d in
      negb (needs_seq i && (sq =? 0)) &&
      negb (needs_str i && (st =? 0)) &&
      (if is_op i OP_Return then (sq =? 0) && (st =? 0) else true) &&
      match jump_targets i pc k with
      | Some ts => forallb (fun t => has dm t out) ts
      | None => false
      end &&
      (if falls_through i then has dm (next_pc i pc k) out else true) &&
      (if is_op i OP_Function then has dm (pc + k) d0 else true)
  end.

Definition depths_ok (c : bytes) : bool :=
  match scan_chunk c with
  | Some items =>
      let dm := flow (rev items) in
      forallb (check_depth dm) items && has dm 0 d0
  | None => false
  end.

(* diagnostics: first instruction (in code order) whose depth check fails, with the depth there *)
Definition first_bad5 (c : bytes) : list N :=
  match scan_chunk c with
  | Some items =>
      let dm := flow (rev items) in
      match filter (fun it => negb (check_depth dm it)) (rev items) with
      | it :: _ => it_pc it :: i_op (it_i it) ::
                   match PM.find (key (it_pc it)) dm with Some (a, b, t) => [a; b; t] | None => [] end
      | [] => []
      end
  | None => [0; 999]
  end.
