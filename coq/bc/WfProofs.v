(* Soundness of the verifier: on a chunk accepted by wf_chunk, no state the abstract VM can reach
   faults, and every reachable ip is an instruction start recorded by the linear scan. *)
From Coq Require Import List NArith Bool Lia Arith FMapPositive.
From KV.bc Require Import Instr GenOps Decode AbsVM Wf.
Import ListNotations.
Open Scope N_scope.

Lemma key_inj : forall a b, key a = key b -> a = b.
Proof.
  intros a b H. unfold key in H.
  rewrite <- (N.pos_pred_succ a), <- (N.pos_pred_succ b). rewrite H. reflexivity.
Qed.

Lemma skipn_skipn' : forall (A : Type) (y x : nat) (l : list A), skipn x (skipn y l) = skipn (y + x) l.
Proof.
  induction y as [| y IH]; intros x l; [reflexivity |].
  destruct l as [| a l]; [destruct x; reflexivity |]. cbn [skipn plus]. apply IH.
Qed.

(* ---- the table is made of scanned items ------------------------------------------------------- *)

Lemma build_find_gen : forall items m0 pc v,
    PM.find (key pc) (fold_left (fun m it => PM.add (key (it_pc it)) (it_body it, it_n it) m) items m0) = Some v ->
    (exists it, In it items /\ it_pc it = pc /\ v = (it_body it, it_n it)) \/ PM.find (key pc) m0 = Some v.
Proof.
  induction items as [| it items IH]; intros m0 pc v H; cbn [fold_left] in H.
  - right. exact H.
  - apply IH in H. destruct H as [(it' & Hin & Hpc & Hv) | H].
    + left. exists it'. split; [right; exact Hin | split; assumption].
    + destruct (Pos.eq_dec (key pc) (key (it_pc it))) as [E | E].
      * rewrite E in H. rewrite PM.gss in H. injection H as <-.
        left. exists it. split; [left; reflexivity |]. split; [symmetry; apply key_inj; exact E | reflexivity].
      * rewrite PM.gso in H by exact E. right. exact H.
Qed.

Lemma build_find : forall items pc v,
    PM.find (key pc) (build items) = Some v ->
    exists it, In it items /\ it_pc it = pc /\ v = (it_body it, it_n it).
Proof.
  intros items pc v H. unfold build in H. apply build_find_gen in H.
  destruct H as [H | H]; [exact H |]. rewrite PM.gempty in H. discriminate.
Qed.

(* ---- every scanned item is what the reader yields at that ip ---------------------------------------- *)

Section Sound.
  Variable c : bytes.
  Variable nconsts : N.

  Definition item_fetch (it : item) : Prop := fetch c (it_pc it) = DOk (it_i it) (it_k it).

  Lemma skipn_add : forall (pc k : N),
      skipn (N.to_nat k) (skipn (N.to_nat pc) c) = skipn (N.to_nat (pc + k)) c.
  Proof.
    intros. rewrite skipn_skipn'. f_equal. lia.
  Qed.

  Lemma scan_sound : forall fuel pc bs st acc items,
      scan fuel pc bs st acc = Some items ->
      bs = skipn (N.to_nat pc) c ->
      (forall it, In it acc -> item_fetch it) ->
      forall it, In it items -> item_fetch it.
  Proof.
    induction fuel as [| fuel IH]; intros pc bs st acc items H Hbs Hacc; [discriminate |].
    cbn [scan] in H.
    destruct (pop_ended pc st) as [| b st'].
    - destruct bs; [| discriminate]. injection H as <-. exact Hacc.
    - destruct (decode bs) as [| | e u | i k] eqn:Hd; try discriminate.
      destruct (b_end b <? pc + k); [discriminate |].
      assert (Hacc' : forall it, In it (mkItem pc i k (b_start b) (b_n b) :: acc) -> item_fetch it).
      { intros it [<- | Hin]; [| apply Hacc; exact Hin].
        unfold item_fetch, fetch. cbn [it_pc it_i it_k]. rewrite <- Hbs. exact Hd. }
      assert (Hbs' : skipn (N.to_nat k) bs = skipn (N.to_nat (pc + k)) c).
      { rewrite Hbs. apply skipn_add. }
      destruct (i_op i =? OP_Function).
      + destruct (b_end b <? pc + k + sum (operands FSize i)); [discriminate |].
        destruct (newframe_count (skipn (N.to_nat k) bs)); [| discriminate].
        eapply IH; eassumption.
      + eapply IH; eassumption.
  Qed.

  Hypothesis WF : wf_chunk c nconsts = true.

  Lemma live_incl : forall items it, In it (live_items items) -> In it items.
  Proof. intros items it H. unfold live_items in H. apply filter_In in H. tauto. Qed.

  Lemma wf_items : exists items,
      scan_chunk c = Some items /\
      forallb (check_item (build (live_items items)) nconsts) (live_items items) = true /\
      (exists n0, PM.find (key 0) (build (live_items items)) = Some (0, n0)) /\
      forall it, In it items -> item_fetch it.
  Proof.
    unfold wf_chunk in WF. destruct (scan_chunk c) as [items |] eqn:Hs; [| discriminate].
    exists items. apply andb_true_iff in WF. destruct WF as [Hall H0].
    split; [reflexivity |]. split; [exact Hall |]. split.
    - destruct (PM.find (key 0) (build (live_items items))) as [[b n0] |]; [| discriminate].
      apply N.eqb_eq in H0. subst b. eauto.
    - unfold scan_chunk in Hs. destruct (newframe_count c); [| discriminate].
      eapply scan_sound; [exact Hs | reflexivity |]. intros it [].
  Qed.

  Definition the_table : table :=
    match scan_chunk c with Some items => build (live_items items) | None => PM.empty _ end.

  Definition inv (s : astate) : Prop :=
    let 'AS pc n := s in
    exists b nb, PM.find (key pc) the_table = Some (b, nb) /\ (n = nb \/ pc = b).

  (* what the verifier checked for the instruction at a recorded ip *)
  Lemma item_of : forall pc b nb,
      PM.find (key pc) the_table = Some (b, nb) ->
      exists i k, fetch c pc = DOk i k /\ check_item the_table nconsts (mkItem pc i k b nb) = true.
  Proof.
    intros pc b nb H. destruct wf_items as (items & Hs & Hall & _ & Hf).
    unfold the_table in *. rewrite Hs in *.
    apply build_find in H. destruct H as (it & Hin & Hpc & Hv).
    injection Hv as -> ->.
    exists (it_i it), (it_k it). split.
    - rewrite <- Hpc. apply Hf. apply live_incl. exact Hin.
    - rewrite forallb_forall in Hall. specialize (Hall it Hin).
      destruct it as [pc' i k b' n']. cbn in Hpc. subst pc'. exact Hall.
  Qed.

  Lemma in_body_find : forall t b n,
      in_body the_table t b n = true -> PM.find (key t) the_table = Some (b, n).
  Proof.
    intros t b n H. unfold in_body in H.
    destruct (PM.find (key t) the_table) as [[b' n'] |]; [| discriminate].
    apply andb_true_iff in H. destruct H as [Hb Hn].
    apply N.eqb_eq in Hb. apply N.eqb_eq in Hn. subst. reflexivity.
  Qed.

  (* NewFrame addresses no register, range or constant and does not jump *)
  Lemma newframe_operands : forall i r,
      (i_op i =? OP_NewFrame) = true -> r <> Imm -> operands r i = [].
  Proof.
    intros [op args] r H Hr. cbn [i_op] in H. apply N.eqb_eq in H. subst op.
    unfold operands, roles_of. cbn [i_op i_args].
    change (OP_NewFrame =? OP_StringPush) with false. cbv iota.
    change (assoc OP_NewFrame role_table) with (Some [Imm]). cbv iota.
    destruct args as [| x args]; [reflexivity |]. cbn [pick].
    destruct r; try reflexivity. congruence.
  Qed.

  Record checked (pc : N) (i : instr) (k b n : N) : Prop := {
    ck_entry : if pc =? b then (i_op i =? OP_NewFrame) = true /\ arg i 0 = n else (i_op i =? OP_NewFrame) = false;
    ck_regs : forall r, In r (regs_of i) -> r < n;
    ck_ranges : forall s cnt, In (s, cnt) (ranges_of i) -> cnt = 0 \/ s + cnt <= n;
    ck_consts : forall x, In x (consts_of i) -> x < nconsts;
    ck_jumps : exists ts, jump_targets i pc k = Some ts /\ forall t, In t ts -> PM.find (key t) the_table = Some (b, n);
    ck_next : falls_through i = true -> PM.find (key (next_pc i pc k)) the_table = Some (b, n);
    ck_fun : (i_op i =? OP_Function) = true -> exists n', PM.find (key (pc + k)) the_table = Some (pc + k, n')
  }.

  Lemma check_item_spec : forall pc i k b n,
      check_item the_table nconsts (mkItem pc i k b n) = true -> checked pc i k b n.
  Proof.
    intros pc i k b n H. unfold check_item in H. cbn [it_i it_pc it_k it_body it_n] in H.
    apply andb_true_iff in H. destruct H as [H Hfun].
    apply andb_true_iff in H. destruct H as [H Hnext].
    apply andb_true_iff in H. destruct H as [H Hjump].
    apply andb_true_iff in H. destruct H as [H Hconst].
    apply andb_true_iff in H. destruct H as [H Hrange].
    apply andb_true_iff in H. destruct H as [Hentry Hregs].
    constructor.
    - destruct (pc =? b).
      + apply andb_true_iff in Hentry. destruct Hentry as [Ha Hb]. apply N.eqb_eq in Hb. split; assumption.
      + apply negb_true_iff in Hentry. exact Hentry.
    - intros r Hr. rewrite forallb_forall in Hregs. apply N.ltb_lt. apply Hregs. exact Hr.
    - intros s cnt Hin. rewrite forallb_forall in Hrange. specialize (Hrange _ Hin). cbn [fst snd] in Hrange.
      apply orb_true_iff in Hrange. destruct Hrange as [E | E]; [left; apply N.eqb_eq | right; apply N.leb_le]; exact E.
    - intros x Hx. rewrite forallb_forall in Hconst. apply N.ltb_lt. apply Hconst. exact Hx.
    - destruct (jump_targets i pc k) as [ts |]; [| discriminate].
      exists ts. split; [reflexivity |]. intros t Ht. rewrite forallb_forall in Hjump.
      apply in_body_find. apply Hjump. exact Ht.
    - intros Hf. rewrite Hf in Hnext. apply in_body_find. exact Hnext.
    - intros Hf. rewrite Hf in Hfun.
      destruct (PM.find (key (pc + k)) the_table) as [[b' n'] |]; [| discriminate].
      apply N.eqb_eq in Hfun. subst b'. eauto.
  Qed.

  Lemma checked_at : forall pc b nb,
      PM.find (key pc) the_table = Some (b, nb) ->
      exists i k, fetch c pc = DOk i k /\ checked pc i k b nb.
  Proof.
    intros pc b nb H. destruct (item_of _ _ _ H) as (i & k & Hf & Hc).
    exists i, k. split; [exact Hf | apply check_item_spec; exact Hc].
  Qed.

  Lemma inv_init : inv (AS 0 0).
  Proof.
    destruct wf_items as (items & Hs & _ & (n0 & H0) & _).
    unfold inv, the_table. rewrite Hs. exists 0, n0. split; [exact H0 | right; reflexivity].
  Qed.

  Lemma inv_step : forall s s', inv s -> step c s s' -> inv s'.
  Proof.
    intros s s' Hinv Hstep. destruct Hstep as [pc n i k Hf Hft | pc n i k ts t Hf Hj Hin | pc n i k Hf Hop];
      destruct Hinv as (b & nb & Hm & Hn);
      destruct (checked_at _ _ _ Hm) as (i' & k' & Hf' & Hc);
      rewrite Hf in Hf'; injection Hf' as <- <-.
    - (* fall through *)
      exists b, nb. split; [apply (ck_next _ _ _ _ _ Hc); exact Hft |].
      left. unfold frame_after. pose proof (ck_entry _ _ _ _ _ Hc) as He.
      destruct (N.eqb_spec pc b) as [E | E].
      + destruct He as [He1 He2]. rewrite He1. exact He2.
      + rewrite He. destruct Hn; [assumption | contradiction].
    - (* jump *)
      destruct (ck_jumps _ _ _ _ _ Hc) as (ts' & Hj' & Hall).
      rewrite Hj in Hj'. injection Hj' as <-.
      exists b, nb. split; [apply Hall; exact Hin |].
      pose proof (ck_entry _ _ _ _ _ Hc) as He.
      destruct (N.eqb_spec pc b) as [E | E].
      + (* a NewFrame does not jump *)
        exfalso. destruct He as [He1 _].
        unfold jump_targets in Hj.
        rewrite (newframe_operands i Back He1) in Hj by discriminate.
        rewrite (newframe_operands i Fwd He1) in Hj by discriminate.
        cbn in Hj. injection Hj as <-. exact Hin.
      + destruct Hn; [left; assumption | contradiction].
    - (* entering a function body *)
      apply N.eqb_eq in Hop. destruct (ck_fun _ _ _ _ _ Hc Hop) as (n' & Hfind).
      exists (pc + k), n'. split; [exact Hfind | right; reflexivity].
  Qed.

  Lemma reach_inv : forall s, reach c s -> inv s.
  Proof.
    induction 1; [apply inv_init | eapply inv_step; eassumption].
  Qed.

  Lemma inv_no_fault : forall s, inv s -> ~ fault c nconsts s.
  Proof.
    intros [pc n] (b & nb & Hm & Hn) Hfault.
    destruct (checked_at _ _ _ Hm) as (i & k & Hf & Hc).
    unfold fault in Hfault. rewrite Hf in Hfault.
    pose proof (ck_entry _ _ _ _ _ Hc) as He.
    destruct Hfault as [(r & Hr & Hle) | [(s & cnt & Hin & Hnz & Hlt) | [(x & Hx & Hle) | Hj]]].
    - destruct (N.eqb_spec pc b) as [E | E].
      + destruct He as [He1 _]. unfold regs_of in Hr.
        rewrite (newframe_operands i Reg He1), (newframe_operands i Base He1) in Hr by discriminate.
        exact Hr.
      + destruct Hn as [-> | Hn]; [| contradiction].
        pose proof (ck_regs _ _ _ _ _ Hc r Hr). lia.
    - destruct (N.eqb_spec pc b) as [E | E].
      + destruct He as [He1 _]. unfold ranges_of in Hin.
        rewrite (newframe_operands i Start He1), (newframe_operands i Base He1) in Hin by discriminate.
        exact Hin.
      + destruct Hn as [-> | Hn]; [| contradiction].
        destruct (ck_ranges _ _ _ _ _ Hc s cnt Hin); [contradiction | lia].
    - pose proof (ck_consts _ _ _ _ _ Hc x Hx). lia.
    - destruct (ck_jumps _ _ _ _ _ Hc) as (ts & Hj' & _). congruence.
  Qed.

  Theorem wf_sound : forall s, reach c s -> ~ fault c nconsts s.
  Proof. intros s H. apply inv_no_fault. apply reach_inv. exact H. Qed.

  Theorem wf_reach_start : forall pc n,
      reach c (AS pc n) ->
      exists items it, scan_chunk c = Some items /\ In it items /\ it_pc it = pc /\
                       fetch c pc = DOk (it_i it) (it_k it).
  Proof.
    intros pc n H. apply reach_inv in H. destruct H as (b & nb & Hm & _).
    destruct wf_items as (items & Hs & _ & _ & Hf).
    unfold the_table in Hm. rewrite Hs in Hm. apply build_find in Hm.
    destruct Hm as (it & Hin & Hpc & _).
    apply live_incl in Hin.
    exists items, it. repeat split; try assumption. rewrite <- Hpc. apply Hf. exact Hin.
  Qed.
End Sound.
