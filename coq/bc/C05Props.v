(* C05: pinned statements.  Each is closed by `exact <lemma>`; proofs are in DecodeProofs.v / WfProofs.v. *)
From Coq Require Import List NArith Bool.
From KV.bc Require Import Instr GenOps Decode AbsVM Wf Wf5 DecodeProofs WfProofs Wf5Proofs.
Import ListNotations.
Open Scope N_scope.

(* ---- decoder ------------------------------------------------------------------------------------ *)

(* Decoding inverts encoding: for EVERY instruction (any opcode of the regenerated table, any operand
   values in range) and any following bytes, the reader model yields exactly that instruction and
   advances by exactly the encoded length. *)
Theorem encode_decode : forall i bs rest,
    wf_instr i = true -> encode i = Some bs -> decode (bs ++ rest) = DOk i (N.of_nat (length bs)).
Proof. exact encode_decode_thm. Qed.
Print Assumptions encode_decode.

(* The var-u32 reader (get_var_u32!, shift accumulating by 7) inverts push_var_u32 for every u32, and so does
   get_var_u32_with_first_byte! when the first byte has already been read *)
Theorem varint_roundtrip : forall v rest used,
    v < 2 ^ 32 ->
    get_var (enc_var v ++ rest) used = VOk v rest (used + N.of_nat (length (enc_var v))).
Proof. exact get_var_enc. Qed.
Print Assumptions varint_roundtrip.

Theorem varint_first_byte_roundtrip : forall v rest used,
    v < 2 ^ 32 ->
    get_var_first (hd 0 (enc_var v)) (tl (enc_var v) ++ rest) used =
    VOk v rest (used + N.of_nat (length (tl (enc_var v)))).
Proof. exact get_var_first_enc'. Qed.
Print Assumptions varint_first_byte_roundtrip.

(* ... and every well-formed instruction has an encoding (the statement above is not vacuous) *)
Theorem encode_total : forall i, wf_instr i = true -> exists bs, encode i = Some bs.
Proof. exact DecodeProofs.encode_total. Qed.
Print Assumptions encode_total.

(* Opcodes without a decoder arm (Unused*, and anything >= 256) decode to Instruction::Error *)
Theorem decode_unused_is_error : forall op a rest,
    shape_of op = Unused -> decode (op :: a :: rest) = DErr ErrOpcode 2.
Proof. exact decode_unused_thm. Qed.
Print Assumptions decode_unused_is_error.

(* On an opcode that has a decoder arm, with at least (op, byte_a) available, the reader never reports
   end-of-stream nor "unexpected opcode": the outcome is an instruction, a truncation / flag error, or the
   var-u32 shift panic. *)
Theorem decode_total_on_valid_ops : forall op a rest,
    shape_of op <> Unused ->
    match decode (op :: a :: rest) with
    | DEnd => False
    | DErr ErrOpcode _ => False
    | _ => True
    end.
Proof. exact decode_valid_op_thm. Qed.
Print Assumptions decode_total_on_valid_ops.

(* ---- verifier ------------------------------------------------------------------------------------- *)

(* Soundness: on a chunk the verifier accepts, NO state the abstract VM can reach faults -- the reader
   never runs off the code / into Instruction::Error / into a panic, no register operand, register range
   or call window reaches past the frame, no constant index is out of range, no backward jump underflows. *)
Theorem wf_chunk_sound : forall c nconsts,
    wf_chunk c nconsts = true -> forall s, reach c s -> ~ fault c nconsts s.
Proof. exact wf_sound. Qed.
Print Assumptions wf_chunk_sound.

(* ... and every reachable ip is an instruction start found by the linear scan (jumps never land inside
   an instruction) *)
Theorem wf_chunk_reach_instruction_start : forall c nconsts,
    wf_chunk c nconsts = true ->
    forall pc n, reach c (AS pc n) ->
    exists items it, scan_chunk c = Some items /\ In it items /\ it_pc it = pc /\
                     fetch c pc = DOk (it_i it) (it_k it).
Proof. exact wf_reach_start. Qed.
Print Assumptions wf_chunk_reach_instruction_start.

(* Clause 5: on a chunk accepted by wf_chunk AND depths_ok, no state of the abstract VM with builder /
   handler depth counters faults: SequencePush/PushN/ToList/ToTuple always find a sequence builder,
   StringPush/StringFinish a string builder (no MissingSequenceBuilder / MissingStringBuilder), and no
   builder is left behind when a frame returns. *)
Theorem depths_ok_sound : forall c nconsts,
    wf_chunk c nconsts = true -> depths_ok c = true -> forall s, reach5 c s -> ~ fault5 c s.
Proof. exact wf5_sound. Qed.
Print Assumptions depths_ok_sound.

(* ---- the operand-role table of AbsVM agrees with the regenerated layouts ------------------------------ *)

Inductive width := W8 | W16 | WVar.

Definition step_widths (s : rstep) : list width :=
  match s with
  | SA | S8 => [W8]
  | S8n n => repeat W8 n
  | S16 | S16A => [W16]
  | SVar | SVarA => [WVar]
  | S8nVar n => repeat W8 (Nat.pred n) ++ [WVar]
  | S8nJoin n => repeat W8 (Nat.pred (Nat.pred n)) ++ [W16]
  end.

Definition role_fits (r : role) (w : width) : bool :=
  match r, w with
  | (Reg | Start | Count | Base | Argc | Packed), W8 => true
  | Imm, _ => true
  | Cst, WVar => true
  | (Fwd | Back | FSize), W16 => true
  | _, _ => false
  end.

Fixpoint fits (rs : list role) (ws : list width) : bool :=
  match rs, ws with
  | [], [] => true
  | r :: rs', w :: ws' => role_fits r w && fits rs' ws'
  | _, _ => false
  end.

Definition roles_fit_op (op : N) : bool :=
  match shape_of op, assoc op role_table with
  | Regular l _, Some rs => fits rs (flat_map step_widths l)
  | Irregular 1, Some rs => fits rs (flat_map step_widths function_layout)
  | Irregular 2, None => true
  | Unused, None => true
  | _, _ => false
  end.

(* every opcode: the roles AbsVM gives its operands have the arity and the widths of the decoder arm *)
Example roles_consistent_with_layouts :
  forallb roles_fit_op (map N.of_nat (seq 0 256)) = true.
Proof. vm_compute. reflexivity. Qed.

Example string_push_roles_fit : forall flags,
    fits (string_push_roles flags) ([W8; W8] ++ flat_map step_widths (sp_layout flags)) = true.
Proof.
  intros. unfold string_push_roles, sp_layout.
  destruct (has_flag flags SF_MIN_WIDTH), (has_flag flags SF_PRECISION),
    (has_flag flags SF_FILL_CHARACTER), (has_flag flags SF_REPRESENTATION); reflexivity.
Qed.

(* ---- non-vacuity ----------------------------------------------------------------------------------------- *)

(* a chunk emitted by the real compiler for `x = 1 + 2; f = |a, b| a + b; f x, 3` *)
Definition real_chunk : bytes :=
  [0;7;6;3;7;4;2;37;1;3;4;27;2;2;0;0;0;8;0;0;4;37;3;1;2;62;3;1;5;1;7;6;3;60;3;2;4;2;0;62;3].

Example real_chunk_wf : wf_chunk real_chunk 4 = true.
Proof. vm_compute. reflexivity. Qed.

Example real_chunk_enters_function : reach real_chunk (AS 21 4).
Proof.
  assert (R1 : reach real_chunk (AS 2 7)).
  { apply (reach_step real_chunk (AS 0 0)); [apply reach_init |].
    exact (step_next real_chunk 0 0 (Instr 0 [7]) 2 eq_refl eq_refl). }
  assert (R2 : reach real_chunk (AS 4 7)).
  { apply (reach_step real_chunk (AS 2 7)); [exact R1 |].
    exact (step_next real_chunk 2 7 (Instr 6 [3]) 2 eq_refl eq_refl). }
  assert (R3 : reach real_chunk (AS 7 7)).
  { apply (reach_step real_chunk (AS 4 7)); [exact R2 |].
    exact (step_next real_chunk 4 7 (Instr 7 [4; 2]) 3 eq_refl eq_refl). }
  assert (R4 : reach real_chunk (AS 11 7)).
  { apply (reach_step real_chunk (AS 7 7)); [exact R3 |].
    exact (step_next real_chunk 7 7 (Instr 37 [1; 3; 4]) 4 eq_refl eq_refl). }
  assert (R5 : reach real_chunk (AS 19 0)).
  { apply (reach_step real_chunk (AS 11 7)); [exact R4 |].
    exact (step_enter real_chunk 11 7 (Instr 27 [2; 2; 0; 0; 0; 8]) 8 eq_refl eq_refl). }
  apply (reach_step real_chunk (AS 19 0)); [exact R5 |].
  exact (step_next real_chunk 19 0 (Instr 0 [4]) 2 eq_refl eq_refl).
Qed.

(* a well-formed instruction with a 3-byte constant index and a u16 offset round-trips *)
Example try_access_roundtrip :
  wf_instr (Instr OP_TryAccess [1; 2; 20000; 65535]) = true /\
  encode (Instr OP_TryAccess [1; 2; 20000; 65535]) = Some [OP_TryAccess; 1; 2; 160; 156; 1; 255; 255].
Proof. split; vm_compute; reflexivity. Qed.

(* truncated operands and the var-u32 shift panic are outcomes of the model *)
Example truncated_is_error : decode [OP_Call; 1; 2; 3] = DErr ErrOob 2.
Proof. vm_compute. reflexivity. Qed.
Example var_shift_panics : decode [OP_LoadInt; 0; 128; 128; 128; 128; 128; 1] = DPanic.
Proof. vm_compute. reflexivity. Qed.

(* C05a in miniature: a backward jump that lands inside an instruction.  The verifier rejects the chunk,
   and the abstract VM really reaches a fault on it (the small analogue of the 64 KiB `loop` body whose
   JumpBack offset is truncated to u16 by push_jump_back_op). *)
Definition misaligned : bytes := [OP_NewFrame; 1; OP_Set0; 0; OP_JumpBack; 2; 0].

Example misaligned_rejected : wf_chunk misaligned 0 = false.
Proof. vm_compute. reflexivity. Qed.

Example misaligned_faults_refuted : exists s, reach misaligned s /\ fault misaligned 0 s.
Proof.
  exists (AS 7 1). split.
  - assert (R1 : reach misaligned (AS 2 1)).
    { apply (reach_step misaligned (AS 0 0)); [apply reach_init |].
      exact (step_next misaligned 0 0 (Instr OP_NewFrame [1]) 2 eq_refl eq_refl). }
    assert (R2 : reach misaligned (AS 4 1)).
    { apply (reach_step misaligned (AS 2 1)); [exact R1 |].
      exact (step_next misaligned 2 1 (Instr OP_Set0 [0]) 2 eq_refl eq_refl). }
    assert (R3 : reach misaligned (AS 5 1)).
    { apply (reach_step misaligned (AS 4 1)); [exact R2 |].
      exact (step_jump misaligned 4 1 (Instr OP_JumpBack [2]) 3 [5] 5 eq_refl eq_refl (or_introl eq_refl)). }
    apply (reach_step misaligned (AS 5 1)); [exact R3 |].
    exact (step_next misaligned 5 1 (Instr OP_SetNull [0]) 2 eq_refl eq_refl).
  - vm_compute. exact I.
Qed.

(* register past the frame: rejected *)
Example register_out_of_frame_rejected : wf_chunk [OP_NewFrame; 1; OP_Set0; 1; OP_Return; 0] 0 = false.
Proof. vm_compute. reflexivity. Qed.
Example register_in_frame_accepted : wf_chunk [OP_NewFrame; 2; OP_Set0; 1; OP_Return; 0] 0 = true.
Proof. vm_compute. reflexivity. Qed.

(* ---- clause 5: non-vacuity ------------------------------------------------------------------------------- *)

(* real chunk of `x = [1, 2]; try throw 'a{x}' catch e e`: list builder, string builder, try *)
Definition real_chunk5 : bytes :=
  [0;7;19;2;6;3;7;4;2;21;3;2;22;1;84;4;20;0;24;2;11;6;1;25;6;0;25;1;0;26;5;64;5;85;0;55;8;0;85;0;1;2;4;1;3;2;62;3].
Example real_chunk5_ok : wf_chunk real_chunk5 3 = true /\ depths_ok real_chunk5 = true.
Proof. split; vm_compute; reflexivity. Qed.

(* C05d witness, real chunk of `x = 0; loop y = [1, (break 2)]`: well formed for clauses 1-4, rejected by
   clause 5, and the abstract VM really returns with a sequence builder left behind *)
Definition c05d_chunk : bytes :=
  [0;6;5;1;19;2;6;4;7;3;2;55;11;0;21;4;2;22;2;1;3;2;56;21;0;62;3].
Example c05d_rejected : wf_chunk c05d_chunk 2 = true /\ depths_ok c05d_chunk = false.
Proof. split; vm_compute; reflexivity. Qed.
Example c05d_leaks_refuted : exists s, reach5 c05d_chunk s /\ fault5 c05d_chunk s.
Proof.
  exists (DS 25 6 (1, 0, 0)). split.
  - assert (R1 : reach5 c05d_chunk (DS 2 6 d0)).
    { apply (reach5_step c05d_chunk (DS 0 0 d0)); [apply reach5_init |].
      exact (step5_next c05d_chunk 0 0 d0 (Instr 0 [6]) 2 eq_refl eq_refl). }
    assert (R2 : reach5 c05d_chunk (DS 4 6 d0)).
    { apply (reach5_step c05d_chunk (DS 2 6 d0)); [exact R1 |].
      exact (step5_next c05d_chunk 2 6 d0 (Instr 5 [1]) 2 eq_refl eq_refl). }
    assert (R3 : reach5 c05d_chunk (DS 6 6 (1, 0, 0))).
    { apply (reach5_step c05d_chunk (DS 4 6 d0)); [exact R2 |].
      exact (step5_next c05d_chunk 4 6 d0 (Instr 19 [2]) 2 eq_refl eq_refl). }
    assert (R4 : reach5 c05d_chunk (DS 8 6 (1, 0, 0))).
    { apply (reach5_step c05d_chunk (DS 6 6 (1, 0, 0))); [exact R3 |].
      exact (step5_next c05d_chunk 6 6 (1, 0, 0) (Instr 6 [4]) 2 eq_refl eq_refl). }
    assert (R5 : reach5 c05d_chunk (DS 11 6 (1, 0, 0))).
    { apply (reach5_step c05d_chunk (DS 8 6 (1, 0, 0))); [exact R4 |].
      exact (step5_next c05d_chunk 8 6 (1, 0, 0) (Instr 7 [3; 2]) 3 eq_refl eq_refl). }
    apply (reach5_step c05d_chunk (DS 11 6 (1, 0, 0))); [exact R5 |].
    exact (step5_jump c05d_chunk 11 6 (1, 0, 0) (Instr 55 [11]) 3 [25] 25 eq_refl eq_refl (or_introl eq_refl)).
  - vm_compute. right. right. split; [reflexivity | left; discriminate].
Qed.
