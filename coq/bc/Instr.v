(* Bytecode instructions of koto as a generic record (opcode, operand values), the operand-layout
   language the translator (tools/k2v_bc.py) emits for each arm of InstructionReader::next, and the
   decoder outcomes.  Self-contained: imported by GenOps.v and by other units. *)
From Coq Require Import List NArith.
Import ListNotations.
Open Scope N_scope.

Definition bytes := list N.

(* One read step of an `Op::X =>` arm of crates/bytecode/src/instruction_reader.rs.  Every step is
   self-contained: it consumes bytes and yields a fixed number of operand values.
     SA         byte_a (the byte that follows the opcode)                              1 value
     S8         get_u8!()                                                              1 value
     S8n n      get_u8xN!()  -- ONE bounds check for the n bytes                        n values
     S16        get_u16!()   -- one bounds check, little endian                         1 value
     SVar       get_var_u32!()                                                         1 value
     SVarA      get_var_u32_with_first_byte!(byte_a)                                   1 value
     S16A       u16::from_le_bytes([byte_a, get_u8!()])                                1 value
     S8nVar n   get_u8xN!() whose last byte is the first byte of a var u32             n values
     S8nJoin n  get_u8xN!() whose last two bytes are joined with u16::from_le_bytes    n-1 values *)
Inductive rstep := SA | S8 | S8n (n : nat) | S16 | SVar | SVarA | S16A | S8nVar (n : nat) | S8nJoin (n : nat).

(* chk = Some (k, bound): after all reads, operand k must be < bound, otherwise Instruction::Error *)
Inductive shape :=
| Regular (l : list rstep) (chk : option (nat * N))
| Irregular (tag : N)      (* 1 = Function, 2 = StringPush: hand-modelled in Decode.v *)
| Unused.

Inductive instr := Instr (op : N) (args : list N).

Definition i_op (i : instr) : N := let 'Instr op _ := i in op.
Definition i_args (i : instr) : list N := let 'Instr _ args := i in args.
Definition arg (i : instr) (k : nat) : N := nth k (i_args i) 0.

(* why the reader produced Instruction::Error *)
Inductive ierr := ErrOob | ErrOpcode | ErrCheck.

(* outcome of InstructionReader::next on the bytes from ip on:
     DEnd            None (fewer than two bytes left)
     DPanic          a Rust panic (debug build: shift overflow while reading a var u32)
     DErr e used     Some(Instruction::Error), the reader's ip advanced by `used`
     DOk i used      Some(instruction), ip advanced by `used` *)
Inductive dres := DEnd | DPanic | DErr (e : ierr) (used : N) | DOk (i : instr) (used : N).
