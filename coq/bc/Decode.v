(* Model of koto_bytecode::InstructionReader::next (crates/bytecode/src/instruction_reader.rs) for
   all 256 opcodes, and the encoder used to state that decoding is its left inverse.
   Executable definitions only; proofs are in DecodeProofs.v.

   Shape of the Rust: read (op, byte_a) with ONE bounds check (`bytes.get(ip..ip+2)`, None => end of
   stream), then the arm's reads in order.  A failing bounds check inside an arm returns
   `Instruction::Error` at once (the reader's ip stays where the failing read began).  The var-u32
   loops shift by 0,7,14,21,28,35: `<< 35` on a u32 panics in a build with overflow checks (the
   harness and koto's debug profile), and bits shifted beyond bit 31 are dropped silently. *)
From Coq Require Import List NArith Bool.
From KV.bc Require Import Instr GenOps.
Import ListNotations.
Open Scope N_scope.

Definition U32_MASK : N := 4294967295.

(* ---- the read macros ---------------------------------------------------------------------- *)

Inductive vres := VOk (v : N) (rest : bytes) (used : N) | VErr (used : N) | VPanic.

(* loop of get_var_u32! / get_var_u32_with_first_byte!: fetch (bounds check), ip += 1,
   `(byte & 0x7f) << shift` (panics when shift >= 32), continue while bit 7 is set *)
Fixpoint var_loop (bs : bytes) (shift acc used : N) : vres :=
  match bs with
  | [] => VErr used
  | b :: bs' =>
      if 32 <=? shift then VPanic
      else
        let acc' := N.lor acc (N.land (N.shiftl (N.land b 127) shift) U32_MASK) in
        if N.land b 128 =? 0 then VOk acc' bs' (used + 1)
        else var_loop bs' (shift + 7) acc' (used + 1)
  end.

Definition get_var (bs : bytes) (used : N) : vres := var_loop bs 0 0 used.

Definition get_var_first (first : N) (bs : bytes) (used : N) : vres :=
  if N.land first 128 =? 0 then VOk (N.land first 127) bs used
  else var_loop bs 7 (N.land first 127) used.

Definition le16 (lo hi : N) : N := lo + 256 * hi.

(* get_u8_array!(n): Some (the n bytes, rest) iff at least n bytes are left *)
Fixpoint take (n : nat) (bs : bytes) : option (list N * bytes) :=
  match n with
  | O => Some ([], bs)
  | S n' => match bs with
            | [] => None
            | b :: bs' => match take n' bs' with
                          | Some (xs, r) => Some (b :: xs, r)
                          | None => None
                          end
            end
  end.

(* [x1; ..; xn] -> ([x1; ..; x(n-1)], xn) *)
Fixpoint split_last (xs : list N) : option (list N * N) :=
  match xs with
  | [] => None
  | [x] => Some ([], x)
  | x :: xs' => match split_last xs' with
                | Some (ys, l) => Some (x :: ys, l)
                | None => None
                end
  end.

Inductive sres := SOk (vals : list N) (rest : bytes) (used : N) | SErr (used : N) | SPanic.

Definition of_vres (pre : list N) (r : vres) : sres :=
  match r with
  | VOk v rest used => SOk (pre ++ [v]) rest used
  | VErr used => SErr used
  | VPanic => SPanic
  end.

Definition run_step (a : N) (s : rstep) (bs : bytes) (used : N) : sres :=
  match s with
  | SA => SOk [a] bs used
  | S8 => match bs with
          | [] => SErr used
          | b :: r => SOk [b] r (used + 1)
          end
  | S8n n => match take n bs with
             | Some (xs, r) => SOk xs r (used + N.of_nat n)
             | None => SErr used
             end
  | S16 => match bs with
           | lo :: hi :: r => SOk [le16 lo hi] r (used + 2)
           | _ => SErr used
           end
  | SVar => of_vres [] (get_var bs used)
  | SVarA => of_vres [] (get_var_first a bs used)
  | S16A => match bs with
            | [] => SErr used
            | hi :: r => SOk [le16 a hi] r (used + 1)
            end
  | S8nVar n => match take n bs with
                | Some (xs, r) =>
                    match split_last xs with
                    | Some (pre, first) => of_vres pre (get_var_first first r (used + N.of_nat n))
                    | None => SPanic (* n = 0: not a layout the translator emits *)
                    end
                | None => SErr used
                end
  | S8nJoin n => match take n bs with
                 | Some (xs, r) =>
                     match split_last xs with
                     | Some (pre, hi) =>
                         match split_last pre with
                         | Some (pre', lo) => SOk (pre' ++ [le16 lo hi]) r (used + N.of_nat n)
                         | None => SPanic
                         end
                     | None => SPanic
                     end
                 | None => SErr used
                 end
  end.

Fixpoint run_steps (a : N) (l : list rstep) (bs : bytes) (used : N) : sres :=
  match l with
  | [] => SOk [] bs used
  | s :: l' =>
      match run_step a s bs used with
      | SOk v1 r1 u1 =>
          match run_steps a l' r1 u1 with
          | SOk v2 r2 u2 => SOk (v1 ++ v2) r2 u2
          | e => e
          end
      | e => e
      end
  end.

(* ---- the arms ------------------------------------------------------------------------------- *)

Definition shape_of (op : N) : shape := nth (N.to_nat op) op_table Unused.

(* Op::Function: `let [arg_count, optional_arg_count, capture_count, flags, size_a, size_b] =
   get_u8x6!()`, then FunctionFlags::try_from(flags) (flags <= 0b1111) else Error.
   operands: [register; arg_count; optional_arg_count; capture_count; flags; size] *)
Definition function_layout : list rstep := [SA; S8nJoin 6].
Definition function_check : option (nat * N) := Some (4%nat, FUNCTION_FLAGS_MAX + 1).

(* Op::StringPush: value = byte_a, flags = get_u8!(); when flags != 0: StringFormatFlags::try_from
   (flags <= 0b1111111 else Error), then one var u32 each for min_width / precision / fill
   character when the flag bit is set, then one byte for the representation (must name a
   StringFormatRepresentation, else Error).
   operands: [value; flags; min_width?; precision?; fill?; representation?] *)
Definition has_flag (flags bit : N) : bool := negb (N.land flags bit =? 0).

Definition sp_layout (flags : N) : list rstep :=
  (if has_flag flags SF_MIN_WIDTH then [SVar] else []) ++
  (if has_flag flags SF_PRECISION then [SVar] else []) ++
  (if has_flag flags SF_FILL_CHARACTER then [SVar] else []) ++
  (if has_flag flags SF_REPRESENTATION then [S8] else []).

Definition sp_check (flags : N) : option (nat * N) :=
  if has_flag flags SF_REPRESENTATION then Some (Nat.pred (2 + length (sp_layout flags)), REPR_COUNT) else None.

Definition finish (op : N) (pre : list N) (a : N) (l : list rstep) (chk : option (nat * N))
           (bs : bytes) (used : N) : dres :=
  match run_steps a l bs used with
  | SOk vals _ used' =>
      let args := pre ++ vals in
      match chk with
      | Some (k, bound) => if nth k args 0 <? bound then DOk (Instr op args) used' else DErr ErrCheck used'
      | None => DOk (Instr op args) used'
      end
  | SErr used' => DErr ErrOob used'
  | SPanic => DPanic
  end.

(* InstructionReader::next on the bytes from the reader's ip on *)
Definition decode (bs : bytes) : dres :=
  match bs with
  | op :: a :: rest =>
      match shape_of op with
      | Regular l chk => finish op [] a l chk rest 2
      | Irregular 1 => finish op [] a function_layout function_check rest 2
      | Irregular 2 =>
          match rest with
          | [] => DErr ErrOob 2
          | flags :: rest' =>
              if STRING_FLAGS_MAX <? flags then DErr ErrCheck 3
              else finish op [a; flags] a (sp_layout flags) (sp_check flags) rest' 3
          end
      | _ => DErr ErrOpcode 2
      end
  | _ => DEnd
  end.

(* the reader positioned at ip in a chunk *)
Definition fetch (code : bytes) (ip : N) : dres := decode (skipn (N.to_nat ip) code).

(* ---- encoder (Compiler::push_op / push_var_u32 / to_le_bytes) -------------------------------- *)

(* push_var_u32: 7 bits per byte, least significant first, bit 7 (`byte |= 0x80`) = "more follows" *)
Fixpoint enc_var_fuel (fuel : nat) (v : N) : bytes :=
  match fuel with
  | O => []
  | S f =>
      let b := N.land v 127 in
      let v' := N.shiftr v 7 in
      if v' =? 0 then [b] else N.lor b 128 :: enc_var_fuel f v'
  end.
Definition enc_var (v : N) : bytes := enc_var_fuel 5 v.

Definition lo8 (v : N) : N := v mod 256.
Definition hi8 (v : N) : N := v / 256.

(* encoding of one step from the operand list: (byte_a if the step defines it, bytes, operands left) *)
Definition enc_step (s : rstep) (args : list N) : option (option N * bytes * list N) :=
  match s with
  | SA => match args with x :: r => Some (Some x, [], r) | _ => None end
  | S8 => match args with x :: r => Some (None, [x], r) | _ => None end
  | S8n n => match take n args with Some (xs, r) => Some (None, xs, r) | None => None end
  | S16 => match args with x :: r => Some (None, [lo8 x; hi8 x], r) | _ => None end
  | SVar => match args with x :: r => Some (None, enc_var x, r) | _ => None end
  | SVarA => match args with
             | x :: r => match enc_var x with
                         | f :: tl => Some (Some f, tl, r)
                         | [] => None
                         end
             | _ => None
             end
  | S16A => match args with x :: r => Some (Some (lo8 x), [hi8 x], r) | _ => None end
  | S8nVar n => match take n args with
                | Some (xs, r) => match split_last xs with
                                  | Some (pre, v) => Some (None, pre ++ enc_var v, r)
                                  | None => None
                                  end
                | None => None
                end
  | S8nJoin n => match take (Nat.pred n) args with
                 | Some (xs, r) => match split_last xs with
                                   | Some (pre, v) => Some (None, pre ++ [lo8 v; hi8 v], r)
                                   | None => None
                                   end
                 | None => None
                 end
  end.

Fixpoint enc_steps (l : list rstep) (args : list N) : option (option N * bytes) :=
  match l with
  | [] => match args with [] => Some (None, []) | _ => None end
  | s :: l' =>
      match enc_step s args with
      | Some (a1, b1, r) =>
          match enc_steps l' r with
          | Some (a2, b2) => Some (match a1 with Some x => Some x | None => a2 end, b1 ++ b2)
          | None => None
          end
      | None => None
      end
  end.

Definition byte_a_default (a : option N) : N := match a with Some x => x | None => 0 end.

Definition encode (i : instr) : option bytes :=
  let 'Instr op args := i in
  match shape_of op with
  | Regular l _ => match enc_steps l args with
                   | Some (a, bs) => Some (op :: byte_a_default a :: bs)
                   | None => None
                   end
  | Irregular 1 => match enc_steps function_layout args with
                   | Some (a, bs) => Some (op :: byte_a_default a :: bs)
                   | None => None
                   end
  | Irregular 2 => match args with
                   | v :: flags :: extra =>
                       match enc_steps (sp_layout flags) extra with
                       | Some (_, bs) => Some (op :: v :: flags :: bs)
                       | None => None
                       end
                   | _ => None
                   end
  | _ => None
  end.

(* ---- well-formed operand values --------------------------------------------------------------- *)

Definition is_u8 (x : N) : bool := x <? 256.
Definition is_u16 (x : N) : bool := x <? 65536.
Definition is_u32 (x : N) : bool := x <? 4294967296.

(* operand ranges per step: (ok, operands left) *)
Definition wf_step (s : rstep) (args : list N) : option (list N) :=
  match s with
  | SA | S8 => match args with x :: r => if is_u8 x then Some r else None | _ => None end
  | S8n n => match take n args with
             | Some (xs, r) => if forallb is_u8 xs then Some r else None
             | None => None
             end
  | S16 | S16A => match args with x :: r => if is_u16 x then Some r else None | _ => None end
  | SVar | SVarA => match args with x :: r => if is_u32 x then Some r else None | _ => None end
  | S8nVar n => match take n args with
                | Some (xs, r) => match split_last xs with
                                  | Some (pre, v) => if forallb is_u8 pre && is_u32 v then Some r else None
                                  | None => None
                                  end
                | None => None
                end
  | S8nJoin n => match take (Nat.pred n) args with
                 | Some (xs, r) => match split_last xs with
                                   | Some (pre, v) => if forallb is_u8 pre && is_u16 v then Some r else None
                                   | None => None
                                   end
                 | None => None
                 end
  end.

Fixpoint wf_steps (l : list rstep) (args : list N) : bool :=
  match l with
  | [] => match args with [] => true | _ => false end
  | s :: l' => match wf_step s args with
               | Some r => wf_steps l' r
               | None => false
               end
  end.

Definition wf_check (chk : option (nat * N)) (args : list N) : bool :=
  match chk with
  | Some (k, bound) => nth k args 0 <? bound
  | None => true
  end.

(* a layout uses byte_a in its first step or not at all *)
Definition uses_a (s : rstep) : bool := match s with SA | SVarA | S16A => true | _ => false end.
Definition layout_ok (l : list rstep) : bool :=
  match l with
  | [] => true
  | _ :: l' => forallb (fun s => negb (uses_a s)) l'
  end.

Definition wf_instr (i : instr) : bool :=
  let 'Instr op args := i in
  is_u8 op &&
  match shape_of op with
  | Regular l chk => wf_steps l args && wf_check chk args
  | Irregular 1 => wf_steps function_layout args && wf_check function_check args
  | Irregular 2 => match args with
                   | v :: flags :: extra =>
                       is_u8 v && (flags <=? STRING_FLAGS_MAX) && wf_steps (sp_layout flags) extra
                       && wf_check (sp_check flags) args
                   | _ => false
                   end
  | _ => false
  end.
