(* The koto VM (crates/runtime/src/vm.rs, execute_instructions / execute_instruction) abstracted to
   control flow and register/constant INDEXING, with nondeterministic data.

   State: (pc, n) = the reader's ip inside the chunk and the number of registers of the current
   frame (0 until the frame's NewFrame has run).  The abstraction keeps, per instruction,
     - which operands index the frame's registers      (get_register / set_register / clone_register)
     - which operand ranges do                          (register_slice, call argument windows)
     - which operands index the constant pool
     - where the ip can go next                         (fall through, jump_ip, jump_ip_back, the
                                                         catch ip registered by TryStart, the ip after a
                                                         Function body, the first ip of a Function body
                                                         when the function value is called)
   and forgets values: every branch may go either way, every instruction after a TryStart may throw
   (over-approximated by letting TryStart itself branch to its catch ip), any function value created
   by a reachable Function instruction may be called (a fresh frame at its first ip).  Returning to a
   caller resumes after the Call instruction with the caller's frame size, which is what falling
   through the Call gives.

   Faults = the internal faults C05 lists:
     - the reader yields None (ip outside the code), Instruction::Error (unknown opcode, truncated
       operands, invalid flags) or panics;
     - a register operand >= n (get_register's panic / Vec index panic), a register range or call
       window reaching past n;
     - a constant index >= the size of the constant pool;
     - jump_ip_back below 0 (usize underflow).
   This file is specification (definitions only). *)
From Coq Require Import List NArith Bool.
From KV.bc Require Import Instr GenOps Decode.
Import ListNotations.
Open Scope N_scope.

(* what the VM does with each operand *)
Inductive role :=
| Reg        (* index of a register of the current frame *)
| Imm        (* immediate data *)
| Cst        (* index into the chunk's constant pool *)
| Fwd        (* jump_ip(offset) *)
| Back       (* jump_ip_back(offset) *)
| Start      (* first register of a range; the next operand is its length *)
| Count
| Base       (* call frame base: written, and argument window base+1 .. base+1+argc+packed *)
| Argc
| Packed
| FSize.     (* Function: size of the body that follows *)

Definition role_table : list (N * list role) :=
  [ (OP_NewFrame, [Imm]); (OP_Copy, [Reg; Reg]); (OP_SetNull, [Reg]); (OP_SetFalse, [Reg]); (OP_SetTrue, [Reg]);
    (OP_Set0, [Reg]); (OP_Set1, [Reg]); (OP_SetNumberU8, [Reg; Imm]); (OP_SetNumberNegU8, [Reg; Imm]);
    (OP_LoadFloat, [Reg; Cst]); (OP_LoadInt, [Reg; Cst]); (OP_LoadString, [Reg; Cst]); (OP_LoadNonLocal, [Reg; Cst]);
    (OP_Import, [Reg]); (OP_ImportAll, [Reg]); (OP_MakeTempTuple, [Reg; Start; Count]);
    (OP_TempTupleToTuple, [Reg; Reg]); (OP_MakeMap, [Reg; Imm]); (OP_MakeIterator, [Reg; Reg]);
    (OP_SequenceStart, [Imm]); (OP_SequencePush, [Reg]); (OP_SequencePushN, [Start; Count]);
    (OP_SequenceToList, [Reg]); (OP_SequenceToTuple, [Reg]); (OP_StringStart, [Imm]);
    (OP_StringFinish, [Reg]); (OP_Function, [Reg; Imm; Imm; Imm; Imm; FSize]);
    (* Capture reads its function register with get_register_safe: not a fault when absent *)
    (OP_Capture, [Imm; Imm; Reg]);
    (OP_Range, [Reg; Reg; Reg]); (OP_RangeInclusive, [Reg; Reg; Reg]); (OP_RangeTo, [Reg; Reg]);
    (OP_RangeToInclusive, [Reg; Reg]); (OP_RangeFrom, [Reg; Reg]); (OP_RangeFull, [Reg]);
    (OP_Negate, [Reg; Reg]); (OP_Not, [Reg; Reg]);
    (OP_Add, [Reg; Reg; Reg]); (OP_Subtract, [Reg; Reg; Reg]); (OP_Multiply, [Reg; Reg; Reg]);
    (OP_Divide, [Reg; Reg; Reg]); (OP_Remainder, [Reg; Reg; Reg]); (OP_Power, [Reg; Reg; Reg]);
    (OP_AddAssign, [Reg; Reg]); (OP_SubtractAssign, [Reg; Reg]); (OP_MultiplyAssign, [Reg; Reg]);
    (OP_DivideAssign, [Reg; Reg]); (OP_RemainderAssign, [Reg; Reg]); (OP_PowerAssign, [Reg; Reg]);
    (OP_Less, [Reg; Reg; Reg]); (OP_LessOrEqual, [Reg; Reg; Reg]); (OP_Greater, [Reg; Reg; Reg]);
    (OP_GreaterOrEqual, [Reg; Reg; Reg]); (OP_Equal, [Reg; Reg; Reg]); (OP_NotEqual, [Reg; Reg; Reg]);
    (OP_Jump, [Fwd]); (OP_JumpBack, [Back]); (OP_JumpIfFalse, [Reg; Fwd]); (OP_JumpIfTrue, [Reg; Fwd]);
    (OP_JumpIfNull, [Reg; Fwd]);
    (OP_Call, [Reg; Reg; Base; Argc; Packed]); (OP_CallInstance, [Reg; Reg; Reg; Base; Argc; Packed]);
    (OP_Return, [Reg]); (OP_Yield, [Reg]); (OP_Throw, [Reg]);
    (OP_IterNext, [Reg; Reg; Fwd]); (OP_IterNextTemp, [Reg; Reg; Fwd]); (OP_IterNextQuiet, [Reg; Fwd]);
    (OP_IterUnpack, [Reg; Reg]);
    (OP_TempIndex, [Reg; Reg; Imm]); (OP_SliceFrom, [Reg; Reg; Imm]); (OP_SliceTo, [Reg; Reg; Imm]);
    (OP_Index, [Reg; Reg; Reg]); (OP_IndexAssign, [Reg; Reg; Reg]);
    (OP_MetaInsert, [Reg; Imm; Reg]); (OP_MetaInsertNamed, [Reg; Imm; Reg; Reg]);
    (OP_MetaExport, [Imm; Reg]); (OP_MetaExportNamed, [Imm; Reg; Reg]);
    (OP_ExportValue, [Reg; Reg]); (OP_ExportEntry, [Reg]);
    (OP_Access, [Reg; Reg; Cst]); (OP_AccessString, [Reg; Reg; Reg]); (OP_AccessAssign, [Reg; Reg; Reg]);
    (OP_Size, [Reg; Reg]); (OP_TryStart, [Reg; Fwd]); (OP_TryEnd, []);
    (OP_Debug, [Reg; Cst]); (OP_CheckSizeEqual, [Reg; Imm]); (OP_CheckSizeMin, [Reg; Imm]);
    (OP_AssertType, [Reg; Cst]); (OP_AssertOptionalType, [Reg; Cst]);
    (OP_CheckType, [Reg; Cst; Fwd]); (OP_CheckOptionalType, [Reg; Cst; Fwd]);
    (OP_TryAccess, [Reg; Reg; Cst; Fwd]); (OP_TryAccessString, [Reg; Reg; Reg; Fwd]) ].

Fixpoint assoc (op : N) (t : list (N * list role)) : option (list role) :=
  match t with
  | [] => None
  | (o, r) :: t' => if o =? op then Some r else assoc op t'
  end.

(* StringPush: [value; flags; min_width?; precision?; fill character (a constant index)?; repr?] *)
Definition string_push_roles (flags : N) : list role :=
  [Reg; Imm] ++
  (if has_flag flags SF_MIN_WIDTH then [Imm] else []) ++
  (if has_flag flags SF_PRECISION then [Imm] else []) ++
  (if has_flag flags SF_FILL_CHARACTER then [Cst] else []) ++
  (if has_flag flags SF_REPRESENTATION then [Imm] else []).

Definition roles_of (i : instr) : list role :=
  if i_op i =? OP_StringPush then string_push_roles (arg i 1)
  else match assoc (i_op i) role_table with
       | Some r => r
       | None => []
       end.

Fixpoint pick (want : role -> bool) (rs : list role) (args : list N) : list N :=
  match rs, args with
  | r :: rs', x :: args' => if want r then x :: pick want rs' args' else pick want rs' args'
  | _, _ => []
  end.

Definition is_role (a b : role) : bool :=
  match a, b with
  | Reg, Reg | Imm, Imm | Cst, Cst | Fwd, Fwd | Back, Back | Start, Start | Count, Count
  | Base, Base | Argc, Argc | Packed, Packed | FSize, FSize => true
  | _, _ => false
  end.

Definition operands (r : role) (i : instr) : list N := pick (is_role r) (roles_of i) (i_args i).

Definition regs_of (i : instr) : list N := operands Reg i ++ operands Base i.
Definition consts_of (i : instr) : list N := operands Cst i.

(* (first register, length) of every register range the instruction addresses *)
Definition ranges_of (i : instr) : list (N * N) :=
  match operands Start i, operands Count i with
  | [s], [c] => [(s, c)]
  | _, _ => []
  end ++
  match operands Base i, operands Argc i, operands Packed i with
  | [b], [a], [p] => [(b, 1 + a + p)]
  | _, _, _ => []
  end.

Definition sum (l : list N) : N := fold_right N.add 0 l.

(* where jump_ip / jump_ip_back can take the reader; None = usize underflow in jump_ip_back *)
Definition jump_targets (i : instr) (pc k : N) : option (list N) :=
  if forallb (fun off => off <=? pc + k) (operands Back i)
  then Some (map (fun off => pc + k + off) (operands Fwd i) ++ map (fun off => pc + k - off) (operands Back i))
  else None.

Definition falls_through (i : instr) : bool :=
  negb ((i_op i =? OP_Jump) || (i_op i =? OP_JumpBack) || (i_op i =? OP_Return) || (i_op i =? OP_Throw)).

(* the ip after the instruction when it does not jump: a Function skips its body *)
Definition next_pc (i : instr) (pc k : N) : N := pc + k + sum (operands FSize i).

Definition frame_after (i : instr) (n : N) : N :=
  if i_op i =? OP_NewFrame then arg i 0 else n.

Inductive astate := AS (pc : N) (n : N).

Section Chunk.
  Variable code : bytes.
  Variable nconsts : N.

  Inductive step : astate -> astate -> Prop :=
  | step_next : forall pc n i k,
      fetch code pc = DOk i k -> falls_through i = true ->
      step (AS pc n) (AS (next_pc i pc k) (frame_after i n))
  | step_jump : forall pc n i k ts t,
      fetch code pc = DOk i k -> jump_targets i pc k = Some ts -> In t ts ->
      step (AS pc n) (AS t n)
  | step_enter : forall pc n i k,
      fetch code pc = DOk i k -> i_op i = OP_Function ->
      step (AS pc n) (AS (pc + k) 0).

  Inductive reach : astate -> Prop :=
  | reach_init : reach (AS 0 0)
  | reach_step : forall s s', reach s -> step s s' -> reach s'.

  Definition instr_fault (i : instr) (pc k n : N) : Prop :=
    (exists r, In r (regs_of i) /\ n <= r) \/
    (exists s c, In (s, c) (ranges_of i) /\ c <> 0 /\ n < s + c) \/
    (exists x, In x (consts_of i) /\ nconsts <= x) \/
    jump_targets i pc k = None.

  Definition fault (s : astate) : Prop :=
    let 'AS pc n := s in
    match fetch code pc with
    | DOk i k => instr_fault i pc k n
    | _ => True
    end.
End Chunk.
