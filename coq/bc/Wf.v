(* The bytecode verifier: an executable check that a chunk is well formed (clauses 1-4 of C05).
   One linear pass decodes the whole chunk (function bodies are inline after their Function
   instruction, so the same pass walks them) and records for every instruction start the function
   body it belongs to and that body's frame size; then every instruction is checked locally against
   that table.  Definitions only; soundness w.r.t. AbsVM is proved in WfProofs.v. *)
From Coq Require Import List NArith Bool FMapPositive.
From KV.bc Require Import Instr GenOps Decode AbsVM.
Import ListNotations.
Open Scope N_scope.

Module PM := PositiveMap.

Record item := mkItem { it_pc : N; it_i : instr; it_k : N; it_body : N; it_n : N }.
Record body := mkBody { b_start : N; b_end : N; b_n : N }.

Definition key (pc : N) : positive := N.succ_pos pc.
Definition table := PM.t (N * N).      (* instruction start -> (start of its function body, frame size) *)

Fixpoint pop_ended (pc : N) (st : list body) : list body :=
  match st with
  | b :: st' => if b_end b =? pc then pop_ended pc st' else st
  | [] => []
  end.

(* the instruction at the head of bs is NewFrame n *)
Definition newframe_count (bs : bytes) : option N :=
  match decode bs with
  | DOk (Instr op [n]) _ => if op =? OP_NewFrame then Some n else None
  | _ => None
  end.

(* linear decode; bs is the code from pc on; st the stack of open function bodies (innermost first) *)
Fixpoint scan (fuel : nat) (pc : N) (bs : bytes) (st : list body) (acc : list item) : option (list item) :=
  match fuel with
  | O => None
  | S fuel' =>
      match pop_ended pc st with
      | [] => match bs with [] => Some acc | _ => None end
      | b :: st' =>
          match decode bs with
          | DOk i k =>
              let pc' := pc + k in
              if b_end b <? pc' then None
              else
                let acc' := mkItem pc i k (b_start b) (b_n b) :: acc in
                let bs' := skipn (N.to_nat k) bs in
                if i_op i =? OP_Function then
                  let size := sum (operands FSize i) in
                  if b_end b <? pc' + size then None
                  else match newframe_count bs' with
                       | Some n' => scan fuel' pc' bs' (mkBody pc' (pc' + size) n' :: b :: st') acc'
                       | None => None
                       end
                else scan fuel' pc' bs' (b :: st') acc'
          | _ => None
          end
      end
  end.

Definition build (items : list item) : table :=
  fold_left (fun m it => PM.add (key (it_pc it)) (it_body it, it_n it) m) items (PM.empty _).

(* Dead code (e.g. the Call of `foo (return)`, the TryEnd after a Throw) is not checked: a linear pass
   marks the instruction starts that the entry, a fall-through, a jump target or a Function reaches.
   The marking needs no proof: the table is built from the marked items only, and check_item demands that
   every successor of a marked item is in the table, so an unsound marking makes the verifier reject. *)
Definition marks := PM.t unit.
Definition marked (s : marks) (pc : N) : bool :=
  match PM.find (key pc) s with Some _ => true | None => false end.

Definition live_step (st : marks * bool) (it : item) : marks * bool :=
  let '(s, cur) := st in
  let pc := it_pc it in
  let i := it_i it in
  let k := it_k it in
  if cur || marked s pc then
    let s1 := PM.add (key pc) tt s in
    let s2 := match jump_targets i pc k with
              | Some ts => fold_left (fun m t => PM.add (key t) tt m) ts s1
              | None => s1
              end in
    if i_op i =? OP_Function
    then (PM.add (key (pc + k)) tt (PM.add (key (next_pc i pc k)) tt s2), false)
    else (s2, falls_through i)
  else (s, false).

(* items: the scan's result (reverse code order); two passes so that one level of backward-only targets
   is propagated *)
Definition live_items (items : list item) : list item :=
  let order := rev items in
  let s1 := fst (fold_left live_step order (PM.add (key 0) tt (PM.empty _), false)) in
  let s2 := fst (fold_left live_step order (s1, false)) in
  filter (fun it => marked s2 (it_pc it)) items.

Definition in_body (m : table) (t b n : N) : bool :=
  match PM.find (key t) m with
  | Some (b', n') => (b' =? b) && (n' =? n)
  | None => false
  end.

Definition check_item (m : table) (nconsts : N) (it : item) : bool :=
  let i := it_i it in
  let pc := it_pc it in
  let k := it_k it in
  let b := it_body it in
  let n := it_n it in
  (* NewFrame exactly at the first instruction of a body, with the body's frame size *)
  (if pc =? b then (i_op i =? OP_NewFrame) && (arg i 0 =? n) else negb (i_op i =? OP_NewFrame)) &&
  forallb (fun r => r <? n) (regs_of i) &&
  forallb (fun sc => (snd sc =? 0) || (fst sc + snd sc <=? n)) (ranges_of i) &&
  forallb (fun x => x <? nconsts) (consts_of i) &&
  match jump_targets i pc k with
  | Some ts => forallb (fun t => in_body m t b n) ts
  | None => false
  end &&
  (if falls_through i then in_body m (next_pc i pc k) b n else true) &&
  (if i_op i =? OP_Function
   then match PM.find (key (pc + k)) m with
        | Some (b', _) => b' =? pc + k
        | None => false
        end
   else true).

Definition scan_chunk (c : bytes) : option (list item) :=
  match newframe_count c with
  | Some n0 => scan (S (length c)) 0 c [mkBody 0 (N.of_nat (length c)) n0] []
  | None => None
  end.

Definition wf_chunk (c : bytes) (nconsts : N) : bool :=
  match scan_chunk c with
  | Some items =>
      let live := live_items items in
      let m := build live in
      forallb (check_item m nconsts) live &&
      match PM.find (key 0) m with
      | Some (b, _) => b =? 0
      | None => false
      end
  | None => false
  end.

(* diagnostics for the check: the first item that fails, as (pc, op) *)
Definition first_bad (c : bytes) (nconsts : N) : list N :=
  match scan_chunk c with
  | Some items =>
      let live := live_items items in
      let m := build live in
      match filter (fun it => negb (check_item m nconsts it)) (rev live) with
      | it :: _ => [it_pc it; i_op (it_i it)]
      | [] => []
      end
  | None => [0; 999]
  end.
