(* Proofs about the decoder model: it inverts the encoder on every well-formed instruction of
   every opcode of the regenerated layout table. *)
From Coq Require Import List NArith Bool Lia Arith.
From KV.bc Require Import Instr GenOps Decode.
Import ListNotations.
Open Scope N_scope.

(* ---- var u32 ---------------------------------------------------------------------------------- *)

Lemma land_ones_small : forall x n, x < 2 ^ n -> N.land x (N.ones n) = x.
Proof. intros. rewrite N.land_ones. apply N.mod_small; assumption. Qed.

Lemma mask_small : forall x, x < 2 ^ 32 -> N.land x U32_MASK = x.
Proof. intros. change U32_MASK with (N.ones 32). apply land_ones_small; assumption. Qed.

Lemma split7 : forall v, v = N.lor (N.land v 127) (N.shiftl (N.shiftr v 7) 7).
Proof.
  intros v. apply N.bits_inj. intros i.
  rewrite N.lor_spec, N.land_spec.
  change 127 with (N.ones 7).
  destruct (N.lt_ge_cases i 7) as [H | H].
  - rewrite N.ones_spec_low by assumption. rewrite N.shiftl_spec_low by assumption.
    rewrite andb_true_r, orb_false_r. reflexivity.
  - rewrite N.ones_spec_high by assumption. rewrite N.shiftl_spec_high' by assumption.
    rewrite N.shiftr_spec'. rewrite andb_false_r. simpl. f_equal. lia.
Qed.

Lemma low7_lt : forall v, N.land v 127 < 128.
Proof. intros. change 127 with (N.ones 7). rewrite N.land_ones. apply N.mod_lt. discriminate. Qed.

Lemma low7_le : forall v, N.land v 127 <= v.
Proof. intros. change 127 with (N.ones 7). rewrite N.land_ones. apply N.mod_le. discriminate. Qed.

Lemma low7_idem : forall v, N.land (N.land v 127) 127 = N.land v 127.
Proof. intros. rewrite <- N.land_assoc. reflexivity. Qed.

Lemma low7_bit7 : forall v, N.land (N.land v 127) 128 = 0.
Proof. intros. rewrite <- N.land_assoc. simpl. apply N.land_0_r. Qed.

Lemma cont_low7 : forall b, N.land (N.lor b 128) 127 = N.land b 127.
Proof. intros. rewrite N.land_lor_distr_l. simpl (N.land 128 127). apply N.lor_0_r. Qed.

Lemma cont_bit7 : forall b, (N.land (N.lor b 128) 128 =? 0) = false.
Proof.
  intros. apply N.eqb_neq. rewrite N.land_lor_distr_l. simpl (N.land 128 128).
  intro H. apply N.lor_eq_0_iff in H. destruct H; discriminate.
Qed.

Lemma shiftr7_mul : forall v, N.shiftr v 7 * 128 <= v.
Proof.
  intros. rewrite N.shiftr_div_pow2. change (2 ^ 7) with 128.
  rewrite N.mul_comm. apply N.mul_div_le. discriminate.
Qed.

Lemma var_loop_enc : forall n v s acc rest used,
    v < 2 ^ (7 * N.of_nat n) -> (0 < n)%nat -> s + 7 * N.of_nat n <= 35 -> v * 2 ^ s < 2 ^ 32 ->
    var_loop (enc_var_fuel n v ++ rest) s acc used =
    VOk (N.lor acc (N.shiftl v s)) rest (used + N.of_nat (length (enc_var_fuel n v))).
Proof.
  induction n as [| n IH]; intros v s acc rest used Hv Hn Hs Hb; [lia |].
  cbn [enc_var_fuel].
  assert (Hs32 : (32 <=? s) = false) by (apply N.leb_gt; lia).
  assert (Hlow : N.land v 127 * 2 ^ s < 2 ^ 32).
  { eapply N.le_lt_trans; [| exact Hb]. apply N.mul_le_mono_r. apply low7_le. }
  destruct (N.eqb_spec (N.shiftr v 7) 0) as [Hz | Hz].
  - (* last byte *)
    cbn [app var_loop]. rewrite Hs32. rewrite low7_idem, low7_bit7. cbn [N.eqb].
    rewrite N.shiftl_mul_pow2, mask_small by assumption.
    f_equal.
    rewrite <- N.shiftl_mul_pow2.
    rewrite (split7 v) at 2. rewrite Hz. rewrite N.shiftl_0_l, N.lor_0_r. reflexivity.
  - cbn [app var_loop]. rewrite Hs32. rewrite cont_low7, low7_idem, cont_bit7.
    rewrite N.shiftl_mul_pow2, mask_small by assumption.
    assert (Hn' : (0 < n)%nat).
    { destruct n; [| lia]. exfalso. apply Hz. rewrite N.shiftr_div_pow2. apply N.div_small. simpl in Hv. exact Hv. }
    rewrite IH.
    + f_equal.
      * rewrite <- N.shiftl_mul_pow2. rewrite <- N.lor_assoc. f_equal.
        rewrite (split7 v) at 3. rewrite N.shiftl_lor. f_equal.
        rewrite N.shiftl_shiftl. f_equal. lia.
      * cbn [length]. lia.
    + rewrite N.shiftr_div_pow2. apply N.div_lt_upper_bound; [discriminate |].
      rewrite <- N.pow_add_r. replace (7 + 7 * N.of_nat n) with (7 * N.of_nat (S n)) by lia. exact Hv.
    + exact Hn'.
    + lia.
    + eapply N.le_lt_trans; [| exact Hb].
      rewrite N.pow_add_r. change (2 ^ 7) with 128.
      replace (N.shiftr v 7 * (2 ^ s * 128)) with (N.shiftr v 7 * 128 * 2 ^ s) by ring.
      apply N.mul_le_mono_r. apply shiftr7_mul.
Qed.

Lemma enc_var_nonempty : forall v, exists f tl, enc_var v = f :: tl.
Proof.
  intros. unfold enc_var. cbn [enc_var_fuel].
  destruct (N.shiftr v 7 =? 0); eauto.
Qed.

Lemma get_var_enc : forall v rest used,
    v < 2 ^ 32 ->
    get_var (enc_var v ++ rest) used = VOk v rest (used + N.of_nat (length (enc_var v))).
Proof.
  intros. unfold get_var, enc_var. rewrite var_loop_enc.
  - rewrite N.shiftl_0_r. reflexivity.
  - simpl. eapply N.lt_trans; [exact H | reflexivity].
  - lia.
  - simpl. lia.
  - simpl (2 ^ 0). lia.
Qed.

Lemma enc_var_unfold : forall v,
    enc_var v = if N.shiftr v 7 =? 0 then [N.land v 127]
                else N.lor (N.land v 127) 128 :: enc_var_fuel 4 (N.shiftr v 7).
Proof. reflexivity. Qed.

Lemma get_var_first_enc' : forall v rest used,
    v < 2 ^ 32 ->
    get_var_first (hd 0 (enc_var v)) (tl (enc_var v) ++ rest) used =
    VOk v rest (used + N.of_nat (length (tl (enc_var v)))).
Proof.
  intros v rest used Hv. rewrite enc_var_unfold.
  unfold get_var_first.
  destruct (N.eqb_spec (N.shiftr v 7) 0) as [Hz | Hz]; cbn [hd tl].
  - rewrite low7_bit7. cbn [N.eqb]. rewrite low7_idem.
    cbn [app length]. f_equal.
    + rewrite (split7 v) at 2. rewrite Hz. rewrite N.shiftl_0_l, N.lor_0_r. reflexivity.
    + lia.
  - rewrite cont_bit7, cont_low7, low7_idem.
    rewrite var_loop_enc.
    + f_equal. symmetry. apply split7.
    + rewrite N.shiftr_div_pow2. apply N.div_lt_upper_bound; [discriminate |].
      rewrite <- N.pow_add_r. simpl. eapply N.lt_trans; [exact Hv | reflexivity].
    + lia.
    + simpl. lia.
    + change (2 ^ 7) with 128. eapply N.le_lt_trans; [apply shiftr7_mul | exact Hv].
Qed.

Lemma get_var_first_enc : forall v f tl rest used,
    v < 2 ^ 32 -> enc_var v = f :: tl ->
    get_var_first f (tl ++ rest) used = VOk v rest (used + N.of_nat (length tl)).
Proof.
  intros v f tl0 rest used Hv He.
  pose proof (get_var_first_enc' v rest used Hv) as H. rewrite He in H. exact H.
Qed.

(* ---- list helpers ------------------------------------------------------------------------------ *)

Lemma take_spec : forall n args xs r,
    take n args = Some (xs, r) -> args = xs ++ r /\ length xs = n.
Proof.
  induction n as [| n IH]; intros args xs r H; cbn [take] in H.
  - injection H as <- <-. split; reflexivity.
  - destruct args as [| b bs]; [discriminate |].
    destruct (take n bs) as [[xs' r'] |] eqn:Ht; [| discriminate].
    injection H as <- <-. apply IH in Ht. destruct Ht as [-> <-]. split; reflexivity.
Qed.

Lemma take_app_exact : forall xs rest, take (length xs) (xs ++ rest) = Some (xs, rest).
Proof.
  induction xs as [| x xs IH]; intros rest; cbn [length take app]; [reflexivity |].
  rewrite IH. reflexivity.
Qed.

Lemma split_last_spec : forall xs pre l, split_last xs = Some (pre, l) -> xs = pre ++ [l].
Proof.
  induction xs as [| x xs IH]; intros pre l H; [discriminate |].
  cbn [split_last] in H. destruct xs as [| y ys].
  - injection H as <- <-. reflexivity.
  - destruct (split_last (y :: ys)) as [[ys' l'] |] eqn:Hs; [| discriminate].
    injection H as <- <-. rewrite (IH ys' l' eq_refl). reflexivity.
Qed.

Lemma split_last_app : forall pre l, split_last (pre ++ [l]) = Some (pre, l).
Proof.
  induction pre as [| x pre IH]; intros l; [reflexivity |].
  cbn [app split_last]. rewrite IH. destruct (pre ++ [l]) eqn:E; [| reflexivity].
  destruct pre; discriminate.
Qed.

Lemma le16_split : forall x, le16 (lo8 x) (hi8 x) = x.
Proof.
  intros. unfold le16, lo8, hi8. pose proof (N.div_mod x 256). lia.
Qed.

Lemma is_u32_lt : forall x, is_u32 x = true -> x < 2 ^ 32.
Proof. intros x H. unfold is_u32 in H. apply N.ltb_lt in H. exact H. Qed.

(* ---- one step ---------------------------------------------------------------------------------- *)

Definition a_ok (ao : option N) (a : N) : Prop := match ao with Some x => a = x | None => True end.

Lemma step_ok : forall s args r,
    wf_step s args = Some r ->
    exists ao bs vals,
      enc_step s args = Some (ao, bs, r) /\ args = vals ++ r /\ (uses_a s = false -> ao = None) /\
      forall a rest used, a_ok ao a ->
        run_step a s (bs ++ rest) used = SOk vals rest (used + N.of_nat (length bs)).
Proof.
  intros s args r H. destruct s; cbn [wf_step] in H.
  - (* SA *)
    destruct args as [| x r0]; [discriminate |]. destruct (is_u8 x); [| discriminate]. injection H as <-.
    exists (Some x), [], [x]. repeat split; try reflexivity; try discriminate.
    intros a rest used Ha. cbn in Ha. subst a. cbn. rewrite N.add_0_r. reflexivity.
  - (* S8 *)
    destruct args as [| x r0]; [discriminate |]. destruct (is_u8 x); [| discriminate]. injection H as <-.
    exists None, [x], [x]. repeat split; try reflexivity.
  - (* S8n *)
    destruct (take n args) as [[xs r0] |] eqn:Ht; [| discriminate].
    destruct (forallb is_u8 xs); [| discriminate]. injection H as <-.
    apply take_spec in Ht as Hs. destruct Hs as [-> <-].
    exists None, xs, xs. cbn [enc_step]. rewrite Ht. repeat split; try reflexivity.
    intros a rest used _. cbn [run_step]. rewrite take_app_exact. reflexivity.
  - (* S16 *)
    destruct args as [| x r0]; [discriminate |]. destruct (is_u16 x); [| discriminate]. injection H as <-.
    exists None, [lo8 x; hi8 x], [x]. repeat split; try reflexivity.
    intros a rest used _. cbn. rewrite le16_split. reflexivity.
  - (* SVar *)
    destruct args as [| x r0]; [discriminate |]. destruct (is_u32 x) eqn:Hx; [| discriminate]. injection H as <-.
    exists None, (enc_var x), [x]. repeat split; try reflexivity.
    intros a rest used _. cbn [run_step]. rewrite get_var_enc by (apply is_u32_lt; exact Hx). reflexivity.
  - (* SVarA *)
    destruct args as [| x r0]; [discriminate |]. destruct (is_u32 x) eqn:Hx; [| discriminate]. injection H as <-.
    destruct (enc_var_nonempty x) as (f & tl & He).
    exists (Some f), tl, [x]. cbn [enc_step]. rewrite He. repeat split; try reflexivity; try discriminate.
    intros a rest used Ha. cbn in Ha. subst a. cbn [run_step].
    rewrite (get_var_first_enc x f tl) by (try apply is_u32_lt; assumption). reflexivity.
  - (* S16A *)
    destruct args as [| x r0]; [discriminate |]. destruct (is_u16 x); [| discriminate]. injection H as <-.
    exists (Some (lo8 x)), [hi8 x], [x]. repeat split; try reflexivity; try discriminate.
    intros a rest used Ha. cbn in Ha. subst a. cbn. rewrite le16_split. reflexivity.
  - (* S8nVar *)
    destruct (take n args) as [[xs r0] |] eqn:Ht; [| discriminate].
    destruct (split_last xs) as [[pre v] |] eqn:Hl; [| discriminate].
    destruct (forallb is_u8 pre && is_u32 v) eqn:Hb; [| discriminate]. injection H as <-.
    apply andb_true_iff in Hb. destruct Hb as [_ Hv].
    apply take_spec in Ht as Hs. destruct Hs as [-> Hn].
    apply split_last_spec in Hl as Hx.
    destruct (enc_var_nonempty v) as (f & tl & He).
    exists None, (pre ++ enc_var v), xs. cbn [enc_step]. rewrite Ht, Hl. repeat split; try reflexivity.
    intros a rest used _. cbn [run_step].
    assert (Hlen : n = length (pre ++ [f])).
    { rewrite <- Hn, Hx. rewrite !app_length. reflexivity. }
    rewrite He.
    replace ((pre ++ f :: tl) ++ rest) with ((pre ++ [f]) ++ (tl ++ rest))
      by (rewrite <- !app_assoc; reflexivity).
    rewrite Hlen at 1. rewrite take_app_exact. rewrite split_last_app.
    rewrite (get_var_first_enc v f tl) by (try apply is_u32_lt; assumption).
    cbn [of_vres]. rewrite Hx. f_equal.
    rewrite Hlen. rewrite !app_length. cbn [length]. lia.
  - (* S8nJoin *)
    destruct (take (Nat.pred n) args) as [[xs r0] |] eqn:Ht; [| discriminate].
    destruct (split_last xs) as [[pre v] |] eqn:Hl; [| discriminate].
    destruct (forallb is_u8 pre && is_u16 v) eqn:Hb; [| discriminate]. injection H as <-.
    apply take_spec in Ht as Hs. destruct Hs as [-> Hn].
    apply split_last_spec in Hl as Hx.
    exists None, (pre ++ [lo8 v; hi8 v]), xs. cbn [enc_step]. rewrite Ht, Hl. repeat split; try reflexivity.
    intros a rest used _. cbn [run_step].
    assert (Hlen : n = length (pre ++ [lo8 v; hi8 v])).
    { rewrite Hx in Hn. rewrite app_length in *. cbn [length] in *. lia. }
    rewrite Hlen at 1. rewrite take_app_exact.
    replace (pre ++ [lo8 v; hi8 v]) with ((pre ++ [lo8 v]) ++ [hi8 v]) at 1
      by (rewrite <- app_assoc; reflexivity).
    rewrite split_last_app. rewrite split_last_app. rewrite le16_split. rewrite Hx. f_equal.
    rewrite Hlen. reflexivity.
Qed.

(* ---- a whole layout ---------------------------------------------------------------------------- *)

Lemma steps_ok_noa : forall l args,
    forallb (fun s => negb (uses_a s)) l = true -> wf_steps l args = true ->
    exists bs, enc_steps l args = Some (None, bs) /\
      forall a rest used, run_steps a l (bs ++ rest) used = SOk args rest (used + N.of_nat (length bs)).
Proof.
  induction l as [| s l IH]; intros args Hl Hw; cbn [wf_steps] in Hw.
  - destruct args; [| discriminate]. exists []. split; [reflexivity |].
    intros. cbn. rewrite N.add_0_r. reflexivity.
  - cbn [forallb] in Hl. apply andb_true_iff in Hl. destruct Hl as [Hs Hl].
    destruct (wf_step s args) as [r |] eqn:Hst; [| discriminate].
    destruct (step_ok _ _ _ Hst) as (ao & bs1 & vals & He & Ha & Hu & Hr).
    rewrite Hu in * by (destruct (uses_a s); [discriminate | reflexivity]).
    destruct (IH r Hl Hw) as (bs2 & He2 & Hr2).
    exists (bs1 ++ bs2). cbn [enc_steps]. rewrite He, He2. split; [reflexivity |].
    intros a rest used. cbn [run_steps]. rewrite <- app_assoc. rewrite Hr by exact I.
    rewrite Hr2. rewrite Ha. f_equal. rewrite app_length. lia.
Qed.

Lemma steps_ok : forall l args,
    layout_ok l = true -> wf_steps l args = true ->
    exists ao bs, enc_steps l args = Some (ao, bs) /\
      forall rest used,
        run_steps (byte_a_default ao) l (bs ++ rest) used = SOk args rest (used + N.of_nat (length bs)).
Proof.
  intros l args Hl Hw. destruct l as [| s l].
  - cbn [wf_steps] in Hw. destruct args; [| discriminate]. exists None, []. split; [reflexivity |].
    intros. cbn. rewrite N.add_0_r. reflexivity.
  - cbn [layout_ok] in Hl. cbn [wf_steps] in Hw.
    destruct (wf_step s args) as [r |] eqn:Hst; [| discriminate].
    destruct (step_ok _ _ _ Hst) as (ao & bs1 & vals & He & Ha & _ & Hr).
    destruct (steps_ok_noa l r Hl Hw) as (bs2 & He2 & Hr2).
    exists ao, (bs1 ++ bs2). cbn [enc_steps]. rewrite He, He2. split.
    + destruct ao; reflexivity.
    + intros rest used. cbn [run_steps]. rewrite <- app_assoc. rewrite Hr.
      * rewrite Hr2. rewrite Ha. f_equal. rewrite app_length. lia.
      * destruct ao; cbn; [reflexivity | exact I].
Qed.

(* ---- the table ----------------------------------------------------------------------------------- *)

Definition shape_layout_ok (s : shape) : bool :=
  match s with
  | Regular l _ => layout_ok l
  | Irregular t => (t =? 1) || (t =? 2)
  | Unused => true
  end.

Lemma table_ok : forallb shape_layout_ok op_table = true.
Proof. vm_compute. reflexivity. Qed.

Lemma table_length : length op_table = 256%nat.
Proof. vm_compute. reflexivity. Qed.

Lemma shape_of_ok : forall op, shape_layout_ok (shape_of op) = true.
Proof.
  intros op. unfold shape_of.
  destruct (Nat.lt_ge_cases (N.to_nat op) (length op_table)) as [H | H].
  - pose proof table_ok as T. rewrite forallb_forall in T. apply T. apply nth_In. exact H.
  - rewrite nth_overflow by exact H. reflexivity.
Qed.

Lemma sp_layout_noa : forall flags, forallb (fun s => negb (uses_a s)) (sp_layout flags) = true.
Proof.
  intros. unfold sp_layout.
  destruct (has_flag flags SF_MIN_WIDTH), (has_flag flags SF_PRECISION),
    (has_flag flags SF_FILL_CHARACTER), (has_flag flags SF_REPRESENTATION); reflexivity.
Qed.

Lemma finish_ok : forall op pre a l chk bs rest used args,
    run_steps a l (bs ++ rest) used = SOk args rest (used + N.of_nat (length bs)) ->
    wf_check chk (pre ++ args) = true ->
    finish op pre a l chk (bs ++ rest) used = DOk (Instr op (pre ++ args)) (used + N.of_nat (length bs)).
Proof.
  intros. unfold finish. rewrite H. destruct chk as [[k bound] |]; [| reflexivity].
  cbn [wf_check] in H0. rewrite H0. reflexivity.
Qed.

(* decode is a left inverse of encode on well-formed instructions, for every opcode *)
Theorem encode_decode_full : forall i rest,
    wf_instr i = true ->
    exists bs, encode i = Some bs /\ decode (bs ++ rest) = DOk i (N.of_nat (length bs)).
Proof.
  intros [op args] rest Hw. unfold wf_instr in Hw. apply andb_true_iff in Hw. destruct Hw as [_ Hw].
  pose proof (shape_of_ok op) as Hok.
  unfold encode, decode.
  destruct (shape_of op) as [l chk | tag |] eqn:Hs; [| | discriminate].
  - apply andb_true_iff in Hw. destruct Hw as [Hst Hc]. cbn [shape_layout_ok] in Hok.
    destruct (steps_ok l args Hok Hst) as (ao & bs & He & Hr).
    rewrite He. eexists. split; [reflexivity |].
    cbn [app]. rewrite Hs.
    rewrite (finish_ok op [] _ l chk bs rest 2 args (Hr rest 2) Hc).
    cbn [app length]. f_equal. lia.
  - cbn [shape_layout_ok] in Hok.
    destruct tag as [| [[p | p |] | [p | p |] |]]; try discriminate.
    + (* StringPush *)
      destruct args as [| v [| flags extra]]; try discriminate.
      apply andb_true_iff in Hw. destruct Hw as [Hw Hc].
      apply andb_true_iff in Hw. destruct Hw as [Hw Hst].
      apply andb_true_iff in Hw. destruct Hw as [_ Hfl].
      destruct (steps_ok_noa _ _ (sp_layout_noa flags) Hst) as (bs & He & Hr).
      rewrite He. eexists. split; [reflexivity |].
      cbn [app]. rewrite Hs.
      assert (Hlt : (STRING_FLAGS_MAX <? flags) = false).
      { apply N.ltb_ge. apply N.leb_le. exact Hfl. }
      rewrite Hlt.
      rewrite (finish_ok op [v; flags] v _ _ bs rest 3 extra (Hr v rest 3) Hc).
      cbn [app length]. f_equal. lia.
    + (* Function *)
      apply andb_true_iff in Hw. destruct Hw as [Hst Hc].
      destruct (steps_ok function_layout args eq_refl Hst) as (ao & bs & He & Hr).
      rewrite He. eexists. split; [reflexivity |].
      cbn [app]. rewrite Hs.
      rewrite (finish_ok op [] _ _ _ bs rest 2 args (Hr rest 2) Hc).
      cbn [app length]. f_equal. lia.
Qed.

Theorem encode_decode_thm : forall i bs rest,
    wf_instr i = true -> encode i = Some bs -> decode (bs ++ rest) = DOk i (N.of_nat (length bs)).
Proof.
  intros i bs rest Hw He. destruct (encode_decode_full i rest Hw) as (bs' & He' & Hd).
  rewrite He in He'. injection He' as <-. exact Hd.
Qed.

Theorem encode_total : forall i, wf_instr i = true -> exists bs, encode i = Some bs.
Proof.
  intros i Hw. destruct (encode_decode_full i [] Hw) as (bs & He & _). eauto.
Qed.

(* ---- unused / valid opcodes ---------------------------------------------------------------------- *)

Theorem decode_unused_thm : forall op a rest,
    shape_of op = Unused -> decode (op :: a :: rest) = DErr ErrOpcode 2.
Proof. intros op a rest H. unfold decode. rewrite H. reflexivity. Qed.

Theorem shape_out_of_table : forall op, 256 <= op -> shape_of op = Unused.
Proof.
  intros op H. unfold shape_of. apply nth_overflow. rewrite table_length. lia.
Qed.

Lemma finish_not_opcode : forall op pre a l chk bs used,
    match finish op pre a l chk bs used with
    | DEnd => False
    | DErr ErrOpcode _ => False
    | _ => True
    end.
Proof.
  intros. unfold finish. destruct (run_steps a l bs used); try exact I.
  destruct chk as [[k bound] |]; [| exact I]. destruct (_ <? _); exact I.
Qed.

(* on an opcode that has a decoder arm the reader never reports "unexpected opcode" nor end of stream *)
Theorem decode_valid_op_thm : forall op a rest,
    shape_of op <> Unused ->
    match decode (op :: a :: rest) with
    | DEnd => False
    | DErr ErrOpcode _ => False
    | _ => True
    end.
Proof.
  intros op a rest H. pose proof (shape_of_ok op) as Hok. unfold decode.
  destruct (shape_of op) as [l chk | tag |]; [| | congruence].
  - apply finish_not_opcode.
  - cbn [shape_layout_ok] in Hok.
    destruct tag as [| [[p | p |] | [p | p |] |]]; try discriminate.
    + destruct rest as [| flags rest']; [exact I |].
      destruct (STRING_FLAGS_MAX <? flags); [exact I |]. apply finish_not_opcode.
    + apply finish_not_opcode.
Qed.
