(* Soundness of the clause-5 check. *)
From Coq Require Import List NArith Bool Lia FMapPositive.
From KV.bc Require Import Instr GenOps Decode AbsVM Wf WfProofs Wf5.
Import ListNotations.
Open Scope N_scope.

Lemma deq_eq : forall a b, deq a b = true -> a = b.
Proof.
  intros [[a1 a2] a3] [[b1 b2] b3] H. unfold deq in H.
  apply andb_true_iff in H. destruct H as [H H3]. apply andb_true_iff in H. destruct H as [H1 H2].
  apply N.eqb_eq in H1. apply N.eqb_eq in H2. apply N.eqb_eq in H3. subst. reflexivity.
Qed.

Lemma has_find : forall dm t d, has dm t d = true -> PM.find (key t) dm = Some d.
Proof.
  intros dm t d H. unfold has in H. destruct (PM.find (key t) dm) as [d' |]; [| discriminate].
  apply deq_eq in H. subst. reflexivity.
Qed.

Section Sound5.
  Variable c : bytes.
  Variable nconsts : N.
  Hypothesis WF : wf_chunk c nconsts = true.
  Hypothesis D5 : depths_ok c = true.

  Definition proj (s : dstate) : astate := let 'DS pc n _ := s in AS pc n.

  Lemma step5_proj : forall s s', step5 c s s' -> step c (proj s) (proj s').
  Proof.
    intros s s' H. destruct H; cbn [proj].
    - eapply step_next; eassumption.
    - eapply step_jump; eassumption.
    - eapply step_enter; eassumption.
  Qed.

  Lemma reach5_proj : forall s, reach5 c s -> reach c (proj s).
  Proof.
    induction 1; [apply reach_init |]. eapply reach_step; [eassumption | apply step5_proj; assumption].
  Qed.

  Definition the_dm : dtable :=
    match scan_chunk c with Some items => flow (rev items) | None => PM.empty _ end.

  Definition inv5 (s : dstate) : Prop := let 'DS pc n d := s in PM.find (key pc) the_dm = Some d.

  (* the depth check of the instruction the reader yields at a reachable ip *)
  Lemma depth_checked : forall pc n i k,
      reach c (AS pc n) -> fetch c pc = DOk i k ->
      check_depth the_dm (mkItem pc i k 0 0) = true.
  Proof.
    intros pc n i k Hr Hf.
    destruct (wf_reach_start c nconsts WF pc n Hr) as (items & it & Hs & Hin & Hpc & Hfi).
    unfold depths_ok in D5. unfold the_dm. rewrite Hs in *.
    apply andb_true_iff in D5. destruct D5 as [Hall _].
    rewrite forallb_forall in Hall. specialize (Hall it Hin).
    rewrite Hf in Hfi. injection Hfi as Hi Hk.
    destruct it as [pc' i' k' b' n']. cbn in Hpc, Hi, Hk. subst pc' i' k'.
    exact Hall.
  Qed.

  Lemma inv5_init : inv5 (DS 0 0 d0).
  Proof.
    unfold depths_ok in D5. unfold inv5, the_dm.
    destruct (scan_chunk c) as [items |]; [| discriminate].
    apply andb_true_iff in D5. destruct D5 as [_ H0]. apply has_find. exact H0.
  Qed.

  Lemma inv5_step : forall s s', reach c (proj s) -> inv5 s -> step5 c s s' -> inv5 s'.
  Proof.
    intros s s' Hr Hinv Hstep.
    destruct Hstep as [pc n d i k Hf Hft | pc n d i k ts t Hf Hj Hin | pc n d i k Hf Hop];
      cbn [proj] in Hr; pose proof (depth_checked _ _ _ _ Hr Hf) as Hc;
      unfold check_depth in Hc; cbn [it_pc it_i it_k] in Hc;
      unfold inv5 in Hinv; rewrite Hinv in Hc; destruct d as [[sq st] tr];
      apply andb_true_iff in Hc; destruct Hc as [Hc Hfun];
      apply andb_true_iff in Hc; destruct Hc as [Hc Hnext];
      apply andb_true_iff in Hc; destruct Hc as [Hc Hjump].
    - rewrite Hft in Hnext. apply has_find. exact Hnext.
    - rewrite Hj in Hjump. rewrite forallb_forall in Hjump. apply has_find. apply Hjump. exact Hin.
    - unfold is_op in Hfun. rewrite Hop, N.eqb_refl in Hfun. apply has_find. exact Hfun.
  Qed.

  Lemma reach5_inv : forall s, reach5 c s -> inv5 s.
  Proof.
    induction 1; [apply inv5_init |].
    eapply inv5_step; [apply reach5_proj; eassumption | eassumption | eassumption].
  Qed.

  Theorem wf5_sound : forall s, reach5 c s -> ~ fault5 c s.
  Proof.
    intros s Hr Hfault. pose proof (reach5_inv s Hr) as Hinv. pose proof (reach5_proj s Hr) as Hp.
    destruct s as [pc n [[sq st] tr]]. cbn [proj] in Hp. unfold fault5 in Hfault.
    destruct (fetch c pc) as [| | e u | i k] eqn:Hf; try contradiction.
    pose proof (depth_checked _ _ _ _ Hp Hf) as Hc.
    unfold check_depth in Hc; cbn [it_pc it_i it_k] in Hc.
    unfold inv5 in Hinv. rewrite Hinv in Hc.
    apply andb_true_iff in Hc; destruct Hc as [Hc _].
    apply andb_true_iff in Hc; destruct Hc as [Hc _].
    apply andb_true_iff in Hc; destruct Hc as [Hc _].
    apply andb_true_iff in Hc; destruct Hc as [Hc Hret].
    apply andb_true_iff in Hc; destruct Hc as [Hseq Hstr].
    destruct Hfault as [[Hn Hz] | [[Hn Hz] | [Hop Hz]]].
    - subst sq. rewrite Hn in Hseq. discriminate.
    - subst st. rewrite Hn in Hstr. discriminate.
    - unfold is_op in Hret. rewrite Hop, N.eqb_refl in Hret.
      apply andb_true_iff in Hret. destruct Hret as [H1 H2].
      apply N.eqb_eq in H1. apply N.eqb_eq in H2. destruct Hz; contradiction.
  Qed.
End Sound5.
