(* Encoders used by the correspondence check (checks/c05.py): results are nested lists / tuples of
   N numbers and bools. *)
From Coq Require Import List NArith Bool.
From KV.bc Require Import Instr GenOps Decode AbsVM Wf Wf5.
Import ListNotations.
Open Scope N_scope.

Definition err_code (e : ierr) : N :=
  match e with ErrOob => 1 | ErrOpcode => 2 | ErrCheck => 3 end.

(* what iterating InstructionReader from ip 0 yields, up to and including the first Error:
   [pc; 0; op; used; args..] | [pc; 1; error kind; used] | [pc; 2] (panic) *)
Fixpoint decode_all (fuel : nat) (pc : N) (bs : bytes) : list (list N) :=
  match fuel with
  | O => []
  | S f =>
      match decode bs with
      | DEnd => []
      | DPanic => [[pc; 2]]
      | DErr e used => [[pc; 1; err_code e; used]]
      | DOk (Instr op args) k =>
          (pc :: 0 :: op :: k :: args) :: decode_all f (pc + k) (skipn (N.to_nat k) bs)
      end
  end.

Definition verdict (c : bytes) (nconsts : N) : bool * list N :=
  if wf_chunk c nconsts then (true, []) else (false, first_bad c nconsts).

(* clause 5: (ok, [ip; op; sequence depth; string depth; try depth] of the first instruction rejected) *)
Definition verdict5 (c : bytes) : bool * list N :=
  if depths_ok c then (true, []) else (false, first_bad5 c).

Definition bc_out (c : bytes) (nconsts : N) : list (list N) * ((bool * list N) * (bool * list N)) :=
  (decode_all (S (length c)) 0 c, (verdict c nconsts, verdict5 c)).

(* verifier only (big chunks) *)
Definition bc_wf (c : bytes) (nconsts : N) : bool * list N := verdict c nconsts.

(* digest of decode_all's output (big chunks: the check computes the same digest from the real
   reader's instruction list instead of printing and comparing 20 000 instructions) *)
Definition M61 : N := 2305843009213693951.   (* 2^61 - 1, used as a bit mask *)
Definition mix (h x : N) : N := N.land (h * 1000003 + x + 1) M61.

Fixpoint digest_all (fuel : nat) (pc : N) (bs : bytes) (h : N) : N :=
  match fuel with
  | O => h
  | S f =>
      match decode bs with
      | DEnd => h
      | DPanic => mix (mix h pc) 2
      | DErr e used => fold_left mix [pc; 1; err_code e; used] h
      | DOk (Instr op args) k =>
          digest_all f (pc + k) (skipn (N.to_nat k) bs) (mix (fold_left mix (pc :: 0 :: op :: k :: args) h) 4294967295)
      end
  end.

Definition bc_big (c : bytes) (nconsts : N) : N * ((bool * list N) * (bool * list N)) :=
  (digest_all (S (length c)) 0 c 7, (verdict c nconsts, verdict5 c)).
