(* C13 — proofs, part 2: the sequence an iterator denotes, per-adaptor refinement, composition *)
From Coq Require Import List ZArith NArith Bool Lia.
From KV.iter Require Import IterModel IterSpec IterFuel.
Import ListNotations.
Open Scope N_scope.

Definition Next (d : dir) (it : iter) (r : R) : Prop := exists n, step n d it = Some r.

Lemma Next_det : forall d it r1 r2, Next d it r1 -> Next d it r2 -> r1 = r2.
Proof.
  intros d it r1 r2 [n1 H1] [n2 H2].
  pose proof (step_mono _ _ _ _ H1 (max n1 n2) ltac:(lia)) as A.
  pose proof (step_mono _ _ _ _ H2 (max n1 n2) ltac:(lia)) as B.
  congruence.
Qed.

(* two derivations can be brought to the same fuel *)
Ltac same_fuel H1 H2 m :=
  match type of H1 with step ?n1 ?d1 ?i1 = Some ?r1 =>
  match type of H2 with step ?n2 ?d2 ?i2 = Some ?r2 =>
    let A := fresh "A" in let B := fresh "B" in
    assert (A : step (Nat.max n1 n2) d1 i1 = Some r1) by (apply (step_mono _ _ _ _ H1); lia);
    assert (B : step (Nat.max n1 n2) d2 i2 = Some r2) by (apply (step_mono _ _ _ _ H2); lia);
    clear H1 H2; rename A into H1; rename B into H2;
    set (m := Nat.max n1 n2) in *
  end end.

(* `it` denotes the sequence l: successive `next` calls deliver the elements of l, then None for ever
   (whatever number k of calls is made) *)
Fixpoint Semk (k : nat) (it : iter) (l : list res) : Prop :=
  match k with
  | O => True
  | S k =>
    match l with
    | [] => exists t it', Next Fwd it (t, None, it') /\ Semk k it' []
    | x :: l' => exists t o it', Next Fwd it (t, Some o, it') /\ collect o = x /\ Semk k it' l'
    end
  end.
Definition Sem (it : iter) (l : list res) : Prop := forall k, Semk k it l.

Lemma Sem_nil_inv : forall it, Sem it [] -> exists t it', Next Fwd it (t, None, it') /\ Sem it' [].
Proof.
  intros it H. destruct (H 1%nat) as (t & it' & HN & _).
  exists t, it'. split; auto. intro k.
  destruct (H (S k)) as (t2 & it2 & HN2 & HS).
  pose proof (Next_det _ _ _ _ HN HN2) as E. inversion E; subst. exact HS.
Qed.

Lemma Sem_cons_inv : forall it x l, Sem it (x :: l) ->
  exists t o it', Next Fwd it (t, Some o, it') /\ collect o = x /\ Sem it' l.
Proof.
  intros it x l H. destruct (H 1%nat) as (t & o & it' & HN & HC & _).
  exists t, o, it'. repeat split; auto. intro k.
  destruct (H (S k)) as (t2 & o2 & it2 & HN2 & _ & HS).
  pose proof (Next_det _ _ _ _ HN HN2) as E. inversion E; subst. exact HS.
Qed.

Lemma Sem_nil_intro : forall it t it', Next Fwd it (t, None, it') -> Sem it' [] -> Sem it [].
Proof. intros it t it' HN HS [|k]; simpl; auto. exists t, it'. split; auto. Qed.

Lemma Sem_cons_intro : forall it t o it' l, Next Fwd it (t, Some o, it') -> Sem it' l -> Sem it (collect o :: l).
Proof. intros it t o it' l HN HS [|k]; simpl; auto. exists t, o, it'. repeat split; auto. Qed.

Lemma Sem_det : forall l1 l2 it, Sem it l1 -> Sem it l2 -> l1 = l2.
Proof.
  induction l1 as [|x l1 IH]; intros [|y l2] it H1 H2; auto.
  - destruct (Sem_nil_inv _ H1) as (t & it' & HN & _).
    destruct (Sem_cons_inv _ _ _ H2) as (t2 & o & it2 & HN2 & _ & _).
    pose proof (Next_det _ _ _ _ HN HN2) as E. inversion E.
  - destruct (Sem_nil_inv _ H2) as (t & it' & HN & _).
    destruct (Sem_cons_inv _ _ _ H1) as (t2 & o & it2 & HN2 & _ & _).
    pose proof (Next_det _ _ _ _ HN HN2) as E. inversion E.
  - destruct (Sem_cons_inv _ _ _ H1) as (t & o & it' & HN & HC & HS).
    destruct (Sem_cons_inv _ _ _ H2) as (t2 & o2 & it2 & HN2 & HC2 & HS2).
    pose proof (Next_det _ _ _ _ HN HN2) as E. inversion E; subst.
    f_equal. eapply IH; eauto.
Qed.

(* one-step unfolding of a step at fuel S n *)
Ltac next_intro n := exists (S n); cbn [step]; unfold bind.

(* ================================================================================ *)
(* sources                                                                           *)
(* ================================================================================ *)
Lemma nget_slice_head : forall (data : list value) i e,
  i < e -> match nget data i with
           | Some v => slice data i e = v :: slice data (i + 1) e
           | None => slice data i e = [] /\ slice data (i + 1) e = []
           end.
Proof.
  intros data i e Hlt. unfold nget, slice.
  replace (N.to_nat (i + 1)) with (S (N.to_nat i)) by lia.
  assert (Hn : (N.to_nat i < N.to_nat e)%nat) by lia.
  revert Hn. generalize (N.to_nat i) as a, (N.to_nat e) as b. clear.
  induction data as [|x data IH]; intros a b Hab.
  - destruct a; simpl; rewrite ?firstn_nil; simpl; auto; rewrite skipn_nil; auto.
  - destruct b; [lia|]. destruct a; simpl.
    + reflexivity.
    + apply IH. lia.
Qed.

Lemma Semk_done : forall it, (forall n, step (S n) Fwd it = Some ([], None, it)) -> forall k, Semk k it [].
Proof.
  intros it H. induction k; simpl; auto.
  exists [], it. split; auto. exists 1%nat. apply H.
Qed.

Lemma Sem_list : forall data e i, Sem (SList data i e) (ok_all (slice data i e)).
Proof.
  intros data e.
  assert (forall m i, N.to_nat (e - i) = m -> Sem (SList data i e) (ok_all (slice data i e))) as G.
  { induction m as [|m IH]; intros i Hm.
    - assert (Hge : e <= i) by lia.
      replace (slice data i e) with (@nil value).
      2:{ unfold slice. symmetry. apply skipn_all2. rewrite firstn_length. lia. }
      intro k. apply Semk_done. intro n. cbn [step].
      destruct (i <? e) eqn:E; auto. apply N.ltb_lt in E. lia.
    - assert (Hlt : i < e) by lia.
      pose proof (nget_slice_head data i e Hlt) as HS.
      assert (HN : forall n, step (S n) Fwd (SList data i e) = Some ([], option_map OVal (nget data i), SList data (i + 1) e)).
      { intro n. cbn [step]. apply N.ltb_lt in Hlt. rewrite Hlt. reflexivity. }
      destruct (nget data i) as [v|].
      + rewrite HS. simpl. change (ROk v) with (collect (OVal v)).
        eapply Sem_cons_intro. { exists 1%nat. apply HN. } apply IH. lia.
      + destruct HS as [HS1 HS2]. rewrite HS1. simpl.
        eapply Sem_nil_intro. { exists 1%nat. apply HN. }
        specialize (IH (i + 1) ltac:(lia)). rewrite HS2 in IH. exact IH. }
  intros i. eapply G; eauto.
Qed.

Lemma Sem_mk_list : forall l, Sem (mk_list l) (ok_all l).
Proof.
  intro l. unfold mk_list. pose proof (Sem_list l (nlen l) 0) as H.
  unfold slice, nlen in H. rewrite Nat2N.id, firstn_all in H. exact H.
Qed.

Lemma spec_range_lt : forall s e incl, (s < e)%Z ->
  spec_range s e incl = ROk (VInt s) :: spec_range (s + 1) e incl.
Proof.
  intros s e incl H. unfold spec_range.
  set (e' := if incl then (e + 1)%Z else e).
  assert (s < e')%Z by (subst e'; destruct incl; lia).
  replace (Z.to_nat (e' - s)) with (S (Z.to_nat (e' - (s + 1)))) by lia.
  reflexivity.
Qed.

Lemma Sem_range : forall s e incl, Sem (SRange s e incl) (spec_range s e incl).
Proof.
  intros s e incl.
  assert (forall m s incl, Z.to_nat (e - s) = m -> Sem (SRange s e incl) (spec_range s e incl)) as G.
  { clear. induction m as [|m IH]; intros s incl Hm.
    - destruct (Z.compare_spec s e) as [Heq|Hlt|Hgt]; [|lia|].
      + subst s. destruct incl.
        * unfold spec_range. replace (Z.to_nat (e + 1 - e)) with 1%nat by lia. simpl.
          change (ROk (VInt e)) with (collect (OVal (VInt e))).
          eapply Sem_cons_intro with (t := []) (it' := SRange e e false).
          { exists 1%nat. cbn [step]. rewrite Z.compare_refl. reflexivity. }
          intro k. apply Semk_done. intro n. cbn [step]. rewrite Z.compare_refl. reflexivity.
        * unfold spec_range. rewrite Z.sub_diag. simpl.
          intro k. apply Semk_done. intro n. cbn [step]. rewrite Z.compare_refl. reflexivity.
      + unfold spec_range. replace (Z.to_nat ((if incl then (e + 1)%Z else e) - s)) with 0%nat by (destruct incl; lia).
        simpl. intro k. apply Semk_done. intro n. cbn [step].
        replace (s ?= e)%Z with Gt by (symmetry; apply Z.compare_gt_iff; lia). reflexivity.
    - assert (Hlt : (s < e)%Z) by lia.
      rewrite spec_range_lt by auto.
      change (ROk (VInt s)) with (collect (OVal (VInt s))).
      eapply Sem_cons_intro with (t := []) (it' := SRange (s + 1) e incl).
      { exists 1%nat. cbn [step]. replace (s ?= e)%Z with Lt by (symmetry; apply Z.compare_lt_iff; lia). reflexivity. }
      apply IH. lia. }
  eapply G; eauto.
Qed.

Lemma Sem_gen : forall id items fin, Sem (SGen id items fin) (ok_all items).
Proof.
  intros id items. induction items as [|x items IH]; intros fin; simpl.
  - destruct fin.
    + intro k. apply Semk_done. intro n. reflexivity.
    + eapply Sem_nil_intro with (t := [EvEnd id]) (it' := SGen id [] true).
      { exists 1%nat. reflexivity. }
      intro k. apply Semk_done. intro n. reflexivity.
  - change (ROk x) with (collect (OVal x)).
    eapply Sem_cons_intro with (t := [EvPull id x]) (it' := SGen id items false).
    { exists 1%nat. reflexivity. }
    apply IH.
Qed.

Lemma Sem_str : forall s, Sem (SStr s) (map (fun c => ROk (VStr [c])) s).
Proof.
  induction s as [|c s IH]; simpl.
  - intro k. apply Semk_done. intro n. reflexivity.
  - change (ROk (VStr [c])) with (collect (OVal (VStr [c]))).
    eapply Sem_cons_intro with (t := []) (it' := SStr s). { exists 1%nat. reflexivity. } apply IH.
Qed.

(* ================================================================================ *)
(* adaptors: if the inner iterator denotes l, the adaptor denotes Spec.A l           *)
(* ================================================================================ *)
Lemma Sem_each : forall f it l, Sem it l -> Sem (Each it f) (spec_each f l).
Proof.
  intros f it l H k. revert it l H. induction k as [|k IH]; simpl; auto. intros it l H.
  destruct l as [|x l]; simpl.
  - destruct (Sem_nil_inv _ H) as (t & it' & [n HN] & HS).
    exists t, (Each it' f). split. { next_intro n. rewrite HN. reflexivity. }
    apply (IH it' []); auto.
  - destruct (Sem_cons_inv _ _ _ H) as (t & o & it' & [n HN] & HC & HS).
    destruct o as [v|a b|e]; simpl in HC; subst x; simpl.
    + exists (t ++ [EvCall (cb_id f) v]), (out_of_res (cb_fun f v)), (Each it' f).
      split. { next_intro n. rewrite HN. reflexivity. }
      split. { destruct (cb_fun f v); reflexivity. } apply IH; auto.
    + exists (t ++ [EvCall (cb_id f) (VTup [a; b])]), (out_of_res (cb_fun f (VTup [a; b]))), (Each it' f).
      split. { next_intro n. rewrite HN. reflexivity. }
      split. { destruct (cb_fun f (VTup [a; b])); reflexivity. } apply IH; auto.
    + exists t, (OErr e), (Each it' f).
      split. { next_intro n. rewrite HN. reflexivity. }
      split; [reflexivity|]. apply IH; auto.
Qed.

Lemma call_collect : forall p o v, collect o = ROk v ->
  exists tc, call p o = (tc, cb_fun p v).
Proof.
  intros p o v H. destruct o; simpl in *; inversion H; subst; eauto.
Qed.

(* Keep: one step of the adaptor over an inner sequence l skips the rejected prefix *)
Lemma Next_keep : forall p l it, Sem it l ->
  match spec_keep p l with
  | [] => exists t it', Next Fwd (Keep it p) (t, None, Keep it' p) /\ Sem it' []
  | x :: _ => exists t o it' l', Next Fwd (Keep it p) (t, Some o, Keep it' p) /\ collect o = x /\
                                 Sem it' l' /\ spec_keep p l = x :: spec_keep p l'
  end.
Proof.
  intros p. induction l as [|r l IH]; intros it H.
  - simpl. destruct (Sem_nil_inv _ H) as (t & it' & [n HN] & HS).
    exists t, it'. split; auto. next_intro n. rewrite HN. reflexivity.
  - destruct (Sem_cons_inv _ _ _ H) as (t & o & it' & [n HN] & HC & HS).
    unfold spec_keep. simpl. fold (spec_keep p l).
    destruct r as [v|e].
    + destruct (call_collect p o v HC) as (tc & Hcall).
      simpl. destruct (verdict_of (cb_fun p v)) eqn:EV; simpl.
      * exists (t ++ tc), o, it', l. repeat split; auto.
        next_intro n. rewrite HN. destruct o; try discriminate HC; rewrite Hcall, EV; reflexivity.
      * specialize (IH it' HS).
        destruct (spec_keep p l) as [|x rest] eqn:EK.
        -- destruct IH as (t2 & it2 & [n2 HN2] & HS2).
           exists (t ++ tc ++ t2), it2. split; auto.
           same_fuel HN HN2 m. next_intro m. rewrite HN.
           destruct o; try discriminate HC; rewrite Hcall, EV, HN2; reflexivity.
        -- destruct IH as (t2 & o2 & it2 & l2 & [n2 HN2] & HC2 & HS2 & HE).
           exists (t ++ tc ++ t2), o2, it2, l2. repeat split; auto.
           same_fuel HN HN2 m. next_intro m. rewrite HN.
           destruct o; try discriminate HC; rewrite Hcall, EV, HN2; reflexivity.
      * exists (t ++ tc), (OErr e), it', l. repeat split; auto.
        next_intro n. rewrite HN. destruct o; try discriminate HC; rewrite Hcall, EV; reflexivity.
    + simpl. destruct o; try discriminate HC. simpl in HC. inversion HC; subst.
      exists t, (OErr e), it', l. repeat split; auto.
      next_intro n. rewrite HN. reflexivity.
Qed.

Lemma Sem_keep : forall p it l, Sem it l -> Sem (Keep it p) (spec_keep p l).
Proof.
  intros p it l H k. revert it l H. induction k as [|k IH]; simpl; auto. intros it l H.
  pose proof (Next_keep p l it H) as HK.
  destruct (spec_keep p l) as [|x rest] eqn:EK.
  - destruct HK as (t & it' & HN & HS). exists t, (Keep it' p). split; auto.
    apply (IH it' [] HS).
  - destruct HK as (t & o & it' & l' & HN & HC & HS & HE). inversion HE; subst.
    exists t, o, (Keep it' p). repeat split; auto.
Qed.

Lemma Sem_enumerate_from : forall it l i, Sem it l -> Sem (Enumerate it i) (enum_from i l).
Proof.
  intros it l i H k. revert it l i H. induction k as [|k IH]; simpl; auto. intros it l i H.
  destruct l as [|x l]; simpl.
  - destruct (Sem_nil_inv _ H) as (t & it' & [n HN] & HS).
    exists t, (Enumerate it' (i + 1)). split. { next_intro n. rewrite HN. reflexivity. }
    apply (IH it' [] (i + 1)); auto.
  - destruct (Sem_cons_inv _ _ _ H) as (t & o & it' & [n HN] & HC & HS).
    eexists t, _, (Enumerate it' (i + 1)).
    split. { next_intro n. rewrite HN. simpl. reflexivity. }
    split. { destruct o; simpl in *; subst x; reflexivity. } apply IH; auto.
Qed.

Lemma Sem_enumerate : forall it l, Sem it l -> Sem (Enumerate it 0) (spec_enumerate l).
Proof. intros. apply Sem_enumerate_from; auto. Qed.

Lemma Sem_take : forall it l n, Sem it l -> Sem (Take it n) (spec_take n l).
Proof.
  intros it l n H k. revert it l n H. induction k as [|k IH]; simpl; auto. intros it l n H.
  unfold spec_take in *.
  destruct (0 <? n) eqn:E.
  - apply N.ltb_lt in E.
    replace (N.to_nat n) with (S (N.to_nat (n - 1))) by lia.
    destruct l as [|x l]; simpl.
    + destruct (Sem_nil_inv _ H) as (t & it' & [m HN] & HS).
      exists t, (Take it' (n - 1)). split.
      { next_intro m. replace (0 <? n) with true by (symmetry; apply N.ltb_lt; lia). rewrite HN. reflexivity. }
      specialize (IH it' [] (n - 1) HS). rewrite firstn_nil in IH. exact IH.
    + destruct (Sem_cons_inv _ _ _ H) as (t & o & it' & [m HN] & HC & HS).
      exists t, o, (Take it' (n - 1)). split.
      { next_intro m. replace (0 <? n) with true by (symmetry; apply N.ltb_lt; lia). rewrite HN. reflexivity. }
      split; auto.
  - apply N.ltb_ge in E. assert (n = 0) by lia. subst n. simpl.
    exists [], (Take it 0). split. { exists 1%nat. reflexivity. }
    specialize (IH it l 0 H). simpl in IH. exact IH.
Qed.

Lemma Sem_chain_none : forall b lb, Sem b lb -> Sem (Chain None b) lb.
Proof.
  intros b lb H k. revert b lb H. induction k as [|k IH]; simpl; auto. intros b lb H.
  destruct lb as [|x lb].
  - destruct (Sem_nil_inv _ H) as (t & b' & [n HN] & HS).
    exists t, (Chain None b'). split. { next_intro n. rewrite HN. reflexivity. } apply IH; auto.
  - destruct (Sem_cons_inv _ _ _ H) as (t & o & b' & [n HN] & HC & HS).
    exists t, o, (Chain None b'). split. { next_intro n. rewrite HN. reflexivity. } split; auto.
Qed.

Lemma Sem_chain : forall a la b lb, Sem a la -> Sem b lb -> Sem (Chain (Some a) b) (spec_chain la lb).
Proof.
  intros a la b lb Ha Hb k. revert a la Ha. unfold spec_chain.
  induction k as [|k IH]; simpl; auto. intros a la Ha.
  destruct la as [|x la]; simpl.
  - destruct (Sem_nil_inv _ Ha) as (t & a' & [n HN] & HS).
    destruct lb as [|y lb].
    + destruct (Sem_nil_inv _ Hb) as (t2 & b' & [n2 HN2] & HS2).
      exists (t ++ t2), (Chain None b'). split.
      { same_fuel HN HN2 m. next_intro m. rewrite HN, HN2. reflexivity. }
      apply Sem_chain_none; auto.
    + destruct (Sem_cons_inv _ _ _ Hb) as (t2 & o & b' & [n2 HN2] & HC & HS2).
      exists (t ++ t2), o, (Chain None b'). split.
      { same_fuel HN HN2 m. next_intro m. rewrite HN, HN2. reflexivity. }
      split; auto. apply Sem_chain_none; auto.
  - destruct (Sem_cons_inv _ _ _ Ha) as (t & o & a' & [n HN] & HC & HS).
    exists t, o, (Chain (Some a') b). split. { next_intro n. rewrite HN. reflexivity. }
    split; auto.
Qed.

Lemma Sem_take_while : forall p it l, Sem it l -> Sem (TakeWhile it p false) (spec_take_while p l).
Proof.
  intros p it l H k. revert it l H. induction k as [|k IH]; simpl; auto. intros it l H.
  destruct l as [|x l]; simpl.
  - destruct (Sem_nil_inv _ H) as (t & it' & [n HN] & HS).
    exists t, (TakeWhile it' p false). split. { next_intro n. rewrite HN. reflexivity. }
    apply (IH it' []); auto.
  - destruct (Sem_cons_inv _ _ _ H) as (t & o & it' & [n HN] & HC & HS).
    destruct x as [v|e].
    + destruct (call_collect p o v HC) as (tc & Hcall).
      destruct (verdict_of (cb_fun p v)) eqn:EV.
      * exists (t ++ tc), o, (TakeWhile it' p false). split.
        { next_intro n. rewrite HN. destruct o; try discriminate HC; rewrite Hcall, EV; reflexivity. }
        split; auto.
      * exists (t ++ tc), (TakeWhile it' p true). split.
        { next_intro n. rewrite HN. destruct o; try discriminate HC; rewrite Hcall, EV; reflexivity. }
        apply Semk_done. intro m. reflexivity.
      * exists (t ++ tc), (OErr e), (TakeWhile it' p false). split.
        { next_intro n. rewrite HN. destruct o; try discriminate HC; rewrite Hcall, EV; reflexivity. }
        split; auto.
    + destruct o; try discriminate HC. simpl in HC. inversion HC; subst.
      exists t, (OErr e), (TakeWhile it' p false). split. { next_intro n. rewrite HN. reflexivity. }
      split; auto.
Qed.

(* ---- zip (left sequence free of errors: an error on the left after the right has run out would be
        delivered after a None, i.e. Zip is not fused in that case) ---- *)
Definition no_err (l : list res) : Prop := first_err l = None.

Lemma no_err_cons : forall r l, no_err (r :: l) -> exists v, r = ROk v /\ no_err l.
Proof. intros [v|e] l H; unfold no_err in *; simpl in H; [eauto|discriminate]. Qed.

Lemma Sem_zip_left_done : forall a b, Sem a [] -> Sem (Zip a b) [].
Proof.
  intros a b H k. revert a H. induction k as [|k IH]; simpl; auto. intros a H.
  destruct (Sem_nil_inv _ H) as (t & a' & [n HN] & HS).
  exists t, (Zip a' b). split. { next_intro n. rewrite HN. reflexivity. } apply IH; auto.
Qed.

Lemma Sem_zip_right_done : forall la a b, no_err la -> Sem a la -> Sem b [] -> Sem (Zip a b) [].
Proof.
  intros la a b Hne Ha Hb k. revert la a b Hne Ha Hb. induction k as [|k IH]; simpl; auto. intros la a b Hne Ha Hb.
  destruct la as [|x la].
  - apply (Sem_zip_left_done a b Ha (S k)).
  - destruct (no_err_cons _ _ Hne) as (va & -> & Hne').
    destruct (Sem_cons_inv _ _ _ Ha) as (t & o & a' & [n HN] & HC & HS).
    destruct (Sem_nil_inv _ Hb) as (t2 & b' & [n2 HN2] & HS2).
    exists (t ++ t2), (Zip a' b'). split.
    { same_fuel HN HN2 m. next_intro m. rewrite HN.
      destruct o; try discriminate HC; simpl; rewrite HN2; reflexivity. }
    eapply IH; eauto.
Qed.

Lemma Sem_zip : forall la lb a b, no_err la -> Sem a la -> Sem b lb -> Sem (Zip a b) (spec_zip la lb).
Proof.
  intros la lb a b Hne Ha Hb k. revert la lb a b Hne Ha Hb.
  induction k as [|k IH]; simpl; auto. intros la lb a b Hne Ha Hb.
  destruct la as [|x la].
  - apply (Sem_zip_left_done a b Ha (S k)).
  - destruct (no_err_cons _ _ Hne) as (va & -> & Hne').
    destruct (Sem_cons_inv _ _ _ Ha) as (t & o & a' & [n HN] & HC & HS).
    simpl. destruct lb as [|y lb].
    + apply (Sem_zip_right_done (ROk va :: la) a b Hne Ha Hb (S k)).
    + destruct (Sem_cons_inv _ _ _ Hb) as (t2 & o2 & b' & [n2 HN2] & HC2 & HS2).
      same_fuel HN HN2 m.
      destruct y as [vb|e].
      * exists (t ++ t2), (OPair va vb), (Zip a' b'). split.
        { next_intro m. rewrite HN.
          destruct o; try discriminate HC; simpl in HC; inversion HC; subst; simpl; rewrite HN2;
            destruct o2; try discriminate HC2; simpl in HC2; inversion HC2; subst; reflexivity. }
        split; auto.
      * exists (t ++ t2), (OErr e), (Zip a' b'). split.
        { next_intro m. rewrite HN.
          destruct o; try discriminate HC; simpl in HC; inversion HC; subst; simpl; rewrite HN2;
            destruct o2; try discriminate HC2; simpl in HC2; inversion HC2; subst; reflexivity. }
        split; auto.
Qed.

(* ---- loops over an inner iterator that denotes l ---- *)
Lemma mono_nx : forall n m, (n <= m)%nat -> forall it r, step n Fwd it = Some r -> step m Fwd it = Some r.
Proof. intros. eapply step_mono; eauto. Qed.

Lemma advance_sem : forall k it l, Sem it l ->
  exists n t ok it', advance (step n Fwd) k it = Some (t, ok, it') /\ Sem it' (skipn k l) /\
                     (ok = false -> skipn k l = []).
Proof.
  induction k as [|k IH]; intros it l H.
  - exists 0%nat, [], true, it. simpl. repeat split; auto. discriminate.
  - destruct l as [|x l].
    + destruct (Sem_nil_inv _ H) as (t & it' & [n HN] & HS).
      exists n, t, false, it'. simpl. unfold bind. rewrite HN. repeat split; auto.
    + destruct (Sem_cons_inv _ _ _ H) as (t & o & it' & [n HN] & HC & HS).
      destruct (IH it' l HS) as (n2 & t2 & ok & it2 & HA & HS2 & Hok).
      exists (Nat.max n n2), (t ++ t2), ok, it2. simpl. unfold bind.
      rewrite (step_mono _ _ _ _ HN (Nat.max n n2) ltac:(lia)).
      rewrite (advance_mono _ _ (mono_nx n2 (Nat.max n n2) ltac:(lia)) _ _ _ HA). repeat split; auto.
Qed.

Lemma pull_ignore_sem : forall k it l, Sem it l ->
  exists n t it', pull_ignore (step n Fwd) k it = Some (t, it') /\ Sem it' (skipn k l).
Proof.
  induction k as [|k IH]; intros it l H.
  - exists 0%nat, [], it. simpl. split; auto.
  - destruct l as [|x l].
    + destruct (Sem_nil_inv _ H) as (t & it' & [n HN] & HS).
      destruct (IH it' [] HS) as (n2 & t2 & it2 & HA & HS2).
      exists (Nat.max n n2), (t ++ t2), it2. simpl. unfold bind.
      rewrite (step_mono _ _ _ _ HN (Nat.max n n2) ltac:(lia)).
      rewrite (pull_ignore_mono _ _ (mono_nx n2 (Nat.max n n2) ltac:(lia)) _ _ _ HA).
      rewrite skipn_nil in HS2. split; auto.
    + destruct (Sem_cons_inv _ _ _ H) as (t & o & it' & [n HN] & HC & HS).
      destruct (IH it' l HS) as (n2 & t2 & it2 & HA & HS2).
      exists (Nat.max n n2), (t ++ t2), it2. simpl. unfold bind.
      rewrite (step_mono _ _ _ _ HN (Nat.max n n2) ltac:(lia)).
      rewrite (pull_ignore_mono _ _ (mono_nx n2 (Nat.max n n2) ltac:(lia)) _ _ _ HA). split; auto.
Qed.

Lemma scan_nil : forall k, scan k [] = (None, []).
Proof. destruct k; reflexivity. Qed.

Lemma scan_length : forall k l, (length (snd (scan k l)) <= length l)%nat.
Proof.
  induction k as [|k IH]; intros l; simpl; auto.
  destruct l as [|[v|e] l]; simpl; try lia. specialize (IH l). lia.
Qed.

(* the discarding loop of skip / step over an inner iterator that denotes l *)
Lemma discard_sem : forall b k it l, Sem it l ->
  exists n t it', discard (step n Fwd) b k it = Some (t, fst (scan k l), it') /\ Sem it' (snd (scan k l)).
Proof.
  intro b. induction k as [|k IH]; intros it l H.
  - exists 0%nat, [], it. simpl. auto.
  - destruct l as [|x l].
    + destruct (Sem_nil_inv _ H) as (t & it' & [n HN] & HS).
      destruct b.
      * exists n, t, it'. simpl. unfold bind. rewrite HN. auto.
      * destruct (IH it' [] HS) as (n2 & t2 & it2 & HD & HS2). rewrite scan_nil in HD, HS2. simpl in HD, HS2.
        exists (Nat.max n n2), (t ++ t2), it2. simpl. unfold bind.
        rewrite (step_mono _ _ _ _ HN (Nat.max n n2) ltac:(lia)).
        rewrite (discard_mono _ _ (mono_nx n2 (Nat.max n n2) ltac:(lia)) _ _ _ _ HD). auto.
    + destruct (Sem_cons_inv _ _ _ H) as (t & o & it' & [n HN] & HC & HS).
      destruct x as [v|e].
      * destruct (IH it' l HS) as (n2 & t2 & it2 & HD & HS2).
        exists (Nat.max n n2), (t ++ t2), it2. simpl. unfold bind.
        rewrite (step_mono _ _ _ _ HN (Nat.max n n2) ltac:(lia)).
        rewrite (discard_mono _ _ (mono_nx n2 (Nat.max n n2) ltac:(lia)) _ _ _ _ HD).
        destruct o; try discriminate HC; auto.
      * destruct o; try discriminate HC. simpl in HC. inversion HC; subst.
        exists n, t, it'. simpl. unfold bind. rewrite HN. auto.
Qed.

Lemma Sem_skip0 : forall it l, Sem it l -> Sem (Skip it 0) l.
Proof.
  intros it l H k. revert it l H. induction k as [|k IH]; simpl; auto. intros it l H.
  destruct l as [|x l].
  - destruct (Sem_nil_inv _ H) as (t & it' & [n HN] & HS).
    exists t, (Skip it' 0). split. { next_intro n. simpl. rewrite HN. reflexivity. } apply IH; auto.
  - destruct (Sem_cons_inv _ _ _ H) as (t & o & it' & [n HN] & HC & HS).
    exists t, o, (Skip it' 0). split. { next_intro n. simpl. rewrite HN. reflexivity. } split; auto.
Qed.

Lemma Sem_skip : forall it l n, Sem it l -> Sem (Skip it n) (spec_skip n l).
Proof.
  intros it l n H. unfold spec_skip.
  destruct (discard_sem true (N.to_nat n) it l H) as (m & t & it1 & HD & HS).
  destruct (scan (N.to_nat n) l) as [[e|] rest]; simpl in HD, HS.
  - change (RErr e) with (collect (OErr e)).
    eapply Sem_cons_intro with (t := t) (it' := Skip it1 0); [|apply Sem_skip0; auto].
    exists (S m). cbn [step]. unfold bind. rewrite HD. reflexivity.
  - destruct rest as [|x l'].
    + destruct (Sem_nil_inv _ HS) as (t2 & it2 & [m2 HN] & HS2).
      eapply Sem_nil_intro with (t := t ++ t2) (it' := Skip it2 0); [|apply Sem_skip0; auto].
      exists (S (Nat.max m m2)). cbn [step]. unfold bind.
      rewrite (discard_mono _ _ (mono_nx m (Nat.max m m2) ltac:(lia)) _ _ _ _ HD).
      rewrite (step_mono _ _ _ _ HN (Nat.max m m2) ltac:(lia)). reflexivity.
    + destruct (Sem_cons_inv _ _ _ HS) as (t2 & o & it2 & [m2 HN] & HC & HS2). subst x.
      eapply Sem_cons_intro with (t := t ++ t2) (it' := Skip it2 0); [|apply Sem_skip0; auto].
      exists (S (Nat.max m m2)). cbn [step]. unfold bind.
      rewrite (discard_mono _ _ (mono_nx m (Nat.max m m2) ltac:(lia)) _ _ _ _ HD).
      rewrite (step_mono _ _ _ _ HN (Nat.max m m2) ltac:(lia)). reflexivity.
Qed.

Lemma step_spec_nil : forall f s1, step_spec f s1 [] = [].
Proof. destruct f; reflexivity. Qed.

Lemma Sem_step_f : forall s, 0 < s -> forall k f it l, (length l <= f)%nat -> Sem it l ->
  Semk k (Step it s) (step_spec f (N.to_nat (s - 1)) l).
Proof.
  intros s Hs. induction k as [|k IH]; intros f it l Hf H; [simpl; auto|].
  destruct l as [|x l].
  - rewrite step_spec_nil.
    destruct (Sem_nil_inv _ H) as (t & it' & [n HN] & HS).
    destruct (discard_sem false (N.to_nat (s - 1)) it' [] HS) as (n2 & t2 & it2 & HD & HS2).
    rewrite scan_nil in HD, HS2. simpl in HD, HS2.
    simpl. exists (t ++ t2), (Step it2 s). split.
    { exists (S (Nat.max n n2)). cbn [step]. unfold bind.
      rewrite (step_mono _ _ _ _ HN (Nat.max n n2) ltac:(lia)).
      rewrite (discard_mono _ _ (mono_nx n2 (Nat.max n n2) ltac:(lia)) _ _ _ _ HD). reflexivity. }
    specialize (IH f it2 [] ltac:(simpl; lia) HS2). rewrite step_spec_nil in IH. exact IH.
  - destruct f as [|f]; [simpl in Hf; lia|].
    destruct (Sem_cons_inv _ _ _ H) as (t & o & it' & [n HN] & HC & HS).
    destruct (discard_sem false (N.to_nat (s - 1)) it' l HS) as (n2 & t2 & it2 & HD & HS2).
    pose proof (scan_length (N.to_nat (s - 1)) l) as HL.
    change (step_spec (S f) (N.to_nat (s - 1)) (x :: l)) with
      (match scan (N.to_nat (s - 1)) l with
       | (Some e, rest) => RErr e :: step_spec f (N.to_nat (s - 1)) rest
       | (None, rest) => x :: step_spec f (N.to_nat (s - 1)) rest
       end).
    destruct (scan (N.to_nat (s - 1)) l) as [[e|] rest]; simpl in HD, HS2, HL.
    + simpl. exists (t ++ t2), (OErr e), (Step it2 s). split.
      { exists (S (Nat.max n n2)). cbn [step]. unfold bind.
        rewrite (step_mono _ _ _ _ HN (Nat.max n n2) ltac:(lia)).
        rewrite (discard_mono _ _ (mono_nx n2 (Nat.max n n2) ltac:(lia)) _ _ _ _ HD). reflexivity. }
      split; auto. apply IH; auto. simpl in Hf. lia.
    + simpl. exists (t ++ t2), o, (Step it2 s). split.
      { exists (S (Nat.max n n2)). cbn [step]. unfold bind.
        rewrite (step_mono _ _ _ _ HN (Nat.max n n2) ltac:(lia)).
        rewrite (discard_mono _ _ (mono_nx n2 (Nat.max n n2) ltac:(lia)) _ _ _ _ HD). reflexivity. }
      split; auto. apply IH; auto. simpl in Hf. lia.
Qed.

Lemma Sem_step : forall it l s, 0 < s -> Sem it l -> Sem (Step it s) (spec_step s l).
Proof. intros it l s Hs H k. apply Sem_step_f; auto. Qed.

(* ================================================================================ *)
(* composition: pipelines of any depth                                               *)
(* ================================================================================ *)
Definition no_err' := no_err.
Inductive StageDen : stage -> list res -> list res -> Prop :=
| D_each : forall f l, StageDen (AEach f) l (spec_each f l)
| D_keep : forall p l, StageDen (AKeep p) l (spec_keep p l)
| D_enumerate : forall l, StageDen AEnumerate l (spec_enumerate l)
| D_skip : forall n l, StageDen (ASkip n) l (spec_skip n l)
| D_take : forall n l, StageDen (ATake n) l (spec_take n l)
| D_take_while : forall p l, StageDen (ATakeWhile p) l (spec_take_while p l)
| D_step : forall n l, 0 < n -> StageDen (AStep n) l (spec_step n l)
| D_chainR : forall o lo l, Sem o lo -> StageDen (AChainR o) l (spec_chain l lo)
| D_chainL : forall o lo l, Sem o lo -> StageDen (AChainL o) l (spec_chain lo l)
| D_zipR : forall o lo l, no_err l -> Sem o lo -> StageDen (AZipR o) l (spec_zip l lo)
| D_zipL : forall o lo l, no_err lo -> Sem o lo -> StageDen (AZipL o) l (spec_zip lo l).

Inductive PipeDen : list stage -> list res -> list res -> Prop :=
| PD_nil : forall l, PipeDen [] l l
| PD_cons : forall a p l l1 l2, StageDen a l l1 -> PipeDen p l1 l2 -> PipeDen (a :: p) l l2.

Lemma stage_refines : forall a l l1 it, StageDen a l l1 -> Sem it l ->
  exists it1, apply_stage a it = Some it1 /\ Sem it1 l1.
Proof.
  intros a l l1 it HD HS. inversion HD; subst; simpl.
  - eexists; split; eauto using Sem_each.
  - eexists; split; eauto using Sem_keep.
  - eexists; split; eauto using Sem_enumerate.
  - eexists; split; eauto using Sem_skip.
  - eexists; split; eauto using Sem_take.
  - eexists; split; eauto using Sem_take_while.
  - replace (0 <? n) with true by (symmetry; apply N.ltb_lt; auto).
    eexists; split; eauto using Sem_step.
  - eexists; split; eauto using Sem_chain.
  - eexists; split; eauto using Sem_chain.
  - eexists; split; eauto using Sem_zip.
  - eexists; split; eauto using Sem_zip.
Qed.

Theorem composition_rel : forall p src l l', Sem src l -> PipeDen p l l' ->
  exists it, build p src = Some it /\ Sem it l'.
Proof.
  induction p as [|a p IH]; intros src l l' HS HP; inversion HP as [|a0 p0 l0 l1 l2 HSD HPD]; subst; simpl.
  - eauto.
  - destruct (stage_refines _ _ _ _ HSD HS) as (it1 & HA & HS1). rewrite HA. eapply IH; eauto.
Qed.

Lemma denote_stage_den : forall a l l1, denote_stage a l = Some l1 -> StageDen a l l1.
Proof.
  intros a l l1 H. destruct a; simpl in H; try discriminate; try (inversion H; subst; constructor).
  destruct (0 <? n) eqn:E; inversion H; subst. constructor. apply N.ltb_lt; auto.
Qed.

Lemma denote_den : forall p l l', denote p l = Some l' -> PipeDen p l l'.
Proof.
  induction p as [|a p IH]; simpl; intros l l' H.
  - inversion H; constructor.
  - destruct (denote_stage a l) as [l1|] eqn:E; try discriminate.
    econstructor; eauto using denote_stage_den.
Qed.

Theorem composition : forall p src l l', Sem src l -> denote p l = Some l' ->
  exists it, build p src = Some it /\ Sem it l'.
Proof. intros. eapply composition_rel; eauto using denote_den. Qed.

(* ================================================================================ *)
(* consumers                                                                         *)
(* ================================================================================ *)
Section CFold.
  Variable St : Type.
  Variable f : St -> output -> trace * St * bool.
  Hypothesis f_collects : forall s o, f s o = f s (out_of_res (collect o)).

  Lemma cfold_mono : forall n it s r, cfold St f n it s = Some r -> forall m, (n <= m)%nat -> cfold St f m it s = Some r.
  Proof.
    induction n as [|n IH]; intros it s r H m Hm; [discriminate|].
    destruct m as [|m]; [lia|]. simpl in *. unfold bind in *.
    destruct (step n Fwd it) as [[[t o] it']|] eqn:E; try discriminate.
    rewrite (step_mono _ _ _ _ E m ltac:(lia)).
    destruct o as [out|]; auto.
    destruct (f s out) as [[tc s'] stop]. destruct stop; auto.
    destruct (cfold St f n it' s') as [[[t2 s2] it2]|] eqn:E2; try discriminate.
    rewrite (IH _ _ _ E2 m ltac:(lia)). auto.
  Qed.

  (* the loop computes the early-exit fold of the denoted sequence, and leaves the iterator
     denoting exactly the elements it has not looked at *)
  Lemma cfold_sem : forall l it s, Sem it l ->
    exists n t it', cfold St f n it s = Some (t, fold_spec St f s l, it') /\ Sem it' (fold_rest St f s l).
  Proof.
    induction l as [|r l IH]; intros it s H.
    - destruct (Sem_nil_inv _ H) as (t & it' & [n HN] & HS).
      exists (S n), t, it'. simpl. unfold bind. rewrite HN. split; auto.
    - destruct (Sem_cons_inv _ _ _ H) as (t & o & it' & [n HN] & HC & HS).
      simpl. rewrite <- HC, <- f_collects.
      destruct (f s o) as [[tc s'] stop] eqn:EF. destruct stop.
      + exists (S n), (t ++ tc), it'. simpl. unfold bind. rewrite HN, EF. split; auto.
      + destruct (IH it' s' HS) as (n2 & t2 & it2 & HF & HS2).
        exists (S (Nat.max n n2)), (t ++ tc ++ t2), it2. simpl. unfold bind.
        rewrite (step_mono _ _ _ _ HN (Nat.max n n2) ltac:(lia)), EF.
        rewrite (cfold_mono _ _ _ _ HF (Nat.max n n2) ltac:(lia)). split; auto.
  Qed.
End CFold.

Lemma call_collect_eq : forall p o, call p o = call p (out_of_res (collect o)).
Proof. intros p [v|a b|e]; reflexivity. Qed.

Lemma f_collect_ok : forall s o, f_collect s o = f_collect s (out_of_res (collect o)).
Proof. intros s [v|a b|e]; reflexivity. Qed.
Lemma f_count_ok : forall s o, f_count s o = f_count s (out_of_res (collect o)).
Proof. intros s [v|a b|e]; destruct s; reflexivity. Qed.
Lemma f_binop_ok : forall op s o, f_binop op s o = f_binop op s (out_of_res (collect o)).
Proof. intros op s [v|a b|e]; reflexivity. Qed.
Lemma f_minmax1_ok : forall inv s o, f_minmax1 inv s o = f_minmax1 inv s (out_of_res (collect o)).
Proof. intros inv s [v|a b|e]; reflexivity. Qed.
Lemma f_minmax2_ok : forall s o, f_minmax2 s o = f_minmax2 s (out_of_res (collect o)).
Proof. intros s [v|a b|e]; reflexivity. Qed.
Lemma f_last_ok : forall s o, f_last s o = f_last s (out_of_res (collect o)).
Proof. intros s [v|a b|e]; reflexivity. Qed.
Lemma f_consume_ok : forall s o, f_consume s o = f_consume s (out_of_res (collect o)).
Proof. intros s [v|a b|e]; reflexivity. Qed.
Lemma f_anyall_ok : forall p b s o, f_anyall p b s o = f_anyall p b s (out_of_res (collect o)).
Proof. intros p b s [v|a b'|e]; reflexivity. Qed.
Lemma f_find_ok : forall p s o, f_find p s o = f_find p s (out_of_res (collect o)).
Proof. intros p s [v|a b|e]; reflexivity. Qed.
Lemma f_position_ok : forall p s o, f_position p s o = f_position p s (out_of_res (collect o)).
Proof. intros p [i r0] [v|a b|e]; reflexivity. Qed.
Lemma f_for_ok : forall q s o, f_for q s o = f_for q s (out_of_res (collect o)).
Proof. intros q s [v|a b|e]; reflexivity. Qed.
Lemma f_fold_ok : forall g s o, f_fold g s o = f_fold g s (out_of_res (collect o)).
Proof. intros g s [v|a b|e]; reflexivity. Qed.

(* what each consumer returns, as an early-exit fold over the denoted sequence *)
Definition consumer_spec (c : consumer) (l : list res) : option cres :=
  match c with
  | CToList => Some (fin VList (fold_spec _ f_collect (inl []) l))
  | CToTuple => Some (fin VTup (fold_spec _ f_collect (inl []) l))
  | CCount => Some (fin (fun c => VInt (Z.of_N c)) (fold_spec _ f_count (inl 0) l))
  | CSum => Some (fin (fun v => v) (fold_spec _ (f_binop Z.add) (inl (VInt 0)) l))
  | CProduct => Some (fin (fun v => v) (fold_spec _ (f_binop Z.mul) (inl (VInt 1)) l))
  | CMin => Some (fin (fun o => match o with Some v => v | None => VNull end) (fold_spec _ (f_minmax1 false) (inl None) l))
  | CMax => Some (fin (fun o => match o with Some v => v | None => VNull end) (fold_spec _ (f_minmax1 true) (inl None) l))
  | CMinMax => Some (fin (fun o => match o with Some (a, b) => VTup [a; b] | None => VNull end) (fold_spec _ f_minmax2 (inl None) l))
  | CLast => Some (fin (fun v => v) (fold_spec _ f_last (inl VNull) l))
  | CConsume => Some (fin (fun _ => VNull) (fold_spec _ f_consume (inl tt) l))
  | CAny p => Some (fin VBool (fold_spec _ (f_anyall p true) (inl false) l))
  | CAll p => Some (fin VBool (fold_spec _ (f_anyall p false) (inl true) l))
  | CFind p => Some (fin (fun v => v) (fold_spec _ (f_find p) (inl VNull) l))
  | CPosition p => Some (fin (fun v => v) (snd (fold_spec _ (f_position p) (0, inl VNull) l)))
  | CFold init g => Some (fin (fun v => v) (fold_spec _ (f_fold g) (inl init) l))
  | CNexts _ => None
  | CFor quiet => Some (fin (fun c => VInt (Z.of_N c)) (fold_spec _ (f_for quiet) (inl 0) l))
  | CUnpack _ => None
  | CScript _ => None
  end.

Theorem consumers_are_folds : forall c it l r, Sem it l -> consumer_spec c l = Some r ->
  exists n t it', consume c n it = Some (t, r, it').
Proof.
  intros c it l r H HC.
  destruct c; simpl in HC; inversion HC; subst; clear HC; unfold consume, bind.
  - destruct (cfold_sem _ _ f_collect_ok l it (inl []) H) as (n & t & it' & HF & _). exists n, t, it'. rewrite HF. reflexivity.
  - destruct (cfold_sem _ _ f_collect_ok l it (inl []) H) as (n & t & it' & HF & _). exists n, t, it'. rewrite HF. reflexivity.
  - destruct (cfold_sem _ _ f_count_ok l it (inl 0) H) as (n & t & it' & HF & _). exists n, t, it'. rewrite HF. reflexivity.
  - destruct (cfold_sem _ _ (f_binop_ok Z.add) l it (inl (VInt 0)) H) as (n & t & it' & HF & _). exists n, t, it'. rewrite HF. reflexivity.
  - destruct (cfold_sem _ _ (f_binop_ok Z.mul) l it (inl (VInt 1)) H) as (n & t & it' & HF & _). exists n, t, it'. rewrite HF. reflexivity.
  - destruct (cfold_sem _ _ (f_minmax1_ok false) l it (inl None) H) as (n & t & it' & HF & _). exists n, t, it'. rewrite HF. reflexivity.
  - destruct (cfold_sem _ _ (f_minmax1_ok true) l it (inl None) H) as (n & t & it' & HF & _). exists n, t, it'. rewrite HF. reflexivity.
  - destruct (cfold_sem _ _ f_minmax2_ok l it (inl None) H) as (n & t & it' & HF & _). exists n, t, it'. rewrite HF. reflexivity.
  - destruct (cfold_sem _ _ f_last_ok l it (inl VNull) H) as (n & t & it' & HF & _). exists n, t, it'. rewrite HF. reflexivity.
  - destruct (cfold_sem _ _ f_consume_ok l it (inl tt) H) as (n & t & it' & HF & _). exists n, t, it'. rewrite HF. reflexivity.
  - destruct (cfold_sem _ _ (f_anyall_ok p true) l it (inl false) H) as (n & t & it' & HF & _). exists n, t, it'. rewrite HF. reflexivity.
  - destruct (cfold_sem _ _ (f_anyall_ok p false) l it (inl true) H) as (n & t & it' & HF & _). exists n, t, it'. rewrite HF. reflexivity.
  - destruct (cfold_sem _ _ (f_find_ok p) l it (inl VNull) H) as (n & t & it' & HF & _). exists n, t, it'. rewrite HF. reflexivity.
  - destruct (cfold_sem _ _ (f_position_ok p) l it (0, inl VNull) H) as (n & t & it' & HF & _). exists n, t, it'. rewrite HF. reflexivity.
  - destruct (cfold_sem _ _ (f_fold_ok f) l it (inl init) H) as (n & t & it' & HF & _). exists n, t, it'. rewrite HF. reflexivity.
  - destruct (cfold_sem _ _ (f_for_ok quiet) l it (inl 0) H) as (n & t & it' & HF & _). exists n, t, it'. rewrite HF. reflexivity.
Qed.

(* readable instances on error-free sequences *)
Lemma to_list_ok : forall vs acc, fold_spec _ f_collect (inl acc) (ok_all vs) = inl (acc ++ vs).
Proof.
  induction vs as [|v vs IH]; intros acc; simpl.
  - rewrite app_nil_r. reflexivity.
  - rewrite IH, <- app_assoc. reflexivity.
Qed.

Theorem to_list_is_the_sequence : forall it vs, Sem it (ok_all vs) ->
  exists n t it', consume CToList n it = Some (t, CVal (VList vs), it').
Proof.
  intros it vs H. eapply consumers_are_folds; eauto. simpl. rewrite to_list_ok. reflexivity.
Qed.

(* find with a total Boolean predicate: the first hit; the iterator still holds everything after it *)
Fixpoint find_split (q : value -> bool) (vs : list value) : option (value * list value) :=
  match vs with
  | [] => None
  | v :: vs' => if q v then Some (v, vs') else find_split q vs'
  end.

Theorem find_stops_at_first_hit : forall p q it vs,
  (forall v, cb_fun p v = ROk (VBool (q v))) -> Sem it (ok_all vs) ->
  exists n t it', consume (CFind p) n it =
                  Some (t, CVal (match find_split q vs with Some (v, _) => v | None => VNull end), it') /\
                  Sem it' (ok_all (match find_split q vs with Some (_, rest) => rest | None => [] end)).
Proof.
  intros p q it vs Hp H.
  destruct (cfold_sem _ _ (f_find_ok p) (ok_all vs) it (inl VNull) H) as (n & t & it' & HF & HR).
  exists n, t, it'. unfold consume, bind. rewrite HF.
  assert (G : forall vs s, fold_spec _ (f_find p) (inl s) (ok_all vs) =
                           inl (match find_split q vs with Some (v, _) => v | None => s end) /\
                           fold_rest _ (f_find p) (inl s) (ok_all vs) =
                           ok_all (match find_split q vs with Some (_, rest) => rest | None => [] end)).
  { clear - Hp. induction vs as [|v vs IH]; intros s; simpl; auto.
    unfold f_find at 1 3. simpl. rewrite Hp. simpl. destruct (q v); simpl; auto. }
  destruct (G vs VNull) as [G1 G2]. rewrite G1 in *. rewrite G2 in HR. split; auto.
Qed.
