(* C13 — proofs, part 1: fuel monotonicity of the step function (all iterators) *)
From Coq Require Import List ZArith NArith Bool Lia.
From KV.iter Require Import IterModel.
Import ListNotations.
Open Scope N_scope.

(* ================================================================================ *)
(* 1. fuel: more fuel never changes an answer                                        *)
(* ================================================================================ *)
Section LoopMono.
  Variables nx nx' : iter -> option R.
  Hypothesis Hnx : forall it r, nx it = Some r -> nx' it = Some r.

  Lemma advance_mono : forall k it r, advance nx k it = Some r -> advance nx' k it = Some r.
  Proof.
    induction k; simpl; intros it r H; auto.
    unfold bind in *.
    destruct (nx it) as [[[t o] it1]|] eqn:E; try discriminate.
    rewrite (Hnx _ _ E). destruct o; auto.
    destruct (advance nx k it1) as [[[t2 ok] it2]|] eqn:E2; try discriminate.
    rewrite (IHk _ _ E2). auto.
  Qed.

  Lemma nth_mono : forall k it r, nth_ nx k it = Some r -> nth_ nx' k it = Some r.
  Proof.
    unfold nth_, bind; intros k it r H.
    destruct (advance nx k it) as [[[t ok] it1]|] eqn:E; try discriminate.
    rewrite (advance_mono _ _ _ E). destruct ok; auto.
    destruct (nx it1) as [[[t2 o] it2]|] eqn:E2; try discriminate.
    rewrite (Hnx _ _ E2). auto.
  Qed.

  Lemma pull_ignore_mono : forall k it r, pull_ignore nx k it = Some r -> pull_ignore nx' k it = Some r.
  Proof.
    induction k; simpl; intros it r H; auto.
    unfold bind in *.
    destruct (nx it) as [[[t o] it1]|] eqn:E; try discriminate.
    rewrite (Hnx _ _ E).
    destruct (pull_ignore nx k it1) as [[t2 it2]|] eqn:E2; try discriminate.
    rewrite (IHk _ _ E2). auto.
  Qed.

  Lemma chunk_loop_mono : forall k it acc r, chunk_loop nx k it acc = Some r -> chunk_loop nx' k it acc = Some r.
  Proof.
    induction k; simpl; intros it acc r H; auto.
    unfold bind in *.
    destruct (nx it) as [[[t o] it1]|] eqn:E; try discriminate.
    rewrite (Hnx _ _ E). destruct o; auto. destruct (collect o); auto.
    destruct (chunk_loop nx k it1 (acc ++ [v])) as [[[t2 rr] it2]|] eqn:E2; try discriminate.
    rewrite (IHk _ _ _ E2). auto.
  Qed.

  Lemma window_fill_mono : forall k it c r, window_fill nx k it c = Some r -> window_fill nx' k it c = Some r.
  Proof.
    induction k; simpl; intros it c r H; auto.
    unfold bind in *.
    destruct (nx it) as [[[t o] it1]|] eqn:E; try discriminate.
    rewrite (Hnx _ _ E). destruct o; auto. destruct (collect o); auto.
    destruct (window_fill nx k it1 (c ++ [v])) as [[[[t2 e] c2] it2]|] eqn:E2; try discriminate.
    rewrite (IHk _ _ _ E2). auto.
  Qed.
  Lemma discard_mono : forall b k it r, discard nx b k it = Some r -> discard nx' b k it = Some r.
  Proof.
    intro b. induction k; simpl; intros it r H; auto.
    unfold bind in *.
    destruct (nx it) as [[[t o] it1]|] eqn:E; try discriminate.
    rewrite (Hnx _ _ E).
    destruct o as [[v|x y|e]|]; auto;
      try (destruct (discard nx b k it1) as [[[t2 rr] it2]|] eqn:E2; try discriminate; rewrite (IHk _ _ E2); auto).
    destruct b; auto.
    destruct (discard nx false k it1) as [[[t2 rr] it2]|] eqn:E2; try discriminate; rewrite (IHk _ _ E2); auto.
  Qed.
End LoopMono.

Ltac mono_step IH Hle :=
  match goal with
  | H : match (match step ?n ?d ?i with _ => _ end) with _ => _ end = Some _ |- _ =>
    let E := fresh "E" in
    destruct (step n d i) as [[[? ?] ?]|] eqn:E; [ rewrite (IH _ _ _ E _ Hle) | discriminate H ]
  | H : match (match ?x with Some _ => _ | None => _ end) with _ => _ end = Some _ |- _ => destruct x
  | H : match step ?n ?d ?i with _ => _ end = Some _ |- _ =>
    let E := fresh "E" in
    destruct (step n d i) as [[[? ?] ?]|] eqn:E; [ rewrite (IH _ _ _ E _ Hle) | discriminate H ]
  | H : match advance (step ?n ?d) ?k ?i with _ => _ end = Some _ |- _ =>
    let E := fresh "E" in
    destruct (advance (step n d) k i) as [[[? ?] ?]|] eqn:E;
    [ rewrite (advance_mono (step n d) _ (fun it r H => IH d it r H _ Hle) _ _ _ E) | discriminate H ]
  | H : match nth_ (step ?n ?d) ?k ?i with _ => _ end = Some _ |- _ =>
    let E := fresh "E" in
    destruct (nth_ (step n d) k i) as [[[? ?] ?]|] eqn:E;
    [ rewrite (nth_mono (step n d) _ (fun it r H => IH d it r H _ Hle) _ _ _ E) | discriminate H ]
  | H : match discard (step ?n ?d) ?b ?k ?i with _ => _ end = Some _ |- _ =>
    let E := fresh "E" in
    destruct (discard (step n d) b k i) as [[[? ?] ?]|] eqn:E;
    [ rewrite (discard_mono (step n d) _ (fun it r H => IH d it r H _ Hle) _ _ _ _ E) | discriminate H ]
  | H : match pull_ignore (step ?n ?d) ?k ?i with _ => _ end = Some _ |- _ =>
    let E := fresh "E" in
    destruct (pull_ignore (step n d) k i) as [[? ?]|] eqn:E;
    [ rewrite (pull_ignore_mono (step n d) _ (fun it r H => IH d it r H _ Hle) _ _ _ E) | discriminate H ]
  | H : match chunk_loop (step ?n ?d) ?k ?i ?a with _ => _ end = Some _ |- _ =>
    let E := fresh "E" in
    destruct (chunk_loop (step n d) k i a) as [[[? ?] ?]|] eqn:E;
    [ rewrite (chunk_loop_mono (step n d) _ (fun it r H => IH d it r H _ Hle) _ _ _ _ E) | discriminate H ]
  | H : match window_fill (step ?n ?d) ?k ?i ?a with _ => _ end = Some _ |- _ =>
    let E := fresh "E" in
    destruct (window_fill (step n d) k i a) as [[[[? ?] ?] ?]|] eqn:E;
    [ rewrite (window_fill_mono (step n d) _ (fun it r H => IH d it r H _ Hle) _ _ _ _ E) | discriminate H ]
  | H : match ?x with _ => _ end = Some _ |- _ => destruct x; try discriminate H
  | H : (let '(_, _) := ?x in _) = Some _ |- _ => destruct x
  | H : (if ?x then _ else _) = Some _ |- _ => destruct x
  end.

Lemma step_mono : forall n d it r, step n d it = Some r -> forall m, (n <= m)%nat -> step m d it = Some r.
Proof.
  induction n as [|n IH]; intros d it r H m Hm; [discriminate|].
  destruct m as [|m]; [lia|].
  assert (Hle : (n <= m)%nat) by lia. clear Hm.
  destruct it; destruct d; cbn [step] in H |- *; unfold bind in *;
    try exact H;
    repeat mono_step IH Hle; try exact H; try discriminate.
Qed.
