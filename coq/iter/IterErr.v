(* C13 — proofs, part 6: a sequence with an error at position k (a generator body that throws, a callback
   that throws): every consumer loop returns that error iff it pulls position k *)
From Coq Require Import List ZArith NArith Bool Lia.
From KV.iter Require Import IterModel IterSpec IterFuel IterSem.
Import ListNotations.
Open Scope N_scope.

(* the failing generator denotes: its elements before the failure point, then the error *)
Definition spec_fail (items : list value) (k : nat) : list res :=
  ok_all (firstn k items) ++ (if (k <? length items)%nat then [RErr E_THROW] else []).

Lemma Sem_fail_done : forall id items k, Sem (SFail id items k true) [].
Proof. intros id items k j. apply Semk_done. intro n. reflexivity. Qed.

Theorem Sem_fail : forall id items k, Sem (SFail id items k false) (spec_fail items k).
Proof.
  intros id. induction items as [|x items IH]; intros k; unfold spec_fail.
  - rewrite firstn_nil. simpl. replace (k <? 0)%nat with false by (destruct k; reflexivity). simpl.
    eapply Sem_nil_intro with (t := [EvEnd id]) (it' := SFail id [] k true).
    { exists 1%nat. reflexivity. } apply Sem_fail_done.
  - destruct k as [|k].
    + simpl. change (RErr E_THROW) with (collect (OErr E_THROW)).
      eapply Sem_cons_intro with (t := [EvFail id]) (it' := SFail id (x :: items) 0 true).
      { exists 1%nat. reflexivity. } apply Sem_fail_done.
    + change (firstn (S k) (x :: items)) with (x :: firstn k items).
      change (S k <? length (x :: items))%nat with (k <? length items)%nat.
      simpl. change (ROk x) with (collect (OVal x)).
      eapply Sem_cons_intro with (t := [EvPull id x]) (it' := SFail id items k false).
      { exists 1%nat. reflexivity. } apply IH.
Qed.

(* ---------------- early-exit folds over a sequence with an error ---------------- *)
Section FoldErr.
  Variable St : Type.
  Variable f : St -> output -> trace * St * bool.
  Variable good : St -> Prop.            (* the loop is still running normally *)
  Variable isErr : N -> St -> Prop.      (* the loop has returned Err e *)
  Hypothesis H1 : forall s o tc s', good s -> f s o = (tc, s', false) -> good s'.
  Hypothesis H2 : forall s e, good s -> exists tc s', f s (OErr e) = (tc, s', true) /\ isErr e s'.

  (* did the loop return while looking at l ? *)
  Fixpoint fold_stop (s : St) (l : list res) : bool :=
    match l with
    | [] => false
    | r :: l' => let '(_, s', stop) := f s (out_of_res r) in if stop then true else fold_stop s' l'
    end.

  Lemma stop_early_ignores_rest : forall pre s rest, fold_stop s pre = true ->
    fold_spec St f s (pre ++ rest) = fold_spec St f s pre /\
    fold_rest St f s (pre ++ rest) = fold_rest St f s pre ++ rest.
  Proof.
    induction pre as [|r pre IH]; simpl; intros s rest H; [discriminate|].
    destruct (f s (out_of_res r)) as [[tc s'] stop]. destruct stop; auto.
  Qed.

  Lemma no_stop_reaches_error : forall pre s e rest, good s -> fold_stop s pre = false ->
    isErr e (fold_spec St f s (pre ++ RErr e :: rest)) /\
    fold_rest St f s (pre ++ RErr e :: rest) = rest.
  Proof.
    induction pre as [|r pre IH]; simpl; intros s e rest Hg H.
    - destruct (H2 s e Hg) as (tc & s' & -> & He). auto.
    - destruct (f s (out_of_res r)) as [[tc s'] stop] eqn:E. destruct stop; [discriminate|].
      apply IH; auto. eapply H1; eauto.
  Qed.
End FoldErr.

Definition accgood {A} (s : acc A) : Prop := exists a, s = inl a.
Definition accerr {A} (e : N) (s : acc A) : Prop := s = inr e.

Ltac crunch H :=
  repeat (match type of H with
          | context [match ?x with _ => _ end] => destruct x eqn:?
          | context [let '(_, _) := ?x in _] => destruct x eqn:?
          | context [if ?x then _ else _] => destruct x eqn:?
          end; cbn in H).

Ltac h1 := intros s o tc s' [a ->] H; destruct o; cbn in H; crunch H; inversion H; subst; unfold accgood; eauto.
Ltac h2 := intros s e [a ->]; cbn; unfold accerr; eauto.

Lemma collect_h1 : forall s o tc s', accgood s -> f_collect s o = (tc, s', false) -> accgood s'. Proof. h1. Qed.
Lemma collect_h2 : forall s e, accgood s -> exists tc s', f_collect s (OErr e) = (tc, s', true) /\ accerr e s'. Proof. h2. Qed.
Lemma count_h1 : forall s o tc s', accgood s -> f_count s o = (tc, s', false) -> accgood s'. Proof. h1. Qed.
Lemma count_h2 : forall s e, accgood s -> exists tc s', f_count s (OErr e) = (tc, s', true) /\ accerr e s'. Proof. h2. Qed.
Lemma binop_h1 : forall op s o tc s', accgood s -> f_binop op s o = (tc, s', false) -> accgood s'. Proof. intro op. h1. Qed.
Lemma binop_h2 : forall op s e, accgood s -> exists tc s', f_binop op s (OErr e) = (tc, s', true) /\ accerr e s'. Proof. intro op. h2. Qed.
Lemma minmax1_h1 : forall inv s o tc s', accgood s -> f_minmax1 inv s o = (tc, s', false) -> accgood s'. Proof. intro inv. h1. Qed.
Lemma minmax1_h2 : forall inv s e, accgood s -> exists tc s', f_minmax1 inv s (OErr e) = (tc, s', true) /\ accerr e s'.
Proof. intros inv s e [a ->]. destruct a; cbn; unfold accerr; eauto. Qed.
Lemma minmax2_h1 : forall s o tc s', accgood s -> f_minmax2 s o = (tc, s', false) -> accgood s'. Proof. h1. Qed.
Lemma minmax2_h2 : forall s e, accgood s -> exists tc s', f_minmax2 s (OErr e) = (tc, s', true) /\ accerr e s'.
Proof. intros s e [a ->]. destruct a as [[x y]|]; cbn; unfold accerr; eauto. Qed.
Lemma last_h1 : forall s o tc s', accgood s -> f_last s o = (tc, s', false) -> accgood s'. Proof. h1. Qed.
Lemma last_h2 : forall s e, accgood s -> exists tc s', f_last s (OErr e) = (tc, s', true) /\ accerr e s'. Proof. h2. Qed.
Lemma consume_h1 : forall s o tc s', accgood s -> f_consume s o = (tc, s', false) -> accgood s'. Proof. h1. Qed.
Lemma consume_h2 : forall s e, accgood s -> exists tc s', f_consume s (OErr e) = (tc, s', true) /\ accerr e s'. Proof. h2. Qed.
Lemma anyall_h1 : forall p b s o tc s', accgood s -> f_anyall p b s o = (tc, s', false) -> accgood s'. Proof. intros p b. h1. Qed.
Lemma anyall_h2 : forall p b s e, accgood s -> exists tc s', f_anyall p b s (OErr e) = (tc, s', true) /\ accerr e s'. Proof. intros p b. h2. Qed.
Lemma find_h1 : forall p s o tc s', accgood s -> f_find p s o = (tc, s', false) -> accgood s'. Proof. intro p. h1. Qed.
Lemma find_h2 : forall p s e, accgood s -> exists tc s', f_find p s (OErr e) = (tc, s', true) /\ accerr e s'. Proof. intro p. h2. Qed.
Lemma fold_h1 : forall g s o tc s', accgood s -> f_fold g s o = (tc, s', false) -> accgood s'. Proof. intro g. h1. Qed.
Lemma fold_h2 : forall g s e, accgood s -> exists tc s', f_fold g s (OErr e) = (tc, s', true) /\ accerr e s'. Proof. intro g. h2. Qed.
Lemma for_h1 : forall q s o tc s', accgood s -> f_for q s o = (tc, s', false) -> accgood s'. Proof. intro q. h1. Qed.
Lemma for_h2 : forall q s e, accgood s -> exists tc s', f_for q s (OErr e) = (tc, s', true) /\ accerr e s'. Proof. intro q. h2. Qed.

Definition posgood (s : N * acc value) : Prop := exists a, snd s = inl a.
Definition poserr (e : N) (s : N * acc value) : Prop := snd s = inr e.
Lemma position_h1 : forall p s o tc s', posgood s -> f_position p s o = (tc, s', false) -> posgood s'.
Proof.
  intros p [i r0] o tc s' [a Ha] H. simpl in Ha. subst r0. destruct o; cbn in H; crunch H; inversion H; subst;
    unfold posgood; simpl; eauto.
Qed.
Lemma position_h2 : forall p s e, posgood s -> exists tc s', f_position p s (OErr e) = (tc, s', true) /\ poserr e s'.
Proof. intros p [i r0] e [a Ha]. simpl in Ha. subst. cbn. unfold poserr. eauto. Qed.

(* does consumer c return before having looked at all of `pre` ? *)
Definition exits_early (c : consumer) (pre : list value) : bool :=
  let l := ok_all pre in
  match c with
  | CToList | CToTuple => fold_stop _ f_collect (inl []) l
  | CCount => fold_stop _ f_count (inl 0) l
  | CSum => fold_stop _ (f_binop Z.add) (inl (VInt 0)) l
  | CProduct => fold_stop _ (f_binop Z.mul) (inl (VInt 1)) l
  | CMin => fold_stop _ (f_minmax1 false) (inl None) l
  | CMax => fold_stop _ (f_minmax1 true) (inl None) l
  | CMinMax => fold_stop _ f_minmax2 (inl None) l
  | CLast => fold_stop _ f_last (inl VNull) l
  | CConsume => fold_stop _ f_consume (inl tt) l
  | CAny p => fold_stop _ (f_anyall p true) (inl false) l
  | CAll p => fold_stop _ (f_anyall p false) (inl true) l
  | CFind p => fold_stop _ (f_find p) (inl VNull) l
  | CPosition p => fold_stop _ (f_position p) (0, inl VNull) l
  | CFold init g => fold_stop _ (f_fold g) (inl init) l
  | CFor q => fold_stop _ (f_for q) (inl 0) l
  | CNexts _ | CUnpack _ | CScript _ => false
  end.

Lemma good_inl : forall {A} (a : A), accgood (inl a : acc A).
Proof. intros. exists a. reflexivity. Qed.

Ltac perr H1 H2 a rest :=
  match goal with
  | |- context [fold_stop ?St ?f ?s ?l] =>
    destruct (fold_stop St f s l) eqn:ES;
    [ destruct (stop_early_ignores_rest St f l s (RErr a :: rest) ES) as [-> _]; reflexivity
    | destruct (no_stop_reaches_error St f _ _ H1 H2 l s a rest (good_inl _) ES) as [-> _]; reflexivity ]
  end.

Theorem consume_propagates_error : forall c it pre e rest r,
  Sem it (ok_all pre ++ RErr e :: rest) ->
  consumer_spec c (ok_all pre ++ RErr e :: rest) = Some r ->
  (exists n t it', consume c n it = Some (t, r, it')) /\
  (if exits_early c pre then consumer_spec c (ok_all pre) = Some r else r = CErr e).
Proof.
  intros c it pre e rest r HS HC. split. { eapply consumers_are_folds; eauto. }
  destruct c; cbn [consumer_spec exits_early] in *; try discriminate; inversion HC; subst; clear HC.
  - perr collect_h1 collect_h2 e rest.
  - perr collect_h1 collect_h2 e rest.
  - perr count_h1 count_h2 e rest.
  - perr (binop_h1 Z.add) (binop_h2 Z.add) e rest.
  - perr (binop_h1 Z.mul) (binop_h2 Z.mul) e rest.
  - perr (minmax1_h1 false) (minmax1_h2 false) e rest.
  - perr (minmax1_h1 true) (minmax1_h2 true) e rest.
  - perr minmax2_h1 minmax2_h2 e rest.
  - perr last_h1 last_h2 e rest.
  - perr consume_h1 consume_h2 e rest.
  - perr (anyall_h1 p true) (anyall_h2 p true) e rest.
  - perr (anyall_h1 p false) (anyall_h2 p false) e rest.
  - perr (find_h1 p) (find_h2 p) e rest.
  - destruct (fold_stop _ (f_position p) (0, inl VNull) (ok_all pre)) eqn:ES.
    + destruct (stop_early_ignores_rest _ (f_position p) _ (0, inl VNull) (RErr e :: rest) ES) as [-> _]. reflexivity.
    + assert (G : posgood (0, inl VNull)) by (exists VNull; reflexivity).
      destruct (no_stop_reaches_error _ (f_position p) posgood poserr (position_h1 p) (position_h2 p) _ _ e rest G ES) as [He _].
      unfold poserr in He. rewrite He. reflexivity.
  - perr (fold_h1 f) (fold_h2 f) e rest.
  - perr (for_h1 quiet) (for_h2 quiet) e rest.
Qed.

(* the failing element is pulled iff the loop has not returned before it *)
Theorem error_pulled_iff_no_early_exit : forall St f (good : St -> Prop) (isErr : N -> St -> Prop),
  (forall s o tc s', good s -> f s o = (tc, s', false) -> good s') ->
  (forall s e, good s -> exists tc s', f s (OErr e) = (tc, s', true) /\ isErr e s') ->
  forall pre s e rest, good s ->
  (fold_stop St f s pre = true -> fold_rest St f s (pre ++ RErr e :: rest) = fold_rest St f s pre ++ RErr e :: rest) /\
  (fold_stop St f s pre = false -> fold_rest St f s (pre ++ RErr e :: rest) = rest /\ isErr e (fold_spec St f s (pre ++ RErr e :: rest))).
Proof.
  intros St f good isErr H1 H2 pre s e rest Hg. split; intro H.
  - apply stop_early_ignores_rest; auto.
  - destruct (no_stop_reaches_error St f good isErr H1 H2 pre s e rest Hg H); auto.
Qed.
