(* C13 — proofs, part 3: reversing the bidirectional source cursors *)
From Coq Require Import List ZArith NArith Bool Lia.
From KV.iter Require Import IterModel IterSpec IterFuel IterSem.
Import ListNotations.
Open Scope N_scope.

Lemma step_reversed_fwd : forall n it,
  step (S n) Fwd (Reversed it) = bind (step n Bwd it) (fun '(t, o, i') => Some (t, o, Reversed i')).
Proof. reflexivity. Qed.

Lemma Semk_rev_done : forall it, (forall n, step (S n) Bwd it = Some ([], None, it)) -> forall k, Semk k (Reversed it) [].
Proof.
  intros it H. induction k; simpl; auto.
  exists [], (Reversed it). split; auto. exists 2%nat. rewrite step_reversed_fwd, H. reflexivity.
Qed.

Lemma slice_last : forall (data : list value) i e, i < e -> e <= nlen data ->
  exists v, nget data (e - 1) = Some v /\ slice data i e = slice data i (e - 1) ++ [v].
Proof.
  intros data i e Hlt Hle. unfold nget, slice, nlen in *.
  assert (Hb : (N.to_nat (e - 1) < length data)%nat) by lia.
  destruct (nth_error data (N.to_nat (e - 1))) as [v|] eqn:E.
  2:{ apply nth_error_None in E. lia. }
  exists v. split; auto.
  replace (N.to_nat e) with (S (N.to_nat (e - 1))) by lia.
  assert (F : firstn (S (N.to_nat (e - 1))) data = firstn (N.to_nat (e - 1)) data ++ [v]).
  { revert E Hb. generalize (N.to_nat (e - 1)) as a. clear. induction data as [|x data IH]; intros a E Hb; simpl in *; [lia|].
    destruct a; simpl in *.
    - inversion E; subst. reflexivity.
    - f_equal. apply IH; auto. lia. }
  rewrite F. rewrite skipn_app.
  replace (N.to_nat i - length (firstn (N.to_nat (e - 1)) data))%nat with 0%nat.
  2:{ rewrite firstn_length. lia. }
  reflexivity.
Qed.

(* reversing a list / tuple cursor yields its remaining elements backwards *)
Lemma Sem_reversed_list : forall data e i, e <= nlen data ->
  Sem (Reversed (SList data i e)) (ok_all (rev (slice data i e))).
Proof.
  intros data e i.
  assert (forall m e, N.to_nat (e - i) = m -> e <= nlen data ->
                      Sem (Reversed (SList data i e)) (ok_all (rev (slice data i e)))) as G.
  { induction m as [|m IH]; intros e0 Hm Hle.
    - assert (Hge : e0 <= i) by lia.
      replace (slice data i e0) with (@nil value).
      2:{ unfold slice. symmetry. apply skipn_all2. rewrite firstn_length. lia. }
      intro k. apply Semk_rev_done. intro n. cbn [step].
      destruct (i <? e0) eqn:E; auto. apply N.ltb_lt in E. lia.
    - assert (Hlt : i < e0) by lia.
      destruct (slice_last data i e0 Hlt Hle) as (v & Hg & Hs).
      rewrite Hs, rev_app_distr. simpl.
      change (ROk v) with (collect (OVal v)).
      eapply Sem_cons_intro with (t := []) (it' := Reversed (SList data i (e0 - 1))).
      { exists 2%nat. cbn [step]. unfold bind. cbn [step]. apply N.ltb_lt in Hlt. rewrite Hlt, Hg. reflexivity. }
      apply IH; lia. }
  intros. eapply G; eauto.
Qed.

Theorem reversed_list_is_rev : forall l, Sem (Reversed (mk_list l)) (ok_all (rev l)).
Proof.
  intro l. unfold mk_list. pose proof (Sem_reversed_list l (nlen l) 0 ltac:(lia)) as H.
  unfold slice, nlen in H. rewrite Nat2N.id, firstn_all in H. exact H.
Qed.

Lemma zrange_snoc : forall n s, zrange s (S n) = zrange s n ++ [(s + Z.of_nat n)%Z].
Proof.
  induction n as [|n IH]; intros s.
  - simpl. rewrite Z.add_0_r. reflexivity.
  - change (zrange s (S (S n))) with (s :: zrange (s + 1) (S n)). rewrite IH. simpl.
    do 3 f_equal. lia.
Qed.

Lemma spec_range_last : forall s e incl, (s < e)%Z ->
  spec_range s e incl = spec_range s (e - 1) incl ++ [ROk (VInt (if incl then e else (e - 1)%Z))].
Proof.
  intros s e incl H. unfold spec_range.
  set (e' := if incl then (e + 1)%Z else e).
  replace (if incl then (e - 1 + 1)%Z else (e - 1)%Z) with (e' - 1)%Z by (subst e'; destruct incl; lia).
  assert (s < e')%Z by (subst e'; destruct incl; lia).
  replace (Z.to_nat (e' - s)) with (S (Z.to_nat (e' - 1 - s))) by lia.
  rewrite zrange_snoc, map_app. simpl. do 4 f_equal. subst e'. destruct incl; lia.
Qed.

(* reversing a range cursor (ascending, inclusive or not; descending ranges are empty) *)
Theorem reversed_range_is_rev : forall s e incl, Sem (Reversed (SRange s e incl)) (rev (spec_range s e incl)).
Proof.
  intros s e incl.
  assert (forall m e incl, Z.to_nat (e - s) = m -> Sem (Reversed (SRange s e incl)) (rev (spec_range s e incl))) as G.
  { clear. induction m as [|m IH]; intros e incl Hm.
    - destruct (Z.compare_spec s e) as [Heq|Hlt|Hgt]; [|lia|].
      + subst e. destruct incl.
        * unfold spec_range. replace (Z.to_nat (s + 1 - s)) with 1%nat by lia. simpl.
          change (ROk (VInt s)) with (collect (OVal (VInt s))).
          eapply Sem_cons_intro with (t := []) (it' := Reversed (SRange s s false)).
          { exists 2%nat. cbn [step]. unfold bind. cbn [step]. rewrite Z.compare_refl. reflexivity. }
          intro k. apply Semk_rev_done. intro n. cbn [step]. rewrite Z.compare_refl. reflexivity.
        * unfold spec_range. rewrite Z.sub_diag. simpl.
          intro k. apply Semk_rev_done. intro n. cbn [step]. rewrite Z.compare_refl. reflexivity.
      + unfold spec_range. replace (Z.to_nat ((if incl then (e + 1)%Z else e) - s)) with 0%nat by (destruct incl; lia).
        simpl. intro k. apply Semk_rev_done. intro n. cbn [step].
        replace (s ?= e)%Z with Gt by (symmetry; apply Z.compare_gt_iff; lia). reflexivity.
    - assert (Hlt : (s < e)%Z) by lia.
      rewrite spec_range_last by auto. rewrite rev_app_distr. simpl.
      set (x := if incl then e else (e - 1)%Z).
      change (ROk (VInt x)) with (collect (OVal (VInt x))).
      eapply Sem_cons_intro with (t := []) (it' := Reversed (SRange s (e - 1) incl)).
      { exists 2%nat. cbn [step]. unfold bind. cbn [step].
        replace (s ?= e)%Z with Lt by (symmetry; apply Z.compare_lt_iff; lia). reflexivity. }
      apply IH. lia. }
  eapply G; eauto.
Qed.

(* `reversed` twice is the identity on what the cursor denotes (lists) *)
Lemma Sem_reversed_reversed : forall it l, Sem it l -> Sem (Reversed (Reversed it)) l.
Proof.
  intros it l H k. revert it l H. induction k as [|k IH]; simpl; auto. intros it l H.
  destruct l as [|x l].
  - destruct (Sem_nil_inv _ H) as (t & it' & [n HN] & HS).
    exists t, (Reversed (Reversed it')). split.
    { exists (S (S n)). cbn [step]. unfold bind. cbn [step]. unfold bind.
      rewrite (step_mono _ _ _ _ HN n ltac:(lia)). reflexivity. }
    apply IH; auto.
  - destruct (Sem_cons_inv _ _ _ H) as (t & o & it' & [n HN] & HC & HS).
    exists t, o, (Reversed (Reversed it')). split.
    { exists (S (S n)). cbn [step]. unfold bind. cbn [step]. unfold bind.
      rewrite (step_mono _ _ _ _ HN n ltac:(lia)). reflexivity. }
    split; auto.
Qed.

(* ================================================================================ *)
(* bidirectional denotation: any interleaving of next / next_back calls takes from the
   front / from the back of what is left (the two ends partition the sequence)          *)
(* ================================================================================ *)
Fixpoint Bik (k : nat) (it : iter) (l : list res) : Prop :=
  match k with
  | O => True
  | S k =>
    (match l with
     | [] => exists t it', Next Fwd it (t, None, it') /\ Bik k it' []
     | x :: l' => exists t o it', Next Fwd it (t, Some o, it') /\ collect o = x /\ Bik k it' l'
     end) /\
    (match rev l with
     | [] => exists t it', Next Bwd it (t, None, it') /\ Bik k it' []
     | x :: r => exists t o it', Next Bwd it (t, Some o, it') /\ collect o = x /\ Bik k it' (rev r)
     end)
  end.
Definition Bi (it : iter) (l : list res) : Prop := forall k, Bik k it l.

Lemma Bik_Semk : forall k it l, Bik k it l -> Semk k it l.
Proof.
  induction k as [|k IH]; simpl; auto. intros it l [HF _].
  destruct l as [|x l].
  - destruct HF as (t & it' & HN & HB). eauto.
  - destruct HF as (t & o & it' & HN & HC & HB). eauto 8.
Qed.

Lemma Bi_Sem : forall it l, Bi it l -> Sem it l.
Proof. intros it l H k. apply Bik_Semk, H. Qed.

Lemma Next_reversed_fwd : forall it t o it', Next Bwd it (t, o, it') -> Next Fwd (Reversed it) (t, o, Reversed it').
Proof. intros it t o it' [n H]. exists (S n). cbn [step]. unfold bind. rewrite H. reflexivity. Qed.
Lemma Next_reversed_bwd : forall it t o it', Next Fwd it (t, o, it') -> Next Bwd (Reversed it) (t, o, Reversed it').
Proof. intros it t o it' [n H]. exists (S n). cbn [step]. unfold bind. rewrite H. reflexivity. Qed.

Lemma Bik_reversed : forall k it l, Bik k it l -> Bik k (Reversed it) (rev l).
Proof.
  induction k as [|k IH]; simpl; auto. intros it l [HF HB]. split.
  - destruct (rev l) as [|x r].
    + destruct HB as (t & it' & HN & H). exists t, (Reversed it'). split; [apply Next_reversed_fwd; auto|].
      apply (IH it' [] H).
    + destruct HB as (t & o & it' & HN & HC & H). exists t, o, (Reversed it'). split; [apply Next_reversed_fwd; auto|].
      split; auto. specialize (IH _ _ H). rewrite rev_involutive in IH. exact IH.
  - rewrite rev_involutive. destruct l as [|x l'].
    + destruct HF as (t & it' & HN & H). exists t, (Reversed it'). split; [apply Next_reversed_bwd; auto|].
      apply (IH it' [] H).
    + destruct HF as (t & o & it' & HN & HC & H). exists t, o, (Reversed it'). split; [apply Next_reversed_bwd; auto|].
      split; auto.
Qed.

Lemma Bi_reversed : forall it l, Bi it l -> Bi (Reversed it) (rev l).
Proof. intros it l H k. apply Bik_reversed, H. Qed.

(* ---- index/end cursors over an immutable container (ListIterator, TupleIterator, ByteIterator) ---- *)
Lemma nget_slice_head' : forall {A} (data : list A) i e, i < e -> e <= nlen data ->
  exists v, nget data i = Some v /\ slice data i e = v :: slice data (i + 1) e.
Proof.
  intros A data i e Hlt Hle. unfold nget, slice, nlen in *.
  replace (N.to_nat (i + 1)) with (S (N.to_nat i)) by lia.
  assert (Ha : (N.to_nat i < N.to_nat e)%nat) by lia.
  assert (Hb : (N.to_nat e <= length data)%nat) by lia.
  revert Ha Hb. generalize (N.to_nat i) as a, (N.to_nat e) as b. clear.
  induction data as [|x data IH]; intros a b Ha Hb; simpl in *; [lia|].
  destruct b; [lia|]. destruct a; simpl.
  - eauto.
  - apply IH; lia.
Qed.

Lemma slice_last' : forall {A} (data : list A) i e, i < e -> e <= nlen data ->
  exists v, nget data (e - 1) = Some v /\ slice data i e = slice data i (e - 1) ++ [v].
Proof.
  intros A data i e Hlt Hle. unfold nget, slice, nlen in *.
  assert (Hb : (N.to_nat (e - 1) < length data)%nat) by lia.
  destruct (nth_error data (N.to_nat (e - 1))) as [v|] eqn:E.
  2:{ apply nth_error_None in E. lia. }
  exists v. split; auto.
  replace (N.to_nat e) with (S (N.to_nat (e - 1))) by lia.
  assert (F : firstn (S (N.to_nat (e - 1))) data = firstn (N.to_nat (e - 1)) data ++ [v]).
  { revert E Hb. generalize (N.to_nat (e - 1)) as a. clear. induction data as [|x data IH]; intros a E Hb; simpl in *; [lia|].
    destruct a; simpl in *.
    - inversion E; subst. reflexivity.
    - f_equal. apply IH; auto. lia. }
  rewrite F. rewrite skipn_app.
  replace (N.to_nat i - length (firstn (N.to_nat (e - 1)) data))%nat with 0%nat.
  2:{ rewrite firstn_length. lia. }
  reflexivity.
Qed.

Section IndexEndCursor.
  Variable A : Type.
  Variable data : list A.
  Variable f : A -> value.
  Variable mk : N -> N -> iter.
  Hypothesis step_fwd : forall n i e, step (S n) Fwd (mk i e) =
    if i <? e then Some ([], option_map (fun a => OVal (f a)) (nget data i), mk (i + 1) e) else Some ([], None, mk i e).
  Hypothesis step_bwd : forall n i e, step (S n) Bwd (mk i e) =
    if i <? e then Some ([], option_map (fun a => OVal (f a)) (nget data (e - 1)), mk i (e - 1)) else Some ([], None, mk i e).

  Definition seq_of (l : list A) : list res := map (fun a => ROk (f a)) l.

  Lemma cursor_bik : forall k i e, e <= nlen data -> Bik k (mk i e) (seq_of (slice data i e)).
  Proof.
    induction k as [|k IH]; simpl; auto. intros i e Hle.
    destruct (i <? e) eqn:E.
    - apply N.ltb_lt in E.
      destruct (nget_slice_head' data i e E Hle) as (v & Hg & Hs).
      destruct (slice_last' data i e E Hle) as (w & Hg2 & Hs2).
      split.
      + rewrite Hs. simpl. exists [], (OVal (f v)), (mk (i + 1) e). split.
        { exists 1%nat. rewrite step_fwd. replace (i <? e) with true by (symmetry; apply N.ltb_lt; auto). rewrite Hg. reflexivity. }
        split; auto.
      + rewrite Hs2. unfold seq_of. rewrite map_app, rev_app_distr. simpl.
        exists [], (OVal (f w)), (mk i (e - 1)). split.
        { exists 1%nat. rewrite step_bwd. replace (i <? e) with true by (symmetry; apply N.ltb_lt; auto). rewrite Hg2. reflexivity. }
        split; auto. rewrite rev_involutive. apply IH. lia.
    - apply N.ltb_ge in E.
      replace (slice data i e) with (@nil A).
      2:{ unfold slice. symmetry. apply skipn_all2. rewrite firstn_length. lia. }
      simpl. split.
      + exists [], (mk i e). split. { exists 1%nat. rewrite step_fwd. replace (i <? e) with false by (symmetry; apply N.ltb_ge; auto). reflexivity. }
        specialize (IH i e Hle). replace (slice data i e) with (@nil A) in IH; auto.
        unfold slice. symmetry. apply skipn_all2. rewrite firstn_length. lia.
      + exists [], (mk i e). split. { exists 1%nat. rewrite step_bwd. replace (i <? e) with false by (symmetry; apply N.ltb_ge; auto). reflexivity. }
        specialize (IH i e Hle). replace (slice data i e) with (@nil A) in IH; auto.
        unfold slice. symmetry. apply skipn_all2. rewrite firstn_length. lia.
  Qed.
End IndexEndCursor.

Definition bytes_seq (l : list N) : list res := map (fun b => ROk (VInt (Z.of_N b))) l.

Theorem Bi_bytes : forall data i e, e <= nlen data -> Bi (SBytes data i e) (bytes_seq (slice data i e)).
Proof.
  intros data i e Hle k.
  apply (cursor_bik N data (fun b => VInt (Z.of_N b)) (SBytes data)); auto; intros; reflexivity.
Qed.

Theorem Bi_list : forall data i e, e <= nlen data -> Bi (SList data i e) (ok_all (slice data i e)).
Proof.
  intros data i e Hle k.
  pose proof (cursor_bik value data (fun v => v) (SList data)) as H. unfold seq_of in H.
  unfold ok_all. apply H; auto; intros; cbn [step]; destruct (_ <? _); try reflexivity;
    destruct (nget data _); reflexivity.
Qed.

Lemma slice_full : forall {A} (l : list A), slice l 0 (nlen l) = l.
Proof. intros. unfold slice, nlen. rewrite Nat2N.id, firstn_all. reflexivity. Qed.

Theorem Bi_mk_bytes : forall l, Bi (mk_bytes l) (bytes_seq l).
Proof. intro l. unfold mk_bytes. pose proof (Bi_bytes l 0 (nlen l) ltac:(lia)) as H. rewrite slice_full in H. exact H. Qed.

Theorem reversed_bytes_is_rev : forall l, Sem (Reversed (mk_bytes l)) (rev (bytes_seq l)).
Proof. intro l. apply Bi_Sem, Bi_reversed, Bi_mk_bytes. Qed.

Theorem Bi_mk_list : forall l, Bi (mk_list l) (ok_all l).
Proof. intro l. unfold mk_list. pose proof (Bi_list l 0 (nlen l) ltac:(lia)) as H. rewrite slice_full in H. exact H. Qed.
