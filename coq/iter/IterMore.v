(* C13 — proofs, part 5: refinement for intersperse (full strength), chunks and windows (error-free sequences) *)
From Coq Require Import List ZArith NArith Bool Lia.
From KV.iter Require Import IterModel IterSpec IterFuel IterSem.
Import ListNotations.
Open Scope N_scope.

(* ---------------- intersperse ---------------- *)
Lemma Semk_intersperse : forall sep k it l, Sem it l ->
  Semk k (Intersperse it None true sep) (sep_tail sep l) /\
  (forall o, Semk k (Intersperse it (Some o) false sep) (collect o :: sep_tail sep l)) /\
  Semk k (Intersperse it None false sep) (spec_intersperse sep l).
Proof.
  intros sep. induction k as [|k IH]; intros it l H; [simpl; auto|].
  split; [|split].
  - destruct l as [|y l]; simpl.
    + destruct (Sem_nil_inv _ H) as (t & it' & [n HN] & HS).
      exists t, (Intersperse it' None true sep). split. { exists (S n). cbn [step]. unfold bind. rewrite HN. reflexivity. }
      apply (IH it' [] HS).
    + destruct (Sem_cons_inv _ _ _ H) as (t & o & it' & [n HN] & HC & HS).
      exists t, (OVal sep), (Intersperse it' (Some o) false sep).
      split. { exists (S n). cbn [step]. unfold bind. rewrite HN. reflexivity. }
      split; auto. subst y. apply (IH it' l HS).
  - intro o. simpl. exists [], o, (Intersperse it None true sep).
    split. { exists 1%nat. reflexivity. } split; auto. apply (IH it l H).
  - destruct l as [|x l]; simpl.
    + destruct (Sem_nil_inv _ H) as (t & it' & [n HN] & HS).
      exists t, (Intersperse it' None false sep). split. { exists (S n). cbn [step]. unfold bind. rewrite HN. reflexivity. }
      apply (IH it' [] HS).
    + destruct (Sem_cons_inv _ _ _ H) as (t & o & it' & [n HN] & HC & HS).
      exists t, o, (Intersperse it' None true sep).
      split. { exists (S n). cbn [step]. unfold bind. rewrite HN. reflexivity. }
      split; auto. apply (IH it' l HS).
Qed.

Theorem Sem_intersperse : forall sep it l, Sem it l -> Sem (Intersperse it None false sep) (spec_intersperse sep l).
Proof. intros sep it l H k. apply Semk_intersperse; auto. Qed.

(* ---------------- chunks ---------------- *)
Lemma chunk_loop_sem : forall k it vs acc, Sem it (ok_all vs) ->
  exists n t it', chunk_loop (step n Fwd) k it acc = Some (t, inl (acc ++ firstn k vs), it') /\
                  Sem it' (ok_all (skipn k vs)).
Proof.
  induction k as [|k IH]; intros it vs acc H.
  - exists 0%nat, [], it. simpl. rewrite app_nil_r. auto.
  - destruct vs as [|v vs]; simpl in H.
    + destruct (Sem_nil_inv _ H) as (t & it' & [n HN] & HS).
      exists n, t, it'. simpl. unfold bind. rewrite HN, app_nil_r. auto.
    + destruct (Sem_cons_inv _ _ _ H) as (t & o & it' & [n HN] & HC & HS).
      destruct (IH it' vs (acc ++ [v]) HS) as (n2 & t2 & it2 & HL & HS2).
      exists (Nat.max n n2), (t ++ t2), it2. simpl. unfold bind.
      rewrite (step_mono _ _ _ _ HN (Nat.max n n2) ltac:(lia)), HC.
      rewrite (chunk_loop_mono _ _ (mono_nx n2 (Nat.max n n2) ltac:(lia)) _ _ _ _ HL).
      rewrite <- app_assoc. simpl. auto.
Qed.

Lemma Sem_chunks_f : forall n, 0 < n -> forall f k it vs, (length vs <= f)%nat -> Sem it (ok_all vs) ->
  Semk k (Chunks it n) (map (fun c => ROk (VTup c)) (chunks_f f (N.to_nat n) vs)).
Proof.
  intros n Hn f k. revert f. induction k as [|k IH]; intros f it vs Hf H; [simpl; auto|].
  destruct (chunk_loop_sem (N.to_nat n) it vs [] H) as (m & t & it' & HL & HS). simpl in HL.
  destruct vs as [|v vs].
  - assert (E : chunks_f f (N.to_nat n) [] = []) by (destruct f; reflexivity). rewrite E. simpl.
    rewrite firstn_nil in HL. rewrite skipn_nil in HS.
    exists t, (Chunks it' n). split. { exists (S m). cbn [step]. unfold bind. rewrite HL. reflexivity. }
    specialize (IH f it' [] Hf HS). rewrite E in IH. exact IH.
  - destruct f as [|f]; [simpl in Hf; lia|].
    change (chunks_f (S f) (N.to_nat n) (v :: vs)) with
      (firstn (N.to_nat n) (v :: vs) :: chunks_f f (N.to_nat n) (skipn (N.to_nat n) (v :: vs))).
    simpl map.
    exists t, (OVal (VTup (firstn (N.to_nat n) (v :: vs)))), (Chunks it' n).
    split.
    { exists (S m). cbn [step]. unfold bind. rewrite HL.
      destruct (firstn (N.to_nat n) (v :: vs)) eqn:EF; auto.
      replace (N.to_nat n) with (S (N.to_nat n - 1)) in EF by lia. simpl in EF. discriminate. }
    split; auto. apply IH; auto.
    replace (N.to_nat n) with (S (N.to_nat n - 1)) by lia. simpl.
    pose proof (skipn_length (N.to_nat n - 1) vs). simpl in Hf. lia.
Qed.

Theorem Sem_chunks : forall n it vs, 0 < n -> Sem it (ok_all vs) -> Sem (Chunks it n) (spec_chunks n vs).
Proof. intros n it vs Hn H k. apply Sem_chunks_f; auto. Qed.

(* ---------------- windows ---------------- *)
Lemma window_fill_sem : forall m it vs c, Sem it (ok_all vs) ->
  exists n t it', window_fill (step n Fwd) m it c = Some (t, None, c ++ firstn m vs, it') /\
                  Sem it' (ok_all (skipn m vs)).
Proof.
  induction m as [|m IH]; intros it vs c H.
  - exists 0%nat, [], it. simpl. rewrite app_nil_r. auto.
  - destruct vs as [|v vs]; simpl in H.
    + destruct (Sem_nil_inv _ H) as (t & it' & [n HN] & HS).
      exists n, t, it'. simpl. unfold bind. rewrite HN, app_nil_r. auto.
    + destruct (Sem_cons_inv _ _ _ H) as (t & o & it' & [n HN] & HC & HS).
      destruct (IH it' vs (c ++ [v]) HS) as (n2 & t2 & it2 & HL & HS2).
      exists (Nat.max n n2), (t ++ t2), it2. simpl. unfold bind.
      rewrite (step_mono _ _ _ _ HN (Nat.max n n2) ltac:(lia)), HC.
      rewrite (window_fill_mono _ _ (mono_nx n2 (Nat.max n n2) ltac:(lia)) _ _ _ _ HL).
      rewrite <- app_assoc. simpl. auto.
Qed.

Lemma nlen_len : forall {A} (l : list A) (n : N), (nlen l =? n) = (length l =? N.to_nat n)%nat.
Proof.
  intros. unfold nlen. destruct (N.eqb_spec (N.of_nat (length l)) n); destruct (Nat.eqb_spec (length l) (N.to_nat n)); auto; lia.
Qed.

(* the inner iterator is exhausted and the cache is not longer than a window: None for ever *)
Lemma windows_done : forall n, 0 < n -> forall k it c, (length c <= N.to_nat n)%nat -> Sem it [] ->
  Semk k (Windows it c n) [].
Proof.
  intros n Hn. induction k as [|k IH]; intros it c Hc H; [simpl; auto|].
  assert (Hm : exists m, N.to_nat (n - nlen (tl c)) = S m).
  { exists (N.to_nat (n - nlen (tl c)) - 1)%nat. unfold nlen. destruct c; simpl in *; lia. }
  destruct Hm as [m Hm].
  destruct (Sem_nil_inv _ H) as (t & it' & [f HN] & HS).
  simpl. exists t, (Windows it' (tl c) n). split.
  - exists (S f). cbn [step]. unfold bind. rewrite Hm. simpl. unfold bind. rewrite HN.
    rewrite nlen_len. replace (length (tl c) =? N.to_nat n)%nat with false; auto.
    symmetry. apply Nat.eqb_neq. destruct c; simpl in *; lia.
  - apply IH; auto. destruct c; simpl in *; lia.
Qed.

(* a full window w is cached; the inner iterator still holds `rest` *)
Lemma windows_slide : forall n, 0 < n -> forall k it w rest, length w = N.to_nat n -> Sem it (ok_all rest) ->
  Semk k (Windows it w n) (map (fun c => ROk (VTup c)) (slide w rest)).
Proof.
  intros n Hn. induction k as [|k IH]; intros it w rest Hw H; [simpl; auto|].
  assert (Hneed : N.to_nat (n - nlen (tl w)) = 1%nat).
  { unfold nlen. destruct w; simpl in *; lia. }
  destruct rest as [|x rest].
  - apply (windows_done n Hn (S k) it w); auto. lia.
  - destruct (window_fill_sem 1 it (x :: rest) (tl w) H) as (f & t & it' & HF & HS).
    change (firstn 1 (x :: rest)) with [x] in HF. change (skipn 1 (x :: rest)) with rest in HS.
    simpl. exists t, (OVal (VTup (tl w ++ [x]))), (Windows it' (tl w ++ [x]) n). split.
    + exists (S f). cbn [step]. unfold bind. rewrite Hneed, HF.
      rewrite nlen_len. replace (length (tl w ++ [x]) =? N.to_nat n)%nat with true; auto.
      symmetry. apply Nat.eqb_eq. rewrite app_length. destruct w; simpl in *; lia.
    + split; auto. apply IH; auto. rewrite app_length. destruct w; simpl in *; lia.
Qed.

Theorem Sem_windows : forall n it vs, 0 < n -> Sem it (ok_all vs) -> Sem (Windows it [] n) (spec_windows n vs).
Proof.
  intros n it vs Hn H k. unfold spec_windows, windows_l.
  destruct k as [|k]; [simpl; auto|].
  destruct (window_fill_sem (N.to_nat n) it vs [] H) as (f & t & it' & HF & HS). simpl in HF.
  assert (Hneed : N.to_nat (n - nlen (tl (@nil value))) = N.to_nat n) by (unfold nlen; simpl; lia).
  destruct (length vs <? N.to_nat n)%nat eqn:E.
  - apply Nat.ltb_lt in E. simpl.
    exists t, (Windows it' (firstn (N.to_nat n) vs) n). split.
    + exists (S f). cbn [step]. unfold bind. rewrite Hneed. simpl tl. rewrite HF.
      rewrite nlen_len. replace (length (firstn (N.to_nat n) vs) =? N.to_nat n)%nat with false; auto.
      symmetry. apply Nat.eqb_neq. rewrite firstn_length. lia.
    + apply windows_done; auto. { rewrite firstn_length. lia. }
      rewrite skipn_all2 in HS by lia. exact HS.
  - apply Nat.ltb_ge in E. simpl.
    exists t, (OVal (VTup (firstn (N.to_nat n) vs))), (Windows it' (firstn (N.to_nat n) vs) n). split.
    + exists (S f). cbn [step]. unfold bind. rewrite Hneed. simpl tl. rewrite HF.
      rewrite nlen_len. replace (length (firstn (N.to_nat n) vs) =? N.to_nat n)%nat with true; auto.
      symmetry. apply Nat.eqb_eq. rewrite firstn_length. lia.
    + split; auto. apply windows_slide; auto. rewrite firstn_length. lia.
Qed.
