(* C13 — executable model of koto's iterator adaptors and source cursors.
   Shaped like the Rust code: one constructor per iterator struct with the same fields
   (crates/runtime/src/types/iterator.rs, core_lib/iterator/adaptors.rs, peekable.rs,
   generators.rs); `step n Fwd` is `Iterator::next`, `step n Bwd` is `KotoIterator::next_back`;
   every pull of the inner iterator happens in the same order as in the Rust code.
   NO proofs in this file.

   Effects: a step returns the list of events it caused, in order.  Events are caused by the
   tracing generator source `SGen` (one event per pull) and by callbacks (one event per call).

   Fuel: `step` recurses on a fuel counter only (each call of an inner iterator's step and each
   iteration of an inner loop uses one unit); `None` = fuel exhausted, never a semantic outcome. *)
From Coq Require Import List ZArith NArith Bool.
Import ListNotations.
Open Scope N_scope.

(* ---------- values ---------- *)
Inductive value :=
| VNull
| VBool (b : bool)
| VInt (z : Z)
| VStr (s : list N)
| VTup (l : list value)
| VList (l : list value).

(* the result of a callback / of collecting an output: a value or an error (class code) *)
Inductive res := ROk (v : value) | RErr (e : N).

(* KIteratorOutput *)
Inductive output := OVal (v : value) | OPair (a b : value) | OErr (e : N).

Definition E_TYPE : N := 1.   (* UnexpectedType: predicate did not return a Bool *)
Definition E_NEW : N := 2.    (* adaptor constructor refused its argument *)
Definition E_OP : N := 3.     (* binary operator applied to a non-number *)
Definition E_THROW : N := 4.  (* a `throw` inside a generator body / callback *)

(* TryFrom<KIteratorOutput> for KValue / collect_pair / iter_output_to_result *)
Definition collect (o : output) : res :=
  match o with
  | OVal v => ROk v
  | OPair a b => ROk (VTup [a; b])
  | OErr e => RErr e
  end.

Definition collect_pair (o : output) : output :=
  match o with
  | OPair a b => OVal (VTup [a; b])
  | _ => o
  end.

Definition out_of_res (r : res) : output :=
  match r with ROk v => OVal v | RErr e => OErr e end.

(* callbacks: an identity (for the event trace) and a total function *)
Record cb := { cb_id : N; cb_fun : value -> res }.

Inductive event :=
| EvPull (id : N) (v : value)      (* tracing generator `id` yielded v *)
| EvEnd (id : N)                   (* tracing generator `id` ran to completion *)
| EvCall (id : N) (arg : value)    (* callback `id` was called with arg *)
| EvOut (r : res)                  (* consumer `next`: an output was delivered *)
| EvNone                           (* consumer `next`: None / a `for _` iteration *)
| EvFail (id : N).                 (* failing generator `id` threw *)

Definition trace := list event.

(* ---------- iterator states ---------- *)
Inductive iter :=
(* types/iterator.rs *)
| SList (data : list value) (index end_ : N)          (* ListIterator / TupleIterator *)
| SRange (start end_ : Z) (inclusive : bool)          (* RangeIterator over KRange::Bounded *)
| SStr (s : list N)                                   (* StringIterator (one code point per cluster) *)
| SMap (data : list (value * value)) (index end_ : N) (* MapIterator *)
| SBytes (data : list N) (index end_ : N)             (* ByteIterator *)
| SGen (id : N) (items : list value) (finished : bool) (* GeneratorIterator over the tracing generator *)
(* generators.rs *)
| SOnce (v : option value)
| SRepeat (v : value)
| SRepeatN (remaining : N) (v : value)
(* adaptors.rs *)
| Chain (iter_a : option iter) (iter_b : iter)
| Chunks (it : iter) (chunk_size : N)
| Cycle (it : iter) (cache : list value) (cycle_index : N)
| Each (it : iter) (f : cb)
| Enumerate (it : iter) (index : N)
| Flatten (it : iter) (nested : option iter)
| Intersperse (it : iter) (peeked : option output) (next_is_separator : bool) (separator : value)
| IntersperseWith (it : iter) (peeked : option output) (next_is_separator : bool) (f : cb)
| Keep (it : iter) (p : cb)
| Reversed (it : iter)
| Skip (it : iter) (remaining : N)
| Step (it : iter) (step_ : N)
| Take (it : iter) (remaining : N)
| TakeWhile (it : iter) (p : cb) (finished : bool)
| Windows (it : iter) (cache : list value) (window_size : N)
| Zip (iter_a iter_b : iter)
(* peekable.rs *)
| Peekable (it : iter) (peeked_front peeked_back : option value)
(* a tracing generator whose body throws when it reaches its element number `fail_at` (GeneratorIterator:
   the error is delivered as Output::Error; the generator's VM is finished afterwards) *)
| SFail (id : N) (items : list value) (fail_at : nat) (finished : bool).

Inductive dir := Fwd | Bwd.

Definition R := (trace * option output * iter)%type.

Definition nlen {A} (l : list A) : N := N.of_nat (length l).
Definition nget {A} (l : list A) (i : N) : option A := nth_error l (N.to_nat i).

(* vm.make_iterator on a value (the values of this model that are iterable) *)
Definition make_iter (v : value) : option iter :=
  match v with
  | VList l => Some (SList l 0 (nlen l))
  | VTup l => Some (SList l 0 (nlen l))
  | VStr s => Some (SStr s)
  | _ => None
  end.

(* how a callback sees an output: CallArgs::AsTuple for pairs *)
Definition call (f : cb) (o : output) : trace * res :=
  match o with
  | OVal v => ([EvCall (cb_id f) v], cb_fun f v)
  | OPair a b => ([EvCall (cb_id f) (VTup [a; b])], cb_fun f (VTup [a; b]))
  | OErr e => ([], RErr e)
  end.

Definition bind {A B} (x : option A) (f : A -> option B) : option B :=
  match x with Some a => f a | None => None end.
Notation "' p <- x ;; y" := (bind x (fun p => y)) (at level 61, p pattern, x at next level, right associativity).

Section Loops.
  (* loops over an inner iterator, parametrised by its step function *)
  Variable nx : iter -> option R.

  (* Iterator::advance_by(k): up to k pulls, stops at the first None; true = all k were Some *)
  Fixpoint advance (k : nat) (it : iter) : option (trace * bool * iter) :=
    match k with
    | O => Some ([], true, it)
    | S k =>
      '(t, o, it1) <- nx it ;;
      match o with
      | None => Some (t, false, it1)
      | Some _ => '(t2, ok, it2) <- advance k it1 ;; Some (t ++ t2, ok, it2)
      end
    end.

  (* Iterator::nth(k) *)
  Definition nth_ (k : nat) (it : iter) : option R :=
    '(t, ok, it1) <- advance k it ;;
    if ok then '(t2, o, it2) <- nx it1 ;; Some (t ++ t2, o, it2)
    else Some (t, None, it1).

  (* `for _ in 0..k { iter.next(); }` : k pulls, results ignored *)
  Fixpoint pull_ignore (k : nat) (it : iter) : option (trace * iter) :=
    match k with
    | O => Some ([], it)
    | S k =>
      '(t, _, it1) <- nx it ;;
      '(t2, it2) <- pull_ignore k it1 ;; Some (t ++ t2, it2)
    end.

  (* up to k pulls whose outputs are discarded, EXCEPT an Error output, which ends the loop and is returned:
     Skip::skip_remaining (`None => break`: stop_on_none = true) and the `step - 1` pulls of Step::next
     (which keeps pulling after a None: stop_on_none = false) *)
  Fixpoint discard (stop_on_none : bool) (k : nat) (it : iter) : option (trace * option N * iter) :=
    match k with
    | O => Some ([], None, it)
    | S k =>
      '(t, o, it1) <- nx it ;;
      match o with
      | Some (OErr e) => Some (t, Some e, it1)
      | Some _ => '(t2, r, it2) <- discard stop_on_none k it1 ;; Some (t ++ t2, r, it2)
      | None =>
        if stop_on_none then Some (t, None, it1)
        else '(t2, r, it2) <- discard stop_on_none k it1 ;; Some (t ++ t2, r, it2)
      end
    end.

  (* Chunks::next: `for output in self.iter.clone().take(k)`; inl = the chunk, inr = an error *)
  Fixpoint chunk_loop (k : nat) (it : iter) (acc : list value) : option (trace * (list value + N) * iter) :=
    match k with
    | O => Some ([], inl acc, it)
    | S k =>
      '(t, o, it1) <- nx it ;;
      match o with
      | None => Some (t, inl acc, it1)
      | Some out =>
        match collect out with
        | ROk v => '(t2, r, it2) <- chunk_loop k it1 (acc ++ [v]) ;; Some (t ++ t2, r, it2)
        | RErr e => Some (t, inr e, it1)
        end
      end
    end.

  (* Windows::next: `while cache.len() < window_size`; k = window_size - cache.len();
     returns the error (if one came out of the inner iterator) and the cache *)
  Fixpoint window_fill (k : nat) (it : iter) (cache : list value) : option (trace * option N * list value * iter) :=
    match k with
    | O => Some ([], None, cache, it)
    | S k =>
      '(t, o, it1) <- nx it ;;
      match o with
      | None => Some (t, None, cache, it1)
      | Some out =>
        match collect out with
        | ROk v => '(t2, e, c2, it2) <- window_fill k it1 (cache ++ [v]) ;; Some (t ++ t2, e, c2, it2)
        | RErr e => Some (t, Some e, cache, it1)
        end
      end
    end.
End Loops.

Definition is_empty {A} (l : list A) : bool := match l with [] => true | _ => false end.

(* is_bidirectional *)
Fixpoint bidir (it : iter) : bool :=
  match it with
  | SList _ _ _ | SRange _ _ _ | SStr _ | SMap _ _ _ | SBytes _ _ _ => true
  | Each i _ => bidir i
  | Skip i _ => bidir i
  | Reversed _ => true
  | Peekable i _ _ => bidir i
  | _ => false
  end.

(* the predicate protocol of Keep / TakeWhile *)
Inductive verdict := VTrue | VFalse | VBad (e : N).
Definition verdict_of (r : res) : verdict :=
  match r with
  | ROk (VBool true) => VTrue
  | ROk (VBool false) => VFalse
  | ROk _ => VBad E_TYPE
  | RErr e => VBad e
  end.

Fixpoint step (n : nat) (d : dir) (it : iter) {struct n} : option R :=
  match n with
  | O => None
  | S n =>
    match it, d with
    (* ---- ListIterator / TupleIterator ---- *)
    | SList data i e, Fwd =>
      if i <? e then Some ([], option_map OVal (nget data i), SList data (i + 1) e)
      else Some ([], None, it)
    | SList data i e, Bwd =>
      if i <? e then Some ([], option_map OVal (nget data (e - 1)), SList data i (e - 1))
      else Some ([], None, it)
    (* ---- RangeIterator: KRange::pop_front / pop_back ---- *)
    | SRange s e incl, Fwd =>
      match (s ?= e)%Z with
      | Lt => Some ([], Some (OVal (VInt s)), SRange (s + 1) e incl)
      | Eq => if incl then Some ([], Some (OVal (VInt s)), SRange s e false) else Some ([], None, it)
      | Gt => Some ([], None, it)
      end
    | SRange s e incl, Bwd =>
      match (s ?= e)%Z with
      | Lt => Some ([], Some (OVal (VInt (if incl then e else e - 1))), SRange s (e - 1) incl)
      | Eq => if incl then Some ([], Some (OVal (VInt s)), SRange s e false) else Some ([], None, it)
      | Gt => Some ([], None, it)
      end
    (* ---- StringIterator ---- *)
    | SStr s, Fwd =>
      match s with
      | [] => Some ([], None, it)
      | c :: s' => Some ([], Some (OVal (VStr [c])), SStr s')
      end
    | SStr s, Bwd =>
      match rev s with
      | [] => Some ([], None, it)
      | c :: r => Some ([], Some (OVal (VStr [c])), SStr (rev r))
      end
    (* ---- MapIterator ---- *)
    | SMap data i e, Fwd =>
      if i <? e then Some ([], option_map (fun kv => OPair (fst kv) (snd kv)) (nget data i), SMap data (i + 1) e)
      else Some ([], None, it)
    | SMap data i e, Bwd =>
      if i <? e then Some ([], option_map (fun kv => OPair (fst kv) (snd kv)) (nget data (e - 1)), SMap data i (e - 1))
      else Some ([], None, it)
    (* ---- ByteIterator ---- *)
    | SBytes data i e, Fwd =>
      if i <? e then Some ([], option_map (fun b => OVal (VInt (Z.of_N b))) (nget data i), SBytes data (i + 1) e)
      else Some ([], None, it)
    | SBytes data i e, Bwd =>
      if i <? e then Some ([], option_map (fun b => OVal (VInt (Z.of_N b))) (nget data (e - 1)), SBytes data i (e - 1))
      else Some ([], None, it)
    (* ---- the tracing generator ---- *)
    | SGen id items fin, Fwd =>
      match items with
      | x :: rest => Some ([EvPull id x], Some (OVal x), SGen id rest false)
      | [] => if fin then Some ([], None, it) else Some ([EvEnd id], None, SGen id [] true)
      end
    (* ---- Once / Repeat / RepeatN ---- *)
    | SOnce v, Fwd => Some ([], option_map OVal v, SOnce None)
    | SRepeat v, Fwd => Some ([], Some (OVal v), it)
    | SRepeatN r v, Fwd =>
      if 0 <? r then Some ([], Some (OVal v), SRepeatN (r - 1) v) else Some ([], None, it)
    (* ---- Chain ---- *)
    | Chain (Some a) b, Fwd =>
      '(t, o, a') <- step n Fwd a ;;
      match o with
      | Some _ => Some (t, o, Chain (Some a') b)
      | None => '(t2, o2, b') <- step n Fwd b ;; Some (t ++ t2, o2, Chain None b')
      end
    | Chain None b, Fwd =>
      '(t, o, b') <- step n Fwd b ;; Some (t, o, Chain None b')
    (* ---- Chunks ---- *)
    | Chunks i k, Fwd =>
      '(t, r, i') <- chunk_loop (step n Fwd) (N.to_nat k) i [] ;;
      match r with
      | inr e => Some (t, Some (OErr e), Chunks i' k)
      | inl [] => Some (t, None, Chunks i' k)
      | inl chunk => Some (t, Some (OVal (VTup chunk)), Chunks i' k)
      end
    (* ---- Cycle ---- *)
    | Cycle i cache idx, Fwd =>
      '(t, o, i') <- step n Fwd i ;;
      match o with
      | Some out =>
        match collect out with
        | ROk v => Some (t, Some (OVal v), Cycle i' (cache ++ [v]) idx)
        | RErr e => Some (t, Some (OErr e), Cycle i' cache idx)
        end
      | None =>
        if is_empty cache then Some (t, None, Cycle i' cache idx)
        else
          let idx1 := if idx =? nlen cache then 0 else idx in
          Some (t, option_map OVal (nget cache idx1), Cycle i' cache (idx1 + 1))
      end
    (* ---- Each ---- *)
    | Each i f, _ =>
      '(t, o, i') <- step n d i ;;
      match o with
      | None => Some (t, None, Each i' f)
      | Some (OErr e) => Some (t, Some (OErr e), Each i' f)
      | Some out => let '(tc, r) := call f out in Some (t ++ tc, Some (out_of_res r), Each i' f)
      end
    (* ---- Enumerate ---- *)
    | Enumerate i idx, Fwd =>
      '(t, o, i') <- step n Fwd i ;;
      Some (t,
            option_map (fun o => match collect_pair o with OVal v => OPair (VInt (Z.of_N idx)) v | other => other end) o,
            Enumerate i' (idx + 1))
    (* ---- Flatten ---- *)
    | Flatten i nested, Fwd =>
      '(t1, o1, nested') <-
         match nested with
         | Some ne => '(t, o, ne') <- step n Fwd ne ;; Some (t, o, Some ne')
         | None => Some ([], None, None)
         end ;;
      match o1 with
      | Some _ => Some (t1, o1, Flatten i nested')
      | None =>
        '(t2, o2, i') <- step n Fwd i ;;
        match option_map collect_pair o2 with
        | Some (OVal v) =>
          match make_iter v with
          | Some ne => '(t3, o3, r) <- step n Fwd (Flatten i' (Some ne)) ;; Some (t1 ++ t2 ++ t3, o3, r)
          | None => Some (t1 ++ t2, Some (OVal v), Flatten i' nested')
          end
        | other => Some (t1 ++ t2, other, Flatten i' nested')
        end
      end
    (* ---- Intersperse ---- *)
    | Intersperse i peeked sepnext sep, Fwd =>
      '(t, nxt, i') <-
         match peeked with
         | Some p => Some ([], Some p, i)
         | None => step n Fwd i
         end ;;
      match nxt with
      | Some x =>
        if sepnext then Some (t, Some (OVal sep), Intersperse i' (Some x) false sep)
        else Some (t, Some x, Intersperse i' None true sep)
      | None => Some (t, None, Intersperse i' None sepnext sep)
      end
    | IntersperseWith i peeked sepnext f, Fwd =>
      '(t, nxt, i') <-
         match peeked with
         | Some p => Some ([], Some p, i)
         | None => step n Fwd i
         end ;;
      match nxt with
      | Some x =>
        if sepnext then Some (t ++ [EvCall (cb_id f) VNull], Some (out_of_res (cb_fun f VNull)), IntersperseWith i' (Some x) false f)
        else Some (t, Some x, IntersperseWith i' None true f)
      | None => Some (t, None, IntersperseWith i' None sepnext f)
      end
    (* ---- Keep ---- *)
    | Keep i p, Fwd =>
      '(t, o, i') <- step n Fwd i ;;
      match o with
      | None => Some (t, None, Keep i' p)
      | Some (OErr e) => Some (t, Some (OErr e), Keep i' p)
      | Some out =>
        let '(tc, r) := call p out in
        match verdict_of r with
        | VFalse => '(t2, o2, r2) <- step n Fwd (Keep i' p) ;; Some (t ++ tc ++ t2, o2, r2)
        | VTrue => Some (t ++ tc, Some out, Keep i' p)
        | VBad e => Some (t ++ tc, Some (OErr e), Keep i' p)
        end
      end
    (* ---- Reversed ---- *)
    | Reversed i, Fwd => '(t, o, i') <- step n Bwd i ;; Some (t, o, Reversed i')
    | Reversed i, Bwd => '(t, o, i') <- step n Fwd i ;; Some (t, o, Reversed i')
    (* ---- Skip: skip_remaining() (remaining is taken first), then next / next_back ---- *)
    | Skip i r, _ =>
      '(t1, err, i1) <- discard (step n Fwd) true (N.to_nat r) i ;;
      match err with
      | Some e => Some (t1, Some (OErr e), Skip i1 0)
      | None => '(t2, o, i2) <- step n d i1 ;; Some (t1 ++ t2, o, Skip i2 0)
      end
    (* ---- Step: an Error among the step-1 discarded pulls is returned instead of the element ---- *)
    | Step i k, Fwd =>
      '(t, o, i1) <- step n Fwd i ;;
      '(t2, err, i2) <- discard (step n Fwd) false (N.to_nat (k - 1)) i1 ;;
      match err with
      | Some e => Some (t ++ t2, Some (OErr e), Step i2 k)
      | None => Some (t ++ t2, o, Step i2 k)
      end
    (* ---- Take ---- *)
    | Take i r, Fwd =>
      if 0 <? r then '(t, o, i') <- step n Fwd i ;; Some (t, o, Take i' (r - 1))
      else Some ([], None, it)
    (* ---- TakeWhile ---- *)
    | TakeWhile i p fin, Fwd =>
      if fin then Some ([], None, it)
      else
        '(t, o, i') <- step n Fwd i ;;
        match o with
        | None => Some (t, None, TakeWhile i' p fin)
        | Some (OErr e) => Some (t, Some (OErr e), TakeWhile i' p fin)
        | Some out =>
          let '(tc, r) := call p out in
          match verdict_of r with
          | VTrue => Some (t ++ tc, Some out, TakeWhile i' p fin)
          | VFalse => Some (t ++ tc, None, TakeWhile i' p true)
          | VBad e => Some (t ++ tc, Some (OErr e), TakeWhile i' p fin)
          end
        end
    (* ---- Windows ---- *)
    | Windows i cache k, Fwd =>
      let cache1 := tl cache in
      '(t, err, cache2, i') <- window_fill (step n Fwd) (N.to_nat (k - nlen cache1)) i cache1 ;;
      match err with
      | Some e => Some (t, Some (OErr e), Windows i' cache2 k)
      | None =>
        if nlen cache2 =? k then Some (t, Some (OVal (VTup cache2)), Windows i' cache2 k)
        else Some (t, None, Windows i' cache2 k)
      end
    (* ---- Zip ---- *)
    | Zip a b, Fwd =>
      '(t, oa, a') <- step n Fwd a ;;
      match option_map collect_pair oa with
      | Some (OVal va) =>
        '(t2, ob, b') <- step n Fwd b ;;
        match option_map collect_pair ob with
        | Some (OVal vb) => Some (t ++ t2, Some (OPair va vb), Zip a' b')
        | Some (OErr e) => Some (t ++ t2, Some (OErr e), Zip a' b')
        | _ => Some (t ++ t2, None, Zip a' b')
        end
      | Some (OErr e) => Some (t, Some (OErr e), Zip a' b)
      | _ => Some (t, None, Zip a' b)
      end
    (* ---- Peekable (KotoObject::iterator_next / iterator_next_back) ---- *)
    | Peekable i pf pb, Fwd =>
      match pf with
      | Some v => Some ([], Some (OVal v), Peekable i None pb)
      | None =>
        '(t, o, i') <- step n Fwd i ;;
        match o with
        | Some _ => Some (t, o, Peekable i' None pb)
        | None => Some (t, option_map OVal pb, Peekable i' None None)
        end
      end
    | Peekable i pf pb, Bwd =>
      match pb with
      | Some v => Some ([], Some (OVal v), Peekable i pf None)
      | None =>
        '(t, o, i') <- step n Bwd i ;;
        match o with
        | Some _ => Some (t, o, Peekable i' pf None)
        | None => Some (t, option_map OVal pf, Peekable i' None None)
        end
      end
    (* ---- the failing generator ---- *)
    | SFail id items k fin, Fwd =>
      if fin then Some ([], None, it)
      else
        match items, k with
        | [], _ => Some ([EvEnd id], None, SFail id [] k true)
        | _ :: _, O => Some ([EvFail id], Some (OErr E_THROW), SFail id items O true)
        | x :: rest, S k' => Some ([EvPull id x], Some (OVal x), SFail id rest k' false)
        end
    (* ---- KotoIterator::next_back default ---- *)
    | _, Bwd => Some ([], None, it)
    end
  end.

(* ---------- KotoIterator::make_copy, struct by struct (every field carried over, inner iterators copied) ---------- *)
Fixpoint copy (it : iter) : iter :=
  match it with
  | SList d i e => SList d i e
  | SRange s e incl => SRange s e incl
  | SStr s => SStr s
  | SMap d i e => SMap d i e
  | SBytes d i e => SBytes d i e
  | SGen id items fin => SGen id items fin          (* clone_generator_vm *)
  | SOnce v => SOnce v
  | SRepeat v => SRepeat v
  | SRepeatN r v => SRepeatN r v
  | Chain a b => Chain (match a with Some x => Some (copy x) | None => None end) (copy b)
  | Chunks i k => Chunks (copy i) k
  | Cycle i cache idx => Cycle (copy i) cache idx
  | Each i f => Each (copy i) f
  | Enumerate i idx => Enumerate (copy i) idx
  | Flatten i nested => Flatten (copy i) (match nested with Some x => Some (copy x) | None => None end)
  | Intersperse i pk sn sep => Intersperse (copy i) pk sn sep
  | IntersperseWith i pk sn f => IntersperseWith (copy i) pk sn f
  | Keep i p => Keep (copy i) p
  | Reversed i => Reversed (copy i)
  | Skip i r => Skip (copy i) r
  | Step i k => Step (copy i) k
  | Take i r => Take (copy i) r
  | TakeWhile i p fin => TakeWhile (copy i) p fin
  | Windows i cache k => Windows (copy i) cache k
  | Zip a b => Zip (copy a) (copy b)
  (* NOTE: the Rust Peekable derives KotoCopy from Clone, which clones the KIterator HANDLE (the copy shares
     the inner iterator with the original); this owned-tree model cannot express sharing and copies it *)
  | Peekable i pf pb => Peekable (copy i) pf pb
  | SFail id items k fin => SFail id items k fin
  end.

(* ---------- constructors: core_lib/iterator.rs argument checks + the adaptors' `new` ---------- *)
Definition mk_list (l : list value) : iter := SList l 0 (nlen l).
Definition mk_map (l : list (value * value)) : iter := SMap l 0 (nlen l).
Definition mk_bytes (l : list N) : iter := SBytes l 0 (nlen l).
Definition mk_gen (id : N) (l : list value) : iter := SGen id l false.

Inductive stage :=
| AEach (f : cb)
| AKeep (p : cb)
| AEnumerate
| ASkip (n : N)
| ATake (n : N)
| ATakeWhile (p : cb)
| AStep (n : N)
| AChainR (other : iter)     (* x.chain other *)
| AChainL (other : iter)     (* other.chain x *)
| AZipR (other : iter)       (* x.zip other *)
| AZipL (other : iter)       (* other.zip x *)
| AChunks (n : N)
| AWindows (n : N)
| AFlatten
| AIntersperse (sep : value)
| AIntersperseWith (f : cb)
| ACycle
| AReversed
| APeekable.

(* None = the constructor returns an error (runtime_error in core_lib/iterator.rs) *)
Definition apply_stage (a : stage) (it : iter) : option iter :=
  match a with
  | AEach f => Some (Each it f)
  | AKeep p => Some (Keep it p)
  | AEnumerate => Some (Enumerate it 0)
  | ASkip n => Some (Skip it n)
  | ATake n => Some (Take it n)
  | ATakeWhile p => Some (TakeWhile it p false)
  | AStep n => if 0 <? n then Some (Step it n) else None
  | AChainR o => Some (Chain (Some it) o)
  | AChainL o => Some (Chain (Some o) it)
  | AZipR o => Some (Zip it o)
  | AZipL o => Some (Zip o it)
  | AChunks n => if n <? 1 then None else Some (Chunks it n)
  | AWindows n => if n <? 1 then None else Some (Windows it [] n)
  | AFlatten => Some (Flatten it None)
  | AIntersperse sep => Some (Intersperse it None false sep)
  | AIntersperseWith f => Some (IntersperseWith it None false f)
  | ACycle => Some (Cycle it [] 0)
  | AReversed => if bidir it then Some (Reversed it) (* make_copy: a tree value is its own copy *) else None
  | APeekable => Some (Peekable it None None)
  end.

(* a pipeline: stages applied left to right, as in `src.a1(..).a2(..)` *)
Fixpoint build (p : list stage) (it : iter) : option iter :=
  match p with
  | [] => Some it
  | a :: p' => match apply_stage a it with Some it' => build p' it' | None => None end
  end.

Definition build_or (p : list stage) (it : iter) : iter :=
  match build p it with Some r => r | None => it end.

(* ---------- consumers: the closures of core_lib/iterator.rs ---------- *)
Inductive cres := CVal (v : value) | CErr (e : N).

Record cb2 := { cb2_id : N; cb2_fun : value -> value -> res }.

Section Fold.
  (* `for output in iterator { ... }` with an accumulator and early `return` *)
  Variable St : Type.
  Variable f : St -> output -> trace * St * bool.   (* true = return now *)
  Fixpoint cfold (n : nat) (it : iter) (s : St) : option (trace * St * iter) :=
    match n with
    | O => None
    | S n =>
      '(t, o, it') <- step n Fwd it ;;
      match o with
      | None => Some (t, s, it')
      | Some out =>
        let '(tc, s', stop) := f s out in
        if stop then Some (t ++ tc, s', it')
        else '(t2, s2, it2) <- cfold n it' s' ;; Some (t ++ tc ++ t2, s2, it2)
      end
    end.
End Fold.

(* iterator variables it0, it1, ...: `r = it<s>.next()` / `it<dst> = copy it<src>` *)
Inductive cop := OpNext (s : nat) | OpCopy (src dst : nat).

Inductive consumer :=
| CToList | CToTuple | CCount | CSum | CProduct | CMin | CMax | CMinMax | CLast | CConsume
| CAny (p : cb) | CAll (p : cb) | CFind (p : cb) | CPosition (p : cb)
| CFold (init : value) (f : cb2)
| CNexts (dirs : list dir)     (* a sequence of iterator.next / next_back calls on the same iterator *)
(* script-level consumers, executed by the VM's IterNext* / IterUnpack instructions *)
| CFor (quiet : bool)          (* `for x in it` (body: emit x) / `for _ in it` (body: emit nothing of x); returns the count *)
| CUnpack (mask : list bool)   (* `a, _, c = it`: one pull per target; true = named target (emitted afterwards) *)
| CScript (ops : list cop).    (* a straight-line script of next() calls and `copy` over iterator variables *)

Definition int_op (op : Z -> Z -> Z) (a b : value) : res :=
  match a, b with
  | VInt x, VInt y => ROk (VInt (op x y))
  | _, _ => RErr E_OP
  end.

Definition int_less (a b : value) : option bool :=
  match a, b with
  | VInt x, VInt y => Some (x <? y)%Z
  | _, _ => None
  end.

(* accumulator: a value-level state or the error that ended the loop *)
Definition acc (A : Type) := (A + N)%type.

Definition f_collect (s : acc (list value)) (o : output) : trace * acc (list value) * bool :=
  match s, collect o with
  | inl l, ROk v => ([], inl (l ++ [v]), false)
  | inl _, RErr e => ([], inr e, true)
  | inr e, _ => ([], inr e, true)
  end.

Definition f_count (s : acc N) (o : output) : trace * acc N * bool :=
  match s, o with
  | inl c, OErr e => ([], inr e, true)
  | inl c, _ => ([], inl (c + 1), false)
  | inr e, _ => ([], inr e, true)
  end.

Definition f_binop (op : Z -> Z -> Z) (s : acc value) (o : output) : trace * acc value * bool :=
  match s, collect o with
  | inl a, ROk v => match int_op op a v with ROk r => ([], inl r, false) | RErr e => ([], inr e, true) end
  | inl _, RErr e => ([], inr e, true)
  | inr e, _ => ([], inr e, true)
  end.

(* compare_values: a < b ? (No: a | Yes: b) : (No: b | Yes: a) *)
Definition compare_values (invert : bool) (a b : value) : acc value :=
  match int_less a b with
  | Some true => inl (if invert then b else a)
  | Some false => inl (if invert then a else b)
  | None => inr E_OP
  end.

Definition f_minmax1 (invert : bool) (s : acc (option value)) (o : output) : trace * acc (option value) * bool :=
  match s, collect o with
  | inl None, ROk v => ([], inl (Some v), false)
  | inl (Some r), ROk v =>
    match compare_values invert r v with inl x => ([], inl (Some x), false) | inr e => ([], inr e, true) end
  | inl _, RErr e => ([], inr e, true)
  | inr e, _ => ([], inr e, true)
  end.

Definition f_minmax2 (s : acc (option (value * value))) (o : output) : trace * acc (option (value * value)) * bool :=
  match s, collect o with
  | inl None, ROk v => ([], inl (Some (v, v)), false)
  | inl (Some (mn, mx)), ROk v =>
    match compare_values false mn v with
    | inr e => ([], inr e, true)
    | inl mn' =>
      match compare_values true mx v with
      | inr e => ([], inr e, true)
      | inl mx' => ([], inl (Some (mn', mx')), false)
      end
    end
  | inl _, RErr e => ([], inr e, true)
  | inr e, _ => ([], inr e, true)
  end.

Definition f_last (s : acc value) (o : output) : trace * acc value * bool :=
  match s, collect o with
  | inl _, ROk v => ([], inl v, false)
  | inl _, RErr e => ([], inr e, true)
  | inr e, _ => ([], inr e, true)
  end.

Definition f_consume (s : acc unit) (o : output) : trace * acc unit * bool :=
  match o with OErr e => ([], inr e, true) | _ => ([], s, false) end.

(* any / all: `stop_on` is the predicate result that ends the loop *)
Definition f_anyall (p : cb) (stop_on : bool) (s : acc bool) (o : output) : trace * acc bool * bool :=
  match o with
  | OErr e => ([], inr e, true)
  | _ =>
    let '(tc, r) := call p o in
    match verdict_of r with
    | VTrue => if stop_on then (tc, inl true, true) else (tc, s, false)
    | VFalse => if stop_on then (tc, s, false) else (tc, inl false, true)
    | VBad e => (tc, inr e, true)
    end
  end.

Definition f_find (p : cb) (s : acc value) (o : output) : trace * acc value * bool :=
  match collect o with
  | RErr e => ([], inr e, true)
  | ROk v =>
    let '(tc, r) := call p (OVal v) in
    match verdict_of r with
    | VTrue => (tc, inl v, true)
    | VFalse => (tc, s, false)
    | VBad e => (tc, inr e, true)
    end
  end.

(* position: state = (index of the current element, result) *)
Definition f_position (p : cb) (s : N * acc value) (o : output) : trace * (N * acc value) * bool :=
  let '(i, r0) := s in
  match o with
  | OErr e => ([], (i, inr e), true)
  | _ =>
    let '(tc, r) := call p o in
    match verdict_of r with
    | VTrue => (tc, (i, inl (VInt (Z.of_N i))), true)
    | VFalse => (tc, (i + 1, r0), false)
    | VBad e => (tc, (i, inr e), true)
    end
  end.

Definition f_fold (f : cb2) (s : acc value) (o : output) : trace * acc value * bool :=
  match s, collect o with
  | inl a, ROk v =>
    match cb2_fun f a v with
    | ROk r => ([EvCall (cb2_id f) (VTup [a; v])], inl r, false)
    | RErr e => ([EvCall (cb2_id f) (VTup [a; v])], inr e, true)
    end
  | inl _, RErr e => ([], inr e, true)
  | inr e, _ => ([], inr e, true)
  end.

Fixpoint cnexts (n : nat) (dirs : list dir) (it : iter) : option (trace * cres * iter) :=
  match dirs with
  | [] => Some ([], CVal VNull, it)
  | d :: ds =>
    '(t, o, it') <- step n d it ;;
    match o with
    | None => '(t2, r, it2) <- cnexts n ds it' ;; Some (t ++ [EvNone] ++ t2, r, it2)
    | Some out =>
      match collect out with
      | RErr e => Some (t, CErr e, it')
      | ROk v => '(t2, r, it2) <- cnexts n ds it' ;; Some (t ++ [EvOut (ROk v)] ++ t2, r, it2)
      end
    end
  end.

(* for loop: the VM pulls (run_iterator_next), raises an Error output, otherwise runs the body *)
Definition f_for (quiet : bool) (s : acc N) (o : output) : trace * acc N * bool :=
  match s, collect o with
  | inl c, ROk v => ([if quiet then EvNone else EvOut (ROk v)], inl (c + 1), false)
  | inl _, RErr e => ([], inr e, true)
  | inr e, _ => ([], inr e, true)
  end.

(* multi-assignment from an iterator: every target pulls once (None gives null); an Error output raises *)
Fixpoint cunpack (n : nat) (mask : list bool) (it : iter) (outs : trace) : option (trace * cres * iter) :=
  match mask with
  | [] => Some (outs, CVal VNull, it)
  | named :: ms =>
    '(t, o, it') <- step n Fwd it ;;
    match option_map collect o with
    | Some (RErr e) => Some (t, CErr e, it')
    | Some (ROk v) => '(t2, r, it2) <- cunpack n ms it' (if named then outs ++ [EvOut (ROk v)] else outs) ;; Some (t ++ t2, r, it2)
    | None => '(t2, r, it2) <- cunpack n ms it' (if named then outs ++ [EvOut (ROk VNull)] else outs) ;; Some (t ++ t2, r, it2)
    end
  end.

Fixpoint set_nth {A} (n : nat) (x : A) (l : list A) : list A :=
  match l, n with
  | [], _ => []
  | _ :: r, O => x :: r
  | y :: r, S n' => y :: set_nth n' x r
  end.

(* each next() is reported as (slot, value) or (slot,) for None *)
Fixpoint cscript (n : nat) (ops : list cop) (slots : list iter) : option (trace * cres * list iter) :=
  match ops with
  | [] => Some ([], CVal VNull, slots)
  | OpNext s :: r =>
    match nth_error slots s with
    | None => Some ([], CErr E_OP, slots)
    | Some it =>
      '(t, o, it') <- step n Fwd it ;;
      let slots' := set_nth s it' slots in
      match option_map collect o with
      | Some (RErr e) => Some (t, CErr e, slots')
      | Some (ROk v) =>
        '(t2, r2, s2) <- cscript n r slots' ;;
        Some (t ++ [EvOut (ROk (VTup [VInt (Z.of_nat s); v]))] ++ t2, r2, s2)
      | None =>
        '(t2, r2, s2) <- cscript n r slots' ;;
        Some (t ++ [EvOut (ROk (VTup [VInt (Z.of_nat s)]))] ++ t2, r2, s2)
      end
    end
  | OpCopy a b :: r =>
    match nth_error slots a with
    | None => Some ([], CErr E_OP, slots)
    | Some it => cscript n r (set_nth b (copy it) slots)
    end
  end.

Definition fin {A} (g : A -> value) (s : acc A) : cres :=
  match s with inl a => CVal (g a) | inr e => CErr e end.

Definition consume (c : consumer) (n : nat) (it : iter) : option (trace * cres * iter) :=
  match c with
  | CToList => '(t, s, it') <- cfold _ f_collect n it (inl []) ;; Some (t, fin VList s, it')
  | CToTuple => '(t, s, it') <- cfold _ f_collect n it (inl []) ;; Some (t, fin VTup s, it')
  | CCount => '(t, s, it') <- cfold _ f_count n it (inl 0) ;; Some (t, fin (fun c => VInt (Z.of_N c)) s, it')
  | CSum => '(t, s, it') <- cfold _ (f_binop Z.add) n it (inl (VInt 0)) ;; Some (t, fin (fun v => v) s, it')
  | CProduct => '(t, s, it') <- cfold _ (f_binop Z.mul) n it (inl (VInt 1)) ;; Some (t, fin (fun v => v) s, it')
  | CMin => '(t, s, it') <- cfold _ (f_minmax1 false) n it (inl None) ;;
            Some (t, fin (fun o => match o with Some v => v | None => VNull end) s, it')
  | CMax => '(t, s, it') <- cfold _ (f_minmax1 true) n it (inl None) ;;
            Some (t, fin (fun o => match o with Some v => v | None => VNull end) s, it')
  | CMinMax => '(t, s, it') <- cfold _ f_minmax2 n it (inl None) ;;
               Some (t, fin (fun o => match o with Some (a, b) => VTup [a; b] | None => VNull end) s, it')
  | CLast => '(t, s, it') <- cfold _ f_last n it (inl VNull) ;; Some (t, fin (fun v => v) s, it')
  | CConsume => '(t, s, it') <- cfold _ f_consume n it (inl tt) ;; Some (t, fin (fun _ => VNull) s, it')
  | CAny p => '(t, s, it') <- cfold _ (f_anyall p true) n it (inl false) ;; Some (t, fin VBool s, it')
  | CAll p => '(t, s, it') <- cfold _ (f_anyall p false) n it (inl true) ;; Some (t, fin VBool s, it')
  | CFind p => '(t, s, it') <- cfold _ (f_find p) n it (inl VNull) ;; Some (t, fin (fun v => v) s, it')
  | CPosition p => '(t, s, it') <- cfold _ (f_position p) n it (0, inl VNull) ;; Some (t, fin (fun v => v) (snd s), it')
  | CFold init f => '(t, s, it') <- cfold _ (f_fold f) n it (inl init) ;; Some (t, fin (fun v => v) s, it')
  | CNexts dirs => cnexts n dirs it
  | CFor quiet => '(t, s, it') <- cfold _ (f_for quiet) n it (inl 0) ;; Some (t, fin (fun c => VInt (Z.of_N c)) s, it')
  | CUnpack mask => cunpack n mask it []
  | CScript ops => '(t, r, slots) <- cscript n ops [it; it; it] ;; Some (t, r, match slots with x :: _ => x | [] => it end)
  end.
