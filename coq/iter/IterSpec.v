(* C13 — what the property says: plain list functions over the sequence of (collected) outputs,
   independent of the state machines.  An element is `ROk v` or `RErr e` (a callback / source error
   delivered at that position). *)
From Coq Require Import List ZArith NArith Bool.
From KV.iter Require Import IterModel.
Import ListNotations.
Open Scope N_scope.

Definition on_ok (f : value -> res) (r : res) : res :=
  match r with ROk v => f v | RErr e => RErr e end.

(* each f  =  map f *)
Definition spec_each (f : cb) (l : list res) : list res := map (on_ok (cb_fun f)) l.

(* keep p  =  filter p  (an element on which p fails to give a Bool becomes an error element) *)
Definition keep1 (p : cb) (r : res) : list res :=
  match r with
  | RErr e => [RErr e]
  | ROk v => match verdict_of (cb_fun p v) with VTrue => [ROk v] | VFalse => [] | VBad e => [RErr e] end
  end.
Definition spec_keep (p : cb) (l : list res) : list res := flat_map (keep1 p) l.

(* enumerate *)
Fixpoint enum_from (i : N) (l : list res) : list res :=
  match l with
  | [] => []
  | r :: l' => on_ok (fun v => ROk (VTup [VInt (Z.of_N i); v])) r :: enum_from (i + 1) l'
  end.
Definition spec_enumerate := enum_from 0.

(* discarding up to k elements: the first error among them (if any) and what is left after it / after the k *)
Fixpoint scan (k : nat) (l : list res) : option N * list res :=
  match k, l with
  | O, _ => (None, l)
  | S _, [] => (None, [])
  | S _, RErr e :: l' => (Some e, l')
  | S k', ROk _ :: l' => scan k' l'
  end.

(* skip n: the first n elements are dropped; an error element among them is delivered (and ends the skipping) *)
Definition spec_skip (n : N) (l : list res) : list res :=
  match scan (N.to_nat n) l with
  | (Some e, rest) => RErr e :: rest
  | (None, rest) => rest
  end.
Definition spec_take (n : N) (l : list res) : list res := firstn (N.to_nat n) l.

(* take while p *)
Fixpoint spec_take_while (p : cb) (l : list res) : list res :=
  match l with
  | [] => []
  | RErr e :: l' => RErr e :: spec_take_while p l'
  | ROk v :: l' =>
    match verdict_of (cb_fun p v) with
    | VTrue => ROk v :: spec_take_while p l'
    | VFalse => []
    | VBad e => RErr e :: spec_take_while p l'
    end
  end.

Definition spec_chain (l1 l2 : list res) : list res := l1 ++ l2.

(* zip; an error on the left is delivered without pulling the right *)
Fixpoint spec_zip (la lb : list res) : list res :=
  match la with
  | [] => []
  | RErr e :: la' => RErr e :: spec_zip la' lb
  | ROk va :: la' =>
    match lb with
    | [] => []
    | RErr e :: lb' => RErr e :: spec_zip la' lb'
    | ROk vb :: lb' => ROk (VTup [va; vb]) :: spec_zip la' lb'
    end
  end.

(* step k: every k-th element, starting with the first; an error among the k-1 elements dropped after an
   element is delivered INSTEAD of that element, and stepping restarts after the error (fuel >= length) *)
Fixpoint step_spec (fuel s1 : nat) (l : list res) : list res :=
  match fuel with
  | O => []
  | S f =>
    match l with
    | [] => []
    | r :: l' =>
      match scan s1 l' with
      | (Some e, rest) => RErr e :: step_spec f s1 rest
      | (None, rest) => r :: step_spec f s1 rest
      end
    end
  end.
Definition spec_step (k : N) (l : list res) : list res := step_spec (length l) (N.to_nat (k - 1)) l.

(* the sequence of a source cursor *)
Definition slice {A} (data : list A) (i e : N) : list A := skipn (N.to_nat i) (firstn (N.to_nat e) data).

Fixpoint zrange (s : Z) (len : nat) : list Z :=
  match len with O => [] | S n => s :: zrange (s + 1) n end.
(* a..b / a..=b ; descending ranges are empty *)
Definition spec_range (s e : Z) (incl : bool) : list res :=
  map (fun z => ROk (VInt z)) (zrange s (Z.to_nat ((if incl then e + 1 else e) - s))).

Definition ok_all (l : list value) : list res := map ROk l.

(* consumers *)
Fixpoint first_err (l : list res) : option N :=
  match l with [] => None | RErr e :: _ => Some e | ROk _ :: l' => first_err l' end.
Fixpoint oks (l : list res) : list value :=
  match l with [] => [] | ROk v :: l' => v :: oks l' | RErr _ :: l' => oks l' end.
Fixpoint before_err (l : list res) : list value :=
  match l with [] => [] | ROk v :: l' => v :: before_err l' | RErr _ :: _ => [] end.

Definition spec_to_list (l : list res) : cres :=
  match first_err l with Some e => CErr e | None => CVal (VList (oks l)) end.

(* a consumer loop `for output in iter { acc = f acc output; maybe return }` as a fold with early exit;
   `fold_rest` = the elements the loop has not looked at when it returns *)
Section FoldSpec.
  Variable St : Type.
  Variable f : St -> output -> trace * St * bool.
  Fixpoint fold_spec (s : St) (l : list res) : St :=
    match l with
    | [] => s
    | r :: l' => let '(_, s', stop) := f s (out_of_res r) in if stop then s' else fold_spec s' l'
    end.
  Fixpoint fold_rest (s : St) (l : list res) : list res :=
    match l with
    | [] => []
    | r :: l' => let '(_, s', stop) := f s (out_of_res r) in if stop then l' else fold_rest s' l'
    end.
End FoldSpec.

(* linear pipelines: stages without a second iterator argument *)
Definition denote_stage (a : stage) (l : list res) : option (list res) :=
  match a with
  | AEach f => Some (spec_each f l)
  | AKeep p => Some (spec_keep p l)
  | AEnumerate => Some (spec_enumerate l)
  | ASkip n => Some (spec_skip n l)
  | ATake n => Some (spec_take n l)
  | ATakeWhile p => Some (spec_take_while p l)
  | AStep n => if 0 <? n then Some (spec_step n l) else None
  | _ => None
  end.
Fixpoint denote (p : list stage) (l : list res) : option (list res) :=
  match p with
  | [] => Some l
  | a :: p' => match denote_stage a l with Some l1 => denote p' l1 | None => None end
  end.

(* intersperse sep: the separator between any two consecutive elements (error elements included) *)
Definition sep_tail (sep : value) (l : list res) : list res := flat_map (fun y => [ROk sep; y]) l.
Definition spec_intersperse (sep : value) (l : list res) : list res :=
  match l with [] => [] | x :: l' => x :: sep_tail sep l' end.

(* chunks n: consecutive groups of n elements, the last one possibly shorter (fuel = an upper bound of the length) *)
Fixpoint chunks_f (fuel n : nat) (vs : list value) : list (list value) :=
  match fuel with
  | O => []
  | S f => match vs with [] => [] | _ => firstn n vs :: chunks_f f n (skipn n vs) end
  end.
Definition spec_chunks (n : N) (vs : list value) : list res :=
  map (fun c => ROk (VTup c)) (chunks_f (length vs) (N.to_nat n) vs).

(* windows n: all contiguous sub-lists of length n *)
Fixpoint slide (w : list value) (rest : list value) : list (list value) :=
  match rest with
  | [] => []
  | x :: r => (tl w ++ [x]) :: slide (tl w ++ [x]) r
  end.
Definition windows_l (n : nat) (vs : list value) : list (list value) :=
  if (length vs <? n)%nat then [] else firstn n vs :: slide (firstn n vs) (skipn n vs).
Definition spec_windows (n : N) (vs : list value) : list res :=
  map (fun c => ROk (VTup c)) (windows_l (N.to_nat n) vs).
