(* C13 — Iterator pipelines are lazy, ordered and faithful to sequence semantics.
   ONLY the pinned statements live here; every proof is `exact <lemma>`.

   Reading guide.  `step n Fwd it` / `step n Bwd it` are Iterator::next / KotoIterator::next_back of the
   model (IterModel.v), n = fuel.  `Sem it l` (IterSem.v): successive `next` calls on `it` deliver
   exactly the elements of l (each collected: a ValuePair is its 2-tuple; a callback / source error
   is an element `RErr e` at its position) and then None for ever, however many calls are made.
   All statements quantify over ALL iterator states / element lists / parameters / callbacks
   (callbacks are arbitrary total functions value -> result). *)
From Coq Require Import List ZArith NArith Bool.
From KV.iter Require Import IterModel IterSpec IterFuel IterSem IterRev IterLazy IterMore IterErr IterCopy.
Import ListNotations.
Open Scope N_scope.

(* --- the model is deterministic in its fuel: more fuel never changes an answer (all 26 iterator kinds) --- *)
Theorem fuel_monotone : forall n d it r, step n d it = Some r -> forall m, (n <= m)%nat -> step m d it = Some r.
Proof. exact step_mono. Qed.
Print Assumptions fuel_monotone.

Theorem denotation_unique : forall l1 l2 it, Sem it l1 -> Sem it l2 -> l1 = l2.
Proof. exact Sem_det. Qed.
Print Assumptions denotation_unique.

(* --- source cursors --- *)
Theorem list_cursor : forall data e i, Sem (SList data i e) (ok_all (slice data i e)).
Proof. exact Sem_list. Qed.
Print Assumptions list_cursor.

Theorem range_cursor : forall s e incl, Sem (SRange s e incl) (spec_range s e incl).
Proof. exact Sem_range. Qed.
Print Assumptions range_cursor.

Theorem string_cursor : forall s, Sem (SStr s) (map (fun c => ROk (VStr [c])) s).
Proof. exact Sem_str. Qed.
Print Assumptions string_cursor.

Theorem generator_source : forall id items fin, Sem (SGen id items fin) (ok_all items).
Proof. exact Sem_gen. Qed.
Print Assumptions generator_source.

(* --- per-adaptor refinement: drain (A p s) = Spec.A p (drain s) --- *)
Theorem each_refines : forall f it l, Sem it l -> Sem (Each it f) (spec_each f l).
Proof. exact Sem_each. Qed.
Print Assumptions each_refines.

Theorem keep_refines : forall p it l, Sem it l -> Sem (Keep it p) (spec_keep p l).
Proof. exact Sem_keep. Qed.
Print Assumptions keep_refines.

Theorem enumerate_refines : forall it l, Sem it l -> Sem (Enumerate it 0) (spec_enumerate l).
Proof. exact Sem_enumerate. Qed.
Print Assumptions enumerate_refines.

(* skip / step: an Error output among the discarded elements is delivered (repaired in /repo ef5b457), see
   spec_skip / spec_step in IterSpec.v; proved at full strength (sequences with error elements included) *)
Theorem skip_refines : forall it l n, Sem it l -> Sem (Skip it n) (spec_skip n l).
Proof. exact Sem_skip. Qed.
Print Assumptions skip_refines.

Theorem take_refines : forall it l n, Sem it l -> Sem (Take it n) (spec_take n l).
Proof. exact Sem_take. Qed.
Print Assumptions take_refines.

Theorem take_while_refines : forall p it l, Sem it l -> Sem (TakeWhile it p false) (spec_take_while p l).
Proof. exact Sem_take_while. Qed.
Print Assumptions take_while_refines.

Theorem step_refines : forall it l s, 0 < s -> Sem it l -> Sem (Step it s) (spec_step s l).
Proof. exact Sem_step. Qed.
Print Assumptions step_refines.

Theorem chain_refines : forall a la b lb, Sem a la -> Sem b lb -> Sem (Chain (Some a) b) (spec_chain la lb).
Proof. exact Sem_chain. Qed.
Print Assumptions chain_refines.

(* zip: full strength would drop `no_err la`; with an error element on the left AFTER the right side has
   run out, Zip delivers that error after having returned None (it is not a fused iterator there), which
   no finite sequence describes.  Proved for an error-free left side (errors on the right are covered). *)
Theorem zip_refines_partial : forall la lb a b, no_err la -> Sem a la -> Sem b lb -> Sem (Zip a b) (spec_zip la lb).
Proof. exact Sem_zip. Qed.
Print Assumptions zip_refines_partial.

(* intersperse: full strength (error elements are separated like any other element) *)
Theorem intersperse_refines : forall sep it l, Sem it l -> Sem (Intersperse it None false sep) (spec_intersperse sep l).
Proof. exact Sem_intersperse. Qed.
Print Assumptions intersperse_refines.

(* chunks / windows: full strength would cover sequences with error elements (Chunks drops the partial chunk and
   delivers the error; Windows delivers the error and keeps its partial cache); proved for error-free sequences *)
Theorem chunks_refines_partial : forall n it vs, 0 < n -> Sem it (ok_all vs) -> Sem (Chunks it n) (spec_chunks n vs).
Proof. exact Sem_chunks. Qed.
Print Assumptions chunks_refines_partial.

Theorem windows_refines_partial : forall n it vs, 0 < n -> Sem it (ok_all vs) -> Sem (Windows it [] n) (spec_windows n vs).
Proof. exact Sem_windows. Qed.
Print Assumptions windows_refines_partial.

(* --- composition: any depth --- *)
Theorem composition : forall p src l l', Sem src l -> denote p l = Some l' ->
  exists it, build p src = Some it /\ Sem it l'.
Proof. exact IterSem.composition. Qed.
Print Assumptions composition.

(* with chain / zip stages whose second iterator denotes a sequence of its own *)
Theorem composition_with_arguments : forall p src l l', Sem src l -> PipeDen p l l' ->
  exists it, build p src = Some it /\ Sem it l'.
Proof. exact composition_rel. Qed.
Print Assumptions composition_with_arguments.

(* --- consumers: each one is its early-exit fold over the denoted sequence --- *)
Theorem consumers_are_folds : forall c it l r, Sem it l -> consumer_spec c l = Some r ->
  exists n t it', consume c n it = Some (t, r, it').
Proof. exact IterSem.consumers_are_folds. Qed.
Print Assumptions consumers_are_folds.

(* ... and a consumer loop that returns early leaves the iterator denoting exactly the elements it has
   not looked at (it pulled nothing beyond its exit) *)
Theorem consumer_loop_exact : forall St f, (forall s o, f s o = f s (out_of_res (collect o))) ->
  forall l it (s : St), Sem it l ->
  exists n t it', cfold St f n it s = Some (t, fold_spec St f s l, it') /\ Sem it' (fold_rest St f s l).
Proof. exact cfold_sem. Qed.
Print Assumptions consumer_loop_exact.

Theorem to_list_is_the_sequence : forall it vs, Sem it (ok_all vs) ->
  exists n t it', consume CToList n it = Some (t, CVal (VList vs), it').
Proof. exact IterSem.to_list_is_the_sequence. Qed.
Print Assumptions to_list_is_the_sequence.

Theorem find_stops_at_first_hit : forall p q it vs,
  (forall v, cb_fun p v = ROk (VBool (q v))) -> Sem it (ok_all vs) ->
  exists n t it', consume (CFind p) n it =
                  Some (t, CVal (match find_split q vs with Some (v, _) => v | None => VNull end), it') /\
                  Sem it' (ok_all (match find_split q vs with Some (_, rest) => rest | None => [] end)).
Proof. exact IterSem.find_stops_at_first_hit. Qed.
Print Assumptions find_stops_at_first_hit.

(* --- errors: a sequence with an Error at position k (a generator body that throws there, a callback that
       throws on that element).  `consumer_spec` covers every total consumer loop, including the VM-level
       `for x in it` / `for _ in it` (CFor).  `exits_early c pre` = the loop returns while looking at `pre`. --- *)
Theorem failing_generator_source : forall id items k, Sem (SFail id items k false) (spec_fail items k).
Proof. exact Sem_fail. Qed.
Print Assumptions failing_generator_source.

(* every consumer returns Err e iff it pulls position k; otherwise its result is the one on the prefix alone
   (e.g. take / find / any that stop before the failure point do NOT raise) *)
Theorem consume_propagates_error : forall c it pre e rest r,
  Sem it (ok_all pre ++ RErr e :: rest) ->
  consumer_spec c (ok_all pre ++ RErr e :: rest) = Some r ->
  (exists n t it', consume c n it = Some (t, r, it')) /\
  (if exits_early c pre then consumer_spec c (ok_all pre) = Some r else r = CErr e).
Proof. exact IterErr.consume_propagates_error. Qed.
Print Assumptions consume_propagates_error.

(* ... and the failing element is pulled (no longer in the iterator) exactly in the second case *)
Theorem error_pulled_iff_no_early_exit : forall St f (good : St -> Prop) (isErr : N -> St -> Prop),
  (forall s o tc s', good s -> f s o = (tc, s', false) -> good s') ->
  (forall s e, good s -> exists tc s', f s (OErr e) = (tc, s', true) /\ isErr e s') ->
  forall pre s e rest, good s ->
  (fold_stop St f s pre = true -> fold_rest St f s (pre ++ RErr e :: rest) = fold_rest St f s pre ++ RErr e :: rest) /\
  (fold_stop St f s pre = false -> fold_rest St f s (pre ++ RErr e :: rest) = rest /\ isErr e (fold_spec St f s (pre ++ RErr e :: rest))).
Proof. exact IterErr.error_pulled_iff_no_early_exit. Qed.
Print Assumptions error_pulled_iff_no_early_exit.

(* --- reversed --- *)
Theorem reversed_list_is_rev : forall l, Sem (Reversed (mk_list l)) (ok_all (rev l)).
Proof. exact IterRev.reversed_list_is_rev. Qed.
Print Assumptions reversed_list_is_rev.

Theorem reversed_range_is_rev : forall s e incl, Sem (Reversed (SRange s e incl)) (rev (spec_range s e incl)).
Proof. exact IterRev.reversed_range_is_rev. Qed.
Print Assumptions reversed_range_is_rev.

Theorem reversed_twice : forall it l, Sem it l -> Sem (Reversed (Reversed it)) l.
Proof. exact Sem_reversed_reversed. Qed.
Print Assumptions reversed_twice.

(* --- bidirectional cursors: `Bi it l` = ANY interleaving of next / next_back calls takes from the front /
       from the back of what is left of l (the two ends partition the sequence), then None for ever --- *)
Theorem byte_cursor_bidirectional : forall data i e, e <= nlen data -> Bi (SBytes data i e) (bytes_seq (slice data i e)).
Proof. exact Bi_bytes. Qed.
Print Assumptions byte_cursor_bidirectional.

Theorem list_cursor_bidirectional : forall data i e, e <= nlen data -> Bi (SList data i e) (ok_all (slice data i e)).
Proof. exact Bi_list. Qed.
Print Assumptions list_cursor_bidirectional.

Theorem reversed_of_bidirectional : forall it l, Bi it l -> Bi (Reversed it) (rev l).
Proof. exact Bi_reversed. Qed.
Print Assumptions reversed_of_bidirectional.

Theorem bidirectional_is_forward : forall it l, Bi it l -> Sem it l.
Proof. exact Bi_Sem. Qed.
Print Assumptions bidirectional_is_forward.

Theorem reversed_bytes_is_rev : forall l, Sem (Reversed (mk_bytes l)) (rev (bytes_seq l)).
Proof. exact IterRev.reversed_bytes_is_rev. Qed.
Print Assumptions reversed_bytes_is_rev.

(* --- laziness at the level of the event trace.  `lin it`: a pipeline of the adaptors above over plain cursors
       and AT MOST ONE tracing generator; `rem it`: the elements that generator has not yielded yet; `pulls t`:
       the elements pulled (EvPull events) in trace t, in order; `Steps it t it'`: any number of `next` calls.
       Acct a p b  :=  exists rest, a = p ++ rest /\ (b = rest \/ b = [])
       i.e. before = pulled ++ after  (or the generator was dropped for good by Chain once its part ended). --- *)
Theorem pulls_are_a_prefix : forall it t it', Steps it t it' -> lin it = true ->
  lin it' = true /\ Acct (rem it) (pulls t) (rem it').
Proof. exact IterLazy.pulls_are_a_prefix. Qed.
Print Assumptions pulls_are_a_prefix.

(* pulled elements = a prefix of the source's elements: source order, no element twice *)
Theorem pulls_prefix_of_source : forall it t it', Steps it t it' -> lin it = true ->
  exists rest, rem it = pulls t ++ rest.
Proof. exact IterLazy.pulls_prefix_of_source. Qed.
Print Assumptions pulls_prefix_of_source.

Theorem pull_count_bounded : forall it t it', Steps it t it' -> lin it = true ->
  (length (pulls t) <= length (rem it))%nat.
Proof. exact IterLazy.pull_count_bounded. Qed.
Print Assumptions pull_count_bounded.

(* per-adaptor count bound: ONE `next` pulls at most `demand1 it` elements (each / enumerate / take / take-while:
   what one inner step pulls; skip r: r+1 inner steps on its first call; step s: s inner steps; chain / zip: one
   step of each side; keep: at most what is left), and the demand never grows *)
Theorem one_next_demand : forall n it t o it', lin it = true -> step n Fwd it = Some (t, o, it') ->
  (length (pulls t) <= demand1 it)%nat /\ (demand1 it' <= demand1 it)%nat.
Proof. exact (fun n it t o it' Hl H => step_dem n it t o it' Hl H). Qed.
Print Assumptions one_next_demand.

Theorem pull_count_per_output : forall k it t it', StepsN k it t it' -> lin it = true ->
  (length (pulls t) <= k * demand1 it)%nat.
Proof. exact IterLazy.pull_count_per_output. Qed.
Print Assumptions pull_count_per_output.

(* a step of a pipeline without a tracing generator pulls nothing *)
Theorem generator_free_steps_pull_nothing : forall n it t o it', nogen it = true -> step n Fwd it = Some (t, o, it') ->
  nogen it' = true /\ pulls t = [].
Proof. exact (fun n it t o it' Hn H => step_quiet n it t o it' Hn H). Qed.
Print Assumptions generator_free_steps_pull_nothing.

(* construction pulls nothing: applying a stage leaves the generator's remaining elements untouched
   (`build` never calls `step`; reversed / peekable / cycle are outside this sub-language) *)
Theorem construction_pulls_nothing : forall a it it', apply_stage a it = Some it' ->
  match a with AChainR o | AChainL o | AZipR o | AZipL o => nogen o = true | _ => True end ->
  match a with AEach _ | AKeep _ | AEnumerate | ASkip _ | ATake _ | ATakeWhile _ | AStep _
             | AChainR _ | AChainL _ | AZipR _ | AZipL _ => True | _ => False end ->
  lin it = true -> lin it' = true /\ rem it' = rem it.
Proof. exact apply_stage_rem. Qed.
Print Assumptions construction_pulls_nothing.

(* --- copies.  `copy` (IterModel.v) mirrors each make_copy field by field.  States of this model are values, so
       the theorem is: the field-by-field copy IS the state, at any point of the iterator's life; hence the copy
       steps like the original, denotes the same remainder, and pulling one cannot change the other.  (What ties
       this to the Rust code, where handles are shared pointers, is the correspondence check: every adaptor is
       advanced k = 0 .. 2 len + 3 pulls, copied, copied again, and all three are consumed interleaved.)
       Not covered by the model: Peekable's copy, which in the Rust code shares the inner iterator (finding C13c). --- *)
Theorem copy_is_the_state : forall it, copy it = it.
Proof. exact copy_id. Qed.
Print Assumptions copy_is_the_state.

Theorem copy_yields_remainder : forall it0 t it, Steps it0 t it ->
  (forall n d, step n d (copy it) = step n d it) /\
  (forall l, Sem it l -> Sem (copy it) l) /\
  (forall l t' c', Sem it l -> Steps (copy it) t' c' -> Sem it l /\ exists o', Steps it t' o' /\ o' = c').
Proof. exact IterCopy.copy_yields_remainder. Qed.
Print Assumptions copy_yields_remainder.

(* --- non-vacuity, on the executable instance --- *)
From KV.iter Require Import IterRun.

Example pipeline_runs :
  run_case (mk_gen 1 [VInt 1; VInt 2; VInt 3; VInt 4]) [AEach f_dbl; AKeep p_gt1; ATake 2] CToList =
  (0%Z,
   [enc_event (EvPull 1 (VInt 1)); enc_event (EvCall 1 (VInt 1)); enc_event (EvCall 14 (VInt 2));
    enc_event (EvPull 1 (VInt 2)); enc_event (EvCall 1 (VInt 2)); enc_event (EvCall 14 (VInt 4))],
   enc_cres (CVal (VList [VInt 2; VInt 4]))).
Proof. vm_compute. reflexivity. Qed.

Example lazy_example :
  let it := Step (Skip (Keep (mk_gen 1 [VInt 1; VInt 2; VInt 3; VInt 4; VInt 5]) p_true) 2) 2 in
  lin it = true /\ demand1 it = 30%nat /\ demand1 (Take (Each (mk_gen 1 [VInt 1; VInt 2]) f_dbl) 1) = 1%nat.
Proof. vm_compute. auto. Qed.

Example chunks_windows_example :
  spec_chunks 2 [VInt 1; VInt 2; VInt 3] = [ROk (VTup [VInt 1; VInt 2]); ROk (VTup [VInt 3])] /\
  spec_windows 2 [VInt 1; VInt 2; VInt 3] = [ROk (VTup [VInt 1; VInt 2]); ROk (VTup [VInt 2; VInt 3])] /\
  spec_intersperse (VInt 0) (ok_all [VInt 1; VInt 2]) = ok_all [VInt 1; VInt 0; VInt 2].
Proof. vm_compute. auto. Qed.

Example error_example :
  (* `for _ in <generator failing at element 1>` raises; `.take(1)` in front of it does not *)
  run_case (SFail 1 [VInt 3; VInt 1; VInt 4] 1 false) [] (CFor true) =
    (0%Z, [enc_event (EvPull 1 (VInt 3)); enc_event EvNone; enc_event (EvFail 1)], enc_cres (CErr E_THROW)) /\
  run_case (SFail 1 [VInt 3; VInt 1; VInt 4] 1 false) [ATake 1] (CFor true) =
    (0%Z, [enc_event (EvPull 1 (VInt 3)); enc_event EvNone], enc_cres (CVal (VInt 1))).
Proof. vm_compute. auto. Qed.

Example copy_example :
  (* (3,1,4).cycle(): 4 pulls, copy, then original and copy alternately: both continue with 1, 4 *)
  run_case (mk_list [VInt 3; VInt 1; VInt 4]) [ACycle]
           (CScript [OpNext 0; OpNext 0; OpNext 0; OpNext 0; OpCopy 0 1; OpNext 0; OpNext 1; OpNext 0; OpNext 1]) =
  (0%Z, map enc_event
     [EvOut (ROk (VTup [VInt 0; VInt 3])); EvOut (ROk (VTup [VInt 0; VInt 1])); EvOut (ROk (VTup [VInt 0; VInt 4]));
      EvOut (ROk (VTup [VInt 0; VInt 3])); EvOut (ROk (VTup [VInt 0; VInt 1])); EvOut (ROk (VTup [VInt 1; VInt 1]));
      EvOut (ROk (VTup [VInt 0; VInt 4])); EvOut (ROk (VTup [VInt 1; VInt 4]))], enc_cres (CVal VNull)).
Proof. vm_compute. reflexivity. Qed.

Example denote_example :
  denote [AEach f_dbl; AKeep p_gt1; ATake 2] (ok_all [VInt 1; VInt 2; VInt 3; VInt 4]) = Some (ok_all [VInt 2; VInt 4]).
Proof. vm_compute. reflexivity. Qed.

(* C13a (ByteIterator::next_back read bytes[index]) was fixed in /repo; the model follows the fixed code and
   the positive theorem `reversed_bytes_is_rev` above replaces the former refutation.  The old behaviour
   (1,1,1) can no longer be derived: *)
Example bytes_reversed_example :
  exists t it', consume CToList 20 (Reversed (mk_bytes [1; 2; 3])) = Some (t, CVal (VList [VInt 3; VInt 2; VInt 1]), it').
Proof. eexists _, _. vm_compute. reflexivity. Qed.
