(* C13 — proofs, part 4: laziness at the level of the event trace.
   For every pipeline built from the adaptors whose refinement is proved (each, keep, enumerate, skip,
   take, take-while, step, chain, zip) over ONE tracing generator (all other sources being plain
   cursors), every `next` pulls the generator's elements in order, each exactly once:
       remaining-before = pulled-in-this-step ++ remaining-after
   (or the generator has been dropped for good, by Chain, after its part ended). *)
From Coq Require Import List ZArith NArith Bool Lia.
From KV.iter Require Import IterModel IterSpec IterFuel IterSem.
Import ListNotations.
Open Scope N_scope.

Fixpoint pulls (t : trace) : list value :=
  match t with
  | [] => []
  | EvPull _ v :: t' => v :: pulls t'
  | _ :: t' => pulls t'
  end.

Lemma pulls_app : forall t1 t2, pulls (t1 ++ t2) = pulls t1 ++ pulls t2.
Proof. induction t1 as [|e t1 IH]; intros; simpl; auto. destruct e; simpl; rewrite ?IH; auto. Qed.

Lemma pulls_call : forall f o, pulls (fst (call f o)) = [].
Proof. intros f [v|a b|e]; reflexivity. Qed.

(* no tracing generator inside (within the covered sub-language) *)
Fixpoint nogen (it : iter) : bool :=
  match it with
  | SList _ _ _ | SRange _ _ _ | SStr _ | SMap _ _ _ | SBytes _ _ _ | SOnce _ | SRepeat _ | SRepeatN _ _ => true
  | Each i _ | Keep i _ | Enumerate i _ | Skip i _ | Step i _ | Take i _ | TakeWhile i _ _ => nogen i
  | Chain (Some a) b => nogen a && nogen b
  | Chain None b => nogen b
  | Zip a b => nogen a && nogen b
  | _ => false
  end.

(* the elements the tracing generator(s) have not yielded yet *)
Fixpoint rem (it : iter) : list value :=
  match it with
  | SGen _ items _ => items
  | Each i _ | Keep i _ | Enumerate i _ | Skip i _ | Step i _ | Take i _ | TakeWhile i _ _ => rem i
  | Chain (Some a) b => rem a ++ rem b
  | Chain None b => rem b
  | Zip a b => rem a ++ rem b
  | _ => []
  end.

(* at most one tracing generator *)
Fixpoint lin (it : iter) : bool :=
  match it with
  | SGen _ _ _ => true
  | SList _ _ _ | SRange _ _ _ | SStr _ | SMap _ _ _ | SBytes _ _ _ | SOnce _ | SRepeat _ | SRepeatN _ _ => true
  | Each i _ | Keep i _ | Enumerate i _ | Skip i _ | Step i _ | Take i _ | TakeWhile i _ _ => lin i
  | Chain (Some a) b => (lin a && nogen b) || (nogen a && lin b)
  | Chain None b => lin b
  | Zip a b => (lin a && nogen b) || (nogen a && lin b)
  | _ => false
  end.

Lemma nogen_lin : forall it, nogen it = true -> lin it = true.
Proof.
  fix IH 1. intros it H. destruct it; simpl in *; try discriminate; auto.
  - destruct iter_a as [a|]; auto. apply andb_true_iff in H as [Ha Hb].
    rewrite (IH _ Ha), Hb. reflexivity.
  - apply andb_true_iff in H as [Ha Hb]. rewrite (IH _ Ha), Hb. reflexivity.
Qed.

Lemma nogen_rem : forall it, nogen it = true -> rem it = [].
Proof.
  fix IH 1. intros it H. destruct it; simpl in *; try discriminate; auto.
  - destruct iter_a as [a|]; auto. apply andb_true_iff in H as [Ha Hb].
    rewrite (IH _ Ha), (IH _ Hb). reflexivity.
  - apply andb_true_iff in H as [Ha Hb]. rewrite (IH _ Ha), (IH _ Hb). reflexivity.
Qed.

(* ---------- a step of a generator-free iterator pulls nothing ---------- *)
Definition Quiet (nx : iter -> option R) : Prop :=
  forall it t o it', nogen it = true -> nx it = Some (t, o, it') -> nogen it' = true /\ pulls t = [].

Section QuietLoops.
  Variable nx : iter -> option R.
  Hypothesis Hq : Quiet nx.

  Lemma advance_quiet : forall k it t ok it', nogen it = true -> advance nx k it = Some (t, ok, it') ->
    nogen it' = true /\ pulls t = [].
  Proof.
    induction k as [|k IH]; simpl; intros it t ok it' Hn H.
    - inversion H; subst; auto.
    - unfold bind in H. destruct (nx it) as [[[t1 o1] it1]|] eqn:E; try discriminate.
      destruct (Hq _ _ _ _ Hn E) as [Hn1 Hp1].
      destruct o1.
      + destruct (advance nx k it1) as [[[t2 ok2] it2]|] eqn:E2; try discriminate.
        inversion H; subst. destruct (IH _ _ _ _ Hn1 E2) as [Hn2 Hp2].
        rewrite pulls_app, Hp1, Hp2. auto.
      + inversion H; subst; auto.
  Qed.

  Lemma nth_quiet : forall k it t o it', nogen it = true -> nth_ nx k it = Some (t, o, it') ->
    nogen it' = true /\ pulls t = [].
  Proof.
    unfold nth_, bind. intros k it t o it' Hn H.
    destruct (advance nx k it) as [[[t1 ok] it1]|] eqn:E; try discriminate.
    destruct (advance_quiet _ _ _ _ _ Hn E) as [Hn1 Hp1].
    destruct ok.
    - destruct (nx it1) as [[[t2 o2] it2]|] eqn:E2; try discriminate. inversion H; subst.
      destruct (Hq _ _ _ _ Hn1 E2) as [Hn2 Hp2]. rewrite pulls_app, Hp1, Hp2. auto.
    - inversion H; subst; auto.
  Qed.

  Lemma pull_ignore_quiet : forall k it t it', nogen it = true -> pull_ignore nx k it = Some (t, it') ->
    nogen it' = true /\ pulls t = [].
  Proof.
    induction k as [|k IH]; simpl; intros it t it' Hn H.
    - inversion H; subst; auto.
    - unfold bind in H. destruct (nx it) as [[[t1 o1] it1]|] eqn:E; try discriminate.
      destruct (Hq _ _ _ _ Hn E) as [Hn1 Hp1].
      destruct (pull_ignore nx k it1) as [[t2 it2]|] eqn:E2; try discriminate.
      inversion H; subst. destruct (IH _ _ _ Hn1 E2) as [Hn2 Hp2].
      rewrite pulls_app, Hp1, Hp2. auto.
  Qed.
  Lemma discard_quiet : forall b k it t r it', nogen it = true -> discard nx b k it = Some (t, r, it') ->
    nogen it' = true /\ pulls t = [].
  Proof.
    intro b. induction k as [|k IH]; simpl; intros it t r it' Hn H.
    - inversion H; subst; auto.
    - unfold bind in H. destruct (nx it) as [[[t1 o1] it1]|] eqn:E; try discriminate.
      destruct (Hq _ _ _ _ Hn E) as [Hn1 Hp1].
      assert (G : forall t2 r2 it2, discard nx b k it1 = Some (t2, r2, it2) -> nogen it2 = true /\ pulls (t1 ++ t2) = []).
      { intros t2 r2 it2 E2. destruct (IH _ _ _ _ Hn1 E2) as [Hn2 Hp2]. rewrite pulls_app, Hp1, Hp2. auto. }
      destruct o1 as [[v|x y|e]|].
      + destruct (discard nx b k it1) as [[[t2 r2] it2]|] eqn:E2; try discriminate. inversion H; subst. eapply G; eauto.
      + destruct (discard nx b k it1) as [[[t2 r2] it2]|] eqn:E2; try discriminate. inversion H; subst. eapply G; eauto.
      + inversion H; subst; auto.
      + destruct b; [inversion H; subst; auto|].
        destruct (discard nx false k it1) as [[[t2 r2] it2]|] eqn:E2; try discriminate. inversion H; subst. eapply G; eauto.
  Qed.
End QuietLoops.

Ltac dstep H :=
  match type of H with
  | context [match step ?n Fwd ?i with _ => _ end] =>
    let t := fresh "t" in let o := fresh "o" in let i' := fresh "i'" in let E := fresh "E" in
    destruct (step n Fwd i) as [[[t o] i']|] eqn:E; [|discriminate H]
  end.

Ltac inv H := inversion H; subst; clear H.

Lemma pulls_app_call : forall t f o, pulls t = [] -> pulls (t ++ fst (call f o)) = [].
Proof. intros. rewrite pulls_app, H, pulls_call. reflexivity. Qed.

Lemma step_quiet : forall n, Quiet (step n Fwd).
Proof.
  induction n as [|n IH]; intros it t o it' Hn H; [discriminate|].
  destruct it; simpl in Hn; try discriminate; cbn [step] in H; unfold bind in H.
  - destruct (index <? end_); inv H; auto.
  - destruct (start ?= end_)%Z; try destruct inclusive; inv H; auto.
  - destruct s; inv H; auto.
  - destruct (index <? end_); inv H; auto.
  - destruct (index <? end_); inv H; auto.
  - inv H; auto.
  - inv H; auto.
  - destruct (0 <? remaining); inv H; auto.
  - (* Chain *)
    destruct iter_a as [a|].
    + apply andb_true_iff in Hn as [Ha Hb]. dstep H. destruct (IH _ _ _ _ Ha E) as [Ha' Hp].
      destruct o0.
      * inv H. simpl. rewrite Ha', Hb. auto.
      * dstep H. inv H. destruct (IH _ _ _ _ Hb E0) as [Hb' Hp2]. simpl. rewrite pulls_app, Hp, Hp2. auto.
    + dstep H. inv H. destruct (IH _ _ _ _ Hn E) as [Hb' Hp]. auto.
  - (* Each *)
    dstep H. destruct (IH _ _ _ _ Hn E) as [Hn' Hp].
    destruct o0 as [[v|a b|e]|]; simpl in H; inv H; simpl; rewrite ?pulls_app, ?Hp; auto.
  - (* Enumerate *)
    dstep H. inv H. destruct (IH _ _ _ _ Hn E) as [Hn' Hp]. auto.
  - (* Keep *)
    dstep H. destruct (IH _ _ _ _ Hn E) as [Hn' Hp].
    destruct o0 as [out|]; [|inv H; auto].
    destruct out as [v|a b|e]; [| |inv H; auto].
    + simpl in H. destruct (verdict_of (cb_fun p v)).
      * inv H. simpl. rewrite pulls_app, Hp. auto.
      * dstep H. inv H. assert (Hk : nogen (Keep i' p) = true) by exact Hn'.
        destruct (IH _ _ _ _ Hk E0) as [Hn2 Hp2]. rewrite !pulls_app; simpl; rewrite ?Hp, ?Hp2; auto.
      * inv H. simpl. rewrite pulls_app, Hp. auto.
    + simpl in H. destruct (verdict_of (cb_fun p (VTup [a; b]))).
      * inv H. simpl. rewrite pulls_app, Hp. auto.
      * dstep H. inv H. assert (Hk : nogen (Keep i' p) = true) by exact Hn'.
        destruct (IH _ _ _ _ Hk E0) as [Hn2 Hp2]. rewrite !pulls_app; simpl; rewrite ?Hp, ?Hp2; auto.
      * inv H. simpl. rewrite pulls_app, Hp. auto.
  - (* Skip *)
    destruct (discard (step n Fwd) true (N.to_nat remaining) it) as [[[t1 err] i1]|] eqn:E; try discriminate.
    destruct (discard_quiet _ IH _ _ _ _ _ _ Hn E) as [Hn1 Hp1].
    destruct err; [inv H; auto|].
    dstep H. inv H. destruct (IH _ _ _ _ Hn1 E0) as [Hn2 Hp2]. simpl. rewrite pulls_app, Hp1, Hp2. auto.
  - (* Step *)
    dstep H. destruct (IH _ _ _ _ Hn E) as [Hn' Hp].
    destruct (discard (step n Fwd) false (N.to_nat (step_ - 1)) i') as [[[t2 err] i2]|] eqn:E2; try discriminate.
    destruct (discard_quiet _ IH _ _ _ _ _ _ Hn' E2) as [Hn2 Hp2].
    destruct err; inv H; simpl; rewrite pulls_app, Hp, Hp2; auto.
  - (* Take *)
    destruct (0 <? remaining).
    + dstep H. inv H. destruct (IH _ _ _ _ Hn E). auto.
    + inv H. auto.
  - (* TakeWhile *)
    destruct finished; [inv H; auto|].
    dstep H. destruct (IH _ _ _ _ Hn E) as [Hn' Hp].
    destruct o0 as [out|]; [|inv H; auto].
    destruct out as [v|a b|e]; [| |inv H; auto].
    + simpl in H. destruct (verdict_of (cb_fun p v)); inv H; simpl; rewrite pulls_app, Hp; auto.
    + simpl in H. destruct (verdict_of (cb_fun p (VTup [a; b]))); inv H; simpl; rewrite pulls_app, Hp; auto.
  - (* Zip *)
    apply andb_true_iff in Hn as [Ha Hb]. dstep H. destruct (IH _ _ _ _ Ha E) as [Ha' Hp].
    destruct (option_map collect_pair o0) as [[va|pa pb|e]|].
    + dstep H. destruct (IH _ _ _ _ Hb E0) as [Hb' Hp2].
      destruct (option_map collect_pair o1) as [[vb|qa qb|e]|]; inv H; simpl; rewrite Ha', Hb', pulls_app, Hp, Hp2; auto.
    + inv H. simpl. rewrite Ha', Hb. auto.
    + inv H. simpl. rewrite Ha', Hb. auto.
    + inv H. simpl. rewrite Ha', Hb. auto.
Qed.

(* ---------- accounting: before = pulled ++ after, or the generator is gone ---------- *)
Definition Acct (a p b : list value) : Prop := exists rest, a = p ++ rest /\ (b = rest \/ b = []).

Lemma Acct_refl : forall a, Acct a [] a.
Proof. intro a. exists a. auto. Qed.

Lemma Acct_trans : forall a p1 b p2 c, Acct a p1 b -> Acct b p2 c -> Acct a (p1 ++ p2) c.
Proof.
  intros a p1 b p2 c (r1 & Ha & Hb) (r2 & Hb2 & Hc).
  destruct Hb as [Hb|Hb]; subst b.
  - exists r2. subst. rewrite app_assoc. auto.
  - symmetry in Hb2. apply app_eq_nil in Hb2 as [-> ->]. exists r1. rewrite app_nil_r.
    split; auto. destruct Hc; auto.
Qed.

Lemma Acct_nil_l : forall p b, Acct [] p b -> p = [] /\ b = [].
Proof. intros p b (r & H & Hb). symmetry in H. apply app_eq_nil in H as [-> ->]. destruct Hb; auto. Qed.

Lemma Acct_drop : forall a p b, Acct a p b -> Acct a p [].
Proof. intros a p b (r & H & _). exists r. auto. Qed.

Definition Acc (nx : iter -> option R) : Prop :=
  forall it t o it', lin it = true -> nx it = Some (t, o, it') ->
    lin it' = true /\ Acct (rem it) (pulls t) (rem it').

Section AccLoops.
  Variable nx : iter -> option R.
  Hypothesis Ha : Acc nx.

  Lemma advance_acc : forall k it t ok it', lin it = true -> advance nx k it = Some (t, ok, it') ->
    lin it' = true /\ Acct (rem it) (pulls t) (rem it').
  Proof.
    induction k as [|k IH]; simpl; intros it t ok it' Hl H.
    - inv H. split; auto. apply Acct_refl.
    - unfold bind in H. destruct (nx it) as [[[t1 o1] it1]|] eqn:E; try discriminate.
      destruct (Ha _ _ _ _ Hl E) as [Hl1 A1].
      destruct o1.
      + destruct (advance nx k it1) as [[[t2 ok2] it2]|] eqn:E2; try discriminate.
        inv H. destruct (IH _ _ _ _ Hl1 E2) as [Hl2 A2].
        rewrite pulls_app. split; auto. eapply Acct_trans; eauto.
      + inv H. auto.
  Qed.

  Lemma nth_acc : forall k it t o it', lin it = true -> nth_ nx k it = Some (t, o, it') ->
    lin it' = true /\ Acct (rem it) (pulls t) (rem it').
  Proof.
    unfold nth_, bind. intros k it t o it' Hl H.
    destruct (advance nx k it) as [[[t1 ok] it1]|] eqn:E; try discriminate.
    destruct (advance_acc _ _ _ _ _ Hl E) as [Hl1 A1].
    destruct ok.
    - destruct (nx it1) as [[[t2 o2] it2]|] eqn:E2; try discriminate. inv H.
      destruct (Ha _ _ _ _ Hl1 E2) as [Hl2 A2]. rewrite pulls_app. split; auto. eapply Acct_trans; eauto.
    - inv H. auto.
  Qed.

  Lemma pull_ignore_acc : forall k it t it', lin it = true -> pull_ignore nx k it = Some (t, it') ->
    lin it' = true /\ Acct (rem it) (pulls t) (rem it').
  Proof.
    induction k as [|k IH]; simpl; intros it t it' Hl H.
    - inv H. split; auto. apply Acct_refl.
    - unfold bind in H. destruct (nx it) as [[[t1 o1] it1]|] eqn:E; try discriminate.
      destruct (Ha _ _ _ _ Hl E) as [Hl1 A1].
      destruct (pull_ignore nx k it1) as [[t2 it2]|] eqn:E2; try discriminate.
      inv H. destruct (IH _ _ _ Hl1 E2) as [Hl2 A2].
      rewrite pulls_app. split; auto. eapply Acct_trans; eauto.
  Qed.
  Lemma discard_acc : forall b k it t r it', lin it = true -> discard nx b k it = Some (t, r, it') ->
    lin it' = true /\ Acct (rem it) (pulls t) (rem it').
  Proof.
    intro b. induction k as [|k IH]; simpl; intros it t r it' Hl H.
    - inv H. split; auto. apply Acct_refl.
    - unfold bind in H. destruct (nx it) as [[[t1 o1] it1]|] eqn:E; try discriminate.
      destruct (Ha _ _ _ _ Hl E) as [Hl1 A1].
      assert (G : forall t2 r2 it2, discard nx b k it1 = Some (t2, r2, it2) ->
                  lin it2 = true /\ Acct (rem it) (pulls (t1 ++ t2)) (rem it2)).
      { intros t2 r2 it2 E2. destruct (IH _ _ _ _ Hl1 E2) as [Hl2 A2]. rewrite pulls_app. split; auto.
        eapply Acct_trans; eauto. }
      destruct o1 as [[v|x y|e]|].
      + destruct (discard nx b k it1) as [[[t2 r2] it2]|] eqn:E2; try discriminate. inv H. eapply G; eauto.
      + destruct (discard nx b k it1) as [[[t2 r2] it2]|] eqn:E2; try discriminate. inv H. eapply G; eauto.
      + inv H. auto.
      + destruct b; [inv H; auto|].
        destruct (discard nx false k it1) as [[[t2 r2] it2]|] eqn:E2; try discriminate. inv H. eapply G; eauto.
  Qed.
End AccLoops.

Lemma Acct_call : forall a t b f o, Acct a (pulls t) b -> Acct a (pulls (t ++ fst (call f o))) b.
Proof. intros. rewrite pulls_app, pulls_call, app_nil_r. auto. Qed.

(* binary nodes: the generator is on exactly one side *)
Lemma lin_split : forall a b, (lin a && nogen b) || (nogen a && lin b) = true ->
  (lin a = true /\ nogen b = true) \/ (nogen a = true /\ lin b = true).
Proof.
  intros a b H. apply orb_true_iff in H as [H|H]; apply andb_true_iff in H; auto.
Qed.

Lemma lin_join_l : forall a b, lin a = true -> nogen b = true -> (lin a && nogen b) || (nogen a && lin b) = true.
Proof. intros a b -> ->. reflexivity. Qed.
Lemma lin_join_r : forall a b, nogen a = true -> lin b = true -> (lin a && nogen b) || (nogen a && lin b) = true.
Proof. intros a b -> ->. simpl. apply orb_true_r. Qed.

Lemma step_acc : forall n, Acc (step n Fwd).
Proof.
  induction n as [|n IH]; intros it t o it' Hl H; [discriminate|].
  pose proof (step_quiet n) as Q.
  destruct it; simpl in Hl; try discriminate; cbn [step] in H; unfold bind in H; cbn [rem].
  - destruct (index <? end_); inv H; split; auto; apply Acct_refl.
  - destruct (start ?= end_)%Z; try destruct inclusive; inv H; split; auto; apply Acct_refl.
  - destruct s; inv H; split; auto; apply Acct_refl.
  - destruct (index <? end_); inv H; split; auto; apply Acct_refl.
  - destruct (index <? end_); inv H; split; auto; apply Acct_refl.
  - (* SGen *)
    destruct items as [|x rest].
    + destruct finished; inv H; split; auto; apply Acct_refl.
    + inv H. split; auto. exists rest. simpl. auto.
  - inv H; split; auto; apply Acct_refl.
  - inv H; split; auto; apply Acct_refl.
  - destruct (0 <? remaining); inv H; split; auto; apply Acct_refl.
  - (* Chain *)
    destruct iter_a as [a|].
    + destruct (lin_split _ _ Hl) as [[La Nb]|[Na Lb]].
      * dstep H. destruct (IH _ _ _ _ La E) as [La' A1].
        rewrite (nogen_rem _ Nb), app_nil_r.
        destruct o0.
        -- inv H. simpl. rewrite (nogen_rem _ Nb), app_nil_r. split; auto. apply lin_join_l; auto.
        -- dstep H. inv H. destruct (Q _ _ _ _ Nb E0) as [Nb' Hp2]. simpl.
           rewrite pulls_app, Hp2, app_nil_r, (nogen_rem _ Nb'). split; [apply nogen_lin; auto|].
           eapply Acct_drop; eauto.
      * dstep H. destruct (Q _ _ _ _ Na E) as [Na' Hp].
        rewrite (nogen_rem _ Na). simpl.
        destruct o0.
        -- inv H. simpl. rewrite (nogen_rem _ Na'), Hp. simpl. split; [apply lin_join_r; auto|apply Acct_refl].
        -- dstep H. inv H. destruct (IH _ _ _ _ Lb E0) as [Lb' A2]. simpl.
           rewrite pulls_app, Hp. simpl. auto.
    + dstep H. inv H. destruct (IH _ _ _ _ Hl E) as [Lb' A]. auto.
  - (* Each *)
    dstep H. destruct (IH _ _ _ _ Hl E) as [Hl' A].
    destruct o0 as [[v|a b|e]|]; simpl in H; inv H; simpl; split; auto;
      rewrite ?pulls_app; simpl; rewrite ?app_nil_r; auto.
  - (* Enumerate *)
    dstep H. inv H. destruct (IH _ _ _ _ Hl E) as [Hl' A]. auto.
  - (* Keep *)
    dstep H. destruct (IH _ _ _ _ Hl E) as [Hl' A].
    destruct o0 as [out|]; [|inv H; auto].
    destruct out as [v|a b|e]; [| |inv H; auto].
    + simpl in H. destruct (verdict_of (cb_fun p v)).
      * inv H. simpl. rewrite pulls_app; simpl; rewrite app_nil_r. auto.
      * dstep H. inv H. assert (Hk : lin (Keep i' p) = true) by exact Hl'.
        destruct (IH _ _ _ _ Hk E0) as [Hl2 A2]. split; auto.
        rewrite !pulls_app; simpl. eapply Acct_trans; eauto.
      * inv H. simpl. rewrite pulls_app; simpl; rewrite app_nil_r. auto.
    + simpl in H. destruct (verdict_of (cb_fun p (VTup [a; b]))).
      * inv H. simpl. rewrite pulls_app; simpl; rewrite app_nil_r. auto.
      * dstep H. inv H. assert (Hk : lin (Keep i' p) = true) by exact Hl'.
        destruct (IH _ _ _ _ Hk E0) as [Hl2 A2]. split; auto.
        rewrite !pulls_app; simpl. eapply Acct_trans; eauto.
      * inv H. simpl. rewrite pulls_app; simpl; rewrite app_nil_r. auto.
  - (* Skip *)
    destruct (discard (step n Fwd) true (N.to_nat remaining) it) as [[[t1 err] i1]|] eqn:E; try discriminate.
    destruct (discard_acc _ IH _ _ _ _ _ _ Hl E) as [Hl1 A1].
    destruct err; [inv H; auto|].
    dstep H. inv H. destruct (IH _ _ _ _ Hl1 E0) as [Hl2 A2]. simpl. rewrite pulls_app. split; auto.
    eapply Acct_trans; eauto.
  - (* Step *)
    dstep H. destruct (IH _ _ _ _ Hl E) as [Hl' A].
    destruct (discard (step n Fwd) false (N.to_nat (step_ - 1)) i') as [[[t2 err] i2]|] eqn:E2; try discriminate.
    destruct (discard_acc _ IH _ _ _ _ _ _ Hl' E2) as [Hl2 A2].
    destruct err; inv H; simpl; rewrite pulls_app; (split; auto; eapply Acct_trans; eauto).
  - (* Take *)
    destruct (0 <? remaining).
    + dstep H. inv H. destruct (IH _ _ _ _ Hl E). auto.
    + inv H. split; auto. apply Acct_refl.
  - (* TakeWhile *)
    destruct finished; [inv H; split; auto; apply Acct_refl|].
    dstep H. destruct (IH _ _ _ _ Hl E) as [Hl' A].
    destruct o0 as [out|]; [|inv H; auto].
    destruct out as [v|a b|e]; [| |inv H; auto].
    + simpl in H. destruct (verdict_of (cb_fun p v)); inv H; simpl; rewrite pulls_app; simpl; rewrite app_nil_r; auto.
    + simpl in H. destruct (verdict_of (cb_fun p (VTup [a; b]))); inv H; simpl; rewrite pulls_app; simpl; rewrite app_nil_r; auto.
  - (* Zip *)
    destruct (lin_split _ _ Hl) as [[La Nb]|[Na Lb]].
    + dstep H. destruct (IH _ _ _ _ La E) as [La' A].
      rewrite (nogen_rem _ Nb), app_nil_r.
      destruct (option_map collect_pair o0) as [[va|pa pb|e]|].
      * dstep H. destruct (Q _ _ _ _ Nb E0) as [Nb' Hp2].
        destruct (option_map collect_pair o1) as [[vb|qa qb|e]|]; inv H; simpl;
          rewrite (nogen_rem _ Nb'), app_nil_r, pulls_app, Hp2, app_nil_r; (split; [apply lin_join_l; auto|auto]).
      * inv H. simpl. rewrite (nogen_rem _ Nb), app_nil_r. split; [apply lin_join_l; auto|auto].
      * inv H. simpl. rewrite (nogen_rem _ Nb), app_nil_r. split; [apply lin_join_l; auto|auto].
      * inv H. simpl. rewrite (nogen_rem _ Nb), app_nil_r. split; [apply lin_join_l; auto|auto].
    + dstep H. destruct (Q _ _ _ _ Na E) as [Na' Hp].
      rewrite (nogen_rem _ Na). simpl.
      destruct (option_map collect_pair o0) as [[va|pa pb|e]|].
      * dstep H. destruct (IH _ _ _ _ Lb E0) as [Lb' A2].
        destruct (option_map collect_pair o1) as [[vb|qa qb|e]|]; inv H; simpl;
          rewrite (nogen_rem _ Na'), pulls_app, Hp; simpl; (split; [apply lin_join_r; auto|auto]).
      * inv H. simpl. rewrite (nogen_rem _ Na'), Hp. simpl. split; [apply lin_join_r; auto|apply Acct_refl].
      * inv H. simpl. rewrite (nogen_rem _ Na'), Hp. simpl. split; [apply lin_join_r; auto|apply Acct_refl].
      * inv H. simpl. rewrite (nogen_rem _ Na'), Hp. simpl. split; [apply lin_join_r; auto|apply Acct_refl].
Qed.

(* ---------- any number of `next` calls ---------- *)
Inductive Steps : iter -> trace -> iter -> Prop :=
| Steps_nil : forall it, Steps it [] it
| Steps_cons : forall it t o it1 t2 it2, Next Fwd it (t, o, it1) -> Steps it1 t2 it2 -> Steps it (t ++ t2) it2.

Theorem pulls_are_a_prefix : forall it t it', Steps it t it' -> lin it = true ->
  lin it' = true /\ Acct (rem it) (pulls t) (rem it').
Proof.
  induction 1 as [it|it t o it1 t2 it2 [n HN] HS IH]; intros Hl.
  - split; auto. apply Acct_refl.
  - destruct (step_acc n _ _ _ _ Hl HN) as [Hl1 A1]. destruct (IH Hl1) as [Hl2 A2].
    split; auto. rewrite pulls_app. eapply Acct_trans; eauto.
Qed.

(* in words: the pulled elements, in the order they were pulled, are a prefix of the generator's elements
   (so in source order and none twice), and never more than there are *)
Corollary pulls_prefix_of_source : forall it t it', Steps it t it' -> lin it = true ->
  exists rest, rem it = pulls t ++ rest.
Proof. intros it t it' HS Hl. destruct (pulls_are_a_prefix _ _ _ HS Hl) as [_ (r & H & _)]. eauto. Qed.

Corollary pull_count_bounded : forall it t it', Steps it t it' -> lin it = true ->
  (length (pulls t) <= length (rem it))%nat.
Proof.
  intros it t it' HS Hl. destruct (pulls_prefix_of_source _ _ _ HS Hl) as (r & H).
  rewrite H, app_length. lia.
Qed.

(* construction pulls nothing: `build` is a pure function of the source state; the generator inside a
   freshly built linear pipeline still holds all its elements *)
Lemma apply_stage_rem : forall a it it', apply_stage a it = Some it' ->
  match a with AChainR o | AChainL o | AZipR o | AZipL o => nogen o = true | _ => True end ->
  match a with AEach _ | AKeep _ | AEnumerate | ASkip _ | ATake _ | ATakeWhile _ | AStep _
             | AChainR _ | AChainL _ | AZipR _ | AZipL _ => True | _ => False end ->
  lin it = true -> lin it' = true /\ rem it' = rem it.
Proof.
  intros a it it' H Ho Hs Hl. destruct a; simpl in *; try contradiction;
    try (inv H; auto; fail).
  - destruct (0 <? n); inv H. auto.
  - inv H. simpl. rewrite (nogen_rem _ Ho), app_nil_r. split; auto. apply lin_join_l; auto.
  - inv H. simpl. rewrite (nogen_rem _ Ho). split; auto. apply lin_join_r; auto.
  - inv H. simpl. rewrite (nogen_rem _ Ho), app_nil_r. split; auto. apply lin_join_l; auto.
  - inv H. simpl. rewrite (nogen_rem _ Ho). split; auto. apply lin_join_r; auto.
Qed.

(* ---------- how many elements ONE `next` may pull (per adaptor) ---------- *)
Fixpoint demand1 (it : iter) : nat :=
  match it with
  | SGen _ _ _ => 1
  | Each i _ | Enumerate i _ | Take i _ | TakeWhile i _ _ => demand1 i      (* one inner step *)
  | Skip i r => (N.to_nat r + 1) * demand1 i                                 (* the first call skips r, then 1 *)
  | Step i s => (1 + N.to_nat (s - 1)) * demand1 i                           (* s inner steps *)
  | Keep i _ => length (rem i)                                               (* data dependent: at most what is left *)
  | Chain (Some a) b => demand1 a + demand1 b
  | Chain None b => demand1 b
  | Zip a b => demand1 a + demand1 b
  | _ => 0
  end.

Definition Dem (nx : iter -> option R) : Prop :=
  forall it t o it', lin it = true -> nx it = Some (t, o, it') ->
    (length (pulls t) <= demand1 it)%nat /\ (demand1 it' <= demand1 it)%nat.

Lemma Acct_len : forall a p b, Acct a p b -> (length p <= length a)%nat /\ (length b <= length a)%nat.
Proof.
  intros a p b (r & -> & Hb). rewrite app_length. destruct Hb; subst; simpl; lia.
Qed.

Section DemLoops.
  Variable nx : iter -> option R.
  Hypothesis Ha : Acc nx.
  Hypothesis Hd : Dem nx.

  Lemma advance_dem : forall k it t ok it', lin it = true -> advance nx k it = Some (t, ok, it') ->
    (length (pulls t) <= k * demand1 it)%nat /\ (demand1 it' <= demand1 it)%nat.
  Proof.
    induction k as [|k IH]; simpl; intros it t ok it' Hl H.
    - inv H. simpl. lia.
    - unfold bind in H. destruct (nx it) as [[[t1 o1] it1]|] eqn:E; try discriminate.
      destruct (Ha _ _ _ _ Hl E) as [Hl1 _]. destruct (Hd _ _ _ _ Hl E) as [D1 D2].
      destruct o1.
      + destruct (advance nx k it1) as [[[t2 ok2] it2]|] eqn:E2; try discriminate.
        inv H. destruct (IH _ _ _ _ Hl1 E2) as [D3 D4].
        rewrite pulls_app, app_length.
        assert (k * demand1 it1 <= k * demand1 it)%nat by (apply Nat.mul_le_mono_l; auto). lia.
      + inv H. lia.
  Qed.

  Lemma advance_lin : forall k it t ok it', lin it = true -> advance nx k it = Some (t, ok, it') -> lin it' = true.
  Proof. intros. eapply advance_acc; eauto. Qed.

  Lemma nth_dem : forall k it t o it', lin it = true -> nth_ nx k it = Some (t, o, it') ->
    (length (pulls t) <= (k + 1) * demand1 it)%nat /\ (demand1 it' <= demand1 it)%nat.
  Proof.
    unfold nth_, bind. intros k it t o it' Hl H.
    destruct (advance nx k it) as [[[t1 ok] it1]|] eqn:E; try discriminate.
    destruct (advance_dem _ _ _ _ _ Hl E) as [D1 D2]. pose proof (advance_lin _ _ _ _ _ Hl E) as Hl1.
    destruct ok.
    - destruct (nx it1) as [[[t2 o2] it2]|] eqn:E2; try discriminate. inv H.
      destruct (Hd _ _ _ _ Hl1 E2) as [D3 D4]. rewrite pulls_app, app_length. lia.
    - inv H. lia.
  Qed.

  Lemma pull_ignore_dem : forall k it t it', lin it = true -> pull_ignore nx k it = Some (t, it') ->
    (length (pulls t) <= k * demand1 it)%nat /\ (demand1 it' <= demand1 it)%nat.
  Proof.
    induction k as [|k IH]; simpl; intros it t it' Hl H.
    - inv H. simpl. lia.
    - unfold bind in H. destruct (nx it) as [[[t1 o1] it1]|] eqn:E; try discriminate.
      destruct (Ha _ _ _ _ Hl E) as [Hl1 _]. destruct (Hd _ _ _ _ Hl E) as [D1 D2].
      destruct (pull_ignore nx k it1) as [[t2 it2]|] eqn:E2; try discriminate.
      inv H. destruct (IH _ _ _ Hl1 E2) as [D3 D4].
      rewrite pulls_app, app_length.
      assert (k * demand1 it1 <= k * demand1 it)%nat by (apply Nat.mul_le_mono_l; auto). lia.
  Qed.
  Lemma discard_dem : forall b k it t r it', lin it = true -> discard nx b k it = Some (t, r, it') ->
    (length (pulls t) <= k * demand1 it)%nat /\ (demand1 it' <= demand1 it)%nat.
  Proof.
    intro b. induction k as [|k IH]; simpl; intros it t r it' Hl H.
    - inv H. simpl. lia.
    - unfold bind in H. destruct (nx it) as [[[t1 o1] it1]|] eqn:E; try discriminate.
      destruct (Ha _ _ _ _ Hl E) as [Hl1 _]. destruct (Hd _ _ _ _ Hl E) as [D1 D2].
      assert (G : forall t2 r2 it2, discard nx b k it1 = Some (t2, r2, it2) ->
                  (length (pulls (t1 ++ t2)) <= demand1 it + k * demand1 it)%nat /\ (demand1 it2 <= demand1 it)%nat).
      { intros t2 r2 it2 E2. destruct (IH _ _ _ _ Hl1 E2) as [D3 D4]. rewrite pulls_app, app_length.
        assert (k * demand1 it1 <= k * demand1 it)%nat by (apply Nat.mul_le_mono_l; auto). lia. }
      destruct o1 as [[v|x y|e]|].
      + destruct (discard nx b k it1) as [[[t2 r2] it2]|] eqn:E2; try discriminate. inv H. eapply G; eauto.
      + destruct (discard nx b k it1) as [[[t2 r2] it2]|] eqn:E2; try discriminate. inv H. eapply G; eauto.
      + inv H. lia.
      + destruct b; [inv H; lia|].
        destruct (discard nx false k it1) as [[[t2 r2] it2]|] eqn:E2; try discriminate. inv H. eapply G; eauto.
  Qed.
End DemLoops.

Lemma nogen_demand : forall it, nogen it = true -> demand1 it = 0%nat.
Proof.
  fix IH 1. intros it H. destruct it; simpl in *; try discriminate; auto.
  - destruct iter_a as [a|]; auto. apply andb_true_iff in H as [Ha Hb]. rewrite (IH _ Ha), (IH _ Hb). reflexivity.
  - rewrite (nogen_rem _ H). reflexivity.
  - rewrite (IH _ H). lia.
  - rewrite (IH _ H). lia.
  - apply andb_true_iff in H as [Ha Hb]. rewrite (IH _ Ha), (IH _ Hb). reflexivity.
Qed.

Lemma length_pulls_call : forall t f o, length (pulls (t ++ fst (call f o))) = length (pulls t).
Proof. intros. rewrite pulls_app, pulls_call, app_nil_r. reflexivity. Qed.

Lemma keep_shape : forall n i p t o it', step n Fwd (Keep i p) = Some (t, o, it') -> exists i2, it' = Keep i2 p.
Proof.
  induction n as [|n IH]; intros i p t o it' H; [discriminate|].
  cbn [step] in H. unfold bind in H. dstep H.
  destruct o0 as [out|]; [|inv H; eauto].
  destruct out as [v|a b|e]; [| |inv H; eauto]; simpl in H.
  - destruct (verdict_of (cb_fun p v)); try (inv H; eauto; fail).
    destruct (step n Fwd (Keep i' p)) as [[[t2 o2] r2]|] eqn:E2; try discriminate. inv H. eapply IH; eauto.
  - destruct (verdict_of (cb_fun p (VTup [a; b]))); try (inv H; eauto; fail).
    destruct (step n Fwd (Keep i' p)) as [[[t2 o2] r2]|] eqn:E2; try discriminate. inv H. eapply IH; eauto.
Qed.

Lemma step_dem : forall n, Dem (step n Fwd).
Proof.
  induction n as [|n IH]; intros it t o it' Hl H; [discriminate|].
  pose proof (step_quiet n) as Q. pose proof (step_acc n) as A.
  destruct it; simpl in Hl; try discriminate.
  (* Keep first: by the accounting theorem on the whole step *)
  13:{ destruct (step_acc (S n) (Keep it p) _ _ _ Hl H) as [Hl' Ac]. apply Acct_len in Ac as [L1 L2].
       destruct (keep_shape _ _ _ _ _ _ H) as [i2 ->].
       simpl in *. auto. }
  all: cbn [step] in H; unfold bind in H; cbn [demand1].
  - destruct (index <? end_); inv H; simpl; lia.
  - destruct (start ?= end_)%Z; try destruct inclusive; inv H; simpl; lia.
  - destruct s; inv H; simpl; lia.
  - destruct (index <? end_); inv H; simpl; lia.
  - destruct (index <? end_); inv H; simpl; lia.
  - destruct items as [|x rest]; [destruct finished|]; inv H; simpl; lia.
  - inv H; simpl; lia.
  - inv H; simpl; lia.
  - destruct (0 <? remaining); inv H; simpl; lia.
  - (* Chain *)
    destruct iter_a as [a|].
    + destruct (lin_split _ _ Hl) as [[La Nb]|[Na Lb]].
      * dstep H. destruct (IH _ _ _ _ La E) as [D1 D2].
        destruct o0.
        -- inv H. simpl. lia.
        -- dstep H. inv H. destruct (Q _ _ _ _ Nb E0) as [Nb' Hp2]. simpl.
           rewrite pulls_app, Hp2, app_nil_r, (nogen_demand _ Nb'). lia.
      * dstep H. destruct (Q _ _ _ _ Na E) as [Na' Hp].
        destruct o0.
        -- inv H. simpl. rewrite Hp, (nogen_demand _ Na'). simpl. lia.
        -- dstep H. inv H. destruct (IH _ _ _ _ Lb E0) as [D1 D2]. simpl.
           rewrite pulls_app, Hp. simpl. lia.
    + dstep H. inv H. destruct (IH _ _ _ _ Hl E). simpl. auto.
  - (* Each *)
    dstep H. destruct (IH _ _ _ _ Hl E) as [D1 D2].
    destruct o0 as [[v|a b|e]|]; simpl in H; inv H; simpl; rewrite ?pulls_app, ?app_length; simpl; lia.
  - (* Enumerate *)
    dstep H. inv H. destruct (IH _ _ _ _ Hl E). simpl. auto.
  - (* Skip *)
    destruct (discard (step n Fwd) true (N.to_nat remaining) it) as [[[t1 err] i1]|] eqn:E; try discriminate.
    destruct (discard_dem _ A IH _ _ _ _ _ _ Hl E) as [D1 D2]. destruct (discard_acc _ A _ _ _ _ _ _ Hl E) as [Hl1 _].
    destruct err.
    + inv H. simpl. rewrite Nat.mul_add_distr_r. lia.
    + dstep H. inv H. destruct (IH _ _ _ _ Hl1 E0) as [D3 D4]. simpl. rewrite pulls_app, app_length.
      rewrite Nat.mul_add_distr_r. lia.
  - (* Step *)
    dstep H. destruct (IH _ _ _ _ Hl E) as [D1 D2]. destruct (A _ _ _ _ Hl E) as [Hl' _].
    destruct (discard (step n Fwd) false (N.to_nat (step_ - 1)) i') as [[[t2 err] i2]|] eqn:E2; try discriminate.
    destruct (discard_dem _ A IH _ _ _ _ _ _ Hl' E2) as [D3 D4].
    assert (N.to_nat (step_ - 1) * demand1 i' <= N.to_nat (step_ - 1) * demand1 it)%nat by (apply Nat.mul_le_mono_l; auto).
    assert (N.to_nat (step_ - 1) * demand1 i2 <= N.to_nat (step_ - 1) * demand1 it)%nat by (apply Nat.mul_le_mono_l; lia).
    destruct err; inv H; simpl; rewrite pulls_app, app_length; lia.
  - (* Take *)
    destruct (0 <? remaining).
    + dstep H. inv H. destruct (IH _ _ _ _ Hl E). simpl. auto.
    + inv H. simpl. lia.
  - (* TakeWhile *)
    destruct finished; [inv H; simpl; lia|].
    dstep H. destruct (IH _ _ _ _ Hl E) as [D1 D2].
    destruct o0 as [out|]; [|inv H; simpl; auto].
    destruct out as [v|a b|e]; [| |inv H; simpl; auto].
    + simpl in H. destruct (verdict_of (cb_fun p v)); inv H; simpl; rewrite pulls_app, app_length; simpl; lia.
    + simpl in H. destruct (verdict_of (cb_fun p (VTup [a; b]))); inv H; simpl; rewrite pulls_app, app_length; simpl; lia.
  - (* Zip *)
    destruct (lin_split _ _ Hl) as [[La Nb]|[Na Lb]].
    + dstep H. destruct (IH _ _ _ _ La E) as [D1 D2].
      destruct (option_map collect_pair o0) as [[va|pa pb|e]|].
      * dstep H. destruct (Q _ _ _ _ Nb E0) as [Nb' Hp2].
        destruct (option_map collect_pair o1) as [[vb|qa qb|e]|]; inv H; simpl;
          rewrite pulls_app, Hp2, app_nil_r, (nogen_demand _ Nb'); lia.
      * inv H. simpl. lia.
      * inv H. simpl. lia.
      * inv H. simpl. lia.
    + dstep H. destruct (Q _ _ _ _ Na E) as [Na' Hp].
      destruct (option_map collect_pair o0) as [[va|pa pb|e]|].
      * dstep H. destruct (IH _ _ _ _ Lb E0) as [D1 D2].
        destruct (option_map collect_pair o1) as [[vb|qa qb|e]|]; inv H; simpl;
          rewrite pulls_app, Hp, (nogen_demand _ Na'); simpl; lia.
      * inv H. simpl. rewrite Hp, (nogen_demand _ Na'). simpl. lia.
      * inv H. simpl. rewrite Hp, (nogen_demand _ Na'). simpl. lia.
      * inv H. simpl. rewrite Hp, (nogen_demand _ Na'). simpl. lia.
Qed.

(* k `next` calls pull at most k times the per-call demand of the initial state *)
Inductive StepsN : nat -> iter -> trace -> iter -> Prop :=
| StepsN_nil : forall it, StepsN 0 it [] it
| StepsN_cons : forall k it t o it1 t2 it2, Next Fwd it (t, o, it1) -> StepsN k it1 t2 it2 -> StepsN (S k) it (t ++ t2) it2.

Theorem pull_count_per_output : forall k it t it', StepsN k it t it' -> lin it = true ->
  (length (pulls t) <= k * demand1 it)%nat.
Proof.
  induction 1 as [it|k it t o it1 t2 it2 [n HN] HS IH]; intros Hl; simpl; [lia|].
  destruct (step_acc n _ _ _ _ Hl HN) as [Hl1 _]. destruct (step_dem n _ _ _ _ Hl HN) as [D1 D2].
  specialize (IH Hl1). rewrite pulls_app, app_length.
  assert (k * demand1 it1 <= k * demand1 it)%nat by (apply Nat.mul_le_mono_l; auto). lia.
Qed.
