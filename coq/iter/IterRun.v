(* C13 — what the correspondence check evaluates: the concrete callback family (each member is also
   printed as a koto lambda by checks/c13.py), encoders into flat lists of Z, and `run_case`. *)
From Coq Require Import List ZArith NArith Bool.
From KV.iter Require Import IterModel.
Import ListNotations.
Open Scope N_scope.

Definition on_int (f : Z -> res) (v : value) : res :=
  match v with VInt z => f z | _ => RErr E_OP end.

Definition f_dbl := {| cb_id := 1; cb_fun := on_int (fun z => ROk (VInt (z * 2))) |}.      (* |x| x * 2 *)
Definition f_inc := {| cb_id := 2; cb_fun := on_int (fun z => ROk (VInt (z + 1))) |}.      (* |x| x + 1 *)
Definition f_dup := {| cb_id := 3; cb_fun := on_int (fun z => ROk (VTup [VInt z; VInt (z + 10)])) |}. (* |x| (x, x + 10) *)
Definition f_sum2 := {| cb_id := 4; cb_fun := fun v =>                                     (* |t| t[0] + t[1] *)
  match v with
  | VTup (VInt a :: VInt b :: _) | VList (VInt a :: VInt b :: _) => ROk (VInt (a + b))
  | _ => RErr E_OP
  end |}.
Definition f_id := {| cb_id := 5; cb_fun := ROk |}.                                        (* |x| x *)
Definition p_even := {| cb_id := 6; cb_fun := on_int (fun z => ROk (VBool (Z.rem z 2 =? 0)%Z)) |}. (* |x| x % 2 == 0 *)
Definition p_lt3 := {| cb_id := 7; cb_fun := on_int (fun z => ROk (VBool (z <? 3)%Z)) |}.  (* |x| x < 3 *)
Definition p_true := {| cb_id := 8; cb_fun := fun _ => ROk (VBool true) |}.                (* |x| true *)
Definition p_false := {| cb_id := 9; cb_fun := fun _ => ROk (VBool false) |}.              (* |x| false *)
Definition p_bad := {| cb_id := 10; cb_fun := ROk |}.                                      (* |x| x  (not a Bool) *)
Definition g_add := {| cb2_id := 11; cb2_fun := int_op Z.add |}.                           (* |a, b| a + b *)
Definition g_mix := {| cb2_id := 12; cb2_fun := int_op (fun a b => a * 2 + b)%Z |}.        (* |a, b| a * 2 + b *)
Definition f_sep := {| cb_id := 13; cb_fun := fun _ => ROk (VInt 99) |}.                   (* || 99 *)
Definition f_thr := {| cb_id := 15; cb_fun := on_int (fun z => if (z =? 4)%Z then RErr E_THROW else ROk (VInt z)) |}. (* throws on 4, else x *)
Definition p_thr := {| cb_id := 16; cb_fun := on_int (fun z => if (z =? 1)%Z then RErr E_THROW else ROk (VBool true)) |}. (* throws on 1, else true *)
Definition p_gt1 := {| cb_id := 14; cb_fun := on_int (fun z => ROk (VBool (1 <? z)%Z)) |}. (* |x| x > 1 *)

(* ---- encoders: a value as a flat list of Z (prefix code) ---- *)
Fixpoint enc_value (v : value) : list Z :=
  match v with
  | VNull => [0%Z]
  | VBool b => [1%Z; if b then 1%Z else 0%Z]
  | VInt z => [2%Z; z]
  | VStr s => 3%Z :: Z.of_nat (length s) :: map Z.of_N s
  | VTup l => 4%Z :: Z.of_nat (length l) :: (fix go (l : list value) := match l with [] => [] | x :: r => enc_value x ++ go r end) l
  | VList l => 5%Z :: Z.of_nat (length l) :: (fix go (l : list value) := match l with [] => [] | x :: r => enc_value x ++ go r end) l
  end.

Definition enc_res (r : res) : list Z :=
  match r with ROk v => 0%Z :: enc_value v | RErr e => [1%Z; Z.of_N e] end.

Definition enc_event (e : event) : list Z :=
  match e with
  | EvPull id v => 10%Z :: Z.of_N id :: enc_value v
  | EvEnd id => [11%Z; Z.of_N id]
  | EvCall id a => 12%Z :: Z.of_N id :: enc_value a
  | EvOut r => 13%Z :: enc_res r
  | EvNone => [14%Z]
  | EvFail id => [15%Z; Z.of_N id]
  end.

Definition enc_cres (r : cres) : list Z :=
  match r with CVal v => 0%Z :: enc_value v | CErr e => [1%Z; Z.of_N e] end.

Definition FUEL : nat := Nat.pow 2 11.   (* 2048; kept symbolic: a unary literal is costly to re-check per evaluation *)

(* status 0 = ran; 1 = a constructor refused (runtime error before anything is pulled); 2 = out of fuel *)
Definition run_case (src : iter) (p : list stage) (c : consumer) : Z * list (list Z) * list Z :=
  match build p src with
  | None => (1%Z, [], [])
  | Some it =>
    match consume c FUEL it with
    | None => (2%Z, [], [])
    | Some (t, r, _) => (0%Z, map enc_event t, enc_cres r)
    end
  end.
