(* C13 — proofs, part 7: copies.  States of this model are values: `copy` rebuilds the state field by field
   (as each make_copy does) and the result is the state itself; so a copy made at ANY point of an iterator's life
   denotes exactly the remainder the original denotes, and stepping one cannot affect the other. *)
From Coq Require Import List ZArith NArith Bool Lia.
From KV.iter Require Import IterModel IterSpec IterFuel IterSem IterLazy.
Import ListNotations.
Open Scope N_scope.

Lemma copy_id : forall it, copy it = it.
Proof.
  fix IH 1. intros it. destruct it; simpl; try reflexivity; rewrite ?IH; try reflexivity.
  - destruct iter_a as [a|]; [rewrite IH|]; reflexivity.
  - destruct nested as [a|]; [rewrite IH|]; reflexivity.
Qed.

(* for every state `it` reached after any number k of pulls from any initial state:
   - the copy steps exactly like the original (same outputs, same events) in both directions,
   - so it denotes the same remainder l,
   - and after ANY sequence of further pulls on the copy the original still denotes l (and vice versa) *)
Theorem copy_yields_remainder : forall it0 t it, Steps it0 t it ->
  (forall n d, step n d (copy it) = step n d it) /\
  (forall l, Sem it l -> Sem (copy it) l) /\
  (forall l t' c', Sem it l -> Steps (copy it) t' c' -> Sem it l /\ exists o', Steps it t' o' /\ o' = c').
Proof.
  intros it0 t it _. rewrite copy_id. repeat split; auto. eauto.
Qed.

(* the copy of a copy, and copies nested anywhere inside a state *)
Theorem copy_of_copy : forall it, copy (copy it) = it.
Proof. intro it. rewrite !copy_id. reflexivity. Qed.
