(* C11, layer "source slices": executable model of

     FormatContext::new           (line_offsets)            crates/format/src/format.rs
     FormatContext::source_slice  (byte range from spans)   crates/format/src/format.rs
     the lexer's line/column bookkeeping                    crates/lexer/src/lexer.rs

   Definitions only (proofs: SliceProofs.v).  A source is a list of Unicode code points; its
   UTF-8 encoding is implicit: `utf8_len c` bytes per code point.

   source_slice computes a BYTE range  line_offsets[line] + column  from the lexer's COLUMNS.
   The lexer advances `column` by the display width (crate unicode-width, 0/1/2) of each
   character of identifiers / strings / comments, and by one per (ASCII) character elsewhere;
   after '\n': line += 1, column = 0.  The width function is external: a parameter `width`.

   Not modelled: the `as u32` casts of FormatContext::new / the u32 additions in source_slice
   (sources of 4 GiB and more). *)
From Coq Require Import NArith List Bool.
Import ListNotations.
Open Scope N_scope.

Definition ch_nl : N := 10.   (* '\n' *)

(* char::len_utf8 *)
Definition utf8_len (c : N) : N :=
  if c <? 128 then 1 else if c <? 2048 then 2 else if c <? 65536 then 3 else 4.

Fixpoint byte_len (s : list N) : N :=
  match s with [] => 0 | c :: t => utf8_len c + byte_len t end.

(* source.char_indices().filter_map(|(i, c)| if c == '\n' { Some(i as u32 + 1) } else { None });
   off = byte index of the next character *)
Fixpoint lo_aux (s : list N) (off : N) : list N :=
  match s with
  | [] => []
  | c :: t => if c =? ch_nl then (off + 1) :: lo_aux t (off + utf8_len c)
              else lo_aux t (off + utf8_len c)
  end.
(* iter::once(0).chain(..) *)
Definition line_offsets (s : list N) : list N := 0 :: lo_aux s 0.

Inductive slice_res := SliceOk (cps : list N) | SlicePanic.

(* drop exactly k bytes; None when byte k is not a character boundary or k > byte length *)
Fixpoint skip_bytes (s : list N) (k : N) : option (list N) :=
  if k =? 0 then Some s else
  match s with
  | [] => None
  | c :: t => if utf8_len c <=? k then skip_bytes t (k - utf8_len c) else None
  end.

(* take exactly k bytes; None when byte k is not a character boundary or k > byte length *)
Fixpoint take_bytes (s : list N) (k : N) : option (list N) :=
  if k =? 0 then Some [] else
  match s with
  | [] => None
  | c :: t => if utf8_len c <=? k then
                match take_bytes t (k - utf8_len c) with
                | Some r => Some (c :: r)
                | None => None
                end
              else None
  end.

(* &source[start..end]: panics when start > end, end > len, or start / end is not on a
   character boundary *)
Definition str_index (s : list N) (b e : N) : slice_res :=
  if e <? b then SlicePanic else
  match skip_bytes s b with
  | None => SlicePanic
  | Some s' => match take_bytes s' (e - b) with
               | None => SlicePanic
               | Some r => SliceOk r
               end
  end.

(* FormatContext::source_slice; the span is (start.line, start.column, end.line, end.column);
   self.line_offsets[..] panics when the line index is out of range *)
Definition source_slice (s : list N) (span : N * N * N * N) : slice_res :=
  let '(sl, sc, el, ec) := span in
  let offs := line_offsets s in
  match nth_error offs (N.to_nat sl), nth_error offs (N.to_nat el) with
  | Some a, Some b => str_index s (a + sc) (b + ec)
  | _, _ => SlicePanic
  end.

(* ---- the lexer's positions ---- *)
Definition has_nl (s : list N) : bool := existsb (fun c => c =? ch_nl) s.
Definition no_newline (s : list N) : Prop := has_nl s = false.

Fixpoint count_nl (s : list N) : N :=
  match s with [] => 0 | c :: t => if c =? ch_nl then 1 + count_nl t else count_nl t end.

(* the part of pre after its last '\n' (all of pre when there is none) *)
Fixpoint line_prefix (pre : list N) : list N :=
  match pre with
  | [] => []
  | c :: r => if has_nl r then line_prefix r else if c =? ch_nl then r else c :: r
  end.

Section Span.
  (* the display width of a character as the lexer counts it (unicode-width: 0, 1 or 2) *)
  Variable width : N -> N.

  Fixpoint sum_width (s : list N) : N :=
    match s with [] => 0 | c :: t => width c + sum_width t end.

  (* span of a token with text t (no '\n' inside) that starts right after pre *)
  Definition tok_span (pre t : list N) : N * N * N * N :=
    let line := count_nl pre in
    let col := sum_width (line_prefix pre) in
    (line, col, line, col + sum_width t).

  (* class predicate of the check: some character before the token on its line, or of the
     token, is not one column per byte *)
  Definition non_ascii_before (pre t : list N) : bool :=
    existsb (fun c => negb (width c =? utf8_len c)) (line_prefix pre ++ t).
End Span.
