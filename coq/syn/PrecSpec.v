(* Conventional operator precedence and associativity of koto's binary operators,
   written independently of the climbing code (PrecModel): a level / associativity
   table, the binding powers derived from it, and the PRINTER that turns an
   expression tree into tokens, inserting parentheses where (and only where)
   precedence / associativity require them.

   C01's clause "conventional operator precedence and associativity" is:
   parsing what this printer prints gives the tree back (PrecProofs.prec_roundtrip),
   for the table transcribed from the Rust source (PrecProofs.gen_prec_eq_spec). *)
From Coq Require Import NArith List Bool.
From KV.syn Require Import SynBase PrecModel.
Import ListNotations.
Open Scope N_scope.

Inductive assoc_t := AssocLeft | AssocRight.

(* Loosest (1) to tightest (9). *)
Definition level (o : binop) : N :=
  match o with
  | OpPipe => 1
  | OpAddAssign | OpSubtractAssign | OpMultiplyAssign
  | OpDivideAssign | OpRemainderAssign | OpPowerAssign => 2
  | OpOr => 3
  | OpAnd => 4
  | OpEqual | OpNotEqual => 5
  | OpLess | OpLessOrEqual | OpGreater | OpGreaterOrEqual => 6
  | OpAdd | OpSubtract => 7
  | OpMultiply | OpDivide | OpRemainder => 8
  | OpPower => 9
  end.

(* koto chains comparisons (a < b < c), which makes them right-nested;
   `^` is LEFT-associative in koto. *)
Definition assoc (o : binop) : assoc_t :=
  match o with
  | OpAddAssign | OpSubtractAssign | OpMultiplyAssign
  | OpDivideAssign | OpRemainderAssign | OpPowerAssign => AssocRight
  | OpEqual | OpNotEqual => AssocRight
  | OpLess | OpLessOrEqual | OpGreater | OpGreaterOrEqual => AssocRight
  | _ => AssocLeft
  end.

(* (left, right) binding powers of a level / associativity. *)
Definition spec_prec (o : binop) : N * N :=
  match assoc o with
  | AssocLeft => (2 * level o - 1, 2 * level o)
  | AssocRight => (2 * level o, 2 * level o - 1)
  end.

(* ---- the printer, for an arbitrary binding-power table ---- *)
Section Flat.
Variable prec : binop -> N * N.

(* Does `Bin o _ _` need parentheses in a context that accepts only operators of left
   binding power >= m, and where the next token after the subtree is the operator
   `follow` (None: end of input or a closing parenthesis)?
   - its own operator is too loose for the context, or
   - its right operand would capture the operator that follows. *)
Definition needs_parens (m : N) (follow : option binop) (o : binop) : bool :=
  (fst (prec o) <? m) ||
  match follow with
  | Some f => snd (prec o) <=? fst (prec f)
  | None => false
  end.

Fixpoint flat (m : N) (follow : option binop) (t : tree) : list ptok :=
  match t with
  | Leaf n => [PAtom n]
  | Bin o l r =>
      if needs_parens m follow o
      then PLParen :: (flat 0 (Some o) l ++ [POp o] ++ flat (snd (prec o)) None r) ++ [PRParen]
      else flat m (Some o) l ++ [POp o] ++ flat (snd (prec o)) follow r
  end.

End Flat.

Definition flatten (t : tree) : list ptok := flat spec_prec 0 None t.

(* A subtree used as an operand regardless of context: atoms as they are, anything else
   in parentheses.  (Used to state the precedence corollaries for ALL subtrees.) *)
Definition par (t : tree) : list ptok :=
  match t with
  | Leaf n => [PAtom n]
  | _ => PLParen :: flatten t ++ [PRParen]
  end.

(* ---- the same printer written directly from level / assoc (textbook rule) ----
   A child `Bin o' ..` of `Bin o ..` is parenthesised iff it binds looser than o, or binds
   equally and sits on the side against o's associativity.
   PrecProofs.flatten_eq_conv: flatten = conv. *)
Definition child_needs_parens (side : assoc_t) (o o' : binop) : bool :=
  (level o' <? level o) ||
  ((level o' =? level o) &&
   match side, assoc o with
   | AssocLeft, AssocRight => true
   | AssocRight, AssocLeft => true
   | _, _ => false
   end).

Definition paren_if (b : bool) (ts : list ptok) : list ptok :=
  if b then PLParen :: ts ++ [PRParen] else ts.

Definition top_op (t : tree) : option binop :=
  match t with Leaf _ => None | Bin o _ _ => Some o end.

Definition child_parens (side : assoc_t) (o : binop) (c : tree) : bool :=
  match top_op c with
  | None => false
  | Some o' => child_needs_parens side o o'
  end.

Fixpoint conv (t : tree) : list ptok :=
  match t with
  | Leaf n => [PAtom n]
  | Bin o l r =>
      paren_if (child_parens AssocLeft o l) (conv l) ++ [POp o] ++
      paren_if (child_parens AssocRight o r) (conv r)
  end.

(* ---- examples ---- *)
Local Notation A := (Leaf 0).
Local Notation B := (Leaf 1).
Local Notation C := (Leaf 2).
Local Notation a := (PAtom 0).
Local Notation b := (PAtom 1).
Local Notation c := (PAtom 2).

Example flatten_sub_left : (* (a - b) - c *)
  flatten (Bin OpSubtract (Bin OpSubtract A B) C) = [a; POp OpSubtract; b; POp OpSubtract; c].
Proof. vm_compute; reflexivity. Qed.

Example flatten_sub_right : (* a - (b - c) *)
  flatten (Bin OpSubtract A (Bin OpSubtract B C)) =
  [a; POp OpSubtract; PLParen; b; POp OpSubtract; c; PRParen].
Proof. vm_compute; reflexivity. Qed.

Example flatten_add_mul : (* (a + b) * c *)
  flatten (Bin OpMultiply (Bin OpAdd A B) C) =
  [PLParen; a; POp OpAdd; b; PRParen; POp OpMultiply; c].
Proof. vm_compute; reflexivity. Qed.

Example flatten_add_mul' : (* a + (b * c) *)
  flatten (Bin OpAdd A (Bin OpMultiply B C)) = [a; POp OpAdd; b; POp OpMultiply; c].
Proof. vm_compute; reflexivity. Qed.

Example flatten_pow_left : (* (a ^ b) ^ c : `^` is left-associative *)
  flatten (Bin OpPower (Bin OpPower A B) C) = [a; POp OpPower; b; POp OpPower; c].
Proof. vm_compute; reflexivity. Qed.

Example flatten_pow_right : (* a ^ (b ^ c) *)
  flatten (Bin OpPower A (Bin OpPower B C)) =
  [a; POp OpPower; PLParen; b; POp OpPower; c; PRParen].
Proof. vm_compute; reflexivity. Qed.

Example flatten_cmp_right : (* a < (b < c) : comparisons nest to the right *)
  flatten (Bin OpLess A (Bin OpLess B C)) = [a; POp OpLess; b; POp OpLess; c].
Proof. vm_compute; reflexivity. Qed.

Example flatten_cmp_left : (* (a < b) < c *)
  flatten (Bin OpLess (Bin OpLess A B) C) =
  [PLParen; a; POp OpLess; b; PRParen; POp OpLess; c].
Proof. vm_compute; reflexivity. Qed.

Example flatten_assign_right : (* a += (b -= c) *)
  flatten (Bin OpAddAssign A (Bin OpSubtractAssign B C)) =
  [a; POp OpAddAssign; b; POp OpSubtractAssign; c].
Proof. vm_compute; reflexivity. Qed.

Example flatten_or_and : (* (a or b) and c *)
  flatten (Bin OpAnd (Bin OpOr A B) C) =
  [PLParen; a; POp OpOr; b; PRParen; POp OpAnd; c].
Proof. vm_compute; reflexivity. Qed.

Example flatten_pipe : (* (a -> b) -> (a or b) *)
  flatten (Bin OpPipe (Bin OpPipe A B) (Bin OpOr A B)) =
  [a; POp OpPipe; b; POp OpPipe; a; POp OpOr; b].
Proof. vm_compute; reflexivity. Qed.

Example flatten_deep : (* ((a + (b * c)) < c) and (a - (b - c)) *)
  flatten (Bin OpAnd (Bin OpLess (Bin OpAdd A (Bin OpMultiply B C)) C)
                     (Bin OpSubtract A (Bin OpSubtract B C))) =
  [a; POp OpAdd; b; POp OpMultiply; c; POp OpLess; c; POp OpAnd;
   a; POp OpSubtract; PLParen; b; POp OpSubtract; c; PRParen].
Proof. vm_compute; reflexivity. Qed.

Example conv_deep :
  conv (Bin OpAnd (Bin OpLess (Bin OpAdd A (Bin OpMultiply B C)) C)
                  (Bin OpSubtract A (Bin OpSubtract B C))) =
  [a; POp OpAdd; b; POp OpMultiply; c; POp OpLess; c; POp OpAnd;
   a; POp OpSubtract; PLParen; b; POp OpSubtract; c; PRParen].
Proof. vm_compute; reflexivity. Qed.
