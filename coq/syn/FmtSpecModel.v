(* C11, layer "format options": executable model of

     StringFormatOptions::parse + consume_u32   (crates/parser/src/string_format_options.rs)
     render_format_options                      (crates/format/src/format.rs)

   Definitions only (proofs: FmtSpecProofs.v).  Strings are lists of Unicode code points.
   The model is shaped like the Rust code: one loop over the remaining characters carrying
   `position` and the partial result, the arms of the big `match` tried in the Rust order
   (first match wins).  The tables come from the GENERATED file GenFmtSpec.v:
     gen_repr_chars    -- the characters that select a representation (the seven arms
                          ('?'|'b'|'o'|'x'|'X'|'e'|'E', _, Start|MinWidth|Precision|Type))
     gen_render_fields -- the fields render_format_options() writes, in order.

   External: `first_grapheme_len s` = the number of code points of the first extended
   grapheme cluster of s (crate unicode-segmentation, `s.graphemes(true).next()`); it is
   an argument of parse_sfo (a Section variable in the proofs).

   Not modelled: the constant pool.  Rust stores `fill_character` as the ConstantIndex of
   the fill string; the model stores the string itself (add_string can only fail with
   InternalError when the pool is full; that error class is outside the model). *)
From Coq Require Import NArith List Bool.
From KV.syn Require Import SynBase GenFmtSpec.
Import ListNotations.
Open Scope N_scope.

Record sfo := mksfo {
  o_alignment : alignment;
  o_min_width : option N;
  o_precision : option N;
  o_fill      : option (list N);  (* the fill string; Rust stores a constant-pool index to it *)
  o_repr      : option repr }.

Inductive sfo_result :=
| FOk (o : sfo)
| FErrExpectedNumber (c : N)
| FErrTooLarge (n : N)
| FErrUnexpected (c : N).

(* Self::default() *)
Definition sfo_default : sfo := mksfo ADefault None None None None.

Definition set_alignment (o : sfo) (a : alignment) : sfo :=
  mksfo a (o_min_width o) (o_precision o) (o_fill o) (o_repr o).
Definition set_min_width (o : sfo) (w : option N) : sfo :=
  mksfo (o_alignment o) w (o_precision o) (o_fill o) (o_repr o).
Definition set_precision (o : sfo) (p : option N) : sfo :=
  mksfo (o_alignment o) (o_min_width o) p (o_fill o) (o_repr o).
Definition set_fill (o : sfo) (f : option (list N)) : sfo :=
  mksfo (o_alignment o) (o_min_width o) (o_precision o) f (o_repr o).
Definition set_repr (o : sfo) (r : option repr) : sfo :=
  mksfo (o_alignment o) (o_min_width o) (o_precision o) (o_fill o) r.

(* enum FormatParsePosition *)
Inductive position := PStart | PAlignment | PMinWidth | PPrecision | PType | PEnd.

(* ---- characters ---- *)
Definition ch_lt : N := 60.     (* '<' *)
Definition ch_gt : N := 62.     (* '>' *)
Definition ch_caret : N := 94.  (* '^' *)
Definition ch_0 : N := 48.      (* '0' *)
Definition ch_9 : N := 57.      (* '9' *)
Definition ch_dot : N := 46.    (* '.' *)

(* the pattern '<' | '^' | '>' *)
Definition is_align (c : N) : bool := (c =? ch_lt) || (c =? ch_caret) || (c =? ch_gt).
(* the pattern '0'..='9' *)
Definition is_digit (c : N) : bool := (ch_0 <=? c) && (c <=? ch_9).

(* char_to_alignment; the `_ => unreachable!()` arm is never reached because every call is
   guarded by the pattern '<' | '^' | '>' (model: ADefault there) *)
Definition char_to_alignment (c : N) : alignment :=
  if c =? ch_lt then ALeft else if c =? ch_caret then ACenter else if c =? ch_gt then ARight
  else ADefault.

(* char::to_digit(10) *)
Definition to_digit10 (c : N) : option N := if is_digit c then Some (c - ch_0) else None.

Definition repr_eqb (a b : repr) : bool :=
  match a, b with
  | RDebug, RDebug | RHexLower, RHexLower | RHexUpper, RHexUpper | RBinary, RBinary
  | ROctal, ROctal | RExpLower, RExpLower | RExpUpper, RExpUpper => true
  | _, _ => false
  end.

(* the seven representation arms, as a lookup in the generated table *)
Fixpoint repr_lookup (tbl : list (N * repr)) (c : N) : option repr :=
  match tbl with
  | [] => None
  | (k, r) :: tbl' => if c =? k then Some r else repr_lookup tbl' c
  end.
Definition repr_of_char (c : N) : option repr := repr_lookup gen_repr_chars c.

(* the inverse direction (used by the renderer's FRepr case) *)
Fixpoint repr_char_lookup (tbl : list (N * repr)) (r : repr) : option N :=
  match tbl with
  | [] => None
  | (k, r') :: tbl' => if repr_eqb r r' then Some k else repr_char_lookup tbl' r
  end.
Definition char_of_repr (r : repr) : option N := repr_char_lookup gen_repr_chars r.

(* the renderer's OWN representation -> character match (render_format_options, regenerated into
   gen_render_repr_chars) *)
Fixpoint render_repr_lookup (tbl : list (repr * N)) (r : repr) : option N :=
  match tbl with
  | [] => None
  | (r', k) :: tbl' => if repr_eqb r r' then Some k else render_repr_lookup tbl' r
  end.
Definition render_char_of_repr (r : repr) : option N := render_repr_lookup gen_render_repr_chars r.

(* ---- consume_u32 ---- *)
Definition u32_max : N := 4294967295.
Definition two64 : N := 18446744073709551616.
Definition two32 : N := 4294967296.

Inductive cres :=
| COk (n : N) (rest : list N)   (* Ok(n), and what is left in the `chars` iterator *)
| CErr (e : sfo_result).

(* the `while let Some(n_next @ '0'..='9') = chars.peek().cloned()` loop; n is the u64
   accumulator (u64 multiplication / addition written with their wrap-around; they never
   wrap because n <= u32::MAX on entry of every iteration -- see FmtSpecProofs) *)
Fixpoint consume_loop (first : N) (n : N) (chars : list N) : cres :=
  match chars with
  | c :: rest =>
      if is_digit c then
        (* chars.next() *)
        match to_digit10 c with
        | None => CErr (FErrExpectedNumber first)
        | Some d =>
            let n1 := (n * 10) mod two64 in
            let n2 := (n1 + d) mod two64 in
            if u32_max <? n2 then CErr (FErrTooLarge n2)
            else consume_loop first n2 rest
        end
      else COk (n mod two32) chars        (* Ok(n as u32) *)
  | [] => COk (n mod two32) []
  end.

Definition consume_u32 (first : N) (chars : list N) : cres :=
  match to_digit10 first with
  | None => CErr (FErrExpectedNumber first)
  | Some d => consume_loop first d chars
  end.

(* ---- StringFormatOptions::parse ---- *)

(* result of one iteration of `while let Some(next) = chars.next() { match ... }` *)
Inductive step_res :=
| SDone (r : sfo_result)                                   (* return Err(..) *)
| SCont (chars : list N) (pos : position) (res : sfo).     (* next iteration *)

Definition pos_is_start (p : position) : bool := match p with PStart => true | _ => false end.
(* Start | Alignment *)
Definition pos_in_sa (p : position) : bool :=
  match p with PStart | PAlignment => true | _ => false end.
(* Start | MinWidth *)
Definition pos_in_sm (p : position) : bool :=
  match p with PStart | PMinWidth => true | _ => false end.
(* Start | MinWidth | Precision *)
Definition pos_in_smp (p : position) : bool :=
  match p with PStart | PMinWidth | PPrecision => true | _ => false end.
(* Start | MinWidth | Precision | Type *)
Definition pos_in_smpt (p : position) : bool :=
  match p with PStart | PMinWidth | PPrecision | PType => true | _ => false end.

Definition peek_is_digit (rest : list N) : bool :=
  match rest with c :: _ => is_digit c | [] => false end.
Definition peek_is_some (rest : list N) : bool :=
  match rest with _ :: _ => true | [] => false end.

Section Parse.
  (* code points in the first extended grapheme cluster of the whole format string *)
  Variable first_grapheme_len : list N -> nat.

  (* arms 2..14 of the match (everything but the first arm).
     s = the whole format string, next = chars.next(), rest = the iterator after it
     (chars.peek() = hd rest) *)
  Definition step_arms_2_14 (s : list N) (next : N) (rest : list N) (pos : position) (res : sfo)
    : step_res :=
    (* ('<' | '^' | '>', _, Start | Alignment) *)
    if is_align next && pos_in_sa pos then
      SCont rest PMinWidth (set_alignment res (char_to_alignment next))
    (* ('0', Some('0'..='9'), Start | MinWidth) *)
    else if (next =? ch_0) && peek_is_digit rest && pos_in_sm pos then
      SCont rest PMinWidth (set_fill res (Some [ch_0]))
    (* ('0'..='9', _, Start | MinWidth) *)
    else if is_digit next && pos_in_sm pos then
      match consume_u32 next rest with
      | CErr e => SDone e
      | COk n rest' => SCont rest' PPrecision (set_min_width res (Some n))
      end
    (* ('.', Some(_), Start | MinWidth | Precision) *)
    else if (next =? ch_dot) && peek_is_some rest && pos_in_smp pos then
      match rest with
      | first_digit :: rest1 =>                     (* chars.next().unwrap() *)
          match consume_u32 first_digit rest1 with
          | CErr e => SDone e
          | COk n rest' => SCont rest' PType (set_precision res (Some n))
          end
      | [] => SDone (FErrUnexpected next)           (* excluded by the guard *)
      end
    else
      (* ('?'|'b'|'o'|'x'|'X'|'e'|'E', _, Start | MinWidth | Precision | Type) *)
      match (if pos_in_smpt pos then repr_of_char next else None) with
      | Some r => SCont rest PEnd (set_repr res (Some r))
      | None =>
          (* (_, _, Start): the first grapheme cluster of the format string is the fill, and
             the char iterator RESTARTS after it *)
          if pos_is_start pos then
            let n := first_grapheme_len s in
            SCont (skipn n s) PAlignment (set_fill res (Some (firstn n s)))
          (* (other, _, _) *)
          else SDone (FErrUnexpected next)
      end.

  Definition parse_step (s : list N) (next : N) (rest : list N) (pos : position) (res : sfo)
    : step_res :=
    match pos, rest with
    | PStart, a :: rest' =>
        (* (_, Some('<' | '^' | '>'), Start): single-char fill.
           &format_string[0..next.len_utf8()] is the string [next]: position is Start only in the
           first iteration, where next is the first character of format_string *)
        if is_align a then
          SCont rest' PMinWidth
                (set_alignment (set_fill res (Some [next])) (char_to_alignment a))
        else step_arms_2_14 s next rest pos res
    | _, _ => step_arms_2_14 s next rest pos res
    end.

  (* the while loop.  Every iteration consumes at least one character, except the grapheme arm,
     which can fire only once (it leaves Start, and no arm goes back to Start); hence
     2*|s| + 2 iterations are enough (parse_fuel_enough in FmtSpecProofs: the out-of-fuel
     branch is never reached from parse_sfo) *)
  Fixpoint parse_loop (fuel : nat) (s chars : list N) (pos : position) (res : sfo) : sfo_result :=
    match fuel with
    | O => FErrUnexpected 0
    | S fuel' =>
        match chars with
        | [] => FOk res
        | next :: rest =>
            match parse_step s next rest pos res with
            | SDone r => r
            | SCont chars' pos' res' => parse_loop fuel' s chars' pos' res'
            end
        end
    end.

  Definition parse_fuel (s : list N) : nat := S (S (length s + length s)).

  Definition parse_sfo (s : list N) : sfo_result :=
    parse_loop (parse_fuel s) s s PStart sfo_default.
End Parse.

(* ---- render_format_options ---- *)

(* u32::to_string: decimal digits, most significant first, "0" for 0.
   dec_rev produces the digits least significant first; a number n has at most log2 n + 1
   decimal digits, which is the fuel *)
Fixpoint dec_rev (fuel : nat) (n : N) : list N :=
  match fuel with
  | O => []
  | S fuel' => (ch_0 + n mod 10) :: (if n / 10 =? 0 then [] else dec_rev fuel' (n / 10))
  end.
Definition dec_digits (n : N) : list N := rev (dec_rev (S (N.to_nat (N.log2 n))) n).

Definition align_chars (a : alignment) : list N :=
  match a with ADefault => [] | ALeft => [ch_lt] | ACenter => [ch_caret] | ARight => [ch_gt] end.

Definition render_field (o : sfo) (f : rfield) : list N :=
  match f with
  | FFill => match o_fill o with Some g => g | None => [] end
  | FAlign => align_chars (o_alignment o)
  | FWidth => match o_min_width o with Some w => dec_digits w | None => [] end
  | FPrecision => match o_precision o with Some p => ch_dot :: dec_digits p | None => [] end
  | FRepr =>
      (* `if let Some(representation) = options.representation { result.push(match representation {..}) }`
         (written since koto 06483c8; the character table is the renderer's own, regenerated) *)
      match o_repr o with
      | Some r => match render_char_of_repr r with Some c => [c] | None => [] end
      | None => []
      end
  end.

Definition render_fields (fs : list rfield) (o : sfo) : list N :=
  flat_map (render_field o) fs.

Definition render_sfo (o : sfo) : list N := render_fields gen_render_fields o.

(* the class of options the current renderer is known to lose *)
Definition drops_repr (o : sfo) : bool :=
  match o_repr o with Some _ => true | None => false end.
