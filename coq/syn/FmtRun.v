(* Encoders for the C11 correspondence check (format options, source slices).
   Every result is a nested tuple / list of N numbers and bools; Coq prints a nested tuple
   ((a, b), c) flat, as (a, b, c).

   ENCODING
   --------
   option x          None -> []            Some x -> [x]
   alignment         0 Default, 1 Left, 2 Center, 3 Right          (StringAlignment as u8)
   repr              0 Debug, 1 HexLower, 2 HexUpper, 3 Binary, 4 Octal, 5 ExpLower, 6 ExpUpper
                                                                   (StringFormatRepresentation as u8)
   string            list of code points
   sfo  (enc_sfo)    (alignment, min_width, precision, fill, repr)
                       alignment : N
                       min_width : [] | [n]
                       precision : [] | [n]
                       fill      : [] | [code points of the fill STRING]   (the string the
                                   ConstantIndex refers to, not the index)
                       repr      : [] | [r]
   sfo_result (enc_res)   (tag, options, payload)
                       tag 0 = Ok                        options = [enc_sfo o], payload = []
                       tag 1 = ExpectedNumber(c)         options = [], payload = [c]  (code point)
                       tag 2 = FormatNumberIsTooLarge(n) options = [], payload = [n]  (the u64)
                       tag 3 = UnexpectedToken(c)        options = [], payload = [c]  (code point)
                     (InternalError -- a full constant pool -- is outside the model)

   run_fmtspec glen s  =  (parsed, rendered, reparsed, dropped)
                       NOTE: Coq prints the leading triple flat, i.e. the value reads
                         (tag, options, payload, rendered, (tag', options', payload'), dropped)
                       -- six components, the 5th being the nested reparsed triple.
                       glen     : nat (write 1%nat), the number of code points of the first
                                  extended grapheme cluster of s (the model uses the constant
                                  oracle fun _ => glen, also for the re-parse: if the rendering
                                  starts with a multi-code-point cluster, it is the same cluster)
                       parsed   = enc_res (StringFormatOptions::parse(s))
                       rendered = code points of render_format_options(o) when parsed is Ok,
                                  [] otherwise
                       reparsed = enc_res (StringFormatOptions::parse(rendered)) when parsed is Ok,
                                  (4, [], []) otherwise          (tag 4 = "not applicable")
                       dropped  : bool = "the options carry a representation" (historical name: the
                                  class of the defect fixed by koto 06483c8; false when parsed is
                                  not Ok).  Whenever parsed is Ok, reparsed = parsed is a THEOREM
                                  (format_spec_roundtrip).

   run_slice wtab pre t post  =  (start_line, start_col, end_line, end_col, tag, cps, nonascii)
                       the source is pre ++ t ++ post, the token text is t (no '\n' in t)
                       wtab     : list of (code point, display width) pairs for the non-ASCII
                                  characters of the source (unicode-width); the width used is
                                     1 for 32..126, 0 for every other code point below 128,
                                     the table entry otherwise, 1 when there is none
                       start_line .. end_col : the lexer's span of the token (tok_span)
                       tag 0 = source_slice returned a string, cps = its code points
                       tag 1 = source_slice panics (index out of range / not a char boundary),
                               cps = []
                       nonascii : bool = non_ascii_before (the class outside of which
                                  cps = t is a THEOREM: slice_is_token_text_class) *)
From Coq Require Import NArith List Bool.
From KV.syn Require Import SynBase GenFmtSpec FmtSpecModel SliceModel.
Import ListNotations.
Open Scope N_scope.

Definition enc_opt {A} (x : option A) : list A := match x with Some a => [a] | None => [] end.

Definition enc_alignment (a : alignment) : N :=
  match a with ADefault => 0 | ALeft => 1 | ACenter => 2 | ARight => 3 end.

Definition enc_repr (r : repr) : N :=
  match r with
  | RDebug => 0 | RHexLower => 1 | RHexUpper => 2 | RBinary => 3 | ROctal => 4
  | RExpLower => 5 | RExpUpper => 6
  end.

Definition sfo_enc : Type := (N * list N * list N * list (list N) * list N)%type.

Definition enc_sfo (o : sfo) : sfo_enc :=
  (enc_alignment (o_alignment o), enc_opt (o_min_width o), enc_opt (o_precision o),
   enc_opt (o_fill o), enc_opt (option_map enc_repr (o_repr o))).

Definition res_enc : Type := (N * list sfo_enc * list N)%type.

Definition enc_res (r : sfo_result) : res_enc :=
  match r with
  | FOk o => (0, [enc_sfo o], [])
  | FErrExpectedNumber c => (1, [], [c])
  | FErrTooLarge n => (2, [], [n])
  | FErrUnexpected c => (3, [], [c])
  end.

Definition run_fmtspec (glen : nat) (s : list N) : res_enc * list N * res_enc * bool :=
  let G := fun _ : list N => glen in
  let r := parse_sfo G s in
  match r with
  | FOk o => (enc_res r, render_sfo o, enc_res (parse_sfo G (render_sfo o)), drops_repr o)
  | _ => (enc_res r, [], (4, [], []), false)
  end.

(* ---- slices ---- *)
Fixpoint wtab_lookup (wtab : list (N * N)) (c : N) : option N :=
  match wtab with
  | [] => None
  | (k, w) :: tl => if c =? k then Some w else wtab_lookup tl c
  end.

Definition width_of (wtab : list (N * N)) (c : N) : N :=
  if c <? 128 then (if (32 <=? c) && (c <=? 126) then 1 else 0)
  else match wtab_lookup wtab c with Some w => w | None => 1 end.

Definition run_slice (wtab : list (N * N)) (pre t post : list N)
  : N * N * N * N * N * list N * bool :=
  let w := width_of wtab in
  let '(sl, sc, el, ec) := tok_span w pre t in
  let na := non_ascii_before w pre t in
  match source_slice (pre ++ t ++ post) (sl, sc, el, ec) with
  | SliceOk cps => (sl, sc, el, ec, 0, cps, na)
  | SlicePanic => (sl, sc, el, ec, 1, [], na)
  end.

(* smoke tests of the encoders *)
Example run_fmtspec_08 :
  run_fmtspec 1 [48; 56]
  = ((0, [(0, [8], [], [[48]], [])], []), [48; 56], (0, [(0, [8], [], [[48]], [])], []), false).
Proof. vm_compute. reflexivity. Qed.

Example run_fmtspec_x :
  run_fmtspec 1 [120]
  = ((0, [(0, [], [], [], [1])], []), [120], (0, [(0, [], [], [], [1])], []), true).
Proof. vm_compute. reflexivity. Qed.

Example run_fmtspec_err :
  run_fmtspec 1 [97; 53] = ((3, [], [53]), [], (4, [], []), false).
Proof. vm_compute. reflexivity. Qed.

Example run_slice_e_acute :
  run_slice [(233, 1)] [233; 32; 61; 32] [57; 57] [] = (0, 4, 0, 6, 0, [32; 57], true).
Proof. vm_compute. reflexivity. Qed.

Example run_slice_panic :
  run_slice [(26085, 2); (26412, 2)]
            [120; 32; 61; 32; 34; 26085; 26412; 26085; 26412; 26085; 34; 32; 43; 32] [49] []
  = (0, 19, 0, 20, 1, [], true).
Proof. vm_compute. reflexivity. Qed.

Example run_slice_ascii :
  run_slice [] [120; 32; 61; 32] [57; 57] [10] = (0, 4, 0, 6, 0, [57; 57], false).
Proof. vm_compute. reflexivity. Qed.
