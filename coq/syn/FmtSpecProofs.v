(* C11, layer "format options": proofs about FmtSpecModel.v.

   format_spec_roundtrip (parse (render o) = o for every o the parser produces) is FALSE on the
   faithful model: format_spec_roundtrip_refuted (witness "x": render_format_options does not
   write the representation).  Outside the class drops_repr it holds for ALL format strings:
   format_spec_roundtrip_partial.  With a renderer that also writes the representation it holds
   without restriction: format_spec_roundtrip_fixed. *)
From Coq Require Import NArith PeanoNat List Bool Lia.
From KV.syn Require Import SynBase GenFmtSpec FmtSpecModel.
Import ListNotations.
Open Scope N_scope.

(* ------------------------------------------------------------------ *)
(* characters                                                          *)

Lemma is_digit_range : forall c, is_digit c = true <-> 48 <= c <= 57.
Proof.
  intro c. unfold is_digit, ch_0, ch_9. rewrite andb_true_iff, !N.leb_le. tauto.
Qed.

Lemma is_digit_not_align : forall c, is_digit c = true -> is_align c = false.
Proof.
  intros c H. apply is_digit_range in H. unfold is_align, ch_lt, ch_caret, ch_gt.
  rewrite !orb_false_iff, !N.eqb_neq. lia.
Qed.

Lemma is_align_cases : forall c, is_align c = true -> c = 60 \/ c = 94 \/ c = 62.
Proof.
  intros c H. unfold is_align, ch_lt, ch_caret, ch_gt in H.
  rewrite !orb_true_iff, !N.eqb_eq in H. tauto.
Qed.

Lemma align_chars_c2a : forall a, is_align a = true -> align_chars (char_to_alignment a) = [a].
Proof. intros a H. destruct (is_align_cases a H) as [->|[->| ->]]; reflexivity. Qed.

(* the generated representation table: every representation has a character, which maps back to
   it, and no representation character is a digit, '.', or an alignment character *)
Lemma repr_table_inverse : forall r, exists c, char_of_repr r = Some c /\ repr_of_char c = Some r.
Proof. destruct r; eexists; (split; [vm_compute; reflexivity | vm_compute; reflexivity]). Qed.

Lemma repr_lookup_in : forall tbl c r, repr_lookup tbl c = Some r -> In c (map fst tbl).
Proof.
  induction tbl as [|[k r'] tbl IH]; intros c r H; simpl in *; [discriminate|].
  destruct (c =? k) eqn:E; [left; apply N.eqb_eq in E; auto | right; eauto].
Qed.

Definition plain_char (c : N) : bool :=
  negb (is_digit c) && negb (is_align c) && negb (c =? ch_dot).

Lemma repr_chars_plain : forallb plain_char (map fst gen_repr_chars) = true.
Proof. vm_compute. reflexivity. Qed.

Lemma repr_char_plain : forall c r, repr_of_char c = Some r ->
  is_digit c = false /\ is_align c = false /\ (c =? ch_dot) = false.
Proof.
  intros c r H. apply repr_lookup_in in H.
  pose proof repr_chars_plain as P. rewrite forallb_forall in P. specialize (P c H).
  unfold plain_char in P. rewrite !andb_true_iff, !negb_true_iff in P. tauto.
Qed.

(* ------------------------------------------------------------------ *)
(* decimal digits and consume_u32                                      *)

Definition digits_val (l : list N) (acc : N) : N :=
  fold_left (fun a d => a * 10 + (d - ch_0)) l acc.

Fixpoint val_rev (l : list N) : N :=
  match l with [] => 0 | d :: t => val_rev t * 10 + (d - ch_0) end.

Lemma digits_val_rev : forall l, digits_val (rev l) 0 = val_rev l.
Proof.
  induction l as [|d l IH]; [reflexivity|].
  simpl. unfold digits_val in *. rewrite fold_left_app. simpl. rewrite IH. reflexivity.
Qed.

Lemma dec_rev_val : forall f n, n < 2 ^ N.of_nat f -> val_rev (dec_rev f n) = n.
Proof.
  induction f as [|f IH]; intros n H.
  - simpl in H. simpl. lia.
  - cbn [dec_rev val_rev].
    assert (n / 10 < 2 ^ N.of_nat f) as Hd.
    { rewrite Nat2N.inj_succ, N.pow_succ_r' in H.
      apply N.div_lt_upper_bound; [lia|]. revert H. generalize (2 ^ N.of_nat f). intros; lia. }
    pose proof (N.div_mod n 10 ltac:(lia)) as DM.
    unfold ch_0.
    destruct (n / 10 =? 0) eqn:E.
    + apply N.eqb_eq in E. cbn [val_rev]. rewrite E in DM. clear - DM. revert DM. generalize (n mod 10). intros; lia.
    + rewrite IH by exact Hd. clear - DM. revert DM. generalize (n / 10) (n mod 10). intros; lia.
Qed.

Lemma dec_fuel_ok : forall n, n < 2 ^ N.of_nat (S (N.to_nat (N.log2 n))).
Proof.
  intro n. rewrite Nat2N.inj_succ, N2Nat.id.
  destruct n as [|p]; [simpl; lia|].
  apply N.log2_spec. lia.
Qed.

Lemma dec_digits_val : forall n, digits_val (dec_digits n) 0 = n.
Proof. intro n. unfold dec_digits. rewrite digits_val_rev. apply dec_rev_val, dec_fuel_ok. Qed.

Lemma dec_rev_digits : forall f n, Forall (fun d => is_digit d = true) (dec_rev f n).
Proof.
  induction f as [|f IH]; intro n; cbn [dec_rev]; [constructor|].
  constructor.
  - apply is_digit_range. pose proof (N.mod_lt n 10 ltac:(lia)) as M. unfold ch_0. revert M. generalize (n mod 10). intros; lia.
  - destruct (n / 10 =? 0); [constructor | apply IH].
Qed.

Lemma dec_digits_digits : forall n, Forall (fun d => is_digit d = true) (dec_digits n).
Proof. intro n. unfold dec_digits. apply Forall_rev, dec_rev_digits. Qed.

Lemma dec_rev_last : forall f n, n <> 0 -> n < 2 ^ N.of_nat f ->
  exists l d, dec_rev f n = l ++ [d] /\ d <> ch_0.
Proof.
  induction f as [|f IH]; intros n Hn H.
  - simpl in H. lia.
  - cbn [dec_rev].
    assert (n / 10 < 2 ^ N.of_nat f) as Hd.
    { rewrite Nat2N.inj_succ, N.pow_succ_r' in H.
      apply N.div_lt_upper_bound; [lia|]. revert H. generalize (2 ^ N.of_nat f). intros; lia. }
    pose proof (N.div_mod n 10 ltac:(lia)) as DM.
    destruct (n / 10 =? 0) eqn:E.
    + apply N.eqb_eq in E. exists [], (ch_0 + n mod 10). split; [reflexivity|]. unfold ch_0. rewrite E in DM. clear - DM Hn. revert DM. generalize (n mod 10). intros; lia.
    + apply N.eqb_neq in E. destruct (IH (n / 10) E Hd) as [l [d [Hl Hd0]]].
      exists ((ch_0 + n mod 10) :: l), d. rewrite Hl. split; [reflexivity | exact Hd0].
Qed.

(* shape of the rendering of a number: a first digit, more digits; a leading '0' only for 0 *)
Lemma dec_digits_shape : forall n, exists d ds,
  dec_digits n = d :: ds /\ is_digit d = true /\ Forall (fun x => is_digit x = true) ds /\
  (d = ch_0 -> ds = []).
Proof.
  intro n. pose proof (dec_digits_digits n) as F.
  destruct (N.eq_dec n 0) as [->|Hn].
  - exists ch_0, []. repeat split; auto.
  - destruct (dec_rev_last _ n Hn (dec_fuel_ok n)) as [l [d [Hl Hd]]].
    unfold dec_digits in *. rewrite Hl in *. rewrite rev_app_distr in *. simpl in *.
    exists d, (rev l). inversion F; subst. repeat split; auto. intros; contradiction.
Qed.

Lemma digits_val_mono : forall l acc, acc <= digits_val l acc.
Proof.
  induction l as [|d l IH]; intro acc; simpl; [lia|].
  unfold digits_val in *. simpl. specialize (IH (acc * 10 + (d - ch_0))). lia.
Qed.

Lemma consume_loop_digits : forall first ds acc t,
  Forall (fun d => is_digit d = true) ds -> peek_is_digit t = false ->
  digits_val ds acc <= u32_max ->
  consume_loop first acc (ds ++ t) = COk (digits_val ds acc) t.
Proof.
  induction ds as [|d ds IH]; intros acc t F Ht B.
  - unfold digits_val in *. cbn [fold_left app] in *.
    assert (acc mod two32 = acc) as E by (apply N.mod_small; unfold u32_max, two32 in *; lia).
    destruct t as [|c t]; cbn [consume_loop]; [rewrite E; reflexivity|].
    cbn [peek_is_digit] in Ht. rewrite Ht, E. reflexivity.
  - inversion F as [|? ? Hd F']; subst.
    cbn [app consume_loop]. rewrite Hd. unfold to_digit10. rewrite Hd.
    unfold digits_val in B. simpl in B. fold (digits_val ds (acc * 10 + (d - ch_0))) in B.
    pose proof (digits_val_mono ds (acc * 10 + (d - ch_0))) as M.
    cbv zeta.
    assert ((acc * 10) mod two64 = acc * 10) as -> by (apply N.mod_small; unfold u32_max, two64 in *; lia).
    assert ((acc * 10 + (d - ch_0)) mod two64 = acc * 10 + (d - ch_0)) as ->
      by (apply N.mod_small; unfold u32_max, two64 in *; lia).
    replace (u32_max <? acc * 10 + (d - ch_0)) with false by (symmetry; apply N.ltb_ge; lia).
    rewrite IH by assumption. reflexivity.
Qed.

(* parsing back the rendering of a number gives the number *)
Lemma consume_dec_digits : forall n d ds t,
  dec_digits n = d :: ds -> n <= u32_max -> peek_is_digit t = false ->
  consume_u32 d (ds ++ t) = COk n t.
Proof.
  intros n d ds t E B Ht.
  pose proof (dec_digits_digits n) as F. rewrite E in F. inversion F as [|? ? Hd F']; subst.
  pose proof (dec_digits_val n) as V. rewrite E in V. unfold digits_val in V. simpl in V.
  fold (digits_val ds (d - ch_0)) in V.
  unfold consume_u32, to_digit10. rewrite Hd.
  rewrite consume_loop_digits; try assumption; rewrite V; [reflexivity | assumption].
Qed.

Lemma consume_loop_facts : forall first chars acc,
  match consume_loop first acc chars with
  | COk n rest => n <= u32_max /\ (length rest <= length chars)%nat
  | CErr e => forall o, e <> FOk o
  end.
Proof.
  induction chars as [|c chars IH]; intro acc.
  - simpl. split; [|lia]. pose proof (N.mod_lt acc two32 ltac:(unfold two32; lia)).
    unfold u32_max, two32 in *. lia.
  - cbn [consume_loop]. destruct (is_digit c) eqn:Hd.
    + unfold to_digit10. rewrite Hd. cbv zeta.
      destruct (u32_max <? _); [intros o; discriminate|].
      specialize (IH (((acc * 10) mod two64 + (c - ch_0)) mod two64)).
      destruct (consume_loop _ _ chars); [|exact IH]. simpl. destruct IH. split; [assumption|lia].
    + split; [|lia]. pose proof (N.mod_lt acc two32 ltac:(unfold two32; lia)).
      unfold u32_max, two32 in *. lia.
Qed.

Lemma consume_u32_facts : forall first chars,
  match consume_u32 first chars with
  | COk n rest => n <= u32_max /\ (length rest <= length chars)%nat
  | CErr e => forall o, e <> FOk o
  end.
Proof.
  intros. unfold consume_u32. destruct (to_digit10 first); [apply consume_loop_facts|].
  intros o; discriminate.
Qed.

(* the u64 accumulator of consume_u32 never wraps: the `mod two64` of the model are identities *)
Lemma consume_loop_no_wrap : forall acc d, acc <= u32_max -> d <= 9 ->
  ((acc * 10) mod two64 + d) mod two64 = acc * 10 + d.
Proof.
  intros acc d Ha Hd. unfold u32_max, two64 in *.
  rewrite (N.mod_small (acc * 10)) by lia. apply N.mod_small. lia.
Qed.

(* ------------------------------------------------------------------ *)
(* the loop: fuel                                                      *)

Section Loop.
  Variable G : list N -> nat.

  Definition measure (s chars : list N) (pos : position) : nat :=
    match pos with
    | PStart => S (length s + length chars)
    | _ => length chars
    end.

  Lemma step_measure : forall s next rest pos res c p r,
    parse_step G s next rest pos res = SCont c p r ->
    (measure s c p < measure s (next :: rest) pos)%nat.
  Proof.
    intros s next rest pos res c p r H.
    unfold parse_step, step_arms_2_14 in H.
    pose proof (skipn_length (G s) s) as SK.
    destruct pos, rest as [|a rest']; cbn [pos_in_sa pos_in_sm pos_in_smp pos_in_smpt pos_is_start
      peek_is_digit peek_is_some] in H;
    rewrite ?andb_false_r, ?andb_true_r in H; cbn [andb] in H;
    repeat match type of H with
    | (if ?b then _ else _) = _ => destruct b
    | match consume_u32 ?x ?y with _ => _ end = _ =>
        let F := fresh "F" in pose proof (consume_u32_facts x y) as F; destruct (consume_u32 x y)
    | match repr_of_char ?x with _ => _ end = _ => destruct (repr_of_char x)
    end;
    try discriminate; inversion H; subst; cbn [measure length] in *; try lia.
  Qed.

  Lemma fuel_irrel : forall s f1 f2 chars pos res,
    (measure s chars pos < f1)%nat -> (measure s chars pos < f2)%nat ->
    parse_loop G f1 s chars pos res = parse_loop G f2 s chars pos res.
  Proof.
    induction f1 as [|f1 IH]; intros f2 chars pos res H1 H2; [lia|].
    destruct f2 as [|f2]; [lia|].
    cbn [parse_loop]. destruct chars as [|next rest]; [reflexivity|].
    destruct (parse_step G s next rest pos res) as [e|c p r] eqn:E; [reflexivity|].
    apply step_measure in E. apply IH; lia.
  Qed.

  (* the loop with "enough" fuel *)
  Definition ploop (s chars : list N) (pos : position) (res : sfo) : sfo_result :=
    parse_loop G (S (measure s chars pos)) s chars pos res.

  Lemma ploop_nil : forall s pos res, ploop s [] pos res = FOk res.
  Proof. reflexivity. Qed.

  Lemma ploop_cons : forall s next rest pos res,
    ploop s (next :: rest) pos res =
    match parse_step G s next rest pos res with
    | SDone r => r
    | SCont c p r => ploop s c p r
    end.
  Proof.
    intros. unfold ploop at 1. cbn [parse_loop].
    destruct (parse_step G s next rest pos res) as [e|c p r] eqn:E; [reflexivity|].
    apply step_measure in E. apply fuel_irrel; lia.
  Qed.

  (* the out-of-fuel branch of parse_loop is not reached from parse_sfo *)
  Lemma parse_fuel_enough : forall s, parse_sfo G s = ploop s s PStart sfo_default.
  Proof.
    intro s. unfold parse_sfo, ploop, parse_fuel. apply fuel_irrel; cbn [measure]; lia.
  Qed.
End Loop.

(* ------------------------------------------------------------------ *)
(* one iteration, per position                                         *)

Section Steps.
  Variable G : list N -> nat.
  Variable s : list N.
  Notation step := (parse_step G s).
  Notation P := (ploop G s).

  Ltac unfold_step :=
    unfold parse_step, step_arms_2_14;
    cbn [pos_in_sa pos_in_sm pos_in_smp pos_in_smpt pos_is_start];
    rewrite ?andb_false_r, ?andb_true_r; cbn [andb].

  Lemma step_End : forall next rest r, step next rest PEnd r = SDone (FErrUnexpected next).
  Proof. intros. unfold_step. reflexivity. Qed.

  Lemma step_Type : forall next rest r,
    step next rest PType r =
    match repr_of_char next with
    | Some rp => SCont rest PEnd (set_repr r (Some rp))
    | None => SDone (FErrUnexpected next)
    end.
  Proof. intros. unfold_step. reflexivity. Qed.

  Lemma step_Prec : forall next rest r,
    step next rest PPrecision r =
    if (next =? ch_dot) && peek_is_some rest then
      match rest with
      | d :: rest1 =>
          match consume_u32 d rest1 with
          | CErr e => SDone e
          | COk n rest' => SCont rest' PType (set_precision r (Some n))
          end
      | [] => SDone (FErrUnexpected next)
      end
    else
      match repr_of_char next with
      | Some rp => SCont rest PEnd (set_repr r (Some rp))
      | None => SDone (FErrUnexpected next)
      end.
  Proof. intros. unfold_step. reflexivity. Qed.

  Lemma step_Min : forall next rest r,
    step next rest PMinWidth r =
    if (next =? ch_0) && peek_is_digit rest then SCont rest PMinWidth (set_fill r (Some [ch_0]))
    else if is_digit next then
      match consume_u32 next rest with
      | CErr e => SDone e
      | COk n rest' => SCont rest' PPrecision (set_min_width r (Some n))
      end
    else if (next =? ch_dot) && peek_is_some rest then
      match rest with
      | d :: rest1 =>
          match consume_u32 d rest1 with
          | CErr e => SDone e
          | COk n rest' => SCont rest' PType (set_precision r (Some n))
          end
      | [] => SDone (FErrUnexpected next)
      end
    else
      match repr_of_char next with
      | Some rp => SCont rest PEnd (set_repr r (Some rp))
      | None => SDone (FErrUnexpected next)
      end.
  Proof. intros. unfold_step. reflexivity. Qed.

  Lemma step_Align : forall next rest r,
    step next rest PAlignment r =
    if is_align next then SCont rest PMinWidth (set_alignment r (char_to_alignment next))
    else SDone (FErrUnexpected next).
  Proof. intros. unfold_step. reflexivity. Qed.

  (* ---- what a successful run from each position can have done ---- *)

  Definition optor {A} (a b : option A) : option A := match a with Some _ => a | None => b end.

  (* r, with: fill "0" if zf; width / precision / representation replaced when given *)
  Definition with_tail (r : sfo) (zf : bool) (w p : option N) (rp : option repr) : sfo :=
    mksfo (o_alignment r) (optor w (o_min_width r)) (optor p (o_precision r))
          (if zf then Some [ch_0] else o_fill r) (optor rp (o_repr r)).

  Definition bounded (x : option N) : Prop :=
    match x with Some n => n <= u32_max | None => True end.

  Lemma with_tail_id : forall r, with_tail r false None None None = r.
  Proof using. destruct r; reflexivity. Qed.

  Lemma shape_End : forall chars r o, P chars PEnd r = FOk o -> chars = [] /\ o = r.
  Proof.
    intros chars r o H. destruct chars as [|next rest].
    - rewrite ploop_nil in H. inversion H. auto.
    - rewrite ploop_cons, step_End in H. discriminate.
  Qed.

  Lemma shape_repr_arm : forall next rest r o,
    match repr_of_char next with
    | Some rp => P rest PEnd (set_repr r (Some rp))
    | None => FErrUnexpected next
    end = FOk o ->
    exists rp, rest = [] /\ repr_of_char next = Some rp /\ o = with_tail r false None None (Some rp).
  Proof.
    intros next rest r o H. destruct (repr_of_char next) as [rp|]; [|discriminate].
    apply shape_End in H. destruct H as [-> ->]. exists rp. repeat split.
  Qed.

  Lemma shape_Type : forall chars r o, P chars PType r = FOk o ->
    exists rp, o = with_tail r false None None rp.
  Proof.
    intros chars r o H. destruct chars as [|next rest].
    - rewrite ploop_nil in H. inversion H. exists None. symmetry. apply with_tail_id.
    - rewrite ploop_cons, step_Type in H.
      destruct (shape_repr_arm next rest r o) as [rp [_ [_ E]]].
      { destruct (repr_of_char next); exact H. }
      exists (Some rp). exact E.
  Qed.

  Lemma shape_prec_arm : forall d rest1 r o,
    match
      match consume_u32 d rest1 with
      | CErr e => SDone e
      | COk n rest' => SCont rest' PType (set_precision r (Some n))
      end
    with SDone e => e | SCont c p r' => P c p r' end = FOk o ->
    exists n rp, n <= u32_max /\ o = with_tail r false None (Some n) rp.
  Proof.
    intros d rest1 r o H. pose proof (consume_u32_facts d rest1) as F.
    destruct (consume_u32 d rest1) as [n rest'|e].
    - apply shape_Type in H. destruct H as [rp ->]. exists n, rp. split; [tauto|]. reflexivity.
    - exfalso. exact (F o H).
  Qed.

  Lemma shape_Prec : forall chars r o, P chars PPrecision r = FOk o ->
    exists p rp, bounded p /\ o = with_tail r false None p rp.
  Proof.
    intros chars r o H. destruct chars as [|next rest].
    - rewrite ploop_nil in H. inversion H. exists None, None. split; [exact I|].
      symmetry. apply with_tail_id.
    - rewrite ploop_cons, step_Prec in H.
      destruct ((next =? ch_dot) && peek_is_some rest).
      + destruct rest as [|d rest1]; [discriminate|].
        apply shape_prec_arm in H. destruct H as [n [rp [B ->]]]. exists (Some n), rp. split; auto.
      + destruct (shape_repr_arm next rest r o) as [rp [_ [_ E]]].
        { destruct (repr_of_char next); exact H. }
        exists None, (Some rp). split; [exact I | exact E].
  Qed.

  Lemma shape_Min : forall chars r o, P chars PMinWidth r = FOk o ->
    exists zf w p rp, bounded w /\ bounded p /\ (zf = true -> w <> None) /\
                      (peek_is_digit chars = true -> w <> None) /\
                      o = with_tail r zf w p rp.
  Proof.
    induction chars as [|next rest IH]; intros r o H.
    - rewrite ploop_nil in H. inversion H. exists false, None, None, None.
      repeat split; try exact I; try discriminate. symmetry. apply with_tail_id.
    - rewrite ploop_cons, step_Min in H. cbn [peek_is_digit].
      destruct ((next =? ch_0) && peek_is_digit rest) eqn:Z.
      { apply andb_true_iff in Z. destruct Z as [Z0 Zd].
        apply IH in H. destruct H as [zf [w [p [rp [Bw [Bp [_ [Hd ->]]]]]]]].
        exists true, w, p, rp. repeat split; auto. destruct zf; reflexivity. }
      destruct (is_digit next) eqn:D.
      { pose proof (consume_u32_facts next rest) as F.
        destruct (consume_u32 next rest) as [n rest'|e]; [|exfalso; exact (F o H)].
        apply shape_Prec in H. destruct H as [p [rp [Bp ->]]].
        exists false, (Some n), p, rp. repeat split; auto; try discriminate; try (simpl; tauto). }
      destruct ((next =? ch_dot) && peek_is_some rest).
      + destruct rest as [|d rest1]; [discriminate|].
        apply shape_prec_arm in H. destruct H as [n [rp [B ->]]].
        exists false, None, (Some n), rp. repeat split; auto; try discriminate; try exact I.
      + destruct (shape_repr_arm next rest r o) as [rp [_ [_ E]]].
        { destruct (repr_of_char next); exact H. }
        exists false, None, None, (Some rp). repeat split; auto; try discriminate; try exact I.
  Qed.

  Lemma shape_Align : forall chars r o, P chars PAlignment r = FOk o ->
    (chars = [] /\ o = r) \/
    (exists a rest, chars = a :: rest /\ is_align a = true /\
                    P rest PMinWidth (set_alignment r (char_to_alignment a)) = FOk o).
  Proof.
    intros chars r o H. destruct chars as [|a rest].
    - rewrite ploop_nil in H. inversion H. left. auto.
    - rewrite ploop_cons, step_Align in H. right. exists a, rest.
      destruct (is_align a); [auto | discriminate].
  Qed.

  (* ---- re-parsing the text the renderer writes after fill and alignment ---- *)

  Definition wstr (w : option N) : list N :=
    match w with Some n => dec_digits n | None => [] end.
  Definition pstr (p : option N) : list N :=
    match p with Some n => ch_dot :: dec_digits n | None => [] end.
  Definition rstr (rp : option repr) : list N :=
    match rp with
    | Some r => match char_of_repr r with Some c => [c] | None => [] end
    | None => []
    end.

  Lemma rstr_cases : forall rp,
    (rp = None /\ rstr rp = []) \/
    (exists r c, rp = Some r /\ rstr rp = [c] /\ repr_of_char c = Some r).
  Proof using.
    destruct rp as [r|]; [right|left; auto].
    destruct (repr_table_inverse r) as [c [H1 H2]]. exists r, c. unfold rstr. rewrite H1. auto.
  Qed.

  Lemma not_digit_not_0 : forall c, is_digit c = false -> (c =? ch_0) = false.
  Proof using.
    intros c H. apply N.eqb_neq. intros ->. discriminate.
  Qed.

  Definition no_align (l : list N) : Prop := Forall (fun c => is_align c = false) l.

  Lemma wstr_no_align : forall w, no_align (wstr w).
  Proof using.
    destruct w as [n|]; [|constructor]. unfold wstr, no_align.
    eapply Forall_impl; [|apply dec_digits_digits]. apply is_digit_not_align.
  Qed.

  Lemma pstr_no_align : forall p, no_align (pstr p).
  Proof using.
    destruct p as [n|]; [|constructor]. unfold pstr. constructor; [reflexivity|].
    apply (wstr_no_align (Some n)).
  Qed.

  Lemma rstr_no_align : forall rp, no_align (rstr rp).
  Proof using.
    intro rp. destruct (rstr_cases rp) as [[_ ->]|[r [c [_ [-> H]]]]]; [constructor|].
    constructor; [|constructor]. apply repr_char_plain in H. destruct H as [_ [H _]]. exact H.
  Qed.

  Definition tail_str (w p : option N) (rp : option repr) : list N := wstr w ++ pstr p ++ rstr rp.

  Lemma tail_no_align : forall w p rp, no_align (tail_str w p rp).
  Proof using.
    intros. unfold tail_str, no_align. rewrite !Forall_app.
    repeat split; [apply wstr_no_align | apply pstr_no_align | apply rstr_no_align].
  Qed.

  Lemma rstr_peek : forall rp, peek_is_digit (rstr rp) = false.
  Proof using.
    intro rp. destruct (rstr_cases rp) as [[_ ->]|[r [c [_ [-> H]]]]]; [reflexivity|].
    apply repr_char_plain in H. destruct H as [H _]. exact H.
  Qed.

  Lemma prstr_peek : forall p rp, peek_is_digit (pstr p ++ rstr rp) = false.
  Proof using. destruct p; intros; [reflexivity | apply rstr_peek]. Qed.

  Lemma reparse_repr : forall pos rp r,
    pos = PType \/ pos = PPrecision \/ pos = PMinWidth ->
    P (rstr rp) pos r = FOk (with_tail r false None None rp).
  Proof.
    intros pos rp r Hpos.
    destruct (rstr_cases rp) as [[-> ->]|[r' [c [-> [-> H]]]]].
    - rewrite ploop_nil, with_tail_id. reflexivity.
    - destruct (repr_char_plain _ _ H) as [Hd [Ha Hdot]].
      rewrite ploop_cons.
      destruct Hpos as [->|[->| ->]].
      + rewrite step_Type, H, ploop_nil. reflexivity.
      + rewrite step_Prec, Hdot, H. cbn [andb]. rewrite ploop_nil. reflexivity.
      + rewrite step_Min, Hdot, Hd, (not_digit_not_0 _ Hd), H. cbn [andb].
        rewrite ploop_nil. reflexivity.
  Qed.

  (* the '.' arm on ".<digits of n>" followed by the representation *)
  Lemma reparse_dot_arm : forall n rp r, n <= u32_max ->
    match
      match dec_digits n ++ rstr rp with
      | d :: rest1 =>
          match consume_u32 d rest1 with
          | CErr e => SDone e
          | COk n rest' => SCont rest' PType (set_precision r (Some n))
          end
      | [] => SDone (FErrUnexpected ch_dot)
      end
    with SDone e => e | SCont c p r' => P c p r' end
    = FOk (with_tail r false None (Some n) rp).
  Proof.
    intros n rp r B. destruct (dec_digits_shape n) as [d [ds [E _]]].
    rewrite E. cbn [app].
    rewrite (consume_dec_digits n d ds (rstr rp) E B (rstr_peek rp)).
    rewrite reparse_repr by auto. reflexivity.
  Qed.

  Lemma dot_peek_some : forall n t, peek_is_some (dec_digits n ++ t) = true.
  Proof using. intros. destruct (dec_digits_shape n) as [d [ds [E _]]]. rewrite E. reflexivity. Qed.

  Lemma reparse_Prec : forall p rp r, bounded p ->
    P (pstr p ++ rstr rp) PPrecision r = FOk (with_tail r false None p rp).
  Proof.
    intros [n|] rp r B.
    - cbn [pstr app]. rewrite ploop_cons, step_Prec, dot_peek_some. rewrite N.eqb_refl. cbn [andb].
      apply reparse_dot_arm. exact B.
    - apply reparse_repr. auto.
  Qed.

  Lemma reparse_Min : forall w p rp r, bounded w -> bounded p ->
    P (tail_str w p rp) PMinWidth r = FOk (with_tail r false w p rp).
  Proof.
    intros [n|] p rp r Bw Bp; unfold tail_str; cbn [wstr].
    - destruct (dec_digits_shape n) as [d [ds [E [Hd [Hds H0]]]]].
      rewrite E. cbn [app]. rewrite ploop_cons, step_Min.
      assert ((d =? ch_0) && peek_is_digit (ds ++ pstr p ++ rstr rp) = false) as ->.
      { destruct (d =? ch_0) eqn:Z; [|reflexivity]. apply N.eqb_eq in Z.
        rewrite (H0 Z). cbn [app andb]. apply prstr_peek. }
      rewrite Hd.
      rewrite (consume_dec_digits n d ds _ E Bw (prstr_peek p rp)).
      rewrite reparse_Prec by exact Bp. reflexivity.
    - cbn [app]. destruct p as [n|].
      + cbn [pstr app]. rewrite ploop_cons, step_Min, dot_peek_some.
        change ((ch_dot =? ch_0) && _) with false. change (is_digit ch_dot) with false.
        rewrite N.eqb_refl. cbn [andb]. apply reparse_dot_arm. exact Bp.
      + apply reparse_repr. auto.
  Qed.

  (* ---- the first iteration (position Start) ---- *)

  Definition peek_align (rest : list N) : bool :=
    match rest with a :: _ => is_align a | [] => false end.

  (* one of the arms 3..12 matches (next, peek) at Start / MinWidth *)
  Definition mid_match (next : N) (rest : list N) : bool :=
    is_digit next || ((next =? ch_dot) && peek_is_some rest) ||
    match repr_of_char next with Some _ => true | None => false end.

  Lemma step_start_arm1 : forall next a rest' r, is_align a = true ->
    step next (a :: rest') PStart r =
    SCont rest' PMinWidth (set_alignment (set_fill r (Some [next])) (char_to_alignment a)).
  Proof. intros. unfold parse_step. rewrite H. reflexivity. Qed.

  Lemma step_start_arms_2_14 : forall next rest r, peek_align rest = false ->
    step next rest PStart r = step_arms_2_14 G s next rest PStart r.
  Proof.
    intros next rest r H. unfold parse_step. destruct rest as [|a rest']; [reflexivity|].
    cbn [peek_align] in H. rewrite H. reflexivity.
  Qed.

  Lemma step_start_arm2 : forall next rest r, peek_align rest = false -> is_align next = true ->
    step next rest PStart r = SCont rest PMinWidth (set_alignment r (char_to_alignment next)).
  Proof.
    intros next rest r Hp Ha. rewrite step_start_arms_2_14 by exact Hp.
    unfold step_arms_2_14. rewrite Ha. reflexivity.
  Qed.

  Lemma step_min_arms_2_14 : forall next rest r,
    step next rest PMinWidth r = step_arms_2_14 G s next rest PMinWidth r.
  Proof. intros. unfold parse_step. reflexivity. Qed.

  Lemma step_start_mid : forall next rest r,
    peek_align rest = false -> is_align next = false -> mid_match next rest = true ->
    step next rest PStart r = step next rest PMinWidth r.
  Proof.
    intros next rest r Hp Ha Hm. rewrite step_start_arms_2_14 by exact Hp.
    rewrite step_min_arms_2_14.
    unfold step_arms_2_14, mid_match in *.
    cbn [pos_in_sa pos_in_sm pos_in_smp pos_in_smpt pos_is_start].
    rewrite Ha, ?andb_true_r, ?andb_false_r. cbn [andb].
    destruct ((next =? ch_0) && peek_is_digit rest); [reflexivity|].
    destruct (is_digit next); [reflexivity|].
    destruct ((next =? ch_dot) && peek_is_some rest); [reflexivity|].
    destruct (repr_of_char next); [reflexivity|]. discriminate.
  Qed.

  Lemma step_start_13 : forall next rest r,
    peek_align rest = false -> is_align next = false -> mid_match next rest = false ->
    step next rest PStart r =
    SCont (skipn (G s) s) PAlignment (set_fill r (Some (firstn (G s) s))).
  Proof.
    intros next rest r Hp Ha Hm. rewrite step_start_arms_2_14 by exact Hp.
    unfold step_arms_2_14, mid_match in *.
    cbn [pos_in_sa pos_in_sm pos_in_smp pos_in_smpt pos_is_start].
    rewrite Ha, ?andb_true_r, ?andb_false_r. cbn [andb].
    apply orb_false_iff in Hm. destruct Hm as [Hm Hr]. apply orb_false_iff in Hm.
    destruct Hm as [Hd Hdot].
    rewrite (not_digit_not_0 _ Hd), Hd, Hdot. cbn [andb].
    destruct (repr_of_char next); [discriminate|]. reflexivity.
  Qed.

  Lemma ploop_start_as_min : forall next rest r,
    peek_align rest = false -> is_align next = false -> mid_match next rest = true ->
    P (next :: rest) PStart r = P (next :: rest) PMinWidth r.
  Proof. intros. rewrite !ploop_cons, step_start_mid by assumption. reflexivity. Qed.

  Lemma tail_mid_match : forall w p rp next rest,
    tail_str w p rp = next :: rest -> mid_match next rest = true.
  Proof using.
    intros w p rp next rest E. unfold tail_str, mid_match in *.
    destruct w as [n|].
    - cbn [wstr] in E. destruct (dec_digits_shape n) as [d [ds [E' [Hd _]]]].
      rewrite E' in E. inversion E; subst. rewrite Hd. reflexivity.
    - cbn [wstr app] in E. destruct p as [n|].
      + cbn [pstr app] in E. inversion E; subst. rewrite dot_peek_some, N.eqb_refl.
        cbn [andb]. rewrite orb_true_r. reflexivity.
      + cbn [pstr app] in E.
        destruct (rstr_cases rp) as [[_ X]|[r [c [_ [X H]]]]]; rewrite X in E; [discriminate|].
        inversion E; subst. rewrite H. apply orb_true_r.
  Qed.

  Lemma no_align_peek : forall c l, no_align (c :: l) -> is_align c = false /\ peek_align l = false.
  Proof using.
    intros c l H. inversion H as [|? ? Hc Hl]; subst. split; [exact Hc|].
    destruct l; [reflexivity|]. inversion Hl; assumption.
  Qed.

  Lemma reparse_Start : forall w p rp r, bounded w -> bounded p ->
    P (tail_str w p rp) PStart r = FOk (with_tail r false w p rp).
  Proof.
    intros w p rp r Bw Bp. destruct (tail_str w p rp) as [|next rest] eqn:E.
    - rewrite ploop_nil.
      destruct w as [n|].
      { unfold tail_str in E. cbn [wstr] in E. destruct (dec_digits_shape n) as [d [ds [E' _]]].
        rewrite E' in E. discriminate. }
      destruct p as [n|]; [discriminate|].
      unfold tail_str in E. cbn [wstr pstr app] in E.
      destruct (rstr_cases rp) as [[-> _]|[r' [c [_ [X _]]]]]; [|rewrite X in E; discriminate].
      rewrite with_tail_id. reflexivity.
    - pose proof (tail_no_align w p rp) as NA. rewrite E in NA.
      destruct (no_align_peek _ _ NA) as [Ha Hp].
      rewrite ploop_start_as_min; auto; [|eapply tail_mid_match; eassumption].
      rewrite <- E. apply reparse_Min; assumption.
  Qed.
End Steps.

(* ------------------------------------------------------------------ *)
(* the round trip                                                      *)

(* the renderer of a koto that also writes the representation *)
Definition full_fields : list rfield := [FFill; FAlign; FWidth; FPrecision; FRepr].

Definition fill_str (f : option (list N)) : list N := match f with Some g => g | None => [] end.

(* the renderer's representation characters are exactly the parser's (two generated tables,
   compared by computation: breaks if render_format_options and StringFormatOptions::parse disagree) *)
Lemma render_char_of_repr_eq : forall r, render_char_of_repr r = char_of_repr r.
Proof. intro r; destruct r; reflexivity. Qed.

Lemma render_full_eq : forall o,
  render_fields full_fields o =
  fill_str (o_fill o) ++ align_chars (o_alignment o) ++
  tail_str (o_min_width o) (o_precision o) (o_repr o).
Proof.
  intro o. unfold render_fields, full_fields, tail_str. cbn [flat_map render_field].
  rewrite app_nil_r.
  destruct (o_repr o) as [r|]; [rewrite render_char_of_repr_eq|]; reflexivity.
Qed.

Lemma with_tail_fresh : forall a f zf w p rp,
  with_tail (mksfo a None None f None) zf w p rp =
  mksfo a w p (if zf then Some [ch_0] else f) rp.
Proof. intros. destruct w, p, rp; reflexivity. Qed.

Section Roundtrip.
  (* number of code points of the first extended grapheme cluster (unicode-segmentation) *)
  Variable G : list N -> nat.

  (* LOCALITY of the first cluster boundary: if the first cluster of  g ++ a :: t  is g, and a is
     one of '<' '^' '>', then the first cluster of  g ++ a :: t'  is g as well -- i.e. whether
     there is a boundary between g and a does not depend on what follows a.  True of UAX #29: every
     rule GB3..GB13 looks at the characters before a boundary and at the ONE character after it. *)
  Hypothesis G_local : forall g a t t',
    g <> [] -> is_align a = true ->
    G (g ++ a :: t) = length g -> G (g ++ a :: t') = length g.

  Notation parse := (parse_sfo G).

  Lemma reparse_with_fill_char : forall c a w p rp,
    is_align a = true -> bounded w -> bounded p ->
    parse (c :: a :: tail_str w p rp) = FOk (mksfo (char_to_alignment a) w p (Some [c]) rp).
  Proof.
    intros c a w p rp Ha Bw Bp.
    rewrite parse_fuel_enough, ploop_cons, step_start_arm1 by exact Ha.
    rewrite reparse_Min by assumption.
    change (set_alignment (set_fill sfo_default (Some [c])) (char_to_alignment a))
      with (mksfo (char_to_alignment a) None None (Some [c]) None).
    rewrite with_tail_fresh. reflexivity.
  Qed.

  Lemma tail_peek_align : forall w p rp, peek_align (tail_str w p rp) = false.
  Proof.
    intros. pose proof (tail_no_align w p rp) as NA.
    destruct (tail_str w p rp); [reflexivity|]. inversion NA; assumption.
  Qed.

  Lemma reparse_align_only : forall a w p rp,
    is_align a = true -> bounded w -> bounded p ->
    parse (a :: tail_str w p rp) = FOk (mksfo (char_to_alignment a) w p None rp).
  Proof.
    intros a w p rp Ha Bw Bp.
    rewrite parse_fuel_enough, ploop_cons, step_start_arm2 by (auto using tail_peek_align).
    rewrite reparse_Min by assumption.
    change (set_alignment sfo_default (char_to_alignment a))
      with (mksfo (char_to_alignment a) None None None None).
    rewrite with_tail_fresh. reflexivity.
  Qed.

  Lemma reparse_plain : forall w p rp, bounded w -> bounded p ->
    parse (tail_str w p rp) = FOk (mksfo ADefault w p None rp).
  Proof.
    intros w p rp Bw Bp. rewrite parse_fuel_enough, reparse_Start by assumption.
    change sfo_default with (mksfo ADefault None None None None).
    rewrite with_tail_fresh. reflexivity.
  Qed.

  Lemma reparse_zero_fill : forall n p rp, n <= u32_max -> bounded p ->
    parse (ch_0 :: tail_str (Some n) p rp) = FOk (mksfo ADefault (Some n) p (Some [ch_0]) rp).
  Proof.
    intros n p rp Bw Bp.
    rewrite parse_fuel_enough, ploop_cons.
    rewrite step_start_arms_2_14 by apply tail_peek_align.
    assert (peek_is_digit (tail_str (Some n) p rp) = true) as Hd.
    { unfold tail_str. cbn [wstr]. destruct (dec_digits_shape n) as [d [ds [E [Hd _]]]].
      rewrite E. exact Hd. }
    unfold step_arms_2_14. rewrite Hd.
    change (is_align ch_0) with false. rewrite N.eqb_refl.
    cbn [andb pos_in_sa pos_in_sm].
    rewrite reparse_Min by assumption.
    change (set_fill sfo_default (Some [ch_0])) with (mksfo ADefault None None (Some [ch_0]) None).
    rewrite with_tail_fresh. reflexivity.
  Qed.

  Lemma firstn_skipn_app_len : forall (g t : list N),
    firstn (length g) (g ++ t) = g /\ skipn (length g) (g ++ t) = t.
  Proof.
    intros. rewrite firstn_app, skipn_app, firstn_all, skipn_all, Nat.sub_diag.
    simpl. rewrite app_nil_r. auto.
  Qed.

  Lemma reparse_grapheme : forall next b g2 a w p rp,
    is_align next = false -> is_align b = false ->
    mid_match next [b] = false ->
    is_align a = true -> bounded w -> bounded p ->
    G ((next :: b :: g2) ++ a :: tail_str w p rp) = length (next :: b :: g2) ->
    parse ((next :: b :: g2) ++ a :: tail_str w p rp)
    = FOk (mksfo (char_to_alignment a) w p (Some (next :: b :: g2)) rp).
  Proof.
    intros next b g2 a w p rp Hn Hb Hm Ha Bw Bp HG.
    rewrite parse_fuel_enough.
    set (g := next :: b :: g2) in *.
    destruct (firstn_skipn_app_len g (a :: tail_str w p rp)) as [F1 F2].
    rewrite <- HG in F1, F2.
    remember (g ++ a :: tail_str w p rp) as s2 eqn:Es2.
    assert (s2 = next :: (b :: g2 ++ a :: tail_str w p rp)) as E by (subst s2; reflexivity).
    rewrite E at 2. rewrite ploop_cons.
    rewrite step_start_13; [| exact Hb | exact Hn | exact Hm].
    rewrite F1, F2.
    rewrite ploop_cons, step_Align, Ha.
    rewrite reparse_Min by assumption.
    change (set_alignment (set_fill sfo_default (Some g)) (char_to_alignment a))
      with (mksfo (char_to_alignment a) None None (Some g) None).
    rewrite with_tail_fresh. reflexivity.
  Qed.

  (* with a renderer that writes all five fields, re-parsing gives the parser's options back *)
  Theorem format_spec_roundtrip_fixed : forall s o,
    parse s = FOk o -> parse (render_fields full_fields o) = FOk o.
  Proof.
    intros s o H0. pose proof H0 as H. rewrite parse_fuel_enough in H.
    destruct s as [|next rest].
    { rewrite ploop_nil in H. inversion H; subst. reflexivity. }
    rewrite render_full_eq.
    destruct (peek_align rest) eqn:Hp.
    { (* arm 1: single-char fill + alignment *)
      destruct rest as [|a rest']; [discriminate|]. cbn [peek_align] in Hp.
      rewrite ploop_cons, step_start_arm1 in H by exact Hp.
      apply shape_Min in H. destruct H as [zf [w [p [rp [Bw [Bp [Hz [_ ->]]]]]]]].
      change (set_alignment (set_fill sfo_default (Some [next])) (char_to_alignment a))
        with (mksfo (char_to_alignment a) None None (Some [next]) None).
      rewrite with_tail_fresh. cbn [o_fill o_alignment o_min_width o_precision o_repr].
      rewrite align_chars_c2a by exact Hp.
      destruct zf; cbn [fill_str app]; apply reparse_with_fill_char; assumption. }
    destruct (is_align next) eqn:Ha.
    { (* arm 2: alignment without fill *)
      rewrite ploop_cons, step_start_arm2 in H by assumption.
      apply shape_Min in H. destruct H as [zf [w [p [rp [Bw [Bp [Hz [_ ->]]]]]]]].
      change (set_alignment sfo_default (char_to_alignment next))
        with (mksfo (char_to_alignment next) None None None None).
      rewrite with_tail_fresh. cbn [o_fill o_alignment o_min_width o_precision o_repr].
      rewrite align_chars_c2a by exact Ha.
      destruct zf; cbn [fill_str app];
        [apply reparse_with_fill_char | apply reparse_align_only]; assumption. }
    destruct (mid_match next rest) eqn:Hm.
    { (* arms 3..12: the same as from MinWidth *)
      rewrite ploop_start_as_min in H by assumption.
      apply shape_Min in H. destruct H as [zf [w [p [rp [Bw [Bp [Hz [_ ->]]]]]]]].
      change sfo_default with (mksfo ADefault None None None None).
      rewrite with_tail_fresh. cbn [o_fill o_alignment o_min_width o_precision o_repr].
      cbn [align_chars app].
      destruct zf; cbn [fill_str app].
      - destruct w as [n|]; [|exfalso; apply Hz; reflexivity].
        apply reparse_zero_fill; assumption.
      - apply reparse_plain; assumption. }
    (* arm 13: the first grapheme cluster is the fill *)
    rewrite ploop_cons, step_start_13 in H by assumption.
    set (s := next :: rest) in *.
    apply shape_Align in H. destruct H as [[Hs ->]|[a [t [Hs [Haa H]]]]].
    { (* nothing after the cluster: the rendering is the format string itself *)
      pose proof (firstn_skipn (G s) s) as FS. rewrite Hs, app_nil_r in FS.
      cbn [set_fill sfo_default o_fill o_alignment o_min_width o_precision o_repr].
      rewrite FS. cbn [fill_str align_chars tail_str wstr pstr rstr app].
      rewrite app_nil_r. rewrite H0. unfold set_fill. cbn. rewrite FS. reflexivity. }
    apply shape_Min in H. destruct H as [zf [w [p [rp [Bw [Bp [Hz [_ ->]]]]]]]].
    change (set_alignment (set_fill sfo_default (Some (firstn (G s) s))) (char_to_alignment a))
      with (mksfo (char_to_alignment a) None None (Some (firstn (G s) s)) None).
    rewrite with_tail_fresh. cbn [o_fill o_alignment o_min_width o_precision o_repr].
    rewrite align_chars_c2a by exact Haa.
    destruct zf; cbn [fill_str app]; [apply reparse_with_fill_char; assumption|].
    (* the cluster g = firstn (G s) s, s = g ++ a :: t *)
    pose proof (firstn_skipn (G s) s) as FS. rewrite Hs in FS.
    assert (length (firstn (G s) s) = G s) as HL.
    { apply firstn_length_le.
      assert (length (skipn (G s) s) <> 0)%nat as X by (rewrite Hs; discriminate).
      rewrite skipn_length in X. lia. }
    remember (firstn (G s) s) as g eqn:Eg.
    destruct g as [|x g1].
    { (* empty cluster: then a = next, an alignment character *)
      cbn [app] in FS. unfold s in FS. inversion FS; subst a. congruence. }
    unfold s in FS. cbn [app] in FS. inversion FS as [[Hx Hrest]]. subst x.
    destruct g1 as [|b g2].
    { cbn [app] in Hrest. rewrite <- Hrest in Hp. cbn [peek_align] in Hp. congruence. }
    assert (is_align b = false) as Hb.
    { rewrite <- Hrest in Hp. exact Hp. }
    assert (mid_match next [b] = false) as Hm'.
    { rewrite <- Hrest in Hm. exact Hm. }
    apply reparse_grapheme; try assumption.
    apply (G_local (next :: b :: g2) a t); [discriminate | exact Haa |].
    rewrite HL. f_equal. unfold s. rewrite <- Hrest. reflexivity.
  Qed.

  (* the renderer regenerated from render_format_options writes all five fields *)
  Lemma render_sfo_full : forall o, render_sfo o = render_fields full_fields o.
  Proof. intro o. reflexivity. Qed.

  (* C11's clause for format options, at full strength, for ALL format strings:
     re-parsing what the formatter writes gives the options the parser had *)
  Theorem format_spec_roundtrip : forall s o,
    parse s = FOk o -> parse (render_sfo o) = FOk o.
  Proof.
    intros s o H. rewrite render_sfo_full. eapply format_spec_roundtrip_fixed. exact H.
  Qed.
End Roundtrip.

(* every field matters: two option sets that differ in the representation are rendered differently
   (the defect fixed by koto 06483c8 was exactly render_sfo o = render_sfo (set_repr o None)) *)
Lemma render_sfo_writes_representation :
  render_sfo (mksfo ADefault None None None (Some RHexLower))
  <> render_sfo (mksfo ADefault None None None None).
Proof. vm_compute. discriminate. Qed.

(* ------------------------------------------------------------------ *)
(* non-vacuity                                                         *)

Definition G1 : list N -> nat := fun _ => 1%nat.

(* "08" *)
Example ex_parse_08 :
  parse_sfo G1 [48; 56] = FOk (mksfo ADefault (Some 8) None (Some [48]) None).
Proof. vm_compute. reflexivity. Qed.
Example ex_render_08 :
  render_sfo (mksfo ADefault (Some 8) None (Some [48]) None) = [48; 56].
Proof. vm_compute. reflexivity. Qed.

(* "_^" *)
Example ex_parse_fill_center :
  parse_sfo G1 [95; 94] = FOk (mksfo ACenter None None (Some [95]) None).
Proof. vm_compute. reflexivity. Qed.
Example ex_render_fill_center :
  render_sfo (mksfo ACenter None None (Some [95]) None) = [95; 94].
Proof. vm_compute. reflexivity. Qed.

(* "5.9" *)
Example ex_parse_5_9 :
  parse_sfo G1 [53; 46; 57] = FOk (mksfo ADefault (Some 5) (Some 9) None None).
Proof. vm_compute. reflexivity. Qed.
Example ex_render_5_9 :
  render_sfo (mksfo ADefault (Some 5) (Some 9) None None) = [53; 46; 57].
Proof. vm_compute. reflexivity. Qed.

(* "x": the representation is written back *)
Example ex_parse_x :
  parse_sfo G1 [120] = FOk (mksfo ADefault None None None (Some RHexLower)).
Proof. vm_compute. reflexivity. Qed.
Example ex_render_x :
  render_sfo (mksfo ADefault None None None (Some RHexLower)) = [120].
Proof. vm_compute. reflexivity. Qed.
Example ex_render_x_fixed :
  render_fields full_fields (mksfo ADefault None None None (Some RHexLower)) = [120].
Proof. vm_compute. reflexivity. Qed.

(* "99999999999": the u64 accumulator exceeds u32::MAX at the tenth digit *)
Example ex_parse_too_large :
  parse_sfo G1 [57;57;57;57;57;57;57;57;57;57;57] = FErrTooLarge 9999999999.
Proof. vm_compute. reflexivity. Qed.

(* ".x": '.' must be followed by a number *)
Example ex_parse_expected_number : parse_sfo G1 [46; 120] = FErrExpectedNumber 120.
Proof. vm_compute. reflexivity. Qed.

(* "a5": nothing but an alignment may follow the fill *)
Example ex_parse_unexpected : parse_sfo G1 [97; 53] = FErrUnexpected 53.
Proof. vm_compute. reflexivity. Qed.

(* leading zeros, "<007.010" = "0<7.10" *)
Example ex_parse_leading_zeros :
  parse_sfo G1 [60; 48; 48; 55; 46; 48; 49; 48]
  = FOk (mksfo ALeft (Some 7) (Some 10) (Some [48]) None) /\
  render_sfo (mksfo ALeft (Some 7) (Some 10) (Some [48]) None) = [48; 60; 55; 46; 49; 48].
Proof. vm_compute. split; reflexivity. Qed.

(* a two-code-point cluster as fill ("a" + U+0301, then ">3"), with an oracle that says 2 *)
Example ex_parse_cluster :
  parse_sfo (fun _ => 2%nat) [97; 769; 62; 51]
  = FOk (mksfo ARight (Some 3) None (Some [97; 769]) None).
Proof. vm_compute. reflexivity. Qed.

(* dec_digits *)
Example ex_dec_digits : dec_digits 0 = [48] /\ dec_digits 4294967295 = [52;50;57;52;57;54;55;50;57;53].
Proof. vm_compute. split; reflexivity. Qed.

Print Assumptions format_spec_roundtrip.
Print Assumptions format_spec_roundtrip_fixed.
