(* C11, layer "source slices": proofs about SliceModel.v.

   slice_is_token_text : for ALL sources, FormatContext::source_slice applied to the lexer's span of
     a one-line token returns the token's text, PROVIDED every character before the token on its
     line, and of the token, is as many columns wide as it has UTF-8 bytes (for real Unicode:
     printable ASCII).
   slice_refuted / slice_panics* : outside that class the slice is a different text, or the
     byte range is not on character boundaries (a Rust panic). *)
From Coq Require Import NArith List Bool Lia.
From KV.syn Require Import SliceModel.
Import ListNotations.
Open Scope N_scope.

Lemma utf8_len_pos : forall c, 1 <= utf8_len c.
Proof.
  intro c. unfold utf8_len.
  destruct (c <? 128); [lia|]. destruct (c <? 2048); [lia|]. destruct (c <? 65536); lia.
Qed.

Lemma byte_len_app : forall a b, byte_len (a ++ b) = byte_len a + byte_len b.
Proof. induction a; intros; simpl; [reflexivity|]. rewrite IHa. lia. Qed.

Lemma skip_bytes_0 : forall s, skip_bytes s 0 = Some s.
Proof. destruct s; reflexivity. Qed.

Lemma take_bytes_0 : forall s, take_bytes s 0 = Some [].
Proof. destruct s; reflexivity. Qed.

Lemma skip_bytes_app : forall pre x, skip_bytes (pre ++ x) (byte_len pre) = Some x.
Proof.
  induction pre as [|c pre IH]; intros x.
  - apply skip_bytes_0.
  - pose proof (utf8_len_pos c) as Hc.
    cbn [app byte_len skip_bytes].
    replace (utf8_len c + byte_len pre =? 0) with false by (symmetry; apply N.eqb_neq; lia).
    replace (utf8_len c <=? utf8_len c + byte_len pre) with true
      by (symmetry; apply N.leb_le; lia).
    replace (utf8_len c + byte_len pre - utf8_len c) with (byte_len pre) by lia.
    apply IH.
Qed.

Lemma take_bytes_app : forall t post, take_bytes (t ++ post) (byte_len t) = Some t.
Proof.
  induction t as [|c t IH]; intros post.
  - apply take_bytes_0.
  - pose proof (utf8_len_pos c) as Hc.
    cbn [app byte_len take_bytes].
    replace (utf8_len c + byte_len t =? 0) with false by (symmetry; apply N.eqb_neq; lia).
    replace (utf8_len c <=? utf8_len c + byte_len t) with true
      by (symmetry; apply N.leb_le; lia).
    replace (utf8_len c + byte_len t - utf8_len c) with (byte_len t) by lia.
    rewrite IH. reflexivity.
Qed.

Lemma str_index_app : forall pre t post,
  str_index (pre ++ t ++ post) (byte_len pre) (byte_len pre + byte_len t) = SliceOk t.
Proof.
  intros. unfold str_index.
  replace (byte_len pre + byte_len t <? byte_len pre) with false
    by (symmetry; apply N.ltb_ge; lia).
  rewrite skip_bytes_app.
  replace (byte_len pre + byte_len t - byte_len pre) with (byte_len t) by lia.
  rewrite take_bytes_app. reflexivity.
Qed.

(* line_prefix *)
Lemma line_prefix_no_nl : forall pre, has_nl pre = false -> line_prefix pre = pre.
Proof.
  destruct pre as [|c r]; intros H; [reflexivity|].
  unfold has_nl in H. simpl in H. apply orb_false_iff in H. destruct H as [Hc Hr].
  simpl. unfold has_nl. rewrite Hr, Hc. reflexivity.
Qed.

(* the entry of line_offsets for the line of the token: by induction over pre, for every
   continuation `rest`, every running byte offset `off` and every current line start `cur` *)
Lemma lo_nth : forall pre rest off cur,
  exists v,
    nth_error (cur :: lo_aux (pre ++ rest) off) (N.to_nat (count_nl pre)) = Some v /\
    (has_nl pre = true -> v + byte_len (line_prefix pre) = off + byte_len pre) /\
    (has_nl pre = false -> v = cur).
Proof.
  induction pre as [|c r IH]; intros rest off cur.
  - exists cur. simpl. repeat split; auto. discriminate.
  - cbn [app lo_aux count_nl line_prefix byte_len].
    unfold has_nl. cbn [existsb]. fold (has_nl r).
    destruct (c =? ch_nl) eqn:Hc.
    + destruct (IH rest (off + utf8_len c) (off + 1)) as [v [Hn [Ht Hf]]].
      exists v. rewrite N2Nat.inj_add. change (N.to_nat 1) with 1%nat.
      cbn [Nat.add nth_error]. split; [exact Hn|]. split; [|discriminate].
      intros _. apply N.eqb_eq in Hc. subst c. change (utf8_len ch_nl) with 1 in *.
      destruct (has_nl r) eqn:Hr.
      * rewrite (Ht eq_refl). lia.
      * rewrite (Hf eq_refl). lia.
    + destruct (IH rest (off + utf8_len c) cur) as [v [Hn [Ht Hf]]].
      exists v. split; [exact Hn|]. cbn [orb]. split.
      * intros Hr. rewrite Hr. rewrite (Ht Hr). lia.
      * exact Hf.
Qed.

Lemma line_offsets_tok_line : forall pre rest,
  exists v, nth_error (line_offsets (pre ++ rest)) (N.to_nat (count_nl pre)) = Some v /\
            v + byte_len (line_prefix pre) = byte_len pre.
Proof.
  intros. unfold line_offsets.
  destruct (lo_nth pre rest 0 0) as [v [Hn [Ht Hf]]].
  exists v. split; [exact Hn|].
  destruct (has_nl pre) eqn:Hp.
  - rewrite (Ht eq_refl). lia.
  - rewrite (Hf eq_refl). rewrite line_prefix_no_nl by exact Hp. lia.
Qed.

Section SliceThm.
  Variable width : N -> N.

  Lemma sum_width_bytes : forall l,
    (forall c, In c l -> width c = utf8_len c) -> sum_width width l = byte_len l.
  Proof.
    induction l as [|c l IH]; intros H; simpl; [reflexivity|].
    rewrite H by (left; reflexivity). rewrite IH; [reflexivity|].
    intros d Hd. apply H. right. exact Hd.
  Qed.

  (* B1 *)
  Theorem slice_is_token_text : forall pre t post,
    no_newline t ->
    (forall c, In c (line_prefix pre ++ t) -> width c = utf8_len c) ->
    source_slice (pre ++ t ++ post) (tok_span width pre t) = SliceOk t.
  Proof.
    intros pre t post _ Hw.
    unfold tok_span, source_slice.
    destruct (line_offsets_tok_line pre (t ++ post)) as [v [Hn Hv]].
    rewrite Hn.
    rewrite (sum_width_bytes (line_prefix pre))
      by (intros c Hc; apply Hw; apply in_or_app; left; exact Hc).
    rewrite (sum_width_bytes t)
      by (intros c Hc; apply Hw; apply in_or_app; right; exact Hc).
    replace (v + byte_len (line_prefix pre)) with (byte_len pre) by lia.
    replace (v + (byte_len (line_prefix pre) + byte_len t)) with (byte_len pre + byte_len t) by lia.
    apply str_index_app.
  Qed.

  (* the class predicate is the negation of the hypothesis of slice_is_token_text *)
  Lemma non_ascii_before_false : forall pre t,
    non_ascii_before width pre t = false ->
    forall c, In c (line_prefix pre ++ t) -> width c = utf8_len c.
  Proof.
    intros pre t H c Hc. unfold non_ascii_before in H.
    destruct (width c =? utf8_len c) eqn:E; [apply N.eqb_eq; exact E|].
    assert (existsb (fun c => negb (width c =? utf8_len c)) (line_prefix pre ++ t) = true) as X.
    { apply existsb_exists. exists c. rewrite E. auto. }
    rewrite X in H. discriminate.
  Qed.

  Corollary slice_is_token_text_class : forall pre t post,
    no_newline t -> non_ascii_before width pre t = false ->
    source_slice (pre ++ t ++ post) (tok_span width pre t) = SliceOk t.
  Proof.
    intros. apply slice_is_token_text; [assumption|]. apply non_ascii_before_false. assumption.
  Qed.
End SliceThm.

(* ---- B2: outside the class ---- *)

(* a width oracle for the witnesses: CJK ideographs 2 columns, everything else 1 *)
Definition w_demo (c : N) : N := if (19968 <=? c) && (c <=? 40959) then 2 else 1.

(* source `é = 99`, token `99` after `é = `: the slice is " 9" *)
Theorem slice_refuted :
  let pre := [233; 32; 61; 32] in let t := [57; 57] in
  w_demo 233 = 1 /\
  source_slice (pre ++ t ++ []) (tok_span w_demo pre t) = SliceOk [32; 57] /\
  source_slice (pre ++ t ++ []) (tok_span w_demo pre t) <> SliceOk t /\
  non_ascii_before w_demo pre t = true.
Proof. vm_compute. repeat split; try reflexivity. discriminate. Qed.

(* the same for ANY width oracle that gives é one column and ASCII one column *)
Theorem slice_refuted_any_width : forall width,
  width 233 = 1 -> width 32 = 1 -> width 61 = 1 -> width 57 = 1 ->
  source_slice ([233; 32; 61; 32] ++ [57; 57] ++ []) (tok_span width [233; 32; 61; 32] [57; 57])
  = SliceOk [32; 57].
Proof.
  intros width H1 H2 H3 H4. unfold tok_span. simpl. rewrite H1, H2, H3, H4. reflexivity.
Qed.

(* source `x = "日本日本日" + 1` (日 = 26085, 本 = 26412: 2 columns, 3 bytes each), token `1`:
   span (0,19)-(0,20); byte 19 is the last byte of the fifth ideograph: panic *)
Definition panic_pre : list N :=
  [120; 32; 61; 32; 34; 26085; 26412; 26085; 26412; 26085; 34; 32; 43; 32].
Example slice_panics :
  tok_span w_demo panic_pre [49] = (0, 19, 0, 20) /\
  byte_len panic_pre = 24 /\
  source_slice (panic_pre ++ [49] ++ []) (tok_span w_demo panic_pre [49]) = SlicePanic.
Proof. vm_compute. repeat split. Qed.

(* smaller, and with one-column characters only: source `ééé=1`, token `1`:
   span (0,4)-(0,5), bytes 4..5 = the first byte of the third é: panic *)
Example slice_panics_small :
  tok_span w_demo [233; 233; 233; 61] [49] = (0, 4, 0, 5) /\
  source_slice ([233; 233; 233; 61] ++ [49] ++ []) (tok_span w_demo [233; 233; 233; 61] [49])
  = SlicePanic.
Proof. vm_compute. repeat split. Qed.

(* on a later line the damage is the same (line_offsets are right, columns are not):
   `a = 1\né = 99`: slice " 9" *)
Example slice_refuted_line2 :
  let pre := [97; 32; 61; 32; 49; 10; 233; 32; 61; 32] in
  tok_span w_demo pre [57; 57] = (1, 4, 1, 6) /\
  source_slice (pre ++ [57; 57] ++ []) (tok_span w_demo pre [57; 57]) = SliceOk [32; 57].
Proof. vm_compute. repeat split. Qed.

(* non-vacuity of slice_is_token_text: a non-ASCII character on an EARLIER line is harmless *)
Example slice_ok_after_newline :
  let pre := [233; 10; 120; 32; 61; 32] in
  non_ascii_before w_demo pre [57; 57] = false /\
  tok_span w_demo pre [57; 57] = (1, 4, 1, 6) /\
  source_slice (pre ++ [57; 57] ++ [10]) (tok_span w_demo pre [57; 57]) = SliceOk [57; 57].
Proof. vm_compute. repeat split. Qed.

Print Assumptions slice_is_token_text.
(* ---- the line-offset table, as FormatContext::new computes it, for EVERY source (carriage returns are
   ordinary characters here: the entry of a line is the byte index of its first character, i.e. one past the
   preceding '\n', whatever precedes that '\n') *)
Theorem line_offsets_spec : forall pre rest,
  has_nl pre = true ->
  exists v,
    nth_error (line_offsets (pre ++ rest)) (N.to_nat (count_nl pre)) = Some v /\
    v + byte_len (line_prefix pre) = byte_len pre.
Proof.
  intros pre rest H. unfold line_offsets.
  destruct (lo_nth pre rest 0 0) as [v [Hn [Ht _]]].
  exists v. split; [exact Hn|]. rewrite (Ht H). reflexivity.
Qed.

(* `a\r\nbc\r\n`: lines start at bytes 0, 3, 7 (NOT at 0, 2, 5: a table built from the lengths of the
   lines without their terminators + 1 would be wrong on CR LF sources) *)
Example line_offsets_crlf : line_offsets [97; 13; 10; 98; 99; 13; 10] = [0; 3; 7].
Proof. vm_compute. reflexivity. Qed.

(* `x = 1 # one\r\ny = 22\r\n`: the number on the second line of a CR LF source is re-read exactly *)
Example slice_crlf :
  let pre := [120;32;61;32;49;32;35;32;111;110;101;13;10;121;32;61;32] in
  tok_span w_demo pre [50;50] = (1, 4, 1, 6) /\
  source_slice (pre ++ [50;50] ++ [13;10]) (tok_span w_demo pre [50;50]) = SliceOk [50;50].
Proof. vm_compute. split; reflexivity. Qed.

Print Assumptions line_offsets_spec.

Print Assumptions slice_refuted.
