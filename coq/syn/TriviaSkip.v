(* C11, "every comment is preserved": the one place where the formatter DISCARDS trivia items.
   GroupBuilder::node, `#[fmt:skip]` path (crates/format/src/format.rs): the node's source region
   [node_span.start, node_span.end) is copied verbatim, then

       while let Some(item) = self.trivia.peek() {
           if item.span.start < node_span.end { self.trivia.next(); } else { break; }
       }

   The comparison itself is REGENERATED from the Rust source (GenFmtSpec.gen_skip_test).  Spans are
   half-open: an item that starts exactly at node_span.end lies outside the copied region. *)
From Coq Require Import NArith List Bool Lia Sorted.
From KV.syn Require Import SynBase GenFmtSpec.
Import ListNotations.
Open Scope N_scope.

(* the loop; items = start positions of the remaining trivia items, in source order *)
Fixpoint skip_captured (node_end : pos) (items : list pos) : list pos :=
  match items with
  | [] => []
  | i :: r => if gen_skip_test i node_end then skip_captured node_end r else items
  end.

(* spec: inside the copied region <-> starts strictly before its (exclusive) end *)
Definition inside (node_end i : pos) : Prop :=
  fst i < fst node_end \/ (fst i = fst node_end /\ snd i < snd node_end).

Lemma pos_lt_inside : forall i e, pos_lt i e = true <-> inside e i.
Proof.
  intros [il ic] [el ec]. unfold pos_lt, inside. cbn [fst snd].
  rewrite orb_true_iff, andb_true_iff, !N.ltb_lt, N.eqb_eq. tauto.
Qed.

(* the generated test is the half-open one *)
Theorem gen_skip_test_spec : forall i e, gen_skip_test i e = true <-> inside e i.
Proof. intros i e. unfold gen_skip_test. apply pos_lt_inside. Qed.

(* an item outside the copied region is never consumed by the loop: it is still in the iterator
   afterwards and will be emitted -- for EVERY list of items, sorted or not *)
Theorem skip_keeps_outside : forall e items i,
  In i items -> ~ inside e i -> In i (skip_captured e items).
Proof.
  intros e items. induction items as [|j r IH]; intros i Hin Hout; [exact Hin|].
  cbn [skip_captured]. destruct (gen_skip_test j e) eqn:T.
  - destruct Hin as [->|Hin].
    + exfalso. apply Hout. apply gen_skip_test_spec. exact T.
    + apply IH; assumption.
  - exact Hin.
Qed.

(* and the items it does consume are exactly those inside, when the items come in source order *)
Definition ple (a b : pos) : Prop := fst a < fst b \/ (fst a = fst b /\ snd a <= snd b).

Theorem skip_removes_inside : forall e items,
  StronglySorted ple items -> Forall (fun i => ~ inside e i) (skip_captured e items).
Proof.
  intros e items. induction items as [|j r IH]; intro S; [constructor|].
  cbn [skip_captured]. destruct (gen_skip_test j e) eqn:T.
  - apply IH. inversion S; assumption.
  - inversion S as [|? ? Sr Hall]; subst. constructor.
    + intro H. apply gen_skip_test_spec in H. congruence.
    + rewrite Forall_forall in *. intros i Hi [H|[H1 H2]].
      * assert (~ inside e j) as Nj by (intro X; apply gen_skip_test_spec in X; congruence).
        specialize (Hall i Hi). unfold ple in Hall. apply Nj. unfold inside. lia.
      * assert (~ inside e j) as Nj by (intro X; apply gen_skip_test_spec in X; congruence).
        specialize (Hall i Hi). unfold ple in Hall. apply Nj. unfold inside. lia.
Qed.

(* non-vacuity: `baz:       123# keep` -- the comment starts exactly where the skipped entry ends *)
Example skip_adjacent_comment_kept :
  skip_captured (3, 17) [(3, 17); (4, 9)] = [(3, 17); (4, 9)]
  /\ skip_captured (3, 17) [(3, 12); (3, 17)] = [(3, 17)].
Proof. vm_compute. split; reflexivity. Qed.
