(* Shared base types of unit `syn` (C10 layout / C11 formatter).
   Hand-written; the Gen*.v tables produced by tools/k2v_syn.py from
   /repo/crates/{parser,lexer,format} are stated over these types, so a
   renamed / added operator, token class or format field in the Rust source
   makes the generated file (and hence the unit) fail to build. *)
From Coq Require Import NArith List Bool.
Import ListNotations.
Open Scope N_scope.

(* Token kinds as the parser's token-access layer sees them: the four kinds it
   treats specially, and every other token (by the discriminant of koto_lexer::Token). *)
Inductive kind :=
| KNewLine | KWhitespace | KCommentSingle | KCommentMulti
| KTok (d : N).

Definition kind_eqb (a b : kind) : bool :=
  match a, b with
  | KNewLine, KNewLine | KWhitespace, KWhitespace
  | KCommentSingle, KCommentSingle | KCommentMulti, KCommentMulti => true
  | KTok x, KTok y => x =? y
  | _, _ => false
  end.

(* parser.rs: enum Indentation *)
Inductive indentation :=
| Flexible
| IEqual (n : N)
| IGreater
| IGreaterThan (n : N)
| IGreaterOrEqual (n : N).

(* parser.rs / ast: AstBinaryOp, the operators handled by parse_expression_continued *)
Inductive binop :=
| OpAdd | OpSubtract | OpMultiply | OpDivide | OpRemainder | OpPower
| OpAddAssign | OpSubtractAssign | OpMultiplyAssign | OpDivideAssign | OpRemainderAssign | OpPowerAssign
| OpEqual | OpNotEqual | OpGreater | OpGreaterOrEqual | OpLess | OpLessOrEqual
| OpAnd | OpOr | OpPipe.

Definition all_binops : list binop :=
  [OpAdd; OpSubtract; OpMultiply; OpDivide; OpRemainder; OpPower;
   OpAddAssign; OpSubtractAssign; OpMultiplyAssign; OpDivideAssign; OpRemainderAssign; OpPowerAssign;
   OpEqual; OpNotEqual; OpGreater; OpGreaterOrEqual; OpLess; OpLessOrEqual;
   OpAnd; OpOr; OpPipe].

Definition binop_code (o : binop) : N :=
  match o with
  | OpAdd => 0 | OpSubtract => 1 | OpMultiply => 2 | OpDivide => 3 | OpRemainder => 4 | OpPower => 5
  | OpAddAssign => 6 | OpSubtractAssign => 7 | OpMultiplyAssign => 8 | OpDivideAssign => 9
  | OpRemainderAssign => 10 | OpPowerAssign => 11
  | OpEqual => 12 | OpNotEqual => 13 | OpGreater => 14 | OpGreaterOrEqual => 15 | OpLess => 16
  | OpLessOrEqual => 17 | OpAnd => 18 | OpOr => 19 | OpPipe => 20
  end.

Definition binop_eqb (a b : binop) : bool := binop_code a =? binop_code b.

(* string_format_options.rs *)
Inductive alignment := ADefault | ALeft | ACenter | ARight.
Inductive repr := RDebug | RHexLower | RHexUpper | RBinary | ROctal | RExpLower | RExpUpper.
(* the fields of StringFormatOptions, in the order render_format_options may emit them *)
Inductive rfield := FFill | FAlign | FWidth | FPrecision | FRepr.

(* koto_lexer::Position { line, column } with the derived (lexicographic) order *)
Definition pos := (N * N)%type.
Definition pos_lt (a b : pos) : bool := (fst a <? fst b) || ((fst a =? fst b) && (snd a <? snd b)).
Definition pos_le (a b : pos) : bool := (fst a <? fst b) || ((fst a =? fst b) && (snd a <=? snd b)).
