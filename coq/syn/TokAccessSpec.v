(* TokAccessSpec: what "trivia transparency" of the parser's token-access layer
   (TokAccess.v) means.  Definitions only; all proofs are in TokAccessProofs.v.

   Two token streams are equivalent when they have the same NORMAL FORM: drop
   every whitespace / comment token that stays on its line, collapse a run of
   line breaks (with only such trivia in between) to its first NewLine, and
   forget absolute line numbers (keep only "does this token advance the line").
   A parser state is viewed as (indent of the current token -- unless the state
   is "parked", where that indent is never consulted -- , normal form of the
   remaining tokens). *)
From Coq Require Import NArith List Bool.
From KV.syn Require Import SynBase GenTokAccess TokAccess.
Import ListNotations.
Open Scope N_scope.

Notation wsnl := is_whitespace_including_newline.

(* ------------------------------------------------------------------ *)
(** * Hand-written specs of the two generated tables *)

(* `match context.expected_indentation` for a token on a later line:
   e = expected indent carried by the variant, p = peeked indent, s = start indent *)
Definition spec_indent_rule (ei : indentation) (p s : N) : bool :=
  match ei with
  | Flexible => true
  | IEqual e => p =? e
  | IGreater => s <? p
  | IGreaterThan e => e <? p
  | IGreaterOrEqual e => e <=? p
  end.

Definition spec_indent_ruleP (ei : indentation) (p s : N) : Prop :=
  match ei with
  | Flexible => True
  | IEqual e => p = e
  | IGreater => p > s
  | IGreaterThan e => p > e
  | IGreaterOrEqual e => p >= e
  end.

(* ------------------------------------------------------------------ *)
(** * Lines *)

(* the token ends on a later line than it starts: every NewLine, multi-line comments / strings *)
Definition adv (t : tok) : bool := sline t <? eline t.

(* line continuity: l = end line of the previous token (lexer spans tile the input) *)
Fixpoint chain (l : N) (ts : list tok) : Prop :=
  match ts with
  | [] => True
  | t :: r => sline t = l /\ sline t <= eline t /\ (tk t = KNewLine -> eline t = sline t + 1)
              /\ chain (eline t) r
  end.

Definition wf_lines (st : pstate) : Prop := chain (eline (cur st)) (rest st).

(* line-free versions of the two loops that read line numbers: `moved` = some token passed over
   so far advanced the line *)
Definition block_ctx (ctx : ectx) (moved : bool) (start_indent indent : N) : ectx :=
  if moved && (start_indent <? indent) && allow_linebreaks ctx && is_greater (expected_indentation ctx)
  then indented_block_ctx ctx indent else ctx.

Fixpoint a_ctwc_loop (ctx : ectx) (moved : bool) (start_indent : N) (c : tok) (l : list tok)
  : option (kind * ectx) * pstate :=
  match l with
  | [] => (None, mkst c [])
  | t :: r =>
      if wsnl (tk t) then a_ctwc_loop ctx (moved || adv t) start_indent t r
      else (Some (tk t, block_ctx ctx (moved || adv t) start_indent (tindent t)), mkst t r)
  end.

Fixpoint a_cutwc_loop (ctx : ectx) (moved : bool) (start_indent : N) (c : tok) (l : list tok)
  : option ectx * pstate :=
  match l with
  | [] => (None, mkst c [])
  | p :: r =>
      if wsnl (tk p) then a_cutwc_loop ctx (moved || adv p) start_indent p r
      else (Some (block_ctx ctx moved start_indent (tindent p)), mkst c l)
  end.

(* ------------------------------------------------------------------ *)
(** * Normal forms *)

(* whitespace / comments that stay on their line: the insertable trivia *)
Definition droppable (t : tok) : bool := is_whitespace (tk t) && negb (adv t).

(* what is kept of a token: kind, whether it advances the line, indent -- no absolute lines *)
Record vtok := mkv { vk : kind; va : bool; vi : N }.
Definition view (t : tok) : vtok := mkv (tk t) (adv t) (tindent t).

(* after_nl: the previously KEPT token was a NewLine *)
Fixpoint norm_from (after_nl : bool) (ts : list tok) : list vtok :=
  match ts with
  | [] => []
  | t :: r =>
      if droppable t then norm_from after_nl r
      else if kind_eqb (tk t) KNewLine then
             (if after_nl then norm_from true r else view t :: norm_from true r)
           else view t :: norm_from false r
  end.
Definition norm (ts : list tok) : list vtok := norm_from false ts.

(* ------------------------------------------------------------------ *)
(** * Parked states, state view, well-formedness *)

(* no NewLine / line-advancing token before the first significant token, and that token (if any)
   does not advance the line either: start_indent of the current token is then never consulted *)
Fixpoint parked (l : list tok) : bool :=
  match l with
  | [] => true
  | t :: r =>
      if wsnl (tk t) then
        (if kind_eqb (tk t) KNewLine || adv t then false else parked r)
      else negb (adv t)
  end.

Definition sview (st : pstate) : option N * list vtok :=
  (if parked (rest st) then None else Some (tindent (cur st)), norm (rest st)).

(* `indent` only changes at the first token after a NewLine *)
Fixpoint ichain (prev : tok) (ts : list tok) : Prop :=
  match ts with
  | [] => True
  | t :: r => (tk prev <> KNewLine -> tindent t = tindent prev) /\ ichain t r
  end.
Definition wf_indent (st : pstate) : Prop := ichain (cur st) (rest st).

(* ADDED (see TokAccessProofs.cutwc_needs_sig_guard): a significant token that spans lines
   (in koto: only StringLiteral, which directly follows StringStart / `}` / `:`) is never
   directly preceded by whitespace, a comment or a NewLine *)
Fixpoint schain (prev : tok) (ts : list tok) : Prop :=
  match ts with
  | [] => True
  | t :: r => (adv t = true -> wsnl (tk t) = false -> wsnl (tk prev) = false) /\ schain t r
  end.
Definition wf_sig (st : pstate) : Prop := schain (cur st) (rest st).

Definition good (st : pstate) : Prop := tk (cur st) <> KNewLine \/ parked (rest st) = true.

Definition wf (st : pstate) : Prop := wf_lines st /\ wf_indent st /\ wf_sig st /\ good st.

(* ------------------------------------------------------------------ *)
(** * The access functions as functions of the state view *)

Definition sv_ind (o : option N) : N := match o with Some i => i | None => 0 end.

Fixpoint v_parked (vs : list vtok) : bool :=
  match vs with
  | [] => true
  | v :: r =>
      if wsnl (vk v) then (if kind_eqb (vk v) KNewLine || va v then false else v_parked r)
      else negb (va v)
  end.

(* state view after the current token became some trivia token / stayed: the indent component
   survives only if the new state is not parked *)
Definition v_post (o : option N) (vs : list vtok) : option N * list vtok :=
  (if v_parked vs then None else o, vs).

(* observable part of a PeekInfo: token kind and indent (peek_count and the span are layout) *)
Definition pobs (p : peekinfo) : kind * N := (pi_token p, tindent (pi_info p)).

Fixpoint v_peek (ctx : ectx) (si : N) (vs : list vtok) (same_line : bool) : option (kind * N) :=
  match vs with
  | [] => None
  | v :: r =>
      match vk v with
      | KNewLine => v_peek ctx si r false
      | KWhitespace | KCommentMulti | KCommentSingle => v_peek ctx si r same_line
      | _ =>
          if same_line then Some (vk v, vi v)
          else if allow_linebreaks ctx then
                 (if spec_indent_rule (expected_indentation ctx) (vi v) si then Some (vk v, vi v) else None)
               else None
      end
  end.

Definition v_block_peek (sv : option N * list vtok) : option (kind * N) :=
  match fst sv with
  | None => None
  | Some i =>
      match v_peek ctx_permissive i (snd sv) true with
      | Some (k, pi) => if i <? pi then Some (k, pi) else None
      | None => None
      end
  end.

Fixpoint v_ctwc (ctx : ectx) (moved : bool) (si : N) (vs : list vtok)
  : option (kind * ectx) * (option N * list vtok) :=
  match vs with
  | [] => (None, (None, []))
  | v :: r =>
      if wsnl (vk v) then v_ctwc ctx (moved || va v) si r
      else (Some (vk v, block_ctx ctx (moved || va v) si (vi v)),
            (if v_parked r then None else Some (vi v), r))
  end.

Fixpoint v_cutwc (ctx : ectx) (moved : bool) (si : N) (vs : list vtok) : option ectx * list vtok :=
  match vs with
  | [] => (None, [])
  | v :: r =>
      if wsnl (vk v) then v_cutwc ctx (moved || va v) si r
      else (Some (block_ctx ctx moved si (vi v)), vs)
  end.

Fixpoint v_slp (vs : list vtok) : option kind :=
  match vs with
  | [] => None
  | v :: r => if is_whitespace (vk v) then v_slp r else Some (vk v)
  end.

Fixpoint v_cunt (vs : list vtok) : list vtok :=
  match vs with
  | [] => []
  | v :: r => if is_whitespace (vk v) then v_cunt r else vs
  end.

Fixpoint v_cnt (vs : list vtok) : option kind * (option N * list vtok) :=
  match vs with
  | [] => (None, (None, []))
  | v :: r =>
      if is_whitespace (vk v) then v_cnt r
      else (Some (vk v), (if v_parked r then None else Some (vi v), r))
  end.

(* "the first token of the rest is not insertable trivia" *)
Definition head_kept (st : pstate) : Prop :=
  match rest st with [] => True | t :: _ => droppable t = false end.
